/-
C14 — simulation and fitting agree.  Property theorems about `Glotaran.C14`
(lean/GlotaranModel/C14.lean: `simulate`, `simulateFromClp`, `simulateFullModel`, composed with the
C02 objective and the C03 result).  Helper lemmas: GlotaranProofs/Lemmas/C14*.lean.

Not theorems (DESIGN §8): convergence of `least_squares` from perturbed starts (empirical, harness) and
the content of numpy's generator (a parameter `Rng` here).
-/
import GlotaranProofs.Lemmas.C14Recover
import GlotaranProofs.Lemmas.C14Gen
import GlotaranProofs.Lemmas.C14Zero
namespace Glotaran.C14
open Glotaran.LinAlg Glotaran.C02

/-! ### simulation: data[:, i] = matrix_i · clp_i, the clps selected by label -/

/-- **`simulate_from_clp` succeeds exactly on well-formed clp tables and then column `i` of the data is
    `matrix_i · (clp_i looked up by label, in the matrix' label order)`**: for a non-empty global axis
    success means: clp labels unique, every matrix label present, at least one clp row per global
    point.  (Entry `(m, i)` is `Σ_l matrix_i[m, l] · clp_i[l]`: `mulVec`/`dot`.) -/
theorem simulate_entry_by_label (lm : LMat) (nGlobal : Nat) (ls : List String) (rows : List Vec) :
    (∀ cols, simulateColumns lm nGlobal ⟨some ls, rows⟩ = .ok cols →
      (nGlobal ≠ 0 → TableOK lm nGlobal ls rows) ∧ cols.length = nGlobal ∧
      ∀ i (hi : i < cols.length), cols[i] =
        mulVec (sliceM lm nGlobal i) (lm.labels.map (fun l => (rows.getD i []).getD (ls.idxOf l) 0))) ∧
    ((nGlobal ≠ 0 → TableOK lm nGlobal ls rows) →
      ∃ cols, simulateColumns lm nGlobal ⟨some ls, rows⟩ = .ok cols) := by
  refine ⟨?_, fun h => ⟨_, simulateColumns_of_ok lm nGlobal ls rows h⟩⟩
  intro cols h
  obtain ⟨hc, hok⟩ := simulateColumns_ok lm nGlobal ls rows cols h
  subst hc
  refine ⟨hok, by simp [simCols], ?_⟩
  intro i hi
  simp only [simCols, sel, selectByLabel, List.getElem_map, List.getElem_range]
  rfl

example : simulateColumns ⟨["s1", "s2"], .d2 [[1, 2], [3, 4], [5, 7]]⟩ 2 ⟨some ["s2", "zz", "s1"], [[10, 7, 1], [20, 7, 2]]⟩
    = .ok [[21, 43, 75], [42, 86, 150]] := by decide +kernel

/-- **Label selection: the simulated data depend on the clp table only through the value it gives
    to each matrix label at each global position** — column order, unused extra labels and extra
    trailing rows are irrelevant. -/
theorem simulate_label_selection (lm : LMat) (nGlobal : Nat) (ls₁ ls₂ : List String) (rows₁ rows₂ : List Vec)
    (h₁ : TableOK lm nGlobal ls₁ rows₁) (h₂ : TableOK lm nGlobal ls₂ rows₂)
    (hv : ∀ i, i < nGlobal → ∀ l ∈ lm.labels,
      lookup ls₁ (rows₁.getD i []) l = lookup ls₂ (rows₂.getD i []) l) :
    simulateColumns lm nGlobal ⟨some ls₁, rows₁⟩ = simulateColumns lm nGlobal ⟨some ls₂, rows₂⟩ := by
  rw [simulateColumns_of_ok lm nGlobal ls₁ rows₁ (fun _ => h₁),
    simulateColumns_of_ok lm nGlobal ls₂ rows₂ (fun _ => h₂)]
  congr 1
  simp only [simCols]
  apply List.map_congr_left
  intro i hi
  have hi' : i < nGlobal := by simpa using hi
  congr 1
  simp only [sel, selectByLabel]
  apply List.map_congr_left
  intro l hl
  exact hv i hi' l hl

/-- non-vacuity: the same values under another column order with an extra label and an extra row -/
example :
    let lm : LMat := ⟨["s1", "s2"], .d2 [[1, 2], [3, 4], [5, 7]]⟩
    TableOK lm 2 ["s1", "s2"] [[1, 10], [2, 20]] ∧ TableOK lm 2 ["s2", "zz", "s1"] [[10, 7, 1], [20, 7, 2], [0, 0, 0]] ∧
    (∀ i, i < 2 → ∀ l ∈ lm.labels, lookup ["s1", "s2"] ([[1, 10], [2, 20]].getD i []) l =
        lookup ["s2", "zz", "s1"] ([[10, 7, 1], [20, 7, 2], [0, 0, 0]].getD i []) l) := by
  refine ⟨⟨by decide, by decide, by decide⟩, ⟨by decide, by decide, by decide⟩, ?_⟩
  intro i hi l hl
  have hi' : i = 0 ∨ i = 1 := by omega
  simp only [List.mem_cons, List.not_mem_nil, or_false] at hl
  rcases hi' with rfl | rfl <;> rcases hl with rfl | rfl <;> decide +kernel

/-- **Full-model simulation is clp-driven simulation with the transposed global matrix as clp
    table**: at global position `g` the clp of label `l` is `G[g, l]` (`G` = combined matrix of the
    global megacomplexes, looked up by label); an index-dependent global matrix is refused. -/
theorem simulate_full_model_entry (mcs gmcs : List McOut) (nModel nGlobal : Nat) (gm : LMat)
    (hgm : datasetMatrix gmcs = some gm) :
    (∀ g, gm.body = .d2 g →
      simulateFullModel mcs gmcs nModel nGlobal = simulateFromClp mcs nModel nGlobal ⟨some gm.labels, g⟩ ∧
      ∀ lm cols, datasetMatrix mcs = some lm → simulateColumns lm nGlobal ⟨some gm.labels, g⟩ = .ok cols →
        simulateFullModel mcs gmcs nModel nGlobal = .ok (C03.ofColumns nModel cols) ∧
        ∀ i (hi : i < cols.length), cols[i] =
          mulVec (sliceM lm nGlobal i) (lm.labels.map (fun l => (g.getD i []).getD (gm.labels.idxOf l) 0))) ∧
    (∀ gs, gm.body = .d3 gs → simulateFullModel mcs gmcs nModel nGlobal = .error .globalIndexDependent) := by
  constructor
  · intro g hb
    have h1 : simulateFullModel mcs gmcs nModel nGlobal = simulateFromClp mcs nModel nGlobal ⟨some gm.labels, g⟩ := by
      simp [simulateFullModel, hgm, globalClpTable, hb]
    refine ⟨h1, ?_⟩
    intro lm cols hlm hc
    refine ⟨by rw [h1]; simp [simulateFromClp, hlm, hc], ?_⟩
    exact ((simulate_entry_by_label lm nGlobal gm.labels g).1 cols hc).2.2
  · intro gs hb
    simp [simulateFullModel, hgm, globalClpTable, hb]

example : simulateFullModel [⟨⟨["s1", "s2"], .d2 [[1, 2], [3, 4], [5, 7]]⟩, some 2⟩]
    [⟨⟨["s2", "s1"], .d2 [[1, 2], [3, 4]]⟩, none⟩] 3 2 = .ok [[8, 20], [20, 48], [34, 82]] := by decide +kernel

/-! ### the source of `simulation.py`, regenerated (GlotaranModel/Generated/C14Fns.lean), is the model

`harness/props/_c14_translate.py` translates the Python source of `simulate_from_clp`, `simulate_full_model` and `simulate`
statement by statement into the vocabulary of GlotaranModel/C14Py.lean on every run; the theorems below are about that
regenerated text, so an edit of the source re-opens them. -/

/-- **`simulate_from_clp` as written is the model's `simulateFromClp`**, for every dataset model, all axes of any length
    and *every clp table in either layout*: whatever 2-D array presents the table (`ls`, `rows`) along the global
    dimension — layout (global, clp_label) or (clp_label, global), any coordinate values (or none) on the global dimension,
    labels in any order, unused labels, extra rows, duplicate or missing labels, too few rows — the translated function
    returns what the model returns (same data, or the same error in the same precedence), on the dimensions and
    coordinates of the request.  An array without a `clp_label` coordinate is refused before anything is calculated. -/
theorem generated_simulate_from_clp_eq_model (dm : Py.DatasetModel) (gdim : String) (gaxis : Vec) (mdim : String)
    (maxis : Vec) (hg : gdim ≠ "clp_label") :
    (∀ (ls : List String) (rows : List Vec) (transposed : Bool) (gcoord : Option Vec),
      Generated.simulate_from_clp dm gdim gaxis mdim maxis (arrayOfTable gdim ls rows transposed gcoord) =
        (simulateFromClp dm.mcs maxis.length gaxis.length ⟨some ls, rows⟩).map (mkResult mdim maxis gdim gaxis)) ∧
    (∀ (a : Py.DataArray) (ls : List String) (rows : List Vec), Presents gdim a ls rows →
      Generated.simulate_from_clp dm gdim gaxis mdim maxis a =
        (simulateFromClp dm.mcs maxis.length gaxis.length ⟨some ls, rows⟩).map (mkResult mdim maxis gdim gaxis)) ∧
    (∀ (a : Py.DataArray) (rows : List Vec), a.hasCoord "clp_label" = false →
      Generated.simulate_from_clp dm gdim gaxis mdim maxis a =
        (simulateFromClp dm.mcs maxis.length gaxis.length ⟨none, rows⟩).map (mkResult mdim maxis gdim gaxis)) :=
  ⟨fun ls rows tr gc => gen_from_clp dm gdim gaxis mdim maxis _ ls rows (arrayOfTable_presents gdim hg ls rows tr gc),
   fun a ls rows P => gen_from_clp dm gdim gaxis mdim maxis a ls rows P,
   fun a rows h => gen_from_clp_nolabel dm gdim gaxis mdim maxis a h rows⟩

/-- the translated source, run: label order (s2, zz, s1) against matrix labels (s1, s2); both layouts and a foreign global
    coordinate give the model's data on the requested coordinates; a duplicated label and a short table raise -/
def exampleDm : Py.DatasetModel := ⟨"time", [⟨⟨["s1", "s2"], .d2 [[1, 2], [3, 4], [5, 7]]⟩, none⟩], []⟩

example :
    Generated.simulate_from_clp exampleDm "spectral" [5, 6] "time" [0, 1, 2]
      (arrayOfTable "spectral" ["s2", "zz", "s1"] [[10, 7, 1], [20, 7, 2]] false (some [1005, 1006])) =
      .ok ⟨("time", "spectral"), [("time", [0, 1, 2]), ("spectral", [5, 6])], [[21, 42], [43, 86], [75, 150]]⟩ ∧
    Generated.simulate_from_clp exampleDm "spectral" [5, 6] "time" [0, 1, 2]
      (arrayOfTable "spectral" ["s2", "zz", "s1"] [[10, 7, 1], [20, 7, 2]] true none) =
      .ok ⟨("time", "spectral"), [("time", [0, 1, 2]), ("spectral", [5, 6])], [[21, 42], [43, 86], [75, 150]]⟩ ∧
    Generated.simulate_from_clp exampleDm "spectral" [5, 6] "time" [0, 1, 2]
      (arrayOfTable "spectral" ["s2", "s2", "s1"] [[10, 7, 1], [20, 7, 2]] true none) = .error .dupLabel ∧
    Generated.simulate_from_clp exampleDm "spectral" [5, 6] "time" [0, 1, 2]
      (arrayOfTable "spectral" ["s2", "s1"] [[10, 1]] false none) = .error .index := by
  decide +kernel

/-- **`simulate_full_model` as written is the model's `simulateFullModel`**: the clp table is the transposed global matrix
    labelled by the global clp labels; an index-dependent global matrix is refused.  `GlobalShapeOK` is the contract of
    `calculate_dataset_matrix`: the global matrix has one row per global-axis point and one column per global clp label. -/
theorem generated_simulate_full_model_eq_model (dm : Py.DatasetModel) (gdim : String) (gaxis : Vec) (mdim : String)
    (maxis : Vec) (hg : gdim ≠ "clp_label") (hs : GlobalShapeOK dm gaxis) :
    Generated.simulate_full_model dm gdim gaxis mdim maxis =
      (simulateFullModel dm.mcs dm.gmcs maxis.length gaxis.length).map (mkResult mdim maxis gdim gaxis) :=
  gen_full_model dm gdim gaxis mdim maxis hg hs

example :
    Generated.simulate_full_model ⟨"time", [⟨⟨["s1", "s2"], .d2 [[1, 2], [3, 4], [5, 7]]⟩, some 2⟩],
      [⟨⟨["s2", "s1"], .d2 [[1, 2], [3, 4]]⟩, none⟩]⟩ "spectral" [5, 6] "time" [0, 1, 2] =
      .ok ⟨("time", "spectral"), [("time", [0, 1, 2]), ("spectral", [5, 6])], [[8, 20], [20, 48], [34, 82]]⟩ := by
  decide +kernel

example : GlobalShapeOK ⟨"time", [⟨⟨["s1", "s2"], .d2 [[1, 2], [3, 4], [5, 7]]⟩, some 2⟩],
    [⟨⟨["s2", "s1"], .d2 [[1, 2], [3, 4]]⟩, none⟩]⟩ [5, 6] := by
  intro gm g h hb
  have : gm = ⟨["s2", "s1"], .d2 [[1, 2], [3, 4]]⟩ := by
    have h' : some gm = some ⟨["s2", "s1"], .d2 [[1, 2], [3, 4]]⟩ := by rw [← h]; rfl
    exact Option.some.inj h'
  subst this
  cases hb
  exact ⟨rfl, by decide⟩

/-- **`simulate` as written is the model's `simulateCall`**, with numpy's global generator as a parameter: the model
    dimension's axis and the FIRST other entry of `coordinates` (missing entries raise), dispatch on global megacomplexes /
    clp / neither, then — only with `noise` — reseeding exactly when a seed is given and ONE draw of `model × global`
    normals added as `data + std · z`; the generator state is threaded and survives an exception unchanged.  The clp
    argument presents the model's clp table along the global dimension (`ClpPresents`; e.g. `arrayOfTable`). -/
theorem generated_simulate_eq_model {σ : Type} (rng : Rng σ) (st : σ) (dm : Py.DatasetModel)
    (coords : List (String × Vec)) (clpArr : Option Py.DataArray) (t : Option ClpTable) (noise : Bool) (std : Rat)
    (seed : Option Nat)
    (hclp : ∀ maxis gdim gaxis,
      SimCall.resolve ⟨dm.model_dimension, coords, dm.mcs, dm.gmcs, t, none⟩ = .ok (maxis, gdim, gaxis) →
      ClpPresents gdim clpArr t ∧ (dm.gmcs ≠ [] → gdim ≠ "clp_label" ∧ GlobalShapeOK dm gaxis)) :
    Generated.simulate rng dm coords clpArr noise std seed st =
      simulateCall rng st ⟨dm.model_dimension, coords, dm.mcs, dm.gmcs, t, if noise then some ⟨std, seed⟩ else none⟩ :=
  gen_simulate rng st dm coords clpArr t noise std seed hclp

/-- … in particular for a clp-driven dataset whose clp table is handed in as an array in either layout -/
theorem generated_simulate_eq_model_table {σ : Type} (rng : Rng σ) (st : σ) (dm : Py.DatasetModel)
    (coords : List (String × Vec)) (ls : List String) (rows : List Vec) (transposed : Bool) (gcoord : Option Vec)
    (noise : Bool) (std : Rat) (seed : Option Nat) (hnog : dm.gmcs = [])
    (hdim : ∀ p ∈ coords, p.1 ≠ "clp_label") (gname : String)
    (hgname : ∀ maxis gdim gaxis,
      SimCall.resolve ⟨dm.model_dimension, coords, dm.mcs, dm.gmcs, some ⟨some ls, rows⟩, none⟩ = .ok (maxis, gdim, gaxis) →
      gdim = gname) :
    Generated.simulate rng dm coords (some (arrayOfTable gname ls rows transposed gcoord)) noise std seed st =
      simulateCall rng st ⟨dm.model_dimension, coords, dm.mcs, dm.gmcs, some ⟨some ls, rows⟩,
        if noise then some ⟨std, seed⟩ else none⟩ := by
  apply gen_simulate
  intro maxis gdim gaxis h
  have hgd := hgname maxis gdim gaxis h
  subst hgd
  refine ⟨?_, fun hne => absurd hnog hne⟩
  simp only [ClpPresents]
  apply arrayOfTable_presents
  -- the global dimension is a key of `coordinates`
  unfold SimCall.resolve at h
  simp only at h
  cases hl : coords.lookup dm.model_dimension with
  | none => simp [hl] at h
  | some ma =>
    simp only [hl] at h
    cases hf : coords.find? (fun p => p.1 != dm.model_dimension) with
    | none => simp [hf] at h
    | some p =>
      simp only [hf, Except.ok.injEq, Prod.mk.injEq] at h
      rw [← h.2.1]
      exact hdim p (List.mem_of_find?_eq_some hf)

/-- the translated `simulate`, run with a replaying generator: coordinates given global-first, seed 3, std 1/2 — and the
    same call with only the model dimension / without the model dimension in `coordinates` -/
example :
    (Generated.simulate (tapeRng [1, 2, 3, 4, 5, 6]) exampleDm [("spectral", [5, 6]), ("time", [0, 1, 2])]
      (some (arrayOfTable "spectral" ["s2", "zz", "s1"] [[10, 7, 1], [20, 7, 2]] true none)) true (1 / 2) (some 3)
      [9, 9, 9, 9, 9, 9, 9]) =
      (.ok ⟨("time", "spectral"), [("time", [0, 1, 2]), ("spectral", [5, 6])], [[43 / 2, 43], [89 / 2, 88], [155 / 2, 153]]⟩, []) ∧
    (Generated.simulate (tapeRng [1]) exampleDm [("time", [0, 1, 2])] none false 1 none [7]) = (.error .noGlobalDim, [7]) ∧
    (Generated.simulate (tapeRng [1]) exampleDm [("spectral", [5, 6])] none false 1 none [7]) = (.error .coordKey, [7]) ∧
    (Generated.simulate (tapeRng [1]) exampleDm [("spectral", [5, 6]), ("time", [0, 1, 2])] none true 1 (some 3) [7]) =
      (.error .noClp, [7]) := by
  decide +kernel

/-- **The returned dataset is on the dimensions and coordinates of the request** (never on those of the clp table): model
    dimension first, then the first other entry of `coordinates`, each with the axis handed in; the data are `simulate`'s
    for the lengths of those axes. -/
theorem simulated_dataset_on_requested_coordinates {σ : Type} (rng : Rng σ) (st : σ) (c : SimCall) (r : SimResult)
    (h : (simulateCall rng st c).1 = .ok r) :
    ∃ maxis gdim gaxis, c.coords.lookup c.modelDim = some maxis ∧
      c.coords.find? (fun p => p.1 != c.modelDim) = some (gdim, gaxis) ∧
      r.dims = (c.modelDim, gdim) ∧ r.coords = [(c.modelDim, maxis), (gdim, gaxis)] ∧
      (simulate rng st ⟨maxis.length, gaxis.length, c.mcs, c.gmcs, c.clp, c.noise⟩).1 = .ok r.data := by
  unfold simulateCall SimCall.resolve at h
  cases hl : c.coords.lookup c.modelDim with
  | none => simp [hl] at h
  | some maxis =>
    simp only [hl] at h
    cases hf : c.coords.find? (fun p => p.1 != c.modelDim) with
    | none => simp [hf] at h
    | some p =>
      simp only [hf] at h
      refine ⟨maxis, p.1, p.2, rfl, rfl, ?_⟩
      cases hs : (simulate rng st ⟨maxis.length, p.2.length, c.mcs, c.gmcs, c.clp, c.noise⟩).1 with
      | error e => simp [hs, Except.map] at h
      | ok d =>
        simp only [hs, Except.map, Except.ok.injEq] at h
        subst h
        exact ⟨rfl, rfl, rfl⟩

example : (simulateCall (tapeRng []) [] ⟨"time", [("spectral", [5, 6]), ("time", [0, 1, 2]), ("extra", [1])],
    [⟨⟨["s1", "s2"], .d2 [[1, 2], [3, 4], [5, 7]]⟩, none⟩], [], some ⟨some ["s2", "s1"], [[10, 1], [20, 2]]⟩, none⟩).1 =
    .ok ⟨("time", "spectral"), [("time", [0, 1, 2]), ("spectral", [5, 6])], [[21, 42], [43, 86], [75, 150]]⟩ := by
  decide +kernel

/-! ### the linear problem at the truth -/

/-- **Zero residual at the truth.**  Data `A·c₀` generated by the (unscaled) model matrix, fitted with
    the scaled matrix `s·A` by variable projection or NNLS (then `c₀/s ≥ 0`): whatever certified
    solution the solver returns, the residual is identically zero.  No rank condition. -/
theorem zero_residual_at_truth (sv : Solver) (A : Mat) (n : Nat) (hA : ∀ r ∈ A, r.length = n)
    (s : Rat) (hs : s ≠ 0) (c₀ : Vec) (hc₀ : c₀.length = n)
    (hnn : sv = .nnls → ∀ x ∈ vscale (1 / s) c₀, 0 ≤ x)
    (c r : Vec) (h : solveLS sv (mscale s A) (mulVec A c₀) = some (c, r)) :
    ∀ x ∈ r, x = 0 := by
  rw [← mulVec_mscale_inv s hs A c₀] at h
  exact (consistent_problem sv (mscale s A) n (rows_mscale_width s A n hA) (vscale (1 / s) c₀)
    (by simp [vscale, hc₀]) hnn c r h).1

/-- **The estimated clps are the generating clps divided by the dataset scale** when the model
    matrix has full column rank. -/
theorem clp_recovered_at_truth (sv : Solver) (A : Mat) (n : Nat) (hA : ∀ r ∈ A, r.length = n)
    (s : Rat) (hs : s ≠ 0) (c₀ : Vec) (hc₀ : c₀.length = n)
    (hnn : sv = .nnls → ∀ x ∈ vscale (1 / s) c₀, 0 ≤ x) (hrank : FullColRank A n)
    (c r : Vec) (h : solveLS sv (mscale s A) (mulVec A c₀) = some (c, r)) :
    c = vscale (1 / s) c₀ := by
  rw [← mulVec_mscale_inv s hs A c₀] at h
  exact (consistent_problem sv (mscale s A) n (rows_mscale_width s A n hA) (vscale (1 / s) c₀)
    (by simp [vscale, hc₀]) hnn c r h).2 (fullColRank_mscale s hs A n hrank)

/-- non-vacuity: a 3 × 2 matrix of full column rank, scale 2, generating clps (1, 10): the solver
    returns (1/2, 5) and a zero residual -/
example : solveLS .vp (mscale 2 [[1, 2], [3, 4], [5, 7]]) (mulVec [[1, 2], [3, 4], [5, 7]] [1, 10])
    = some ([1 / 2, 5], [0, 0, 0]) := by decide +kernel
example : FullColRank [[1, 0], [0, 1], [1, 1]] 2 := by
  intro v w hv hw h
  match v, w, hv, hw with
  | [a, b], [c, d], _, _ =>
    simp [mulVec, dot] at h
    simp [h.1, h.2.1]
example : solveLS .nnls (mscale 2 [[1, 2], [3, 4], [5, 7]]) (mulVec [[1, 2], [3, 4], [5, 7]] [0, 10])
    = some ([0, 5], [0, 0, 0]) := by decide +kernel

/-- **A left inverse certifies the rank hypothesis**: if `L · B` is the identity then `B` has full column
    rank (so the hypothesis of the clp-recovery theorems can be checked by exhibiting `L`, e.g.
    `(BᵀB)⁻¹Bᵀ`; the examples below do exactly that). -/
theorem full_col_rank_certificate (B L : Mat) (n : Nat) (hB : ∀ r ∈ B, r.length = n)
    (h : matMul L B n = identityRows n) : FullColRank B n :=
  fullColRank_of_leftInverse B L n hB h

example : matMul [[0, 0, 1, 0, 0], [0, 0, 0, 1, 0]] [[4, 0], [3, 0], [1, 0], [0, 1], [1, 1]] 2 = identityRows 2 := by
  decide +kernel

/-! ### one simulated dataset in the fit -/

/-- **A dataset whose data were simulated (clp-driven, noise-free) from the same megacomplex outputs
    contributes a zero residual block and no penalty**, whatever its weight and (non-zero) scale,
    for VP and — generating clps over scale non-negative — for NNLS. -/
theorem dataset_zero_at_truth (sd : SimDataset) (lm : LMat) (ls : List String) (rows : List Vec)
    (ok : SimOK sd lm ls rows) (data : Mat) (hsim : noiseless sd.inp = .ok data) (sv : Solver)
    (hnn : sv = .nnls → ∀ i, i < sd.inp.nGlobal → ∀ x ∈ truthAt sd lm ls rows i, 0 ≤ x)
    (res pens : Vec) (h : unlinkedDataset {} sv (sd.toDataset data) = some (res, pens)) :
    (∀ x ∈ res, x = 0) ∧ pens = [] :=
  unlinkedDataset_sim sd lm ls rows ok data hsim sv hnn res pens h

/-- **Its result dataset carries the matrix' clp labels and, at every global index where the
    prepared matrix has full column rank, exactly the generating clps (selected by label) divided by
    the dataset scale.** -/
theorem dataset_clps_at_truth (sd : SimDataset) (lm : LMat) (ls : List String) (rows : List Vec)
    (ok : SimOK sd lm ls rows) (data : Mat) (hsim : noiseless sd.inp = .ok data) (sv : Solver)
    (hnn : sv = .nnls → ∀ i, i < sd.inp.nGlobal → ∀ x ∈ truthAt sd lm ls rows i, 0 ≤ x)
    (r : C03.DsResult) (h : C03.unlinkedResult {} sv (sd.toDataset data) = some r) :
    r.clpLabels = lm.labels ∧ r.clps.length = sd.inp.nGlobal ∧
    ∀ i (hi : i < r.clps.length), FullColRank (prepared sd lm i) lm.labels.length →
      r.clps[i] = vscale (1 / sd.scale.getD 1)
        (lm.labels.map (fun l => (rows.getD i []).getD (ls.idxOf l) 0)) := by
  obtain ⟨h1, h2, h3⟩ := unlinkedResult_sim sd lm ls rows ok data hsim sv hnn r h
  exact ⟨h1, h2, fun i hi hr => by rw [h3 i hi hr]; rfl⟩

/-- without a weight, full column rank of the model matrix itself suffices -/
theorem prepared_rank_unweighted (sd : SimDataset) (lm : LMat) (ls : List String) (rows : List Vec)
    (ok : SimOK sd lm ls rows) (hw : sd.weight = none) (i : Nat)
    (hrank : FullColRank (sliceM lm sd.inp.nGlobal i) lm.labels.length) :
    FullColRank (prepared sd lm i) lm.labels.length := by
  unfold prepared
  rw [hw]
  exact fullColRank_mscale _ ok.scale _ _ hrank

/-- the worked example: two global points, clp table in another column order with an unused label,
    dataset scale 2, a weight -/
def exampleSim : SimDataset :=
  { label := "d1", globalAxis := [5, 6], weight := some [[1, 2], [1, 1], [3, 1]], scale := some 2,
    inp := { nModel := 3, nGlobal := 2, mcs := [⟨⟨["s1", "s2"], .d2 [[1, 2], [3, 4], [5, 7]]⟩, none⟩],
             gmcs := [], clp := some ⟨some ["s2", "zz", "s1"], [[10, 7, 1], [20, 7, 2]]⟩, noise := none } }

example : SimOK exampleSim ⟨["s1", "s2"], .d2 [[1, 2], [3, 4], [5, 7]]⟩ ["s2", "zz", "s1"] [[10, 7, 1], [20, 7, 2]] where
  noGlobal := rfl
  clp := rfl
  matrix := by rfl
  axis := rfl
  nrows := by
    intro i hi
    have : i = 0 ∨ i = 1 := by simp [exampleSim] at hi; omega
    rcases this with rfl | rfl <;> decide +kernel
  width := by
    intro i hi
    have : i = 0 ∨ i = 1 := by simp [exampleSim] at hi; omega
    rcases this with rfl | rfl <;> decide +kernel
  scale := by decide +kernel

example : noiseless exampleSim.inp = .ok [[21, 42], [43, 86], [75, 150]] ∧
    unlinkedDataset {} .vp (exampleSim.toDataset [[21, 42], [43, 86], [75, 150]]) = some ([0, 0, 0, 0, 0, 0], []) ∧
    (C03.unlinkedResult {} .vp (exampleSim.toDataset [[21, 42], [43, 86], [75, 150]])).map (·.clps)
      = some [[1 / 2, 5], [1, 10]] := by
  decide +kernel

/-! ### full models -/

/-- **A dataset simulated with `simulate_full_model`** (index-independent model matrix, global clp labels
    unique and containing the model clp labels; unweighted or weighted — a weight has one row per
    model-axis point) **contributes a zero residual block**: the flattened (weighted) data are the
    (row-weighted) Kronecker matrix `G ⊗ M` the fit uses applied to the label pairing (1 where global and
    model clp label coincide, 0 elsewhere), for VP and NNLS alike. -/
theorem full_model_dataset_zero_at_truth (sd : SimDataset) (lm gm : LMat) (m g : Mat)
    (ok : SimFullOK sd lm gm m g) (data : Mat) (hsim : noiseless sd.inp = .ok data) (sv : Solver)
    (res pens : Vec) (h : unlinkedDataset {} sv (sd.toDataset data) = some (res, pens)) :
    (∀ x ∈ res, x = 0) ∧ pens = [] :=
  unlinkedDataset_full sd lm gm m g ok data hsim sv res pens h

/-- the (weighted) data are in the range of the (row-weighted) Kronecker matrix, with the pairing vector
    as coefficients, and every row of that matrix has one entry per (global label, model label) pair -/
theorem full_model_data_in_range (sd : SimDataset) (lm gm : LMat) (m g : Mat)
    (ok : SimFullOK sd lm gm m g) (data : Mat) (hsim : noiseless sd.inp = .ok data) (full : Mat) (flat : Vec)
    (h : fullModelProblem (sd.toDataset data) = some (full, flat)) :
    flat = mulVec full (pairing gm.labels lm.labels) ∧
    ∀ r ∈ full, r.length = gm.labels.length * lm.labels.length :=
  fullModel_consistent sd lm gm m g ok data hsim full flat h

/-- **The clp table a full-model fit reports at the truth is the generating table, by label**: the
    result carries the model clp labels and — when the (row-weighted) Kronecker matrix `G ⊗ M` handed to
    the solver has full column rank — one row per global clp label with 1 in the column of the model clp
    label of the same name and 0 elsewhere (`simulate_full_model` pairs each model clp with the global
    clp of the same label).  VP and NNLS, weighted or not. -/
theorem full_model_clps_at_truth (sd : SimDataset) (lm gm : LMat) (m g : Mat)
    (ok : SimFullOK sd lm gm m g) (data : Mat) (hsim : noiseless sd.inp = .ok data) (sv : Solver)
    (r : C03.DsResult) (h : C03.unlinkedResult {} sv (sd.toDataset data) = some r) :
    r.clpLabels = lm.labels ∧
    ∀ full flat, fullModelProblem (sd.toDataset data) = some (full, flat) →
      FullColRank full (gm.labels.length * lm.labels.length) →
      r.clps = gm.labels.map (fun a => lm.labels.map (fun l => if a = l then (1 : Rat) else 0)) :=
  unlinkedResult_full sd lm gm m g ok data hsim sv r h

/-- the worked full-model example: model labels (s1, s2), global labels (s2, gx, s1) -/
def exampleFull : SimDataset :=
  { label := "d1", globalAxis := [5, 6, 7], weight := none, scale := none,
    inp := { nModel := 3, nGlobal := 3, mcs := [⟨⟨["s1", "s2"], .d2 [[2, 4], [6, 8], [10, 14]]⟩, none⟩],
             gmcs := [⟨⟨["s2", "gx", "s1"], .d2 [[1, 5, 2], [3, 1, 4], [0, 2, 1]]⟩, none⟩], clp := none, noise := none } }

example : SimFullOK exampleFull ⟨["s1", "s2"], .d2 [[2, 4], [6, 8], [10, 14]]⟩ ⟨["s2", "gx", "s1"], .d2 [[1, 5, 2], [3, 1, 4], [0, 2, 1]]⟩
    [[2, 4], [6, 8], [10, 14]] [[1, 5, 2], [3, 1, 4], [0, 2, 1]] where
  hasGlobal := by simp [exampleFull]
  weightShape := by intro w hw; cases hw
  matrix := by rfl
  gmatrix := by rfl
  body := rfl
  gbody := rfl
  axis := rfl
  gRows := rfl
  gWidth := by decide
  mRows := rfl
  mWidth := by decide
  glabels := by decide
  covered := by decide

example : noiseless exampleFull.inp = .ok [[8, 20, 2], [20, 48, 6], [34, 82, 10]] ∧
    unlinkedDataset {} .vp (exampleFull.toDataset [[8, 20, 2], [20, 48, 6], [34, 82, 10]]) =
      some ([0, 0, 0, 0, 0, 0, 0, 0, 0], []) ∧
    pairing ["s2", "gx", "s1"] ["s1", "s2"] = [0, 1, 0, 0, 1, 0] := by
  decide +kernel

/-- **For an unweighted full model the rank hypothesis follows from the factors**: if the global matrix
    `G` and the model matrix `M` both have full column rank, so has `G ⊗ M`, and the reported clp table is
    the label pairing. -/
theorem full_model_clps_from_factor_ranks (sd : SimDataset) (lm gm : LMat) (m g : Mat)
    (ok : SimFullOK sd lm gm m g) (hw : sd.weight = none) (data : Mat) (hsim : noiseless sd.inp = .ok data)
    (sv : Solver) (r : C03.DsResult) (h : C03.unlinkedResult {} sv (sd.toDataset data) = some r)
    (rG : FullColRank g gm.labels.length) (rM : FullColRank m lm.labels.length) :
    FullColRank (g.flatMap (fun grow => kronRow grow m)) (gm.labels.length * lm.labels.length) ∧
    r.clps = gm.labels.map (fun a => lm.labels.map (fun l => if a = l then (1 : Rat) else 0)) := by
  have hk := kron_fullColRank g m _ _ ok.gWidth ok.mWidth rG rM
  refine ⟨hk, ?_⟩
  have hm1 : datasetMatrix (sd.toDataset data).mcs = some lm := ok.matrix
  have hm2 : datasetMatrix (sd.toDataset data).gmcs = some gm := ok.gmatrix
  have hwt : (sd.toDataset data).weight = none := hw
  have hfm : fullModelProblem (sd.toDataset data) = some (g.flatMap (fun grow => kronRow grow m),
      (List.range (sd.toDataset data).nGlobal).flatMap (fun i => col (sd.toDataset data).weightedData i)) := by
    unfold fullModelProblem
    simp only [hm1, hm2, ok.body, ok.gbody, hwt]
  exact (unlinkedResult_full sd lm gm m g ok data hsim sv r h).2 _ _ hfm hk

example : FullColRank [[1, 5, 2], [3, 1, 4], [0, 2, 1]] 3 ∧ FullColRank [[2, 4], [6, 8], [10, 14]] 2 :=
  ⟨fullColRank_of_cert _ [[7 / 10, 1 / 10, -9 / 5], [3 / 10, -1 / 10, -1 / 5], [-3 / 5, 1 / 5, 7 / 5]] 3 (by decide +kernel),
   fullColRank_of_cert _ [[-1, 1 / 2, 0], [3 / 4, -1 / 4, 0]] 2 (by decide +kernel)⟩

example : (C03.unlinkedResult {} .vp (exampleFull.toDataset [[8, 20, 2], [20, 48, 6], [34, 82, 10]])).map (·.clps) =
    some [[0, 1], [0, 0], [1, 0]] := by decide +kernel

/-- the same full model with a weight: still a zero residual block -/
def exampleFullW : SimDataset := { exampleFull with weight := some [[1, 2, 1], [2, 1, 1 / 2], [1, 1, 4]] }

example : SimFullOK exampleFullW ⟨["s1", "s2"], .d2 [[2, 4], [6, 8], [10, 14]]⟩ ⟨["s2", "gx", "s1"], .d2 [[1, 5, 2], [3, 1, 4], [0, 2, 1]]⟩
    [[2, 4], [6, 8], [10, 14]] [[1, 5, 2], [3, 1, 4], [0, 2, 1]] where
  hasGlobal := by simp [exampleFullW, exampleFull]
  weightShape := by
    intro w hw
    simp only [exampleFullW, Option.some.injEq] at hw
    subst hw; rfl
  matrix := by rfl
  gmatrix := by rfl
  body := rfl
  gbody := rfl
  axis := rfl
  gRows := rfl
  gWidth := by decide
  mRows := rfl
  mWidth := by decide
  glabels := by decide
  covered := by decide

example : unlinkedDataset {} .vp (exampleFullW.toDataset [[8, 20, 2], [20, 48, 6], [34, 82, 10]]) =
    some ([0, 0, 0, 0, 0, 0, 0, 0, 0], []) := by
  decide +kernel

/-- a small weighted full model (model label s1, global labels gx, s1) for the clp clause: the weighted
    Kronecker matrix has full column rank (left-inverse certificate) and the reported clp table is the
    label pairing: row `gx` ↦ 0, row `s1` ↦ 1 -/
def exampleFullS : SimDataset :=
  { label := "d1", globalAxis := [5, 6], weight := some [[1, 2], [3, 1]], scale := none,
    inp := { nModel := 2, nGlobal := 2, mcs := [⟨⟨["s1"], .d2 [[1], [2]]⟩, none⟩],
             gmcs := [⟨⟨["gx", "s1"], .d2 [[1, 0], [0, 1]]⟩, none⟩], clp := none, noise := none } }

example : SimFullOK exampleFullS ⟨["s1"], .d2 [[1], [2]]⟩ ⟨["gx", "s1"], .d2 [[1, 0], [0, 1]]⟩ [[1], [2]] [[1, 0], [0, 1]] where
  hasGlobal := by simp [exampleFullS]
  weightShape := by
    intro w hw
    simp only [exampleFullS, Option.some.injEq] at hw
    subst hw; rfl
  matrix := by rfl
  gmatrix := by rfl
  body := rfl
  gbody := rfl
  axis := rfl
  gRows := rfl
  gWidth := by decide
  mRows := rfl
  mWidth := by decide
  glabels := by decide
  covered := by decide

example : noiseless exampleFullS.inp = .ok [[0, 1], [0, 2]] ∧
    fullModelProblem (exampleFullS.toDataset [[0, 1], [0, 2]]) = some ([[1, 0], [6, 0], [0, 2], [0, 2]], [0, 0, 2, 2]) ∧
    (C03.unlinkedResult {} .vp (exampleFullS.toDataset [[0, 1], [0, 2]])).map (fun r => (r.clpLabels, r.clps)) =
      some (["s1"], [[0], [1]]) := by
  decide +kernel

example : FullColRank [[1, 0], [6, 0], [0, 2], [0, 2]] (["gx", "s1"].length * ["s1"].length) :=
  fullColRank_of_cert _ [[1, 0, 0, 0], [0, 0, 1 / 2, 0]] 2 (by decide +kernel)

/-- **A weighted full model at the truth** (dataset weight variable or model `weights:` — either way the weight the data
    provider hands to the fit, one row per model-axis point): the simulated data are reproduced with a zero residual block
    and no penalty, the result carries the model clp labels, and — full column rank of the row-weighted Kronecker matrix
    provided — the reported clp table is the identity pairing of global and model clp labels (1 where the labels coincide,
    0 elsewhere).  VP and NNLS. -/
theorem full_model_weighted_truth (sd : SimDataset) (lm gm : LMat) (m g : Mat) (w : Mat) (hw : sd.weight = some w)
    (ok : SimFullOK sd lm gm m g) (data : Mat) (hsim : noiseless sd.inp = .ok data) (sv : Solver) :
    w.length = sd.inp.nModel ∧
    (∀ res pens, unlinkedDataset {} sv (sd.toDataset data) = some (res, pens) → (∀ x ∈ res, x = 0) ∧ pens = []) ∧
    (∀ r, C03.unlinkedResult {} sv (sd.toDataset data) = some r →
      r.clpLabels = lm.labels ∧
      ∀ full flat, fullModelProblem (sd.toDataset data) = some (full, flat) →
        flat = mulVec full (pairing gm.labels lm.labels) ∧
        (FullColRank full (gm.labels.length * lm.labels.length) →
          r.clps = gm.labels.map (fun a => lm.labels.map (fun l => if a = l then (1 : Rat) else 0)))) := by
  refine ⟨ok.weightShape w hw, fun res pens h => unlinkedDataset_full sd lm gm m g ok data hsim sv res pens h, ?_⟩
  intro r h
  obtain ⟨h1, h2⟩ := unlinkedResult_full sd lm gm m g ok data hsim sv r h
  refine ⟨h1, fun full flat hf => ⟨(fullModel_consistent sd lm gm m g ok data hsim full flat hf).1, h2 full flat hf⟩⟩

/-- non-vacuity: the weighted examples above (`exampleFullW`, `exampleFullS`) carry a weight -/
example : exampleFullS.weight = some [[1, 2], [3, 1]] ∧ exampleFullW.weight = some [[1, 2, 1], [2, 1, 1 / 2], [1, 1, 4]] :=
  ⟨rfl, rfl⟩

/-! ### linked groups -/

/-- **The output of `create_aligned_global_axes`** (`C02.alignAxes`, the definition the objective of a
    linked group executes): one aligned axis per dataset, in dataset order, each with exactly one entry
    per point of the dataset's own global axis.  (Proved from the model; it used to be a hypothesis of the
    linked-group theorems.) -/
theorem aligned_axes_shape (axes : List (List Rat)) (tol : Rat) (m : Method) (aligned : List (List Rat))
    (h : alignAxes axes tol m = some aligned) :
    aligned.length = axes.length ∧
      ∀ k (h1 : k < aligned.length) (h2 : k < axes.length), aligned[k].length = axes[k].length :=
  alignAxes_shape axes tol m aligned h

example : alignAxes [[1, 3, 5], [3, 4], [6, 1]] (1 / 2) .nearest = some [[1, 3, 5], [3, 4], [6, 1]] := by
  decide +kernel

/-- **The stacked matrix of an aligned index applied to per-label coefficients is, dataset by dataset,
    the dataset's scaled matrix applied to the coefficients of its own labels**, and every stacked row has
    one entry per union label. -/
theorem stacked_matrix_by_label (bs : List (LMat2 × Rat)) (φ : String → Rat)
    (hnd : ∀ b ∈ bs, b.1.labels.Nodup) (hw : ∀ b ∈ bs, ∀ r ∈ b.1.m, r.length = b.1.labels.length) :
    mulVec (alignMatrices bs).m ((alignMatrices bs).labels.map φ) =
      bs.flatMap (fun b => mulVec (mscale b.2 b.1.m) (b.1.labels.map φ)) ∧
    ∀ r ∈ (alignMatrices bs).m, r.length = (alignMatrices bs).labels.length :=
  mulVec_alignMatrices bs φ hnd hw

/-- **Every stacked problem of a linked group at the truth is consistent, weights included**: the
    (weighted) stacked data of aligned point `x` are the (row-weighted) stacked matrix applied to the
    common values `F x l` of the union labels — the datasets may carry weights (dataset weights or model
    weights; an unweighted member of a weighted group is stacked with ones, as the code does). -/
theorem linked_problem_in_range (g : Group) (ms : List LinkedMember) (aligned : List (List Rat))
    (F : Rat → String → Rat) (H : LinkedAtTruth g ms aligned F) (axis : List Rat) (ps : List IndexProblem)
    (h : linkedProblems {} g = some (axis, ps)) :
    ∀ p ∈ ps, (∀ r ∈ p.reduced.m, r.length = p.fullLabels.length) ∧
      p.data = mulVec p.reduced.m (p.fullLabels.map (F p.x)) :=
  linkedProblems_consistent g ms aligned F H axis ps h

/-- **A linked group of noise-free simulated datasets — unweighted or weighted — whose generating clps
    are `dataset scale × one common value per label and aligned global point` has a zero residual part and
    no penalties**: every stacked problem is consistent, the coefficient of label `l` at aligned point `v`
    being the common value `F v l` = generating clp / dataset scale of every member. -/
theorem linked_group_zero_at_truth (g : Group) (ms : List LinkedMember) (aligned : List (List Rat))
    (F : Rat → String → Rat) (H : LinkedAtTruth g ms aligned F)
    (hnn : g.solver = .nnls → ∀ v l, 0 ≤ F v l) (res pens : Vec)
    (h : linkedGroup {} g = some (res, pens)) : (∀ x ∈ res, x = 0) ∧ pens = [] :=
  linkedGroup_sim g ms aligned F H hnn res pens h

/-- **The clps a linked group reports at the truth.**  The group returns one result per member; member
    `k`'s result carries the clp labels of its own matrix, and — when the (weighted) stacked matrix has
    full column rank at every aligned point the member is present at — one clp row per such point (in the
    order of the aligned global axis), which is the member's generating clp row of the global index
    aligned to that point (selected by label) divided by the member's scale; all members present at a point
    report the same common value `F v l` for a shared label `l`. -/
theorem linked_clps_at_truth (g : Group) (ms : List LinkedMember) (aligned : List (List Rat))
    (F : Rat → String → Rat) (H : LinkedAtTruth g ms aligned F)
    (hnn : g.solver = .nnls → ∀ v l, 0 ≤ F v l) (rs : List C03.DsResult)
    (h : C03.linkedResults {} g = some rs) :
    rs.length = ms.length ∧
    ∀ k (hk : k < rs.length) (hk1 : k < ms.length) (hk2 : k < aligned.length),
      rs[k].clpLabels = ms[k].lm.labels ∧
      ((∀ axis ps, linkedProblems {} g = some (axis, ps) → ∀ p ∈ ps, p.x ∈ aligned[k] →
          FullColRank p.reduced.m p.fullLabels.length) →
        rs[k].clps = ((aligned.foldl sortedUnion []).filter (fun v => aligned[k].contains v)).map
          (fun v => ms[k].lm.labels.map (F v)) ∧
        ∀ v ∈ aligned[k], aligned[k].idxOf v < ms[k].sd.inp.nGlobal ∧
          ms[k].lm.labels.map (F v) = vscale (1 / ms[k].sd.scale.getD 1)
            (ms[k].lm.labels.map (fun l => (ms[k].rows.getD (aligned[k].idxOf v) []).getD (ms[k].ls.idxOf l) 0))) := by
  obtain ⟨h1, h2⟩ := linkedResults_sim g ms aligned F H hnn rs h
  refine ⟨h1, fun k hk hk1 hk2 => ⟨(h2 k hk hk1 hk2).1, fun hr => ⟨(h2 k hk hk1 hk2).2 hr, ?_⟩⟩⟩
  intro v hv
  obtain ⟨e1, e2⟩ := common_truth g ms aligned F H k hk1 hk2 v hv
  exact ⟨e1, by rw [e2]; rfl⟩

/-- **… in the member's own index order when its aligned axis is increasing**: then clp row `i` of member
    `k`'s result is its generating clp row `i` (selected by label) divided by its scale — the statement of
    `dataset_clps_at_truth`, now for a member of a linked group. -/
theorem linked_clps_own_order_partial (g : Group) (ms : List LinkedMember) (aligned : List (List Rat))
    (F : Rat → String → Rat) (H : LinkedAtTruth g ms aligned F)
    (hnn : g.solver = .nnls → ∀ v l, 0 ≤ F v l) (rs : List C03.DsResult)
    (h : C03.linkedResults {} g = some rs)
    (k : Nat) (hk : k < rs.length) (hk1 : k < ms.length) (hk2 : k < aligned.length)
    (hsorted : aligned[k].Pairwise (· < ·))
    (hrank : ∀ axis ps, linkedProblems {} g = some (axis, ps) → ∀ p ∈ ps, p.x ∈ aligned[k] →
      FullColRank p.reduced.m p.fullLabels.length) :
    rs[k].clps.length = ms[k].sd.inp.nGlobal ∧
    ∀ i (hi : i < rs[k].clps.length), rs[k].clps[i] = vscale (1 / ms[k].sd.scale.getD 1)
      (ms[k].lm.labels.map (fun l => (ms[k].rows.getD i []).getD (ms[k].ls.idxOf l) 0)) := by
  have h2 := ((linkedResults_sim g ms aligned F H hnn rs h).2 k hk hk1 hk2).2 hrank
  rw [filter_aligned_sorted aligned k hk2 hsorted] at h2
  have hnd : aligned[k].Nodup := hsorted.imp (fun h => ne_of_lt h)
  have h3 : aligned[k].map (fun v => ms[k].lm.labels.map (F v)) =
      aligned[k].map (fun v => truthAt ms[k].sd ms[k].lm ms[k].ls ms[k].rows (aligned[k].idxOf v)) := by
    apply List.map_congr_left
    intro v hv
    exact (common_truth g ms aligned F H k hk1 hk2 v hv).2
  rw [h3, map_idxOf_nodup aligned[k] hnd (truthAt ms[k].sd ms[k].lm ms[k].ls ms[k].rows)] at h2
  have hlen : rs[k].clps.length = ms[k].sd.inp.nGlobal := by
    rw [h2]; simp [H.alignedRow k hk1 hk2]
  refine ⟨hlen, ?_⟩
  intro i hi
  simp only [h2, List.getElem_map, List.getElem_range]
  rfl

/-- worked example: two datasets at the same global point sharing the label `s1`; dataset scales 2 and
    1, common values s1 ↦ 2, s2 ↦ 3, so the generating clps are (4) and (s2 = 3, s1 = 2); the first
    dataset carries a weight, the second is stacked with ones -/
def exM1 : LinkedMember :=
  { sd := { label := "d1", globalAxis := [1], weight := some [[2], [1 / 2]], scale := some 2,
            inp := { nModel := 2, nGlobal := 1, mcs := [⟨⟨["s1"], .d2 [[1], [3]]⟩, none⟩], gmcs := [],
                     clp := some ⟨some ["s1"], [[4]]⟩, noise := none } },
    lm := ⟨["s1"], .d2 [[1], [3]]⟩, ls := ["s1"], rows := [[4]], data := [[4], [12]] }
def exM2 : LinkedMember :=
  { sd := { label := "d2", globalAxis := [1], weight := none, scale := none,
            inp := { nModel := 3, nGlobal := 1, mcs := [⟨⟨["s1", "s2"], .d2 [[1, 0], [0, 1], [1, 1]]⟩, none⟩], gmcs := [],
                     clp := some ⟨some ["s2", "s1"], [[3, 2]]⟩, noise := none } },
    lm := ⟨["s1", "s2"], .d2 [[1, 0], [0, 1], [1, 1]]⟩, ls := ["s2", "s1"], rows := [[3, 2]], data := [[2], [3], [5]] }
def exF : Rat → String → Rat := fun _ l => if l = "s1" then 2 else 3
def exG : Group := ⟨true, .vp, 0, .nearest, [exM1.dataset, exM2.dataset]⟩

private theorem exM1_ok : SimOK exM1.sd exM1.lm exM1.ls exM1.rows where
  noGlobal := rfl
  clp := rfl
  matrix := by rfl
  axis := rfl
  nrows := by
    intro i hi
    have : i = 0 := by simp [exM1] at hi; omega
    subst this; decide +kernel
  width := by
    intro i hi
    have : i = 0 := by simp [exM1] at hi; omega
    subst this; decide +kernel
  scale := by decide +kernel

private theorem exM2_ok : SimOK exM2.sd exM2.lm exM2.ls exM2.rows where
  noGlobal := rfl
  clp := rfl
  matrix := by rfl
  axis := rfl
  nrows := by
    intro i hi
    have : i = 0 := by simp [exM2] at hi; omega
    subst this; decide +kernel
  width := by
    intro i hi
    have : i = 0 := by simp [exM2] at hi; omega
    subst this; decide +kernel
  scale := by decide +kernel

private theorem exG_atTruth : LinkedAtTruth exG [exM1, exM2] [[1], [1]] exF where
  linked := rfl
  datasets := rfl
  ok := by
    intro m hm
    simp only [List.mem_cons, List.not_mem_nil, or_false] at hm
    rcases hm with rfl | rfl
    · exact exM1_ok
    · exact exM2_ok
  sim := by
    intro m hm
    simp only [List.mem_cons, List.not_mem_nil, or_false] at hm
    rcases hm with rfl | rfl <;> decide +kernel
  nonempty := by
    intro m hm
    simp only [List.mem_cons, List.not_mem_nil, or_false] at hm
    rcases hm with rfl | rfl <;> decide
  weightShape := by
    intro m hm w hw
    simp only [List.mem_cons, List.not_mem_nil, or_false] at hm
    rcases hm with rfl | rfl
    · simp only [exM1, Option.some.injEq] at hw
      subst hw; rfl
    · simp [exM2] at hw
  nodup := by
    intro m hm
    simp only [List.mem_cons, List.not_mem_nil, or_false] at hm
    rcases hm with rfl | rfl <;> decide
  alignment := by decide +kernel
  common := by
    intro k hk hk' i hi l hl
    have hk2 : k = 0 ∨ k = 1 := by simp at hk; omega
    rcases hk2 with rfl | rfl
    · have : i = 0 := by simp at hi; omega
      subst this
      simp only [List.getElem_cons_zero, exM1, List.mem_singleton] at hl
      subst hl
      simp only [List.getElem_cons_zero]
      decide +kernel
    · have : i = 0 := by simp at hi; omega
      subst this
      simp only [List.getElem_cons_succ, List.getElem_cons_zero, exM2, List.mem_cons, List.not_mem_nil, or_false] at hl
      rcases hl with rfl | rfl <;> simp only [List.getElem_cons_zero, List.getElem_cons_succ] <;> decide +kernel

/-- the weighted stacked problem of the example: rows of `d1` weighted by (2, 1/2), rows of `d2` by ones -/
private theorem exG_problems : linkedProblems {} exG = some ([1],
    [⟨["s1", "s2"], ⟨["s1", "s2"], [[4, 0], [3, 0], [1, 0], [0, 1], [1, 1]]⟩, [8, 6, 2, 3, 5], 1⟩]) := by
  decide +kernel

example : linkedGroup {} exG = some ([0, 0, 0, 0, 0], []) := by decide +kernel

/-- `linked_problem_in_range` on the example: the weighted stacked data are the weighted stacked matrix applied
    to the common values (s1 ↦ 2, s2 ↦ 3) -/
example : ([8, 6, 2, 3, 5] : Vec) = mulVec [[4, 0], [3, 0], [1, 0], [0, 1], [1, 1]] (["s1", "s2"].map (exF 1)) := by
  decide +kernel

/-- the rank hypothesis of `linked_clps_at_truth` holds in the example (certified by a left inverse) and
    the reported clps are the generating clps over the scales: (4)/2 for `d1`, (s1, s2) = (2, 3) for `d2` -/
example : ∀ axis ps, linkedProblems {} exG = some (axis, ps) → ∀ p ∈ ps, p.x ∈ [(1 : Rat)] →
    FullColRank p.reduced.m p.fullLabels.length := by
  intro axis ps h p hp _
  rw [exG_problems] at h
  simp only [Option.some.injEq, Prod.mk.injEq] at h
  obtain ⟨_, rfl⟩ := h
  simp only [List.mem_singleton] at hp
  subst hp
  exact fullColRank_of_cert _ [[0, 0, 1, 0, 0], [0, 0, 0, 1, 0]] 2 (by decide +kernel)

example : (C03.linkedResults {} exG).map (fun rs => rs.map (fun r => (r.clpLabels, r.clps))) =
    some [(["s1"], [[2]]), (["s1", "s2"], [[2, 3]])] := by decide +kernel

example : ([[1], [1]] : List (List Rat))[0].Pairwise (· < ·) := by simp

/-! #### members with the same labels in different orders; global points that nearly coincide at tolerance 0 -/

/-- **`create_aligned_global_axes` at link tolerance 0 leaves every global axis as it is**: a point is linked to a
    point of another dataset only if the two are *equal*; 10000 and 10000 + 1/16 (6 · 10⁻⁶ relative) are two problems. -/
theorem zero_tolerance_links_only_equal_points (axes : List (List Rat)) (m : Method) (aligned : List (List Rat))
    (h : alignAxes axes 0 m = some aligned) : aligned = axes :=
  alignAxes_tol_zero axes m aligned h

/-- **Round trip of a linked group at tolerance 0, whatever the label orders.**  The members' matrices may carry the
    shared clp labels in any order (`ms[k].lm.labels` are arbitrary duplicate-free lists — e.g. (decay, artifact) in one
    dataset and (artifact, decay) in the other — and so are the column orders `ms[k].ls` of the clp tables): the stacked
    problems pair coefficients *by label*.  At tolerance 0 the aligned axes are the members' own axes (nothing is merged
    that is not equal), the objective at the truth has a zero residual part and no penalties, and every member's result
    carries its own labels in its own order with — full column rank provided — exactly its generating clps over its scale,
    one row per own global point. -/
theorem truth_is_zero_objective_any_label_order (g : Group) (ms : List LinkedMember) (aligned : List (List Rat))
    (F : Rat → String → Rat) (H : LinkedAtTruth g ms aligned F) (htol : g.tol = 0)
    (hnn : g.solver = .nnls → ∀ v l, 0 ≤ F v l) :
    aligned = ms.map (fun m => m.sd.globalAxis) ∧
    (∀ res pens, linkedGroup {} g = some (res, pens) → (∀ x ∈ res, x = 0) ∧ pens = []) ∧
    (∀ rs, C03.linkedResults {} g = some rs → rs.length = ms.length ∧
      ∀ k (hk : k < rs.length) (hk1 : k < ms.length),
        rs[k].clpLabels = ms[k].lm.labels ∧
        ((∀ axis ps, linkedProblems {} g = some (axis, ps) → ∀ p ∈ ps, p.x ∈ ms[k].sd.globalAxis →
            FullColRank p.reduced.m p.fullLabels.length) →
          rs[k].clps = ((aligned.foldl sortedUnion []).filter (fun v => ms[k].sd.globalAxis.contains v)).map
            (fun v => ms[k].lm.labels.map (F v)) ∧
          ∀ v ∈ ms[k].sd.globalAxis, ms[k].lm.labels.map (F v) = vscale (1 / ms[k].sd.scale.getD 1)
            (ms[k].lm.labels.map (fun l =>
              (ms[k].rows.getD (ms[k].sd.globalAxis.idxOf v) []).getD (ms[k].ls.idxOf l) 0)))) := by
  have hal : aligned = ms.map (fun m => m.sd.globalAxis) := by
    have h := H.alignment
    rw [htol] at h
    rw [alignAxes_tol_zero _ _ _ h, H.datasets]
    simp [LinkedMember.dataset, SimDataset.toDataset, Function.comp_def]
  refine ⟨hal, fun res pens h => linkedGroup_sim g ms aligned F H hnn res pens h, ?_⟩
  intro rs h
  obtain ⟨h1, h2⟩ := linked_clps_at_truth g ms aligned F H hnn rs h
  refine ⟨h1, ?_⟩
  intro k hk hk1
  have hk2 : k < aligned.length := by rw [hal]; simpa using hk1
  have hax : aligned[k] = ms[k].sd.globalAxis := by simp [hal]
  obtain ⟨e1, e2⟩ := h2 k hk hk1 hk2
  refine ⟨e1, ?_⟩
  intro hr
  obtain ⟨e3, e4⟩ := e2 (by rw [hax]; exact hr)
  rw [hax] at e3 e4
  exact ⟨e3, fun v hv => (e4 v hv).2⟩

/-- the worked example: `d1` with labels (decay, artifact) on the axis (10000, 10001), `d2` with labels (artifact, decay)
    on (10000 + 1/16, 10001), tolerance 0: three stacked problems (10000: `d1` alone, 10000 + 1/16: `d2` alone, 10001:
    both, coefficients paired by label) -/
def loM1 : LinkedMember :=
  { sd := { label := "d1", globalAxis := [10000, 10001], weight := none, scale := none,
            inp := { nModel := 3, nGlobal := 2, mcs := [⟨⟨["decay", "artifact"], .d2 [[1, 0], [0, 1], [1, 1]]⟩, none⟩], gmcs := [],
                     clp := some ⟨some ["decay", "artifact"], [[2, 3], [4, 5]]⟩, noise := none } },
    lm := ⟨["decay", "artifact"], .d2 [[1, 0], [0, 1], [1, 1]]⟩, ls := ["decay", "artifact"], rows := [[2, 3], [4, 5]],
    data := [[2, 4], [3, 5], [5, 9]] }
def loM2 : LinkedMember :=
  { sd := { label := "d2", globalAxis := [10000 + 1 / 16, 10001], weight := none, scale := none,
            inp := { nModel := 3, nGlobal := 2, mcs := [⟨⟨["artifact", "decay"], .d2 [[1, 0], [0, 1], [1, 2]]⟩, none⟩], gmcs := [],
                     clp := some ⟨some ["decay", "artifact"], [[7, 1], [4, 5]]⟩, noise := none } },
    lm := ⟨["artifact", "decay"], .d2 [[1, 0], [0, 1], [1, 2]]⟩, ls := ["decay", "artifact"], rows := [[7, 1], [4, 5]],
    data := [[1, 5], [7, 4], [15, 13]] }
def loF : Rat → String → Rat := fun v l =>
  if v = 10000 then (if l = "decay" then 2 else 3) else if v = 10001 then (if l = "decay" then 4 else 5)
  else (if l = "decay" then 7 else 1)
def loG : Group := ⟨true, .vp, 0, .nearest, [loM1.dataset, loM2.dataset]⟩

private theorem loM_ok (m : LinkedMember) (hm : m = loM1 ∨ m = loM2) : SimOK m.sd m.lm m.ls m.rows := by
  rcases hm with rfl | rfl
  all_goals
    exact {
      noGlobal := rfl, clp := rfl, matrix := by rfl, axis := rfl,
      nrows := by
        intro i hi
        have : i = 0 ∨ i = 1 := by simp [loM1, loM2] at hi; omega
        rcases this with rfl | rfl <;> decide +kernel
      width := by
        intro i hi
        have : i = 0 ∨ i = 1 := by simp [loM1, loM2] at hi; omega
        rcases this with rfl | rfl <;> decide +kernel
      scale := by decide +kernel }

private theorem loG_atTruth : LinkedAtTruth loG [loM1, loM2] [[10000, 10001], [10000 + 1 / 16, 10001]] loF where
  linked := rfl
  datasets := rfl
  ok := by
    intro m hm
    simp only [List.mem_cons, List.not_mem_nil, or_false] at hm
    exact loM_ok m hm
  sim := by
    intro m hm
    simp only [List.mem_cons, List.not_mem_nil, or_false] at hm
    rcases hm with rfl | rfl <;> decide +kernel
  nonempty := by
    intro m hm
    simp only [List.mem_cons, List.not_mem_nil, or_false] at hm
    rcases hm with rfl | rfl <;> decide
  weightShape := by
    intro m hm w hw
    simp only [List.mem_cons, List.not_mem_nil, or_false] at hm
    rcases hm with rfl | rfl <;> simp [loM1, loM2] at hw
  nodup := by
    intro m hm
    simp only [List.mem_cons, List.not_mem_nil, or_false] at hm
    rcases hm with rfl | rfl <;> decide
  alignment := by decide +kernel
  common := by
    intro k hk hk' i hi l hl
    have hk2 : k = 0 ∨ k = 1 := by simp at hk; omega
    rcases hk2 with rfl | rfl
    · have hi2 : i = 0 ∨ i = 1 := by simp at hi; omega
      simp only [List.getElem_cons_zero, loM1, List.mem_cons, List.not_mem_nil, or_false] at hl
      rcases hi2 with rfl | rfl <;> rcases hl with rfl | rfl <;>
        simp only [List.getElem_cons_zero, List.getElem_cons_succ] <;> decide +kernel
    · have hi2 : i = 0 ∨ i = 1 := by simp at hi; omega
      simp only [List.getElem_cons_succ, List.getElem_cons_zero, loM2, List.mem_cons, List.not_mem_nil, or_false] at hl
      rcases hi2 with rfl | rfl <;> rcases hl with rfl | rfl <;>
        simp only [List.getElem_cons_zero, List.getElem_cons_succ] <;> decide +kernel

example : ∃ aligned, LinkedAtTruth loG [loM1, loM2] aligned loF ∧ loG.tol = 0 := ⟨_, loG_atTruth, rfl⟩

/-- not linked at 10000 / 10000 + 1/16, linked at 10001; zero objective; each dataset gets its clps back in its own label
    order: `d1` (decay, artifact) = (2, 3), (4, 5); `d2` (artifact, decay) = (1, 7), (5, 4) -/
example : alignAxes [[10000, 10001], [10000 + 1 / 16, 10001]] 0 .nearest = some [[10000, 10001], [10000 + 1 / 16, 10001]] ∧
    (linkedProblems {} loG).map (fun r => r.1) = some [10000, 10000 + 1 / 16, 10001] ∧
    linkedGroup {} loG = some ([0, 0, 0, 0, 0, 0, 0, 0, 0, 0, 0, 0], []) ∧
    (C03.linkedResults {} loG).map (fun rs => rs.map (fun r => (r.clpLabels, r.clps))) =
      some [(["decay", "artifact"], [[2, 3], [4, 5]]), (["artifact", "decay"], [[1, 7], [5, 4]])] := by
  decide +kernel

/-- with a tolerance that covers 1/16 the two points ARE linked (and the example group would no longer be at the truth) -/
example : alignAxes [[10000, 10001], [10000 + 1 / 16, 10001]] (1 / 8) .nearest = some [[10000, 10001], [10000, 10001]] := by
  decide +kernel

/-! #### the own-index statement without the sortedness hypothesis is false (recorded finding) -/

/-- the *full* statement one would like: clp row `i` of every member's result is the member's generating
    clp row `i` over its scale, for every member of a linked group at the truth — **false for the code**
    when a member's global axis is not ascending: `EstimationProviderLinked.get_result` collects the rows in
    the order of the aligned axis and attaches them to the member's own axis (KNOWN_FINDINGS
    `clp-not-generating-over-scale:linked:non-ascending-global-axis`).  `linked_clps_at_truth` is the true
    description (aligned-axis order), `linked_clps_own_order_partial` the version under the hypothesis that
    excludes the defect. -/
def LinkedClpsOwnOrder (ms : List LinkedMember) (rs : List C03.DsResult) : Prop :=
  ∀ k (hk : k < ms.length) i, i < ms[k].sd.inp.nGlobal →
    ((rs.map (·.clps)).getD k []).getD i [] = vscale (1 / ms[k].sd.scale.getD 1)
      (ms[k].lm.labels.map (fun l => (ms[k].rows.getD i []).getD (ms[k].ls.idxOf l) 0))

/-- witness: two datasets with the same model, global axes (1, 2) and (2, 1), generating clp `10 · x` -/
def cxM1 : LinkedMember :=
  { sd := { label := "d1", globalAxis := [1, 2], weight := none, scale := none,
            inp := { nModel := 3, nGlobal := 2, mcs := [⟨⟨["s1"], .d2 [[1], [2], [4]]⟩, none⟩], gmcs := [],
                     clp := some ⟨some ["s1"], [[10], [20]]⟩, noise := none } },
    lm := ⟨["s1"], .d2 [[1], [2], [4]]⟩, ls := ["s1"], rows := [[10], [20]], data := [[10, 20], [20, 40], [40, 80]] }
def cxM2 : LinkedMember :=
  { sd := { label := "d2", globalAxis := [2, 1], weight := none, scale := none,
            inp := { nModel := 3, nGlobal := 2, mcs := [⟨⟨["s1"], .d2 [[1], [2], [4]]⟩, none⟩], gmcs := [],
                     clp := some ⟨some ["s1"], [[20], [10]]⟩, noise := none } },
    lm := ⟨["s1"], .d2 [[1], [2], [4]]⟩, ls := ["s1"], rows := [[20], [10]], data := [[20, 10], [40, 20], [80, 40]] }
def cxF : Rat → String → Rat := fun v _ => 10 * v
def cxG : Group := ⟨true, .vp, 0, .nearest, [cxM1.dataset, cxM2.dataset]⟩

private theorem cxM_ok (m : LinkedMember) (hm : m = cxM1 ∨ m = cxM2) : SimOK m.sd m.lm m.ls m.rows := by
  rcases hm with rfl | rfl
  all_goals
    exact {
      noGlobal := rfl, clp := rfl, matrix := by rfl, axis := rfl,
      nrows := by
        intro i hi
        have : i = 0 ∨ i = 1 := by simp [cxM1, cxM2] at hi; omega
        rcases this with rfl | rfl <;> decide +kernel
      width := by
        intro i hi
        have : i = 0 ∨ i = 1 := by simp [cxM1, cxM2] at hi; omega
        rcases this with rfl | rfl <;> decide +kernel
      scale := by decide +kernel }

private theorem cxG_atTruth : LinkedAtTruth cxG [cxM1, cxM2] [[1, 2], [2, 1]] cxF where
  linked := rfl
  datasets := rfl
  ok := by
    intro m hm
    simp only [List.mem_cons, List.not_mem_nil, or_false] at hm
    exact cxM_ok m hm
  sim := by
    intro m hm
    simp only [List.mem_cons, List.not_mem_nil, or_false] at hm
    rcases hm with rfl | rfl <;> decide +kernel
  nonempty := by
    intro m hm
    simp only [List.mem_cons, List.not_mem_nil, or_false] at hm
    rcases hm with rfl | rfl <;> decide
  weightShape := by
    intro m hm w hw
    simp only [List.mem_cons, List.not_mem_nil, or_false] at hm
    rcases hm with rfl | rfl <;> simp [cxM1, cxM2] at hw
  nodup := by
    intro m hm
    simp only [List.mem_cons, List.not_mem_nil, or_false] at hm
    rcases hm with rfl | rfl <;> decide
  alignment := by decide +kernel
  common := by
    intro k hk hk' i hi l hl
    have hk2 : k = 0 ∨ k = 1 := by simp at hk; omega
    rcases hk2 with rfl | rfl
    · have hi2 : i = 0 ∨ i = 1 := by simp at hi; omega
      simp only [List.getElem_cons_zero, cxM1, List.mem_singleton] at hl
      subst hl
      rcases hi2 with rfl | rfl <;> simp only [List.getElem_cons_zero, List.getElem_cons_succ] <;> decide +kernel
    · have hi2 : i = 0 ∨ i = 1 := by simp at hi; omega
      simp only [List.getElem_cons_succ, List.getElem_cons_zero, cxM2, List.mem_singleton] at hl
      subst hl
      rcases hi2 with rfl | rfl <;> simp only [List.getElem_cons_zero, List.getElem_cons_succ] <;> decide +kernel

private theorem cxG_problems : linkedProblems {} cxG = some ([1, 2],
    [⟨["s1"], ⟨["s1"], [[1], [2], [4], [1], [2], [4]]⟩, [10, 20, 40, 10, 20, 40], 1⟩,
     ⟨["s1"], ⟨["s1"], [[1], [2], [4], [1], [2], [4]]⟩, [20, 40, 80, 20, 40, 80], 2⟩]) := by
  decide +kernel

/-- **Counterexample to the own-index statement**: the witness group satisfies every hypothesis of
    `linked_clps_at_truth` (it is at the truth, every stacked matrix has full column rank), the group
    reports the rows (10), (20) for `d2` — the aligned-axis order, as `linked_clps_at_truth` says — but
    `d2`'s generating rows in its own order (axis (2, 1)) are (20), (10). -/
theorem linked_clps_own_order_counterexample :
    LinkedAtTruth cxG [cxM1, cxM2] [[1, 2], [2, 1]] cxF ∧
    (∀ axis ps, linkedProblems {} cxG = some (axis, ps) → ∀ p ∈ ps,
      FullColRank p.reduced.m p.fullLabels.length) ∧
    ∃ rs, C03.linkedResults {} cxG = some rs ∧ ¬ LinkedClpsOwnOrder [cxM1, cxM2] rs := by
  refine ⟨cxG_atTruth, ?_, ?_⟩
  · intro axis ps h p hp
    rw [cxG_problems] at h
    simp only [Option.some.injEq, Prod.mk.injEq] at h
    obtain ⟨_, rfl⟩ := h
    simp only [List.mem_cons, List.not_mem_nil, or_false] at hp
    rcases hp with rfl | rfl <;>
      exact fullColRank_of_cert _ [[1, 0, 0, 0, 0, 0]] 1 (by decide +kernel)
  · have h : (C03.linkedResults {} cxG).map (fun rs => rs.map (·.clps)) =
        some [[[10], [20]], [[10], [20]]] := by decide +kernel
    cases hres : C03.linkedResults {} cxG with
    | none => simp [hres] at h
    | some rs =>
      simp only [hres, Option.map_some, Option.some.injEq] at h
      refine ⟨rs, rfl, ?_⟩
      intro hown
      have h0 := hown 1 (by decide) 0 (by decide)
      rw [h] at h0
      revert h0
      decide +kernel

/-! ### the objective at the truth -/

/-- a dataset of the fit whose data are noise-free simulated data of the same model: clp-driven (for
    NNLS with non-negative generating clps over scale) or full-model -/
def DatasetAtTruth (sv : Solver) (d : Dataset) : Prop :=
  (∃ sd lm ls rows data, SimOK sd lm ls rows ∧ noiseless sd.inp = .ok data ∧ d = sd.toDataset data ∧
    (sv = .nnls → ∀ i, i < sd.inp.nGlobal → ∀ x ∈ truthAt sd lm ls rows i, 0 ≤ x)) ∨
  (∃ sd lm gm m g data, SimFullOK sd lm gm m g ∧ noiseless sd.inp = .ok data ∧ d = sd.toDataset data)

/-- a group whose data are noise-free simulated data of the same model: unlinked with clp-driven or
    full-model datasets, or linked with common generating values (non-negative for NNLS) -/
def GroupAtTruth (g : Group) : Prop :=
  (g.linked = false ∧ ∀ d ∈ g.datasets, DatasetAtTruth g.solver d) ∨
  (∃ ms aligned F, LinkedAtTruth g ms aligned F ∧ (g.solver = .nnls → ∀ v l, 0 ≤ F v l))

/-- **The objective at the generating parameters is identically zero.** -/
theorem objective_zero_at_truth (gs : List Group) (hg : ∀ g ∈ gs, GroupAtTruth g) (v : Vec)
    (h : objective {} gs = some v) : ∀ x ∈ v, x = 0 := by
  unfold objective at h
  cases hm : gs.mapM (groupPenalty {}) with
  | none => simp [hm] at h
  | some pens =>
    simp only [hm, Option.map_some, Option.some.injEq] at h
    subst h
    intro x hx
    simp only [List.mem_flatten] at hx
    obtain ⟨pv, hpv, hxp⟩ := hx
    obtain ⟨g, hgm, hgp⟩ := mapM_some_mem _ gs pens hm pv hpv
    unfold groupPenalty groupPenaltyParts at hgp
    rcases hg g hgm with ⟨hl, hds⟩ | ⟨ms, aligned, F, H, hnn⟩
    · simp only [hl, Bool.false_eq_true, if_false] at hgp
      cases hparts : g.datasets.mapM (unlinkedDataset {} g.solver) with
      | none => simp [hparts] at hgp
      | some parts =>
        simp only [hparts, Option.map_some, Option.some.injEq] at hgp
        subst hgp
        have hall : ∀ p ∈ parts, (∀ y ∈ p.1, y = 0) ∧ p.2 = [] := by
          intro p hp
          obtain ⟨d, hd, hud⟩ := mapM_some_mem _ g.datasets parts hparts p hp
          rcases hds d hd with ⟨sd, lm, ls, rows, data, ok, hsim, rfl, hnn⟩ | ⟨sd, lm, gm, m, gg, data, ok, hsim, rfl⟩
          · exact unlinkedDataset_sim sd lm ls rows ok data hsim g.solver hnn p.1 p.2 hud
          · exact unlinkedDataset_full sd lm gm m gg ok data hsim g.solver p.1 p.2 hud
        simp only [List.mem_append, List.mem_flatMap] at hxp
        rcases hxp with ⟨p, hp, hx1⟩ | ⟨p, hp, hx2⟩
        · exact (hall p hp).1 x hx1
        · rw [(hall p hp).2] at hx2; simp at hx2
    · simp only [H.linked, if_true] at hgp
      cases hlg : linkedGroup {} g with
      | none => simp [hlg] at hgp
      | some rp =>
        simp only [hlg, Option.map_some, Option.some.injEq] at hgp
        subst hgp
        obtain ⟨h1, h2⟩ := linkedGroup_sim g ms aligned F H hnn rp.1 rp.2 (by rw [hlg])
        simp only [List.mem_append] at hxp
        rcases hxp with hx1 | hx2
        · exact h1 x hx1
        · rw [h2] at hx2; simp at hx2

/-- **The truth is a global minimiser of the cost**: against any other penalty vector (the objective
    at any other parameter vector, of any length) the sum of squares at the truth is not larger. -/
theorem truth_is_global_min (gs : List Group) (hg : ∀ g ∈ gs, GroupAtTruth g) (v : Vec)
    (h : objective {} gs = some v) (v' : Vec) : sumSq v ≤ sumSq v' := by
  rw [sumSq_zero_of_all_zero v (objective_zero_at_truth gs hg v h)]
  exact sumSq_nonneg v'

/-- **The gradient `Jᵀ·r` of the cost vanishes at the truth for every Jacobian `J`** (so the first
    order optimality measure of a gradient-based optimiser is zero there). -/
theorem gradient_zero_at_truth (gs : List Group) (hg : ∀ g ∈ gs, GroupAtTruth g) (v : Vec)
    (h : objective {} gs = some v) (J : Mat) (n : Nat) :
    ∀ x ∈ mulVec (transpose J n) v, x = 0 :=
  mulVec_zero _ v (objective_zero_at_truth gs hg v h)

/-- **A Gauss–Newton / Levenberg–Marquardt step from the truth is the zero step**: any `δ` with
    `(JᵀJ + λ·I) δ = −Jᵀ r`, `r` the objective at the truth, is zero as soon as `λ > 0` or `J` has full
    column rank. -/
theorem step_zero_at_truth (gs : List Group) (hg : ∀ g ∈ gs, GroupAtTruth g) (r : Vec)
    (h : objective {} gs = some r) (J : Mat) (n : Nat) (hJ : ∀ row ∈ J, row.length = n)
    (lam : Rat) (hlam : 0 ≤ lam) (hreg : 0 < lam ∨ FullColRank J n) (δ : Vec) (hδ : δ.length = n)
    (hstep : vadd (mulVec (transpose J n) (mulVec J δ)) (vscale lam δ) =
      vscale (-1) (mulVec (transpose J n) r)) :
    ∀ x ∈ δ, x = 0 := by
  have hr := objective_zero_at_truth gs hg r h
  have hl : (mulVec (transpose J n) (mulVec J δ)).length = (vscale lam δ).length := by
    simp [mulVec, transpose, vscale, hδ]
  have e1 := dot_vadd (mulVec (transpose J n) (mulVec J δ)) (vscale lam δ) δ hl
  rw [hstep, transpose_dot J n hJ, dot_vscale, dot_vscale, transpose_dot J n hJ,
    dot_zero_left r _ hr] at e1
  have h1 : 0 ≤ sumSq (mulVec J δ) := sumSq_nonneg _
  have h2 : 0 ≤ sumSq δ := sumSq_nonneg _
  have e2 : sumSq (mulVec J δ) + lam * sumSq δ = 0 := by unfold sumSq; linarith
  have h3 : 0 ≤ lam * sumSq δ := mul_nonneg hlam h2
  rcases hreg with hpos | hrank
  · have : lam * sumSq δ = 0 := by linarith
    rcases mul_eq_zero.mp this with h0 | h0
    · exact absurd h0 (ne_of_gt hpos)
    · exact sumSq_eq_zero δ h0
  · have hz : sumSq (mulVec J δ) = 0 := by linarith
    have hJd := sumSq_eq_zero _ hz
    have hzero : ∀ x ∈ zeros n, x = 0 := by intro x hx; simp [zeros] at hx; exact hx.2
    have := hrank δ (zeros n) hδ (by simp [zeros])
      (eq_of_all_zero _ _ (by simp [mulVec_length]) hJd (mulVec_zero J _ hzero))
    rw [this]; exact hzero

/-- non-vacuity of the group hypothesis: the worked example as a one-dataset group -/
example : GroupAtTruth ⟨false, .vp, 0, .nearest, [exampleSim.toDataset [[21, 42], [43, 86], [75, 150]]]⟩ := by
  refine Or.inl ⟨rfl, ?_⟩
  intro d hd
  simp only [List.mem_singleton] at hd
  subst hd
  refine Or.inl ⟨exampleSim, ⟨["s1", "s2"], .d2 [[1, 2], [3, 4], [5, 7]]⟩, ["s2", "zz", "s1"], [[10, 7, 1], [20, 7, 2]],
    [[21, 42], [43, 86], [75, 150]], ?_, by decide +kernel, rfl, fun h => by cases h⟩
  exact {
    noGlobal := rfl, clp := rfl, matrix := by rfl, axis := rfl,
    nrows := by
      intro i hi
      have : i = 0 ∨ i = 1 := by simp [exampleSim] at hi; omega
      rcases this with rfl | rfl <;> decide +kernel
    width := by
      intro i hi
      have : i = 0 ∨ i = 1 := by simp [exampleSim] at hi; omega
      rcases this with rfl | rfl <;> decide +kernel
    scale := by decide +kernel }

example : objective {} [⟨false, .vp, 0, .nearest, [exampleSim.toDataset [[21, 42], [43, 86], [75, 150]]]⟩]
    = some [0, 0, 0, 0, 0, 0] := by decide +kernel

/-! ### noise -/

/-- **Without noise `simulate` is a function of the model inputs alone**: the result does not depend on
    the generator or its state, and the generator state is left untouched. -/
theorem noise_free_is_deterministic {σ : Type} (rng : Rng σ) (st : σ) (inp : SimInput)
    (h : inp.noise = none) : simulate rng st inp = (noiseless inp, st) := by
  unfold simulate
  cases hn : noiseless inp with
  | error e => rfl
  | ok d => simp [h]

/-- **Seeded noise is reproducible**: with a noise seed the returned data are the same whatever state
    the generator was in before the call (whatever was simulated or drawn before), and after a
    successful call the generator is in the same state too. -/
theorem seeded_noise_reproducible {σ : Type} (rng : Rng σ) (st st' : σ) (inp : SimInput) (std : Rat)
    (seed : Nat) (h : inp.noise = some ⟨std, some seed⟩) :
    (simulate rng st inp).1 = (simulate rng st' inp).1 ∧
      ((∃ d, noiseless inp = .ok d) → (simulate rng st inp).2 = (simulate rng st' inp).2) := by
  unfold simulate
  cases hn : noiseless inp with
  | error e => exact ⟨rfl, fun ⟨d, hd⟩ => by cases hd⟩
  | ok d => simp [h]

/-- **The noisy data are `data + std · z`** with `z` the first `model × global` standard-normal draws
    after reseeding, in row-major (model, global) order; the unseeded variant uses the current state. -/
theorem seeded_noise_entry {σ : Type} (rng : Rng σ) (st : σ) (inp : SimInput) (std : Rat)
    (seed : Option Nat) (h : inp.noise = some ⟨std, seed⟩) (d : Mat) (hd : noiseless inp = .ok d) :
    let st₁ := match seed with | some s => rng.reseed s | none => st
    let z := (rng.normals st₁ (inp.nModel * inp.nGlobal)).1
    (simulate rng st inp).1 = .ok (addNoise std d z inp.nGlobal) ∧
    (simulate rng st inp).2 = (rng.normals st₁ (inp.nModel * inp.nGlobal)).2 ∧
    ∀ m (hm : m < d.length) g (hg : g < d[m].length),
      ((addNoise std d z inp.nGlobal)[m]'(by simpa [addNoise] using hm))[g]'(by simpa [addNoise] using hg)
        = d[m][g] + std * z.getD (m * inp.nGlobal + g) 0 := by
  intro st₁ z
  refine ⟨?_, ?_, ?_⟩
  · simp only [simulate, hd, h]; cases seed <;> rfl
  · simp only [simulate, hd, h]; cases seed <;> rfl
  · intro m hm g hg
    simp [addNoise]

/-- non-vacuity: a replaying generator, seed 3, std 1/2 -/
example : (simulate (tapeRng [1, 2, 3, 4, 5, 6]) [0, 0, 0, 0, 0, 0]
    { exampleSim.inp with noise := some ⟨1 / 2, some 3⟩ }).1 = .ok [[43 / 2, 43], [89 / 2, 88], [155 / 2, 153]] ∧
    (simulate (tapeRng [1, 2, 3, 4, 5, 6]) [9, 9, 9, 9, 9, 9, 9]
    { exampleSim.inp with noise := some ⟨1 / 2, some 3⟩ }).1 = .ok [[43 / 2, 43], [89 / 2, 88], [155 / 2, 153]] ∧
    (simulate (tapeRng [1, 2, 3, 4, 5, 6]) [0, 0, 0, 0, 0, 1]
    { exampleSim.inp with noise := some ⟨1 / 2, none⟩ }).1 = .ok [[21, 42], [43, 86], [75, 301 / 2]] := by
  decide +kernel

end Glotaran.C14
