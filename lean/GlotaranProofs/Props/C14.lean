/-
C14 — simulation and fitting agree.  Property theorems about `Glotaran.C14`
(lean/GlotaranModel/C14.lean: `simulate`, `simulateFromClp`, `simulateFullModel`, composed with the
C02 objective and the C03 result).  Helper lemmas: GlotaranProofs/Lemmas/C14*.lean.

Not theorems (DESIGN §8): convergence of `least_squares` from perturbed starts (empirical, harness) and
the content of numpy's generator (a parameter `Rng` here).
-/
import GlotaranProofs.Lemmas.C14Linked
namespace Glotaran.C14
open Glotaran.LinAlg Glotaran.C02

/-! ### simulation: data[:, i] = matrix_i · clp_i, the clps selected by label -/

/-- **`simulate_from_clp` succeeds exactly on well-formed clp tables and then column `i` of the data is
    `matrix_i · (clp_i looked up by label, in the matrix' label order)`**: for a non-empty global axis
    success means: clp labels unique, every matrix label present, at least one clp row per global
    point.  (Entry `(m, i)` is `Σ_l matrix_i[m, l] · clp_i[l]`: `mulVec`/`dot`.) -/
theorem simulate_entry_by_label (lm : LMat) (nGlobal : Nat) (ls : List String) (rows : List Vec) :
    (∀ cols, simulateColumns lm nGlobal ⟨some ls, rows⟩ = .ok cols →
      (nGlobal ≠ 0 → TableOK lm nGlobal ls rows) ∧ cols.length = nGlobal ∧
      ∀ i (hi : i < cols.length), cols[i] =
        mulVec (sliceM lm nGlobal i) (lm.labels.map (fun l => (rows.getD i []).getD (ls.idxOf l) 0))) ∧
    ((nGlobal ≠ 0 → TableOK lm nGlobal ls rows) →
      ∃ cols, simulateColumns lm nGlobal ⟨some ls, rows⟩ = .ok cols) := by
  refine ⟨?_, fun h => ⟨_, simulateColumns_of_ok lm nGlobal ls rows h⟩⟩
  intro cols h
  obtain ⟨hc, hok⟩ := simulateColumns_ok lm nGlobal ls rows cols h
  subst hc
  refine ⟨hok, by simp [simCols], ?_⟩
  intro i hi
  simp only [simCols, sel, selectByLabel, List.getElem_map, List.getElem_range]
  rfl

example : simulateColumns ⟨["s1", "s2"], .d2 [[1, 2], [3, 4], [5, 7]]⟩ 2 ⟨some ["s2", "zz", "s1"], [[10, 7, 1], [20, 7, 2]]⟩
    = .ok [[21, 43, 75], [42, 86, 150]] := by decide +kernel

/-- **Label selection: the simulated data depend on the clp table only through the value it gives
    to each matrix label at each global position** — column order, unused extra labels and extra
    trailing rows are irrelevant. -/
theorem simulate_label_selection (lm : LMat) (nGlobal : Nat) (ls₁ ls₂ : List String) (rows₁ rows₂ : List Vec)
    (h₁ : TableOK lm nGlobal ls₁ rows₁) (h₂ : TableOK lm nGlobal ls₂ rows₂)
    (hv : ∀ i, i < nGlobal → ∀ l ∈ lm.labels,
      lookup ls₁ (rows₁.getD i []) l = lookup ls₂ (rows₂.getD i []) l) :
    simulateColumns lm nGlobal ⟨some ls₁, rows₁⟩ = simulateColumns lm nGlobal ⟨some ls₂, rows₂⟩ := by
  rw [simulateColumns_of_ok lm nGlobal ls₁ rows₁ (fun _ => h₁),
    simulateColumns_of_ok lm nGlobal ls₂ rows₂ (fun _ => h₂)]
  congr 1
  simp only [simCols]
  apply List.map_congr_left
  intro i hi
  have hi' : i < nGlobal := by simpa using hi
  congr 1
  simp only [sel, selectByLabel]
  apply List.map_congr_left
  intro l hl
  exact hv i hi' l hl

/-- non-vacuity: the same values under another column order with an extra label and an extra row -/
example :
    let lm : LMat := ⟨["s1", "s2"], .d2 [[1, 2], [3, 4], [5, 7]]⟩
    TableOK lm 2 ["s1", "s2"] [[1, 10], [2, 20]] ∧ TableOK lm 2 ["s2", "zz", "s1"] [[10, 7, 1], [20, 7, 2], [0, 0, 0]] ∧
    (∀ i, i < 2 → ∀ l ∈ lm.labels, lookup ["s1", "s2"] ([[1, 10], [2, 20]].getD i []) l =
        lookup ["s2", "zz", "s1"] ([[10, 7, 1], [20, 7, 2], [0, 0, 0]].getD i []) l) := by
  refine ⟨⟨by decide, by decide, by decide⟩, ⟨by decide, by decide, by decide⟩, ?_⟩
  intro i hi l hl
  have hi' : i = 0 ∨ i = 1 := by omega
  simp only [List.mem_cons, List.not_mem_nil, or_false] at hl
  rcases hi' with rfl | rfl <;> rcases hl with rfl | rfl <;> decide +kernel

/-- **Full-model simulation is clp-driven simulation with the transposed global matrix as clp
    table**: at global position `g` the clp of label `l` is `G[g, l]` (`G` = combined matrix of the
    global megacomplexes, looked up by label); an index-dependent global matrix is refused. -/
theorem simulate_full_model_entry (mcs gmcs : List McOut) (nModel nGlobal : Nat) (gm : LMat)
    (hgm : datasetMatrix gmcs = some gm) :
    (∀ g, gm.body = .d2 g →
      simulateFullModel mcs gmcs nModel nGlobal = simulateFromClp mcs nModel nGlobal ⟨some gm.labels, g⟩ ∧
      ∀ lm cols, datasetMatrix mcs = some lm → simulateColumns lm nGlobal ⟨some gm.labels, g⟩ = .ok cols →
        simulateFullModel mcs gmcs nModel nGlobal = .ok (C03.ofColumns nModel cols) ∧
        ∀ i (hi : i < cols.length), cols[i] =
          mulVec (sliceM lm nGlobal i) (lm.labels.map (fun l => (g.getD i []).getD (gm.labels.idxOf l) 0))) ∧
    (∀ gs, gm.body = .d3 gs → simulateFullModel mcs gmcs nModel nGlobal = .error .globalIndexDependent) := by
  constructor
  · intro g hb
    have h1 : simulateFullModel mcs gmcs nModel nGlobal = simulateFromClp mcs nModel nGlobal ⟨some gm.labels, g⟩ := by
      simp [simulateFullModel, hgm, globalClpTable, hb]
    refine ⟨h1, ?_⟩
    intro lm cols hlm hc
    refine ⟨by rw [h1]; simp [simulateFromClp, hlm, hc], ?_⟩
    exact ((simulate_entry_by_label lm nGlobal gm.labels g).1 cols hc).2.2
  · intro gs hb
    simp [simulateFullModel, hgm, globalClpTable, hb]

example : simulateFullModel [⟨⟨["s1", "s2"], .d2 [[1, 2], [3, 4], [5, 7]]⟩, some 2⟩]
    [⟨⟨["s2", "s1"], .d2 [[1, 2], [3, 4]]⟩, none⟩] 3 2 = .ok [[8, 20], [20, 48], [34, 82]] := by decide +kernel

/-! ### the linear problem at the truth -/

/-- **Zero residual at the truth.**  Data `A·c₀` generated by the (unscaled) model matrix, fitted with
    the scaled matrix `s·A` by variable projection or NNLS (then `c₀/s ≥ 0`): whatever certified
    solution the solver returns, the residual is identically zero.  No rank condition. -/
theorem zero_residual_at_truth (sv : Solver) (A : Mat) (n : Nat) (hA : ∀ r ∈ A, r.length = n)
    (s : Rat) (hs : s ≠ 0) (c₀ : Vec) (hc₀ : c₀.length = n)
    (hnn : sv = .nnls → ∀ x ∈ vscale (1 / s) c₀, 0 ≤ x)
    (c r : Vec) (h : solveLS sv (mscale s A) (mulVec A c₀) = some (c, r)) :
    ∀ x ∈ r, x = 0 := by
  rw [← mulVec_mscale_inv s hs A c₀] at h
  exact (consistent_problem sv (mscale s A) n (rows_mscale_width s A n hA) (vscale (1 / s) c₀)
    (by simp [vscale, hc₀]) hnn c r h).1

/-- **The estimated clps are the generating clps divided by the dataset scale** when the model
    matrix has full column rank. -/
theorem clp_recovered_at_truth (sv : Solver) (A : Mat) (n : Nat) (hA : ∀ r ∈ A, r.length = n)
    (s : Rat) (hs : s ≠ 0) (c₀ : Vec) (hc₀ : c₀.length = n)
    (hnn : sv = .nnls → ∀ x ∈ vscale (1 / s) c₀, 0 ≤ x) (hrank : FullColRank A n)
    (c r : Vec) (h : solveLS sv (mscale s A) (mulVec A c₀) = some (c, r)) :
    c = vscale (1 / s) c₀ := by
  rw [← mulVec_mscale_inv s hs A c₀] at h
  exact (consistent_problem sv (mscale s A) n (rows_mscale_width s A n hA) (vscale (1 / s) c₀)
    (by simp [vscale, hc₀]) hnn c r h).2 (fullColRank_mscale s hs A n hrank)

/-- non-vacuity: a 3 × 2 matrix of full column rank, scale 2, generating clps (1, 10): the solver
    returns (1/2, 5) and a zero residual -/
example : solveLS .vp (mscale 2 [[1, 2], [3, 4], [5, 7]]) (mulVec [[1, 2], [3, 4], [5, 7]] [1, 10])
    = some ([1 / 2, 5], [0, 0, 0]) := by decide +kernel
example : FullColRank [[1, 0], [0, 1], [1, 1]] 2 := by
  intro v w hv hw h
  match v, w, hv, hw with
  | [a, b], [c, d], _, _ =>
    simp [mulVec, dot] at h
    simp [h.1, h.2.1]
example : solveLS .nnls (mscale 2 [[1, 2], [3, 4], [5, 7]]) (mulVec [[1, 2], [3, 4], [5, 7]] [0, 10])
    = some ([0, 5], [0, 0, 0]) := by decide +kernel

/-! ### one simulated dataset in the fit -/

/-- **A dataset whose data were simulated (clp-driven, noise-free) from the same megacomplex outputs
    contributes a zero residual block and no penalty**, whatever its weight and (non-zero) scale,
    for VP and — generating clps over scale non-negative — for NNLS. -/
theorem dataset_zero_at_truth (sd : SimDataset) (lm : LMat) (ls : List String) (rows : List Vec)
    (ok : SimOK sd lm ls rows) (data : Mat) (hsim : noiseless sd.inp = .ok data) (sv : Solver)
    (hnn : sv = .nnls → ∀ i, i < sd.inp.nGlobal → ∀ x ∈ truthAt sd lm ls rows i, 0 ≤ x)
    (res pens : Vec) (h : unlinkedDataset {} sv (sd.toDataset data) = some (res, pens)) :
    (∀ x ∈ res, x = 0) ∧ pens = [] :=
  unlinkedDataset_sim sd lm ls rows ok data hsim sv hnn res pens h

/-- **Its result dataset carries the matrix' clp labels and, at every global index where the
    prepared matrix has full column rank, exactly the generating clps (selected by label) divided by
    the dataset scale.** -/
theorem dataset_clps_at_truth (sd : SimDataset) (lm : LMat) (ls : List String) (rows : List Vec)
    (ok : SimOK sd lm ls rows) (data : Mat) (hsim : noiseless sd.inp = .ok data) (sv : Solver)
    (hnn : sv = .nnls → ∀ i, i < sd.inp.nGlobal → ∀ x ∈ truthAt sd lm ls rows i, 0 ≤ x)
    (r : C03.DsResult) (h : C03.unlinkedResult {} sv (sd.toDataset data) = some r) :
    r.clpLabels = lm.labels ∧ r.clps.length = sd.inp.nGlobal ∧
    ∀ i (hi : i < r.clps.length), FullColRank (prepared sd lm i) lm.labels.length →
      r.clps[i] = vscale (1 / sd.scale.getD 1)
        (lm.labels.map (fun l => (rows.getD i []).getD (ls.idxOf l) 0)) := by
  obtain ⟨h1, h2, h3⟩ := unlinkedResult_sim sd lm ls rows ok data hsim sv hnn r h
  exact ⟨h1, h2, fun i hi hr => by rw [h3 i hi hr]; rfl⟩

/-- without a weight, full column rank of the model matrix itself suffices -/
theorem prepared_rank_unweighted (sd : SimDataset) (lm : LMat) (ls : List String) (rows : List Vec)
    (ok : SimOK sd lm ls rows) (hw : sd.weight = none) (i : Nat)
    (hrank : FullColRank (sliceM lm sd.inp.nGlobal i) lm.labels.length) :
    FullColRank (prepared sd lm i) lm.labels.length := by
  unfold prepared
  rw [hw]
  exact fullColRank_mscale _ ok.scale _ _ hrank

/-- the worked example: two global points, clp table in another column order with an unused label,
    dataset scale 2, a weight -/
def exampleSim : SimDataset :=
  { label := "d1", globalAxis := [5, 6], weight := some [[1, 2], [1, 1], [3, 1]], scale := some 2,
    inp := { nModel := 3, nGlobal := 2, mcs := [⟨⟨["s1", "s2"], .d2 [[1, 2], [3, 4], [5, 7]]⟩, none⟩],
             gmcs := [], clp := some ⟨some ["s2", "zz", "s1"], [[10, 7, 1], [20, 7, 2]]⟩, noise := none } }

example : SimOK exampleSim ⟨["s1", "s2"], .d2 [[1, 2], [3, 4], [5, 7]]⟩ ["s2", "zz", "s1"] [[10, 7, 1], [20, 7, 2]] where
  noGlobal := rfl
  clp := rfl
  matrix := by rfl
  axis := rfl
  nrows := by
    intro i hi
    have : i = 0 ∨ i = 1 := by simp [exampleSim] at hi; omega
    rcases this with rfl | rfl <;> decide +kernel
  width := by
    intro i hi
    have : i = 0 ∨ i = 1 := by simp [exampleSim] at hi; omega
    rcases this with rfl | rfl <;> decide +kernel
  scale := by decide +kernel

example : noiseless exampleSim.inp = .ok [[21, 42], [43, 86], [75, 150]] ∧
    unlinkedDataset {} .vp (exampleSim.toDataset [[21, 42], [43, 86], [75, 150]]) = some ([0, 0, 0, 0, 0, 0], []) ∧
    (C03.unlinkedResult {} .vp (exampleSim.toDataset [[21, 42], [43, 86], [75, 150]])).map (·.clps)
      = some [[1 / 2, 5], [1, 10]] := by
  decide +kernel

/-! ### full models -/

/-- **A dataset simulated with `simulate_full_model`** (index-independent model matrix, global clp labels
    unique and containing the model clp labels, no weight) **contributes a zero residual block**: the
    flattened data are the Kronecker matrix `G ⊗ M` the fit uses applied to the label pairing (1 where
    global and model clp label coincide, 0 elsewhere), for VP and NNLS alike. -/
theorem full_model_dataset_zero_at_truth (sd : SimDataset) (lm gm : LMat) (m g : Mat)
    (ok : SimFullOK sd lm gm m g) (data : Mat) (hsim : noiseless sd.inp = .ok data) (sv : Solver)
    (res pens : Vec) (h : unlinkedDataset {} sv (sd.toDataset data) = some (res, pens)) :
    (∀ x ∈ res, x = 0) ∧ pens = [] :=
  unlinkedDataset_full sd lm gm m g ok data hsim sv res pens h

/-- the data are in the range of the Kronecker matrix, with the pairing vector as coefficients -/
theorem full_model_data_in_range (sd : SimDataset) (lm gm : LMat) (m g : Mat)
    (ok : SimFullOK sd lm gm m g) (data : Mat) (hsim : noiseless sd.inp = .ok data) (full : Mat) (flat : Vec)
    (h : fullModelProblem (sd.toDataset data) = some (full, flat)) :
    flat = mulVec full (pairing gm.labels lm.labels) :=
  (fullModel_consistent sd lm gm m g ok data hsim full flat h).1

/-- the worked full-model example: model labels (s1, s2), global labels (s2, gx, s1) -/
def exampleFull : SimDataset :=
  { label := "d1", globalAxis := [5, 6, 7], weight := none, scale := none,
    inp := { nModel := 3, nGlobal := 3, mcs := [⟨⟨["s1", "s2"], .d2 [[2, 4], [6, 8], [10, 14]]⟩, none⟩],
             gmcs := [⟨⟨["s2", "gx", "s1"], .d2 [[1, 5, 2], [3, 1, 4], [0, 2, 1]]⟩, none⟩], clp := none, noise := none } }

example : SimFullOK exampleFull ⟨["s1", "s2"], .d2 [[2, 4], [6, 8], [10, 14]]⟩ ⟨["s2", "gx", "s1"], .d2 [[1, 5, 2], [3, 1, 4], [0, 2, 1]]⟩
    [[2, 4], [6, 8], [10, 14]] [[1, 5, 2], [3, 1, 4], [0, 2, 1]] where
  hasGlobal := by simp [exampleFull]
  noWeight := rfl
  matrix := by rfl
  gmatrix := by rfl
  body := rfl
  gbody := rfl
  axis := rfl
  gRows := rfl
  gWidth := by decide
  mRows := rfl
  mWidth := by decide
  glabels := by decide
  covered := by decide

example : noiseless exampleFull.inp = .ok [[8, 20, 2], [20, 48, 6], [34, 82, 10]] ∧
    unlinkedDataset {} .vp (exampleFull.toDataset [[8, 20, 2], [20, 48, 6], [34, 82, 10]]) =
      some ([0, 0, 0, 0, 0, 0, 0, 0, 0], []) ∧
    pairing ["s2", "gx", "s1"] ["s1", "s2"] = [0, 1, 0, 0, 1, 0] := by
  decide +kernel

/-! ### linked groups -/

/-- **The stacked matrix of an aligned index applied to per-label coefficients is, dataset by dataset,
    the dataset's scaled matrix applied to the coefficients of its own labels**, and every stacked row has
    one entry per union label. -/
theorem stacked_matrix_by_label (bs : List (LMat2 × Rat)) (φ : String → Rat)
    (hnd : ∀ b ∈ bs, b.1.labels.Nodup) (hw : ∀ b ∈ bs, ∀ r ∈ b.1.m, r.length = b.1.labels.length) :
    mulVec (alignMatrices bs).m ((alignMatrices bs).labels.map φ) =
      bs.flatMap (fun b => mulVec (mscale b.2 b.1.m) (b.1.labels.map φ)) ∧
    ∀ r ∈ (alignMatrices bs).m, r.length = (alignMatrices bs).labels.length :=
  mulVec_alignMatrices bs φ hnd hw

/-- **A linked group of noise-free simulated (unweighted) datasets whose generating clps are
    `dataset scale × one common value per label and aligned global point` has a zero residual part and
    no penalties**: every stacked problem is consistent, the coefficient of label `l` at aligned point `v`
    being the common value `F v l` = generating clp / dataset scale of every member. -/
theorem linked_group_zero_at_truth (g : Group) (ms : List LinkedMember) (aligned : List (List Rat))
    (F : Rat → String → Rat) (H : LinkedAtTruth g ms aligned F)
    (hnn : g.solver = .nnls → ∀ v l, 0 ≤ F v l) (res pens : Vec)
    (h : linkedGroup {} g = some (res, pens)) : (∀ x ∈ res, x = 0) ∧ pens = [] :=
  linkedGroup_sim g ms aligned F H hnn res pens h

/-- worked example: two datasets at the same global point sharing the label `s1`; dataset scales 2 and
    1, common values s1 ↦ 2, s2 ↦ 3, so the generating clps are (4) and (s2 = 3, s1 = 2) -/
def exM1 : LinkedMember :=
  { sd := { label := "d1", globalAxis := [1], weight := none, scale := some 2,
            inp := { nModel := 2, nGlobal := 1, mcs := [⟨⟨["s1"], .d2 [[1], [3]]⟩, none⟩], gmcs := [],
                     clp := some ⟨some ["s1"], [[4]]⟩, noise := none } },
    lm := ⟨["s1"], .d2 [[1], [3]]⟩, ls := ["s1"], rows := [[4]], data := [[4], [12]] }
def exM2 : LinkedMember :=
  { sd := { label := "d2", globalAxis := [1], weight := none, scale := none,
            inp := { nModel := 3, nGlobal := 1, mcs := [⟨⟨["s1", "s2"], .d2 [[1, 0], [0, 1], [1, 1]]⟩, none⟩], gmcs := [],
                     clp := some ⟨some ["s2", "s1"], [[3, 2]]⟩, noise := none } },
    lm := ⟨["s1", "s2"], .d2 [[1, 0], [0, 1], [1, 1]]⟩, ls := ["s2", "s1"], rows := [[3, 2]], data := [[2], [3], [5]] }
def exF : Rat → String → Rat := fun _ l => if l = "s1" then 2 else 3
def exG : Group := ⟨true, .vp, 0, .nearest, [exM1.dataset, exM2.dataset]⟩

private theorem exM1_ok : SimOK exM1.sd exM1.lm exM1.ls exM1.rows where
  noGlobal := rfl
  clp := rfl
  matrix := by rfl
  axis := rfl
  nrows := by
    intro i hi
    have : i = 0 := by simp [exM1] at hi; omega
    subst this; decide +kernel
  width := by
    intro i hi
    have : i = 0 := by simp [exM1] at hi; omega
    subst this; decide +kernel
  scale := by decide +kernel

private theorem exM2_ok : SimOK exM2.sd exM2.lm exM2.ls exM2.rows where
  noGlobal := rfl
  clp := rfl
  matrix := by rfl
  axis := rfl
  nrows := by
    intro i hi
    have : i = 0 := by simp [exM2] at hi; omega
    subst this; decide +kernel
  width := by
    intro i hi
    have : i = 0 := by simp [exM2] at hi; omega
    subst this; decide +kernel
  scale := by decide +kernel

example : LinkedAtTruth exG [exM1, exM2] [[1], [1]] exF where
  linked := rfl
  datasets := rfl
  ok := by
    intro m hm
    simp only [List.mem_cons, List.not_mem_nil, or_false] at hm
    rcases hm with rfl | rfl
    · exact exM1_ok
    · exact exM2_ok
  sim := by
    intro m hm
    simp only [List.mem_cons, List.not_mem_nil, or_false] at hm
    rcases hm with rfl | rfl <;> decide +kernel
  noWeight := by
    intro m hm
    simp only [List.mem_cons, List.not_mem_nil, or_false] at hm
    rcases hm with rfl | rfl <;> rfl
  nodup := by
    intro m hm
    simp only [List.mem_cons, List.not_mem_nil, or_false] at hm
    rcases hm with rfl | rfl <;> decide
  sliceLabels := by
    intro m hm i hi
    simp only [List.mem_cons, List.not_mem_nil, or_false] at hm
    rcases hm with rfl | rfl
    · have : i = 0 := by simp [exM1] at hi; omega
      subst this; rfl
    · have : i = 0 := by simp [exM2] at hi; omega
      subst this; rfl
  alignment := by decide +kernel
  alignedRow := by
    intro k hk hk'
    have : k = 0 ∨ k = 1 := by simp at hk; omega
    rcases this with rfl | rfl <;> rfl
  common := by
    intro k hk hk' i hi l hl
    have hk2 : k = 0 ∨ k = 1 := by simp at hk; omega
    rcases hk2 with rfl | rfl
    · have : i = 0 := by simp at hi; omega
      subst this
      simp only [List.getElem_cons_zero, exM1, List.mem_singleton] at hl
      subst hl
      simp only [List.getElem_cons_zero]
      decide +kernel
    · have : i = 0 := by simp at hi; omega
      subst this
      simp only [List.getElem_cons_succ, List.getElem_cons_zero, exM2, List.mem_cons, List.not_mem_nil, or_false] at hl
      rcases hl with rfl | rfl <;> simp only [List.getElem_cons_zero, List.getElem_cons_succ] <;> decide +kernel

example : linkedGroup {} exG = some ([0, 0, 0, 0, 0], []) := by decide +kernel

/-! ### the objective at the truth -/

/-- a dataset of the fit whose data are noise-free simulated data of the same model: clp-driven (for
    NNLS with non-negative generating clps over scale) or full-model -/
def DatasetAtTruth (sv : Solver) (d : Dataset) : Prop :=
  (∃ sd lm ls rows data, SimOK sd lm ls rows ∧ noiseless sd.inp = .ok data ∧ d = sd.toDataset data ∧
    (sv = .nnls → ∀ i, i < sd.inp.nGlobal → ∀ x ∈ truthAt sd lm ls rows i, 0 ≤ x)) ∨
  (∃ sd lm gm m g data, SimFullOK sd lm gm m g ∧ noiseless sd.inp = .ok data ∧ d = sd.toDataset data)

/-- a group whose data are noise-free simulated data of the same model: unlinked with clp-driven or
    full-model datasets, or linked with common generating values (non-negative for NNLS) -/
def GroupAtTruth (g : Group) : Prop :=
  (g.linked = false ∧ ∀ d ∈ g.datasets, DatasetAtTruth g.solver d) ∨
  (∃ ms aligned F, LinkedAtTruth g ms aligned F ∧ (g.solver = .nnls → ∀ v l, 0 ≤ F v l))

/-- **The objective at the generating parameters is identically zero.** -/
theorem objective_zero_at_truth (gs : List Group) (hg : ∀ g ∈ gs, GroupAtTruth g) (v : Vec)
    (h : objective {} gs = some v) : ∀ x ∈ v, x = 0 := by
  unfold objective at h
  cases hm : gs.mapM (groupPenalty {}) with
  | none => simp [hm] at h
  | some pens =>
    simp only [hm, Option.map_some, Option.some.injEq] at h
    subst h
    intro x hx
    simp only [List.mem_flatten] at hx
    obtain ⟨pv, hpv, hxp⟩ := hx
    obtain ⟨g, hgm, hgp⟩ := mapM_some_mem _ gs pens hm pv hpv
    unfold groupPenalty groupPenaltyParts at hgp
    rcases hg g hgm with ⟨hl, hds⟩ | ⟨ms, aligned, F, H, hnn⟩
    · simp only [hl, Bool.false_eq_true, if_false] at hgp
      cases hparts : g.datasets.mapM (unlinkedDataset {} g.solver) with
      | none => simp [hparts] at hgp
      | some parts =>
        simp only [hparts, Option.map_some, Option.some.injEq] at hgp
        subst hgp
        have hall : ∀ p ∈ parts, (∀ y ∈ p.1, y = 0) ∧ p.2 = [] := by
          intro p hp
          obtain ⟨d, hd, hud⟩ := mapM_some_mem _ g.datasets parts hparts p hp
          rcases hds d hd with ⟨sd, lm, ls, rows, data, ok, hsim, rfl, hnn⟩ | ⟨sd, lm, gm, m, gg, data, ok, hsim, rfl⟩
          · exact unlinkedDataset_sim sd lm ls rows ok data hsim g.solver hnn p.1 p.2 hud
          · exact unlinkedDataset_full sd lm gm m gg ok data hsim g.solver p.1 p.2 hud
        simp only [List.mem_append, List.mem_flatMap] at hxp
        rcases hxp with ⟨p, hp, hx1⟩ | ⟨p, hp, hx2⟩
        · exact (hall p hp).1 x hx1
        · rw [(hall p hp).2] at hx2; simp at hx2
    · simp only [H.linked, if_true] at hgp
      cases hlg : linkedGroup {} g with
      | none => simp [hlg] at hgp
      | some rp =>
        simp only [hlg, Option.map_some, Option.some.injEq] at hgp
        subst hgp
        obtain ⟨h1, h2⟩ := linkedGroup_sim g ms aligned F H hnn rp.1 rp.2 (by rw [hlg])
        simp only [List.mem_append] at hxp
        rcases hxp with hx1 | hx2
        · exact h1 x hx1
        · rw [h2] at hx2; simp at hx2

/-- **The truth is a global minimiser of the cost**: against any other penalty vector (the objective
    at any other parameter vector, of any length) the sum of squares at the truth is not larger. -/
theorem truth_is_global_min (gs : List Group) (hg : ∀ g ∈ gs, GroupAtTruth g) (v : Vec)
    (h : objective {} gs = some v) (v' : Vec) : sumSq v ≤ sumSq v' := by
  rw [sumSq_zero_of_all_zero v (objective_zero_at_truth gs hg v h)]
  exact sumSq_nonneg v'

/-- **The gradient `Jᵀ·r` of the cost vanishes at the truth for every Jacobian `J`** (so the first
    order optimality measure of a gradient-based optimiser is zero there). -/
theorem gradient_zero_at_truth (gs : List Group) (hg : ∀ g ∈ gs, GroupAtTruth g) (v : Vec)
    (h : objective {} gs = some v) (J : Mat) (n : Nat) :
    ∀ x ∈ mulVec (transpose J n) v, x = 0 :=
  mulVec_zero _ v (objective_zero_at_truth gs hg v h)

/-- **A Gauss–Newton / Levenberg–Marquardt step from the truth is the zero step**: any `δ` with
    `(JᵀJ + λ·I) δ = −Jᵀ r`, `r` the objective at the truth, is zero as soon as `λ > 0` or `J` has full
    column rank. -/
theorem step_zero_at_truth (gs : List Group) (hg : ∀ g ∈ gs, GroupAtTruth g) (r : Vec)
    (h : objective {} gs = some r) (J : Mat) (n : Nat) (hJ : ∀ row ∈ J, row.length = n)
    (lam : Rat) (hlam : 0 ≤ lam) (hreg : 0 < lam ∨ FullColRank J n) (δ : Vec) (hδ : δ.length = n)
    (hstep : vadd (mulVec (transpose J n) (mulVec J δ)) (vscale lam δ) =
      vscale (-1) (mulVec (transpose J n) r)) :
    ∀ x ∈ δ, x = 0 := by
  have hr := objective_zero_at_truth gs hg r h
  have hl : (mulVec (transpose J n) (mulVec J δ)).length = (vscale lam δ).length := by
    simp [mulVec, transpose, vscale, hδ]
  have e1 := dot_vadd (mulVec (transpose J n) (mulVec J δ)) (vscale lam δ) δ hl
  rw [hstep, transpose_dot J n hJ, dot_vscale, dot_vscale, transpose_dot J n hJ,
    dot_zero_left r _ hr] at e1
  have h1 : 0 ≤ sumSq (mulVec J δ) := sumSq_nonneg _
  have h2 : 0 ≤ sumSq δ := sumSq_nonneg _
  have e2 : sumSq (mulVec J δ) + lam * sumSq δ = 0 := by unfold sumSq; linarith
  have h3 : 0 ≤ lam * sumSq δ := mul_nonneg hlam h2
  rcases hreg with hpos | hrank
  · have : lam * sumSq δ = 0 := by linarith
    rcases mul_eq_zero.mp this with h0 | h0
    · exact absurd h0 (ne_of_gt hpos)
    · exact sumSq_eq_zero δ h0
  · have hz : sumSq (mulVec J δ) = 0 := by linarith
    have hJd := sumSq_eq_zero _ hz
    have hzero : ∀ x ∈ zeros n, x = 0 := by intro x hx; simp [zeros] at hx; exact hx.2
    have := hrank δ (zeros n) hδ (by simp [zeros])
      (eq_of_all_zero _ _ (by simp [mulVec_length]) hJd (mulVec_zero J _ hzero))
    rw [this]; exact hzero

/-- non-vacuity of the group hypothesis: the worked example as a one-dataset group -/
example : GroupAtTruth ⟨false, .vp, 0, .nearest, [exampleSim.toDataset [[21, 42], [43, 86], [75, 150]]]⟩ := by
  refine Or.inl ⟨rfl, ?_⟩
  intro d hd
  simp only [List.mem_singleton] at hd
  subst hd
  refine Or.inl ⟨exampleSim, ⟨["s1", "s2"], .d2 [[1, 2], [3, 4], [5, 7]]⟩, ["s2", "zz", "s1"], [[10, 7, 1], [20, 7, 2]],
    [[21, 42], [43, 86], [75, 150]], ?_, by decide +kernel, rfl, fun h => by cases h⟩
  exact {
    noGlobal := rfl, clp := rfl, matrix := by rfl, axis := rfl,
    nrows := by
      intro i hi
      have : i = 0 ∨ i = 1 := by simp [exampleSim] at hi; omega
      rcases this with rfl | rfl <;> decide +kernel
    width := by
      intro i hi
      have : i = 0 ∨ i = 1 := by simp [exampleSim] at hi; omega
      rcases this with rfl | rfl <;> decide +kernel
    scale := by decide +kernel }

example : objective {} [⟨false, .vp, 0, .nearest, [exampleSim.toDataset [[21, 42], [43, 86], [75, 150]]]⟩]
    = some [0, 0, 0, 0, 0, 0] := by decide +kernel

/-! ### noise -/

/-- **Without noise `simulate` is a function of the model inputs alone**: the result does not depend on
    the generator or its state, and the generator state is left untouched. -/
theorem noise_free_is_deterministic {σ : Type} (rng : Rng σ) (st : σ) (inp : SimInput)
    (h : inp.noise = none) : simulate rng st inp = (noiseless inp, st) := by
  unfold simulate
  cases hn : noiseless inp with
  | error e => rfl
  | ok d => simp [h]

/-- **Seeded noise is reproducible**: with a noise seed the returned data are the same whatever state
    the generator was in before the call (whatever was simulated or drawn before), and after a
    successful call the generator is in the same state too. -/
theorem seeded_noise_reproducible {σ : Type} (rng : Rng σ) (st st' : σ) (inp : SimInput) (std : Rat)
    (seed : Nat) (h : inp.noise = some ⟨std, some seed⟩) :
    (simulate rng st inp).1 = (simulate rng st' inp).1 ∧
      ((∃ d, noiseless inp = .ok d) → (simulate rng st inp).2 = (simulate rng st' inp).2) := by
  unfold simulate
  cases hn : noiseless inp with
  | error e => exact ⟨rfl, fun ⟨d, hd⟩ => by cases hd⟩
  | ok d => simp [h]

/-- **The noisy data are `data + std · z`** with `z` the first `model × global` standard-normal draws
    after reseeding, in row-major (model, global) order; the unseeded variant uses the current state. -/
theorem seeded_noise_entry {σ : Type} (rng : Rng σ) (st : σ) (inp : SimInput) (std : Rat)
    (seed : Option Nat) (h : inp.noise = some ⟨std, seed⟩) (d : Mat) (hd : noiseless inp = .ok d) :
    let st₁ := match seed with | some s => rng.reseed s | none => st
    let z := (rng.normals st₁ (inp.nModel * inp.nGlobal)).1
    (simulate rng st inp).1 = .ok (addNoise std d z inp.nGlobal) ∧
    (simulate rng st inp).2 = (rng.normals st₁ (inp.nModel * inp.nGlobal)).2 ∧
    ∀ m (hm : m < d.length) g (hg : g < d[m].length),
      ((addNoise std d z inp.nGlobal)[m]'(by simpa [addNoise] using hm))[g]'(by simpa [addNoise] using hg)
        = d[m][g] + std * z.getD (m * inp.nGlobal + g) 0 := by
  intro st₁ z
  refine ⟨?_, ?_, ?_⟩
  · simp only [simulate, hd, h]; cases seed <;> rfl
  · simp only [simulate, hd, h]; cases seed <;> rfl
  · intro m hm g hg
    simp [addNoise]

/-- non-vacuity: a replaying generator, seed 3, std 1/2 -/
example : (simulate (tapeRng [1, 2, 3, 4, 5, 6]) [0, 0, 0, 0, 0, 0]
    { exampleSim.inp with noise := some ⟨1 / 2, some 3⟩ }).1 = .ok [[43 / 2, 43], [89 / 2, 88], [155 / 2, 153]] ∧
    (simulate (tapeRng [1, 2, 3, 4, 5, 6]) [9, 9, 9, 9, 9, 9, 9]
    { exampleSim.inp with noise := some ⟨1 / 2, some 3⟩ }).1 = .ok [[43 / 2, 43], [89 / 2, 88], [155 / 2, 153]] ∧
    (simulate (tapeRng [1, 2, 3, 4, 5, 6]) [0, 0, 0, 0, 0, 1]
    { exampleSim.inp with noise := some ⟨1 / 2, none⟩ }).1 = .ok [[21, 42], [43, 86], [75, 301 / 2]] := by
  decide +kernel

end Glotaran.C14
