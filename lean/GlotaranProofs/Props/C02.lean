/-
C02 — the minimised objective is the documented separable least-squares problem.
Property theorems about `Glotaran.C02` (lean/GlotaranModel/C02.lean).  Helper lemmas live in
GlotaranProofs/Lemmas/C02.lean.
-/
import GlotaranProofs.Lemmas.C02
namespace Glotaran.C02
open Glotaran.LinAlg

/-! ### groups contribute independently -/

/-- **Dataset groups contribute independently**: the objective of a list of groups is the
    concatenation of the objectives of any split of that list (and fails iff a part fails). -/
theorem objective_append (mi : ModelItems) (g₁ g₂ : List Group) :
    objective mi (g₁ ++ g₂) =
      (match objective mi g₁, objective mi g₂ with
       | some a, some b => some (a ++ b)
       | _, _ => none) := by
  unfold objective
  rw [List.mapM_append]
  cases h₁ : g₁.mapM (groupPenalty mi) <;> cases h₂ : g₂.mapM (groupPenalty mi) <;> simp

/-- a single group's objective is its penalty vector: residual part followed by the penalties -/
theorem objective_single (mi : ModelItems) (g : Group) :
    objective mi [g] = (groupPenaltyParts mi g).map (fun p => p.1 ++ p.2) := by
  unfold objective groupPenalty
  cases h : groupPenaltyParts mi g <;> simp [List.mapM_cons, h]

/-! ### the linear block is a certified least-squares residual -/

/-- whatever `lsExact` returns satisfies the normal equations exactly (certifying solver) -/
theorem lsExact_sound (a : Mat) (y c : Vec) (h : lsExact a y = some c) : isNormalSol a y c = true := by
  unfold lsExact at h
  split at h
  · split at h
    · cases h; assumption
    · cases h
  · split at h
    · split at h
      · cases h; assumption
      · cases h
    · cases h

/-- whatever `nnlsExact` returns satisfies the KKT conditions exactly (certifying solver) -/
theorem nnlsExact_sound (a : Mat) (y c : Vec) (h : nnlsExact a y = some c) : isKKT a y c = true := by
  unfold nnlsExact at h
  simp only at h
  obtain ⟨s, _, hs⟩ := List.exists_of_findSome?_eq_some h
  split at hs
  · split at hs
    · cases hs; assumption
    · cases hs
  · cases hs

/-- **Each block of the penalty vector is the residual `y − A·c` of a certified solution** of the
    least-squares problem the solver was given (normal equations for variable projection, KKT
    for NNLS); C01 turns the certificate into optimality. -/
theorem block_is_ls_residual (s : Solver) (a : Mat) (y c r : Vec) (h : solveLS s a y = some (c, r)) :
    r = residual a y c ∧
    (s = .vp → isNormalSol a y c = true) ∧ (s = .nnls → isKKT a y c = true) := by
  unfold solveLS at h
  cases s with
  | vp =>
    simp only at h
    cases hl : lsExact a y with
    | none => simp [hl] at h
    | some c' =>
      simp [hl] at h
      obtain ⟨rfl, rfl⟩ := h
      refine ⟨rfl, ?_, ?_⟩
      · intro _; exact lsExact_sound a y c' hl
      · intro h; cases h
  | nnls =>
    simp only at h
    cases hl : nnlsExact a y with
    | none => simp [hl] at h
    | some c' =>
      simp [hl] at h
      obtain ⟨rfl, rfl⟩ := h
      refine ⟨rfl, ?_, ?_⟩
      · intro h; cases h
      · intro _; exact nnlsExact_sound a y c' hl

/-! ### intervals -/

/-- `applies` on one interval is membership in the closed interval between the smaller and the
    larger bound, whatever their order -/
theorem interval_contains_iff (lo hi : EB) (x : Rat) :
    (Interval.contains ⟨lo, hi⟩ x = true) ↔
      ((lo.le (.fin x) = true ∧ EB.le (.fin x) hi = true) ∨ (hi.le (.fin x) = true ∧ EB.le (.fin x) lo = true)) :=
  interval_contains_iff_aux lo hi x

/-- an item without interval applies at every index -/
theorem no_interval_applies_everywhere (x : Rat) : applies none x = true := rfl

/-- a list of intervals is their union -/
theorem applies_list (l : List Interval) (x : Rat) :
    applies (some l) x = true ↔ ∃ iv ∈ l, iv.contains x = true := by
  simp [applies, List.any_eq_true]

/-- **`only` is exactly the complement of `zero`** -/
theorem only_is_complement (t : String) (iv : Option (List Interval)) (x : Rat) :
    Constraint.appliesAt ⟨true, t, iv⟩ x = !(Constraint.appliesAt ⟨false, t, iv⟩ x) := by
  simp [Constraint.appliesAt]

/-! ### constraints remove exactly the constrained columns -/

/-- **After `apply_constraints` at axis value `x` the remaining labels are exactly those not
    targeted by a constraint that applies at `x`**, in their original order. -/
theorem constraints_remove_exactly (cons : List Constraint) (x : Rat) (lm : LMat2) :
    (applyConstraintsAt cons x lm).labels =
      lm.labels.filter (fun l => !(cons.any (fun c => c.target == l && c.appliesAt x))) :=
  constraints_labels cons x lm

/-! ### full model: Kronecker structure -/

/-- **Row `m` of the block of global index `g` of the full-model matrix is `G[g,·] ⊗ M[m,·]`**:
    entry (gl, l) = G[g, gl] · M[m, l], laid out global-label-major. -/
theorem kron_row_spec (g : Vec) (m : Mat) (i : Nat) (hi : i < m.length) :
    (kronRow g m)[i]'(by simpa [kronRow] using hi) = g.flatMap (fun gv => (m[i]).map (gv * ·)) := by
  simp [kronRow]

/-- the weighted data the solver sees is `data ⊙ weight`, entry by entry -/
theorem weighted_data_entry (d : Dataset) (w : Mat) (hw : d.weight = some w) :
    d.weightedData = List.zipWith (fun r s => List.zipWith (· * ·) r s) d.data w := by
  simp [Dataset.weightedData, hw, hadamard]

/-- datasets without weight enter unweighted -/
theorem unweighted_data (d : Dataset) (hw : d.weight = none) : d.weightedData = d.data := by
  simp [Dataset.weightedData, hw]

/-! ### non-vacuity -/
example : objective {} [] = some [] := by decide
example : Interval.contains ⟨.fin 3, .fin 1⟩ 2 = true := by decide
example : (applyConstraintsAt [⟨false, "s2", none⟩] 1 ⟨["s1", "s2"], [[1, 2], [3, 4]]⟩).labels = ["s1"] := by decide

end Glotaran.C02
