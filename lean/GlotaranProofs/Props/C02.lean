/-
C02 — the minimised objective is the documented separable least-squares problem.
Property theorems about `Glotaran.C02` (lean/GlotaranModel/C02.lean).  Helper lemmas live in
GlotaranProofs/Lemmas/C02.lean.
-/
import GlotaranProofs.Lemmas.C02
import GlotaranProofs.Lemmas.C02Align
import GlotaranProofs.Lemmas.C02Combine
import GlotaranProofs.Lemmas.C02Length
import GlotaranProofs.Lemmas.C02Bij
import GlotaranProofs.Lemmas.C02BijLinked
import GlotaranProofs.Lemmas.C02BijKron
import GlotaranProofs.Lemmas.C02Steps
import GlotaranProofs.Lemmas.C02Layout
namespace Glotaran.C02
open Glotaran.LinAlg

/-! ### groups contribute independently -/

/-- **Dataset groups contribute independently**: the objective of a list of groups is the
    concatenation of the objectives of any split of that list (and fails iff a part fails). -/
theorem objective_append (mi : ModelItems) (g₁ g₂ : List Group) :
    objective mi (g₁ ++ g₂) =
      (match objective mi g₁, objective mi g₂ with
       | some a, some b => some (a ++ b)
       | _, _ => none) := by
  unfold objective
  rw [List.mapM_append]
  cases h₁ : g₁.mapM (groupPenalty mi) <;> cases h₂ : g₂.mapM (groupPenalty mi) <;> simp

/-- a single group's objective is its penalty vector: residual part followed by the penalties -/
theorem objective_single (mi : ModelItems) (g : Group) :
    objective mi [g] = (groupPenaltyParts mi g).map (fun p => p.1 ++ p.2) := by
  unfold objective groupPenalty
  cases h : groupPenaltyParts mi g <;> simp [List.mapM_cons, h]

/-! ### the linear block is a certified least-squares residual -/

/-- whatever `lsExact` returns satisfies the normal equations exactly (certifying solver) -/
theorem lsExact_sound (a : Mat) (y c : Vec) (h : lsExact a y = some c) : isNormalSol a y c = true := by
  unfold lsExact at h
  split at h
  · split at h
    · cases h; assumption
    · cases h
  · split at h
    · split at h
      · cases h; assumption
      · cases h
    · cases h

/-- whatever `nnlsExact` returns satisfies the KKT conditions exactly (certifying solver) -/
theorem nnlsExact_sound (a : Mat) (y c : Vec) (h : nnlsExact a y = some c) : isKKT a y c = true := by
  unfold nnlsExact at h
  simp only at h
  obtain ⟨s, _, hs⟩ := List.exists_of_findSome?_eq_some h
  split at hs
  · split at hs
    · cases hs; assumption
    · cases hs
  · cases hs

/-- **Each block of the penalty vector is the residual `y − A·c` of a certified solution** of the
    least-squares problem the solver was given (normal equations for variable projection, KKT
    for NNLS); C01 turns the certificate into optimality. -/
theorem block_is_ls_residual (s : Solver) (a : Mat) (y c r : Vec) (h : solveLS s a y = some (c, r)) :
    r = residual a y c ∧
    (s = .vp → isNormalSol a y c = true) ∧ (s = .nnls → isKKT a y c = true) := by
  unfold solveLS at h
  cases s with
  | vp =>
    simp only at h
    cases hl : lsExact a y with
    | none => simp [hl] at h
    | some c' =>
      simp [hl] at h
      obtain ⟨rfl, rfl⟩ := h
      refine ⟨rfl, ?_, ?_⟩
      · intro _; exact lsExact_sound a y c' hl
      · intro h; cases h
  | nnls =>
    simp only at h
    cases hl : nnlsExact a y with
    | none => simp [hl] at h
    | some c' =>
      simp [hl] at h
      obtain ⟨rfl, rfl⟩ := h
      refine ⟨rfl, ?_, ?_⟩
      · intro h; cases h
      · intro _; exact nnlsExact_sound a y c' hl

/-! ### intervals -/

/-- `applies` on one interval is membership in the closed interval between the smaller and the
    larger bound, whatever their order -/
theorem interval_contains_iff (lo hi : EB) (x : Rat) :
    (Interval.contains ⟨lo, hi⟩ x = true) ↔
      ((lo.le (.fin x) = true ∧ EB.le (.fin x) hi = true) ∨ (hi.le (.fin x) = true ∧ EB.le (.fin x) lo = true)) :=
  interval_contains_iff_aux lo hi x

/-- an item without interval applies at every index -/
theorem no_interval_applies_everywhere (x : Rat) : applies none x = true := rfl

/-- a list of intervals is their union -/
theorem applies_list (l : List Interval) (x : Rat) :
    applies (some l) x = true ↔ ∃ iv ∈ l, iv.contains x = true := by
  simp [applies, List.any_eq_true]

/-- **`only` is exactly the complement of `zero`** -/
theorem only_is_complement (t : String) (iv : Option (List Interval)) (x : Rat) :
    Constraint.appliesAt ⟨true, t, iv⟩ x = !(Constraint.appliesAt ⟨false, t, iv⟩ x) := by
  simp [Constraint.appliesAt]

/-! ### constraints remove exactly the constrained columns -/

/-- **After `apply_constraints` at axis value `x` the remaining labels are exactly those not
    targeted by a constraint that applies at `x`**, in their original order. -/
theorem constraints_remove_exactly (cons : List Constraint) (x : Rat) (lm : LMat2) :
    (applyConstraintsAt cons x lm).labels =
      lm.labels.filter (fun l => !(cons.any (fun c => c.target == l && c.appliesAt x))) :=
  constraints_labels cons x lm

/-- **Columns of surviving labels are untouched by `apply_constraints`**: for every label that
    survives, its column in the reduced matrix is its column in the original matrix. -/
theorem constraints_keep_columns (cons : List Constraint) (x : Rat) (lm : LMat2)
    (hL : lm.labels.Nodup) (hrows : ∀ r ∈ lm.m, r.length = lm.labels.length)
    (l : String) (hl : l ∈ (applyConstraintsAt cons x lm).labels) :
    colOf (applyConstraintsAt cons x lm).labels (applyConstraintsAt cons x lm).m l =
      colOf lm.labels lm.m l :=
  constraints_keep_columns_lem cons x lm hL hrows l hl

example : "s1" ∈ (applyConstraintsAt [⟨false, "s2", none⟩] 1 ⟨["s1", "s2"], [[1, 2], [3, 4]]⟩).labels ∧
    colOf (applyConstraintsAt [⟨false, "s2", none⟩] 1 ⟨["s1", "s2"], [[1, 2], [3, 4]]⟩).labels
      (applyConstraintsAt [⟨false, "s2", none⟩] 1 ⟨["s1", "s2"], [[1, 2], [3, 4]]⟩).m "s1" = some [1, 3] := by
  decide

/-! ### the reduced problem is the constrained full problem

`WF lm` : distinct labels, one column per label.
`NoChain rels L x` : among the relations that apply at `x` on labels `L` (target present, interval
applies, source present) the targets are pairwise distinct and no source is a target. -/

/-- **The reduced matrix applied to reduced coefficients equals the full matrix applied to the
    coefficients `retrieve_clps` expands them to** (zeros for constrained labels, `param · source`
    for related targets): the constrained model is exactly what is fitted. -/
theorem reduced_problem_equiv (mi : ModelItems) (x : Rat) (lm : LMat2) (hwf : WF lm)
    (hnc : NoChain mi.relations lm.labels x) (c : Vec)
    (hc : c.length = (reduceAt mi x lm).labels.length) :
    mulVec (reduceAt mi x lm).m c =
      mulVec lm.m (retrieveClps mi lm.labels (reduceAt mi x lm).labels c x) :=
  reduced_problem_equiv_aux mi x lm hwf hnc c hc

/-- relations only -/
theorem relations_span (mi : ModelItems) (x : Rat) (lm : LMat2) (hwf : WF lm)
    (hcons : mi.constraints = []) (hnc : NoChain mi.relations lm.labels x) (c : Vec)
    (hc : c.length = (applyRelationsAt mi.relations x lm).labels.length) :
    mulVec (applyRelationsAt mi.relations x lm).m c =
      mulVec lm.m (retrieveClps mi lm.labels (applyRelationsAt mi.relations x lm).labels c x) := by
  have h : reduceAt mi x lm = applyRelationsAt mi.relations x lm := by
    rw [reduceAt, hcons, applyConstraintsAt_nil]
  have := reduced_problem_equiv mi x lm hwf hnc c (by rw [h]; exact hc)
  rwa [h] at this

/-- constraints only: dropping columns = fixing the dropped coefficients at `0` -/
theorem constraints_span (mi : ModelItems) (x : Rat) (lm : LMat2) (hwf : WF lm)
    (hrel : mi.relations = []) (c : Vec)
    (hc : c.length = (applyConstraintsAt mi.constraints x lm).labels.length) :
    mulVec (applyConstraintsAt mi.constraints x lm).m c =
      mulVec lm.m (retrieveClps mi lm.labels (applyConstraintsAt mi.constraints x lm).labels c x) := by
  have h : reduceAt mi x lm = applyConstraintsAt mi.constraints x lm := by
    rw [reduceAt, hrel, applyRelationsAt_nil]
  have hnc : NoChain mi.relations lm.labels x := by rw [hrel]; simp [NoChain]
  have := reduced_problem_equiv mi x lm hwf hnc c (by rw [h]; exact hc)
  rwa [h] at this

/-- non-vacuity: s2 = 3·s1 (relation), s3 constrained to zero, s4 free -/
example :
    let mi : ModelItems := { relations := [⟨"s1", "s2", 3, none⟩], constraints := [⟨false, "s3", none⟩] }
    let lm : LMat2 := ⟨["s1", "s2", "s3", "s4"], [[1, 2, 3, 4], [5, 6, 7, 8]]⟩
    WF lm ∧ NoChain mi.relations lm.labels 1 ∧ (reduceAt mi 1 lm).labels = ["s1", "s4"] ∧
      (reduceAt mi 1 lm).m = [[7, 4], [23, 8]] ∧
      retrieveClps mi lm.labels (reduceAt mi 1 lm).labels [2, 5] 1 = [2, 6, 0, 5] := by
  decide +kernel

/-- **Chained relations break the equivalence** (s2 = 3·s1, s3 = 2·s2): the reduced matrix treats
    s3 as `2 · 0`, `retrieve_clps` reports `2 · 3 · s1` — this is why `NoChain` is assumed. -/
theorem reduced_problem_equiv_counterexample :
    let mi : ModelItems := { relations := [⟨"s1", "s2", 3, none⟩, ⟨"s2", "s3", 2, none⟩] }
    let lm : LMat2 := ⟨["s1", "s2", "s3"], [[1, 0, 0], [0, 1, 0], [0, 0, 1]]⟩
    WF lm ∧ ¬ NoChain mi.relations lm.labels 0 ∧ [(1 : Rat)].length = (reduceAt mi 0 lm).labels.length ∧
      mulVec (reduceAt mi 0 lm).m [1] = [1, 3, 0] ∧
      mulVec lm.m (retrieveClps mi lm.labels (reduceAt mi 0 lm).labels [1] 0) = [1, 3, 6] := by
  decide +kernel

/-- the same for every axis value `x` (no intervals) -/
theorem reduced_problem_equiv_counterexample_all (x : Rat) :
    let mi : ModelItems := { relations := [⟨"s1", "s2", 3, none⟩, ⟨"s2", "s3", 2, none⟩] }
    let lm : LMat2 := ⟨["s1", "s2", "s3"], [[1, 0, 0], [0, 1, 0], [0, 0, 1]]⟩
    mulVec (reduceAt mi x lm).m [1] ≠
      mulVec lm.m (retrieveClps mi lm.labels (reduceAt mi x lm).labels [1] x) := by
  intro mi lm
  have h1 : reduceAt mi x lm = reduceAt mi 0 lm := rfl
  have h2 : ∀ r : List String, retrieveClps mi lm.labels r [1] x = retrieveClps mi lm.labels r [1] 0 :=
    fun _ => rfl
  rw [h1, h2]
  decide +kernel

/-! ### entries of the retrieved coefficients -/

/-- **A label that is dropped from the reduced problem and is not the target of an applying
    relation gets the coefficient `0`.** -/
theorem retrieve_zero_on_constrained (mi : ModelItems) (x : Rat) (lm : LMat2) (c : Vec) (l : String)
    (hl : l ∈ lm.labels) (hnot : l ∉ (reduceAt mi x lm).labels)
    (hnt : ∀ r ∈ mi.relations,
      (lm.labels.contains r.target && applies r.interval x && lm.labels.contains r.source) = true →
        r.target ≠ l) :
    (retrieveClps mi lm.labels (reduceAt mi x lm).labels c x).getD (lm.labels.idxOf l) 0 = 0 :=
  retrieve_zero_aux mi x lm c l hl hnot hnt

/-- **The coefficient of a related target is exactly `param ·` the coefficient of its source.** -/
theorem retrieve_related_exact (mi : ModelItems) (full reduced : List String) (c : Vec) (x : Rat)
    (hnc : NoChain mi.relations full x) (r : Relation) (hr : r ∈ mi.relations)
    (ha : (full.contains r.target && applies r.interval x && full.contains r.source) = true) :
    (retrieveClps mi full reduced c x).getD (full.idxOf r.target) 0 =
      r.param * (retrieveClps mi full reduced c x).getD (full.idxOf r.source) 0 :=
  retrieve_related_aux mi full reduced c x hnc r hr ha

example :
    let mi : ModelItems := { relations := [⟨"s1", "s2", 3, none⟩], constraints := [⟨false, "s3", none⟩] }
    let lm : LMat2 := ⟨["s1", "s2", "s3", "s4"], [[1, 2, 3, 4], [5, 6, 7, 8]]⟩
    "s3" ∈ lm.labels ∧ "s3" ∉ (reduceAt mi 1 lm).labels ∧
    (∀ r ∈ mi.relations,
      (lm.labels.contains r.target && applies r.interval 1 && lm.labels.contains r.source) = true →
        r.target ≠ "s3") ∧
    NoChain mi.relations lm.labels 1 ∧
    (∃ r ∈ mi.relations,
      (lm.labels.contains r.target && applies r.interval 1 && lm.labels.contains r.source) = true) := by
  decide

/-! ### linked groups: stacking on the union labels -/

/-- the union label list has no duplicates and contains exactly the labels occurring in some list -/
theorem unionLabels_nodup (ls : List (List String)) (h : ∀ l ∈ ls, l.Nodup) :
    (unionLabels ls).Nodup ∧ ∀ a, a ∈ unionLabels ls ↔ ∃ l ∈ ls, a ∈ l :=
  ⟨unionLabels_nodup_lem ls h, unionLabels_mem ls⟩

example : unionLabels [["a", "b"], ["b", "c"]] = ["a", "b", "c"] ∧
    ∀ l ∈ [["a", "b"], ["b", "c"]], l.Nodup := by decide

/-- **Two or more datasets at one aligned index are stacked on the union of their labels, every
    row of every block being kept.** -/
theorem alignMatrices_rows (bs : List (LMat2 × Rat)) (h : 2 ≤ bs.length) :
    (alignMatrices bs).labels = unionLabels (bs.map (·.1.labels)) ∧
    (alignMatrices bs).m.length = (bs.map (·.1.m.length)).sum ∧
    ∀ r ∈ (alignMatrices bs).m, r.length = (alignMatrices bs).labels.length :=
  ⟨alignMatrices_labels bs h, alignMatrices_rows_length bs h, alignMatrices_row_width bs h⟩

/-- a single dataset at an aligned index keeps its labels; the dataset scale is applied too -/
theorem alignMatrices_single (b : LMat2 × Rat) :
    alignMatrices [b] = ⟨b.1.labels, mscale b.2 b.1.m⟩ :=
  alignMatrices_single_lem b

example :
    (alignMatrices [(⟨["a", "b"], [[1, 2]]⟩, 1), (⟨["b", "c"], [[3, 4], [5, 6]]⟩, 2)]).labels = ["a", "b", "c"] ∧
    (alignMatrices [(⟨["a", "b"], [[1, 2]]⟩, 1), (⟨["b", "c"], [[3, 4], [5, 6]]⟩, 2)]).m =
      [[1, 2, 0], [0, 6, 8], [0, 10, 12]] := by decide +kernel
example : (alignMatrices [(⟨["a", "b"], [[1, 2]]⟩, 3)]).labels = ["a", "b"] ∧
    (alignMatrices [(⟨["a", "b"], [[1, 2]]⟩, 3)]).m = [[3, 6]] := by decide +kernel

/-! ### combining megacomplex matrices -/

theorem combine_labels_nodup (left right : LMat) (hl : left.labels.Nodup) (hr : right.labels.Nodup) :
    (combine left right).labels.Nodup :=
  combine_labels_nodup_lem left right hl hr

theorem combine_labels_mem (left right : LMat) (l : String) :
    l ∈ (combine left right).labels ↔ l ∈ left.labels ∨ l ∈ right.labels :=
  combine_labels_mem_lem left right l

/-- **The column of a shared compartment is the sum of the megacomplexes' columns**, a missing
    label contributing zeros (2-D inputs with the same number of rows). -/
theorem combine_col_d2 (ll lr : List String) (a b : Mat)
    (hrows : b.length = a.length) (l : String)
    (hl : l ∈ (combine ⟨ll, .d2 a⟩ ⟨lr, .d2 b⟩).labels) :
    ∃ m, (combine ⟨ll, .d2 a⟩ ⟨lr, .d2 b⟩).body = .d2 m ∧
      colOf (combine ⟨ll, .d2 a⟩ ⟨lr, .d2 b⟩).labels m l =
        some (vadd ((colOf ll a l).getD (zeros a.length)) ((colOf lr b l).getD (zeros a.length))) :=
  combine_col_d2_min ll lr a b hrows l hl

/-- the combined 2-D matrix is well formed -/
theorem combine_d2_shape (ll lr : List String) (a b : Mat) :
    ∃ m, (combine ⟨ll, .d2 a⟩ ⟨lr, .d2 b⟩).body = .d2 m ∧ m.length = a.length ∧
      ∀ r ∈ m, r.length = (combine ⟨ll, .d2 a⟩ ⟨lr, .d2 b⟩).labels.length :=
  combine_d2_wf ll lr a b

example : (combine ⟨["a", "b"], .d2 [[1, 2], [3, 4]]⟩ ⟨["b", "c"], .d2 [[5, 6], [7, 8]]⟩).labels = ["a", "b", "c"] ∧
    colOf ["a", "b", "c"] (combine2 ["a", "b", "c"] ["a", "b"] ["b", "c"] [[1, 2], [3, 4]] [[5, 6], [7, 8]]) "b"
      = some [7, 11] := by decide +kernel

/-! ### every data point contributes one residual entry -/

/-- **Unlinked group without global model: the residual part has one entry per data point.** -/
theorem group_penalty_length_unlinked (mi : ModelItems) (g : Group) (res pens : Vec)
    (hl : g.linked = false) (hg : ∀ d ∈ g.datasets, d.gmcs = [])
    (hwf : ∀ d ∈ g.datasets, d.WF)
    (h : groupPenaltyParts mi g = some (res, pens)) :
    res.length = (g.datasets.map (fun d => d.nModel * d.nGlobal)).sum :=
  group_penalty_length_unlinked_lem mi g res pens hl hg hwf h

example : (∀ d ∈ Length.exampleGroup.datasets, d.WF) ∧ Length.exampleGroup.linked = false ∧
    groupPenaltyParts {} Length.exampleGroup = some ([0, 0, 0, 0], []) :=
  ⟨fun d hd => by
      have : d = Length.exampleDataset := by simpa [Length.exampleGroup] using hd
      rw [this]; exact Length.exampleDataset_wf,
    rfl, Length.exampleGroup_parts⟩

/-! ### full model: Kronecker structure -/

/-- **Row `m` of the block of global index `g` of the full-model matrix is `G[g,·] ⊗ M[m,·]`**:
    entry (gl, l) = G[g, gl] · M[m, l], laid out global-label-major. -/
theorem kron_row_spec (g : Vec) (m : Mat) (i : Nat) (hi : i < m.length) :
    (kronRow g m)[i]'(by simpa [kronRow] using hi) = g.flatMap (fun gv => (m[i]).map (gv * ·)) := by
  simp [kronRow]

/-- the weighted data the solver sees is `data ⊙ weight`, entry by entry -/
theorem weighted_data_entry (d : Dataset) (w : Mat) (hw : d.weight = some w) :
    d.weightedData = List.zipWith (fun r s => List.zipWith (· * ·) r s) d.data w := by
  simp [Dataset.weightedData, hw, hadamard]

/-- datasets without weight enter unweighted -/
theorem unweighted_data (d : Dataset) (hw : d.weight = none) : d.weightedData = d.data := by
  simp [Dataset.weightedData, hw]

/-! ### non-vacuity -/
example : objective {} [] = some [] := by decide
example : Interval.contains ⟨.fin 3, .fin 1⟩ 2 = true := by decide
example : (applyConstraintsAt [⟨false, "s2", none⟩] 1 ⟨["s1", "s2"], [[1, 2], [3, 4]]⟩).labels = ["s1"] := by decide

/-! ### every data point enters the penalty vector exactly once

Positions (Lemmas/C02Bij.lean, C02BijLinked.lean):
* `offset ns k` — start of block `k` in a concatenation of blocks of sizes `ns`;
* `ValidPoint g k m i` — dataset `k` of the group exists, `m` is one of its model indices, `i` one of its
  global indices (`ValidPointL` the same for a list of datasets);
* `posUnlinked g k m i = offset (nModel·nGlobal per dataset) k + i·nModel_k + m`;
* `posLinked ds aligned axis k m i`: with `v` the aligned value of the dataset's global index `i`,
  `offset (Σ stack sizes per aligned value) (index of v on the aligned axis) +
   offset (stack sizes at v) (number of member datasets before k) + m`, where the stack sizes at `v`
  are the model-axis sizes of the datasets that have `v` on their aligned axis, in dataset order. -/

/-- **Unlinked group: the position map is a bijection** from the data points of the group onto the index
    range of the residual part (whose length is `Σ nModel·nGlobal`, `group_penalty_length_unlinked`). -/
theorem residual_positions_bijective_unlinked (g : Group) :
    (∀ k m i, ValidPoint g k m i → posUnlinked g k m i < (g.datasets.map (fun d => d.nModel * d.nGlobal)).sum) ∧
    (∀ k m i k' m' i', ValidPoint g k m i → ValidPoint g k' m' i' →
      posUnlinked g k m i = posUnlinked g k' m' i' → k = k' ∧ m = m' ∧ i = i') ∧
    (∀ p, p < (g.datasets.map (fun d => d.nModel * d.nGlobal)).sum →
      ∃ k m i, ValidPoint g k m i ∧ posUnlinked g k m i = p) :=
  posUnlinked_bij g

/-- **Unlinked group: what sits at the position of data point `(k, m, i)`** — row `m` of the residual of
    the least-squares problem of global index `i` of dataset `k`, whose data vector is column `i` of the
    dataset's weighted data. -/
theorem residual_entry_unlinked_spec (mi : ModelItems) (g : Group) (res pens : Vec)
    (hl : g.linked = false) (hg : ∀ d ∈ g.datasets, d.gmcs = []) (hwf : ∀ d ∈ g.datasets, d.WF)
    (h : groupPenaltyParts mi g = some (res, pens)) (k m i : Nat) (hv : ValidPoint g k m i) :
    ∃ hk : k < g.datasets.length, ∃ ps c r, unlinkedProblems mi g.datasets[k] = some ps ∧ ∃ hi' : i < ps.length,
      solveLS g.solver ps[i].reduced.m ps[i].data = some (c, r) ∧
      ps[i].data = col g.datasets[k].weightedData i ∧ m < r.length ∧
      res[posUnlinked g k m i]? = r[m]? :=
  residual_entry_unlinked mi g res pens hl hg (fun d hd => (hwf d hd).weak) h k m i hv

/-- two datasets (2 × 2 and 3 × 1): the seven data points go to the positions 0 … 6, dataset by dataset,
    global index by global index -/
example :
    let g : Group :=
      { linked := false, solver := .vp, tol := 0, method := .nearest,
        datasets := [Length.exampleDataset,
          { label := "e", globalAxis := [5], data := [[1], [2], [3]], weight := none, scale := none,
            mcs := [], gmcs := [] }] }
    ValidPoint g 1 2 0 ∧
    [posUnlinked g 0 0 0, posUnlinked g 0 1 0, posUnlinked g 0 0 1, posUnlinked g 0 1 1,
     posUnlinked g 1 0 0, posUnlinked g 1 1 0, posUnlinked g 1 2 0] = [0, 1, 2, 3, 4, 5, 6] := by
  intro g
  exact ⟨⟨by decide, by decide, by decide⟩, by decide⟩

example : ∃ ps c r, unlinkedProblems {} Length.exampleDataset = some ps ∧ ∃ hi' : 1 < ps.length,
    solveLS .vp ps[1].reduced.m ps[1].data = some (c, r) ∧ ([0, 0, 0, 0] : Vec)[posUnlinked Length.exampleGroup 0 1 1]? = r[1]? := by
  obtain ⟨_, ps, c, r, h1, h2, h3, _, _, h5⟩ := residual_entry_unlinked_spec {} Length.exampleGroup _ _ rfl
    (by intro d hd; simp only [Length.exampleGroup, List.mem_singleton] at hd; subst hd; rfl)
    (by intro d hd; simp only [Length.exampleGroup, List.mem_singleton] at hd; subst hd
        exact Length.exampleDataset_wf)
    Length.exampleGroup_parts 0 1 1 ⟨by decide, by decide, by decide⟩
  exact ⟨ps, c, r, h1, h2, h3, h5⟩

/-- **The aligned global axis of a linked group is strictly increasing** (so every aligned value occurs once). -/
theorem aligned_axis_strictly_increasing (aligned : List (List Rat)) :
    (aligned.foldl sortedUnion []).Pairwise (· < ·) :=
  alignedAxis_sorted aligned

/-- **Linked group: the position map through the alignment tables is a bijection** from the data points
    of the group onto the index range of the residual part: every column of every dataset is stacked
    exactly once, in dataset order, at the aligned value its global index was aligned to.
    Hypothesis: no global axis repeats a value. -/
theorem residual_positions_bijective_linked (g : Group) (aligned : List (List Rat))
    (hal : alignAxes (g.datasets.map (·.globalAxis)) g.tol g.method = some aligned)
    (hax : ∀ d ∈ g.datasets, d.globalAxis.Nodup) :
    (∀ k m i, ValidPointL g.datasets k m i →
      posLinked g.datasets aligned (aligned.foldl sortedUnion []) k m i <
        ((aligned.foldl sortedUnion []).map (fun v => (stackSizes g.datasets aligned v).sum)).sum) ∧
    (∀ k m i k' m' i', ValidPointL g.datasets k m i → ValidPointL g.datasets k' m' i' →
      posLinked g.datasets aligned (aligned.foldl sortedUnion []) k m i =
        posLinked g.datasets aligned (aligned.foldl sortedUnion []) k' m' i' → k = k' ∧ m = m' ∧ i = i') ∧
    (∀ p, p < ((aligned.foldl sortedUnion []).map (fun v => (stackSizes g.datasets aligned v).sum)).sum →
      ∃ k m i, ValidPointL g.datasets k m i ∧
        posLinked g.datasets aligned (aligned.foldl sortedUnion []) k m i = p) ∧
    ((aligned.foldl sortedUnion []).map (fun v => (stackSizes g.datasets aligned v).sum)).sum =
      (g.datasets.map (fun d => d.nModel * d.nGlobal)).sum := by
  have T := tablesOK_of_alignAxes g aligned hal hax
  exact ⟨fun k m i hv => posLinked_lt _ _ _ T k m i hv,
    fun k m i k' m' i' hv hv' h => posLinked_inj _ _ _ T k m i k' m' i' hv hv' h,
    fun p hp => posLinked_surj _ _ _ T p hp, total_eq_points _ _ _ T⟩

/-- **Linked group: the residual part has one entry per data point, and what sits at the position of data
    point `(k, m, i)`**: row `q` of the residual of the stacked least-squares problem of the aligned value
    the point was aligned to, `q` = (model-axis sizes of the member datasets before `k`) + `m`; entry `q` of
    that problem's data vector is the weighted data point `(k, m, i)`.
    (`LinkedShapes`: rectangular data/weights, well-formed matrices, no repeated axis value.) -/
theorem residual_entry_linked_spec (mi : ModelItems) (g : Group) (res pens : Vec) (aligned : List (List Rat))
    (hl : g.linked = true) (h : groupPenaltyParts mi g = some (res, pens))
    (hal : alignAxes (g.datasets.map (·.globalAxis)) g.tol g.method = some aligned)
    (hsh : LinkedShapes g) :
    res.length = (g.datasets.map (fun d => d.nModel * d.nGlobal)).sum ∧
    ∀ k m i, ValidPointL g.datasets k m i →
      ∃ ps t c r, linkedProblems mi g = some (aligned.foldl sortedUnion [], ps) ∧ ∃ ht : t < ps.length,
        (aligned.foldl sortedUnion [])[t]? = some ((aligned.getD k []).getD i 0) ∧
        solveLS g.solver ps[t].reduced.m ps[t].data = some (c, r) ∧
        ps[t].data[offset (stackSizes g.datasets aligned ((aligned.getD k []).getD i 0))
            (countBefore (fun e : Dataset × List Rat => e.2.contains ((aligned.getD k []).getD i 0))
              (g.datasets.zip aligned) k) + m]? =
          (col (g.datasets.getD k default).weightedData i)[m]? ∧
        m < (col (g.datasets.getD k default).weightedData i).length ∧
        res[posLinked g.datasets aligned (aligned.foldl sortedUnion []) k m i]? =
          r[offset (stackSizes g.datasets aligned ((aligned.getD k []).getD i 0))
            (countBefore (fun e : Dataset × List Rat => e.2.contains ((aligned.getD k []).getD i 0))
              (g.datasets.zip aligned) k) + m]? ∧
        offset (stackSizes g.datasets aligned ((aligned.getD k []).getD i 0))
            (countBefore (fun e : Dataset × List Rat => e.2.contains ((aligned.getD k []).getD i 0))
              (g.datasets.zip aligned) k) + m < r.length := by
  obtain ⟨h1, h2⟩ := residual_entry_linked_lem mi g res pens aligned hl h hal hsh
  refine ⟨?_, h2⟩
  rw [h1]
  exact total_eq_points _ _ _ (tablesOK_of_alignAxes g aligned hal hsh.axes)

/-- 2 × 2 dataset on axis (0, 1) and weighted, scaled 3 × 2 dataset on axis (1, 2), sharing aligned value 1 -/
private def bijGroup : Group :=
  { linked := true, solver := .vp, tol := 0, method := .nearest,
    datasets := [
      { label := "a", globalAxis := [0, 1], data := [[1, 2], [2, 4]], weight := none, scale := none,
        mcs := [⟨⟨["c"], .d2 [[1], [1]]⟩, none⟩], gmcs := [] },
      { label := "b", globalAxis := [1, 2], data := [[4, 1], [6, 1], [9, 2]],
        weight := some [[1, 2], [1, 1], [2, 1]], scale := some 2,
        mcs := [⟨⟨["c", "e"], .d2 [[1, 0], [1, 1], [1, 2]]⟩, none⟩], gmcs := [] }] }

/-- the hypotheses hold, the ten data points go to the ten positions 0 … 9 (dataset "b", global index 0 —
    aligned value 1 — is stacked below dataset "a": positions 4, 5, 6), the group is solved -/
example :
    alignAxes (bijGroup.datasets.map (·.globalAxis)) bijGroup.tol bijGroup.method = some [[0, 1], [1, 2]] ∧
    (∀ d ∈ bijGroup.datasets, d.globalAxis.Nodup) ∧
    ([[0, 1], [1, 2]] : List (List Rat)).foldl sortedUnion [] = [0, 1, 2] ∧
    ValidPointL bijGroup.datasets 1 2 0 ∧
    (List.range 2).flatMap (fun i => (List.range 2).map (fun m =>
      posLinked bijGroup.datasets [[0, 1], [1, 2]] [0, 1, 2] 0 m i)) = [0, 1, 2, 3] ∧
    (List.range 2).flatMap (fun i => (List.range 3).map (fun m =>
      posLinked bijGroup.datasets [[0, 1], [1, 2]] [0, 1, 2] 1 m i)) = [4, 5, 6, 7, 8, 9] ∧
    (groupPenaltyParts {} bijGroup).map (·.1.length) = some 10 := by
  refine ⟨by decide +kernel, by decide +kernel, by decide +kernel,
    ⟨by decide, by decide, by decide⟩, by decide +kernel, by decide +kernel, by decide +kernel⟩

/-! ### full model: the Kronecker structure, entry by entry -/

/-- **`full_model_kron`**: for a dataset with a global model (global matrix `G`, index independent) the
    matrix and data given to the solver are, in the flattening order of `data.T.flatten()`
    (row `g·nModel + m`, column `j·nClp + l`):
    `A[g·nModel + m][j·nClp + l] = weight[m][g] · G[g][j] · M_g[m][l]`   (`M_g = matrixAt lm nGlobal g`),
    `y[g·nModel + m] = data[m][g] · weight[m][g]`   (weight `1` for an unweighted dataset). -/
theorem full_model_kron (d : Dataset) (lm gm : LMat) (G a : Mat) (y : Vec)
    (hlm : datasetMatrix d.mcs = some lm) (hgm : datasetMatrix d.gmcs = some gm) (hGb : gm.body = .d2 G)
    (h : fullModelProblem d = some (a, y))
    (hok : C03.LMatOK d.nModel d.nGlobal lm) (hd : C03.DataOK d)
    (hG : G.length = d.nGlobal) (hGw : ∀ r ∈ G, r.length = gm.labels.length)
    (g m j l : Nat) (hg : g < d.nGlobal) (hm : m < d.nModel) (hj : j < gm.labels.length) (hl : l < lm.labels.length) :
    ∃ grow row ω yv, G[g]? = some grow ∧ (C03.matrixAt lm d.nGlobal g)[m]? = some row ∧
      C03.entry? d.data m g = some yv ∧
      (match (generalizing := false) d.weight with | none => ω = 1 | some w => C03.entry? w m g = some ω) ∧
      C03.entry? a (g * d.nModel + m) (j * lm.labels.length + l) = some (ω * (grow.getD j 0 * row.getD l 0)) ∧
      y[g * d.nModel + m]? = some (yv * ω) :=
  full_model_kron_lem d lm gm G a y hlm hgm hGb h hok hd hG hGw g m j l hg hm hj hl

/-- 2 × 3 weighted data, two compartments, two global compartments: row 5 = (g, m) = (2, 1), column 2 =
    (j, l) = (1, 0): `1 · G[2][1] · M[1][0] = 5 · 3`; row 3 = (1, 1) carries the weight 3 -/
example :
    let d : Dataset :=
      { label := "f", globalAxis := [0, 1, 2], data := [[1, 2, 3], [4, 5, 6]], weight := some [[1, 1, 2], [1, 3, 1]],
        scale := none, mcs := [⟨⟨["s1", "s2"], .d2 [[1, 2], [3, 4]]⟩, none⟩],
        gmcs := [⟨⟨["g1", "g2"], .d2 [[1, 0], [1, 1], [2, 5]]⟩, none⟩] }
    fullModelProblem d = some ([[1, 2, 0, 0], [3, 4, 0, 0], [1, 2, 1, 2], [9, 12, 9, 12], [4, 8, 10, 20], [6, 8, 15, 20]],
      [1, 4, 2, 15, 6, 6]) ∧
    C03.LMatOK d.nModel d.nGlobal ⟨["s1", "s2"], .d2 [[1, 2], [3, 4]]⟩ ∧
    (∀ r ∈ d.data, r.length = d.nGlobal) := by
  intro d
  refine ⟨by decide +kernel, ⟨by decide, ?_⟩, by decide⟩
  show _ ∧ _
  exact ⟨by decide, by decide⟩

/-! ### the pipeline as the SOURCE has it now (regenerated table `Generated.table`, GlotaranModel/Generated/C02Steps.lean)

`Steps.interp…` execute the table the translator read off glotaran/optimization/{matrix,estimation,data}_provider.py,
optimization_group.py and optimizer.calculate_penalty with the operations of this model.  The theorems below say that this
is the hand-written pipeline the theorems above are about — for every input.  When the source reorders the steps, changes an
operand (another weight column, another matrix, the data without the weight …) or does something the translator cannot read,
the table changes / contains `untranslatable`, and these theorems stop compiling. -/

/-- the loop over the megacomplexes (scale in place, then combine with the accumulated matrix on the left) -/
theorem generated_megacomplexes_eq_model (mcs : List McOut) :
    Steps.interpMcs Generated.table.mc mcs = datasetMatrix mcs :=
  Steps.interpMcs_generated mcs

/-- the data the solver sees: a copy of the dataset's data, multiplied in place by the weight -/
theorem generated_data_eq_model (d : Dataset) :
    Steps.interpData Generated.table.data d = some d.weightedData :=
  Steps.interpData_generated d

/-- **Unlinked groups: the per-index problems of the source are those of the model** — dataset scale → one container per
    index → relations → constraints → rows × weight[:, i]; solver called with container `i`, data column `i`, the labels of
    the dataset matrix and axis value `i`. -/
theorem generated_pipeline_eq_model_unlinked (mi : ModelItems) (d : Dataset) :
    Steps.interpUnlinked Generated.table mi d = unlinkedProblems mi d :=
  Steps.interpUnlinked_generated mi d

/-- **Linked groups**: members in dataset order, each sliced at its own index, stacked with the dataset scales → relations →
    constraints → rows × aligned weight (own weight column / ones; none when no member or no dataset is weighted); aligned
    data = stacked weighted data columns. -/
theorem generated_pipeline_eq_model_linked (mi : ModelItems) (g : Group) :
    Steps.interpLinked Generated.table mi g = linkedProblems mi g :=
  Steps.interpLinked_generated mi g

/-- **Full models**: kron(global matrix, matrix) → rows × global-major flattened weight; global-major flattened weighted data. -/
theorem generated_pipeline_eq_model_full (d : Dataset) :
    Steps.interpFull Generated.table d = fullModelProblem d :=
  Steps.interpFull_generated d

/-- **Assembly of a group's penalty vector** (`estimate` + `get_full_penalty`): penalties cleared once, appended once per
    dataset; residuals dataset by dataset, index by index; then the penalties. -/
theorem generated_assembly_eq_model (mi : ModelItems) (g : Group) :
    Steps.interpGroup Generated.table mi g = groupPenalty mi g :=
  Steps.interpGroup_generated mi g

/-- `Optimizer.calculate_penalty`: the groups' vectors in group order -/
theorem generated_objective_eq_model (mi : ModelItems) (gs : List Group) :
    Steps.interpObjective Generated.table mi gs = objective mi gs :=
  Steps.interpObjective_generated mi gs

/-- `objective_append` re-checked against the source's table -/
theorem source_objective_append (mi : ModelItems) (g₁ g₂ : List Group) :
    Steps.interpObjective Generated.table mi (g₁ ++ g₂) =
      (match Steps.interpObjective Generated.table mi g₁, Steps.interpObjective Generated.table mi g₂ with
       | some a, some b => some (a ++ b)
       | _, _ => none) := by
  simp only [generated_objective_eq_model]
  exact objective_append mi g₁ g₂

/-- what the source's unlinked pipeline hands to the solver at index `i` is the matrix reduced by relations THEN
    constraints (so `reduced_problem_equiv` applies to it) -/
theorem source_reduction_is_relations_then_constraints (mi : ModelItems) (d : Dataset) (ps : List IndexProblem)
    (h : Steps.interpUnlinked Generated.table mi d = some ps) (hw : d.weight = none) (i : Nat) (hi : i < ps.length) :
    ∃ lm, datasetMatrix d.mcs = some lm ∧
      ps[i].reduced = reduceAt mi (d.globalAxis.getD i 0)
        ((slices ⟨lm.labels, lm.body.scale (d.scale.getD 1)⟩ d.nGlobal).getD i default) := by
  rw [generated_pipeline_eq_model_unlinked] at h
  unfold unlinkedProblems at h
  cases hm : datasetMatrix d.mcs with
  | none => simp [hm] at h
  | some lm =>
    refine ⟨lm, rfl, ?_⟩
    simp only [hm, hw, Option.some.injEq] at h
    subst h
    simp

/-- three data points × two indices, two compartments, `s2 = 2·s1`, `s1` constrained to zero on index 1, weighted -/
private def stepsDataset : Dataset :=
  { label := "a", globalAxis := [0, 1], data := [[1, 2], [3, 4], [5, 7]], weight := some [[1, 2], [1, 1], [3, 1]],
    scale := some 2, mcs := [⟨⟨["s1", "s2"], .d2 [[1, 0], [1, 1], [1, 2]]⟩, some 3⟩], gmcs := [] }

private def stepsItems : ModelItems :=
  { relations := [⟨"s1", "s2", 2, none⟩], constraints := [⟨false, "s1", some [⟨.fin 1, .fin 1⟩]⟩] }

/-- the regenerated table on a concrete dataset (non-vacuity): two problems, the second one with no column left -/
example :
    (Steps.interpUnlinked Generated.table stepsItems stepsDataset).map (fun ps => ps.map (fun p => (p.reduced.labels, p.reduced.m, p.data))) =
      some [(["s1"], [[6], [18], [90]], [1, 3, 15]), ([], [[], [], []], [4, 4, 7])] := by
  decide +kernel

private def view (r : Option (List IndexProblem)) : Option (List (List String × List String × Mat × Vec × Rat)) :=
  r.map (fun ps => ps.map (fun p => (p.fullLabels, p.reduced.labels, p.reduced.m, p.data, p.x)))

set_option synthInstance.maxSize 1024 in
/-- **The interpreter is not blind**: on this dataset a table with constraints before relations, one that takes the weight
    column of the neighbouring index, one that scales after the reduction… give other problems than the model's, and a table
    that multiplies the columns by the weight or contains an untranslatable step gives none. -/
theorem interpreter_rejects_reordered_tables :
    view (Steps.interpUnlinked { Generated.table with prepared := [.scaleDataset, .slice, .constraints, .relations, .weightRows .own] } stepsItems stepsDataset)
      ≠ view (unlinkedProblems stepsItems stepsDataset) ∧
    view (Steps.interpUnlinked { Generated.table with prepared := [.scaleDataset, .slice, .relations, .constraints, .weightRows (.shifted (-1))] } stepsItems stepsDataset)
      ≠ view (unlinkedProblems stepsItems stepsDataset) ∧
    view (Steps.interpUnlinked { Generated.table with prepared := [.scaleDataset, .slice, .relations, .constraints] } stepsItems stepsDataset)
      ≠ view (unlinkedProblems stepsItems stepsDataset) ∧
    view (Steps.interpUnlinked { Generated.table with data := [.fromDataset true] } stepsItems stepsDataset) ≠ view (unlinkedProblems stepsItems stepsDataset) ∧
    view (Steps.interpUnlinked { Generated.table with data := [.fromDataset false, .mulWeight true] } stepsItems stepsDataset) = none ∧
    view (Steps.interpUnlinked { Generated.table with unlinkedCall := ⟨.own, .fixed 0, .datasetMatrix, .own⟩ } stepsItems stepsDataset)
      ≠ view (unlinkedProblems stepsItems stepsDataset) ∧
    view (Steps.interpUnlinked { Generated.table with prepared := [.scaleDataset, .slice, .relations, .constraints, .weightCols .own] } stepsItems stepsDataset) = none ∧
    view (Steps.interpUnlinked { Generated.table with prepared := [.slice, .relations, .untranslatable "?", .weightRows .own] } stepsItems stepsDataset) = none ∧
    Steps.interpGroupUnlinked { Generated.table with unlinkedEstimate := [.clearPenalties, .perDataset [.clearOwn, .solve, .appendPenalties, .appendPenalties]] }
        { stepsItems with penalties := [⟨"s1", [⟨.ninf, .pinf⟩], "s2", [⟨.ninf, .pinf⟩], 1, 1⟩] }
        { linked := false, solver := .vp, tol := 0, method := .nearest, datasets := [stepsDataset] }
      ≠ groupPenalty { stepsItems with penalties := [⟨"s1", [⟨.ninf, .pinf⟩], "s2", [⟨.ninf, .pinf⟩], 1, 1⟩] }
        { linked := false, solver := .vp, tol := 0, method := .nearest, datasets := [stepsDataset] } := by
  refine ⟨?_, ?_, ?_, ?_, ?_, ?_, ?_, ?_, ?_⟩ <;> decide +kernel

/-! ### layout glue of the data provider and the `link_clp: null` decision (GlotaranModel/C02Layout.lean) -/

theorem explicit_link_wins (b : Bool) (g : List Layout.DsDesc) (all : List (List String)) :
    Layout.resolveLink (some b) g all = b := Layout.explicit_link_wins b g all

theorem auto_link_iff (g : List Layout.DsDesc) (all : List (List String)) :
    Layout.resolveLink none g all = true ↔
      (∀ d ∈ g, d.hasGlobal = false) ∧
      ∃ md, (∃ d ∈ g, d.modelDim = md) ∧ (∀ d ∈ g, d.modelDim = md) ∧
        ∃ c, (∃ cs ∈ all, c ∈ cs) ∧ c ≠ md ∧ ∀ c', (∃ cs ∈ all, c' ∈ cs) → c' ≠ md → c' = c :=
  Layout.auto_link_iff g all

theorem infer_global_first (md : String) (dims : List String) (gd : String) :
    Layout.inferGlobalDimension md dims = some gd ↔
      ∃ pre post, dims = pre ++ gd :: post ∧ gd ≠ md ∧ ∀ d ∈ pre, d = md :=
  Layout.infer_global_first md dims gd

theorem data_orientation_entry (md gd : String) (data : Layout.Var) (nm ng : Nat) (hne : md ≠ gd)
    (hd : Layout.StoredAs data md gd nm ng) (hng : 0 < ng) :
    ∃ pd, Layout.layout md data none none = some (pd, none) ∧ Layout.Rect pd nm ng ∧
      ∀ m g, m < nm → g < ng → Layout.entry pd m g = Layout.isel data md m g :=
  Layout.data_orientation_entry md gd data nm ng hne hd hng

theorem weight_orientation_follows_own_dims (md gd : String) (data w : Layout.Var) (mw : Option Mat)
    (nm ng : Nat) (hne : md ≠ gd)
    (hd : Layout.StoredAs data md gd nm ng) (hw : Layout.StoredAs w md gd nm ng) (hng : 0 < ng) :
    ∃ pd pw, Layout.layout md data (some w) mw = some (pd, some pw) ∧ Layout.Rect pw nm ng ∧
      ∀ m g, m < nm → g < ng → Layout.entry pw m g = Layout.isel w md m g :=
  Layout.weight_orientation_follows_own_dims md gd data w mw nm ng hne hd hw hng

theorem provider_data_entry (md gd : String) (data : Layout.Var) (w : Option Layout.Var) (mw : Option Mat)
    (nm ng : Nat) (hne : md ≠ gd) (hd : Layout.StoredAs data md gd nm ng)
    (hw : ∀ wv, w = some wv → Layout.StoredAs wv md gd nm ng) (hmw : ∀ x, mw = some x → Layout.Rect x nm ng)
    (hng : 0 < ng) :
    ∃ pd pw, Layout.layout md data w mw = some (pd, pw) ∧ Layout.Rect pd nm ng ∧
      ∀ m g, m < nm → g < ng → Layout.entry pd m g = Layout.isel data md m g *
        (match w, mw with
         | some wv, _ => Layout.isel wv md m g
         | none, some x => Layout.entry x m g
         | none, none => 1) :=
  Layout.provider_data_entry md gd data w mw nm ng hne hd hw hmw hng

theorem dataset_weight_wins (md : String) (data w : Layout.Var) (mw : Option Mat) :
    Layout.layout md data (some w) mw = Layout.layout md data (some w) none :=
  Layout.dataset_weight_wins md data w mw

theorem model_weight_without_dataset_weight (md : String) (data : Layout.Var) (mw : Option Mat)
    (r : Mat × Option Mat) (h : Layout.layout md data none mw = some r) : r.2 = mw :=
  Layout.model_weight_without_dataset_weight md data mw r h

theorem layout_invariant (md gd : String) (d₁ d₂ : Layout.Var) (w₁ w₂ : Option Layout.Var) (mw : Option Mat)
    (nm ng : Nat) (hne : md ≠ gd) (hng : 0 < ng)
    (hd₁ : Layout.StoredAs d₁ md gd nm ng) (hd₂ : Layout.StoredAs d₂ md gd nm ng)
    (hd : ∀ m g, m < nm → g < ng → Layout.isel d₁ md m g = Layout.isel d₂ md m g)
    (hw : (w₁ = none ∧ w₂ = none) ∨ ∃ a b, w₁ = some a ∧ w₂ = some b ∧
      Layout.StoredAs a md gd nm ng ∧ Layout.StoredAs b md gd nm ng ∧
      ∀ m g, m < nm → g < ng → Layout.isel a md m g = Layout.isel b md m g) :
    Layout.layout md d₁ w₁ mw = Layout.layout md d₂ w₂ mw :=
  Layout.layout_invariant md gd d₁ d₂ w₁ w₂ mw nm ng hne hng hd₁ hd₂ hd hw

end Glotaran.C02
