/-
Line-protocol driver for the executable models:  lake env lean --run Main.lean <property>
-/
import GlotaranModel
open Glotaran

def main (args : List String) : IO UInt32 := do
  match args with
  | ["C19"] => Proto.runLoop C19.driverStep []; return 0
  | ["C02"] => Proto.runLoop C02.driverStep {}; return 0
  | ["C03"] => Proto.runLoop C03.driverStep {}; return 0
  | ["C15"] => Proto.runLoop C15.driverStep (); return 0
  | _ => IO.eprintln s!"unknown driver {args}"; return 2
