/-
Line-protocol driver for the executable models:  lake env lean --run Main.lean <property>
-/
import GlotaranModel
open Glotaran

def main (args : List String) : IO UInt32 := do
  match args with
  | ["C02"] => Proto.runLoop C02.driverStep {}; return 0
  | ["C03"] => Proto.runLoop C03.driverStep {}; return 0
  | ["C15"] => Proto.runLoop C15.driverStep (); return 0
  | ["C12"] => Proto.runLoop C12.driverStep {}; return 0
  | ["C09"] => Proto.runLoop C09.driverStep (); return 0
  | ["C20"] => Proto.runLoop (C20.driverStep C20.Generated.schema) none; return 0
  | ["C11"] => Proto.runLoop C11.driverStep (); return 0
  | ["C08"] => Proto.runLoop C08.driverStep {}; return 0
  | ["C07"] => Proto.runLoop C07.driverStep (); return 0
  | ["C04"] => Proto.runLoop C04.driverStep (); return 0
  | ["C05"] => Proto.runLoop C05.driverStep (); return 0
  | ["C16"] => Proto.runLoop C16.driverStep {}; return 0
  | ["C14"] => Proto.runLoop C14.driverStep {}; return 0
  | ["C10"] => Proto.runLoop (C10.driverStep C10.Generated.kernels) {}; return 0
  | ["C13"] => Proto.runLoop C13.driverStep {}; return 0
  | ["C19"] => Proto.runLoop (C19.driverStep C19.Generated.accessors C19.Generated.convFns C19.Generated.extFns C19.Generated.inferDefaults) {}; return 0
  | ["C18"] => Proto.runLoop (C18.driverStep C18.Generated.saveFns C18.Generated.resultPlugins) {}; return 0
  | ["C01"] => Proto.runLoop C01.driverStepX {}; return 0
  | ["C17"] => Proto.runLoop C17.driverStep2 (); return 0
  | ["C06"] => Proto.runLoop C06.Fin.driverStep (); return 0
  | _ => IO.eprintln s!"unknown driver {args}"; return 2
