/-
C18 — saving never destroys existing files unless asked; project results accumulate.

(a) Overwrite protection.
    `protect`  = `glotaran.plugin_system.io_plugin_utils.protect_from_overwrite` on a file-system
    state `FS` (association list path ↦ file bytes | directory; `[]` is the scratch root).
    `runSave`  = an interpreter for the *effect list* of a `save_*` convenience function
    (`glotaran/plugin_system/project_io_registration.py`, `data_io_registration.py`).  The effect
    lists are not written by hand: `harness/props/c18.py:generate` extracts them from the source
    with Python's `ast` on every run (`Generated/C18.lean`).  The io plugin is a *parameter*
    (`Env.plugin`: any function `FS → FS × Option Err` — writes anything, raises whenever it
    likes); an unknown format is `fmt ∉ Env.known`.
    `guardedWrite` = the four project-level writers that carry their own check
    (`Project.create`, `ProjectModelRegistry.generate_model`,
    `ProjectParameterRegistry.generate_parameters`, `ProjectDataRegistry.import_data`).

(a') The builtin result plugins after entry.  `runResultPlugin` interprets the step lists of
    `YmlProjectIo.save_result` / `FolderProjectIo.save_result` (regenerated: `Generated.resultPlugins`): which file
    every call writes, relative to the result folder; the writers of the single files are parameters (`World`).

(b) Result runs.  `Dir` is the listing of `<project>/results`; `previous`, `createRunName`, `save`,
    `fallback`, `getLatest`, `items` follow `glotaran/project/project_result_registry.py`,
    `project_registry.py:ProjectRegistry.items` and `project.py:get_latest_result_path` *after* the
    fixes D13 / dotted-result-name / latest-run-specifier / run-10000.  Names are `List Char` (Python compares
    and sorts `str` by code point; so does `lexLt`).

External, hence parameters or trusted: the OS file system, `pathlib`, `re`, `int()`, the plugins.
-/
import GlotaranModel.Proto
namespace Glotaran.C18

/-! ## (a) file system and `protect_from_overwrite` -/

inductive Node where
  | file (content : String)
  | dir
  deriving Repr, DecidableEq, Inhabited

abbrev Path := List String
abbrev FS := List (Path × Node)

def get (fs : FS) (p : Path) : Option Node :=
  match fs with
  | [] => none
  | (q, n) :: rest => if q = p then some n else get rest p

/-- create or replace the entry at `p` -/
def set (fs : FS) (p : Path) (n : Node) : FS := (p, n) :: fs.filter (fun e => e.1 ≠ p)

def isFile (fs : FS) (p : Path) : Bool :=
  match get fs p with
  | some (.file _) => true
  | _ => false

/-- `Path.is_dir()`; the scratch root `[]` always is one -/
def isDir (fs : FS) (p : Path) : Bool :=
  p.isEmpty || (match get fs p with
    | some .dir => true
    | _ => false)

/-- `Path.exists()` -/
def pathExists (fs : FS) (p : Path) : Bool := p.isEmpty || (get fs p).isSome

/-- `q` is a direct child of `p` -/
def isChildOf (p q : Path) : Bool := q.length == p.length + 1 && p.isPrefixOf q

/-- `bool(os.listdir(p))` -/
def hasChildren (fs : FS) (p : Path) : Bool := fs.any (fun e => isChildOf p e.1)

inductive Err where
  | fileExists        -- FileExistsError
  | notADirectory     -- NotADirectoryError
  | isADirectory      -- IsADirectoryError
  | valueError        -- ValueError
  | notImplemented    -- NotImplementedError
  | other (tag : String)
  deriving Repr, DecidableEq, Inhabited

/-- `Path.mkdir(parents=True, exist_ok=True)` of `done ++ todo`, walking down from `done`:
    an existing directory is kept, a missing one is created, a file in the way raises
    (`FileExistsError` if it is the directory itself, `NotADirectoryError` above it). -/
def mkdirP (fs : FS) (done : Path) : List String → Except Err FS
  | [] => .ok fs
  | c :: cs =>
    let q := done ++ [c]
    match get fs q with
    | some (.file _) => .error (if cs.isEmpty then .fileExists else .notADirectory)
    | some .dir => mkdirP fs q cs
    | none => mkdirP (set fs q .dir) q cs

/-- `mkdir(parents=True, exist_ok=True)` of several folders in turn -/
def mkdirAll (fs : FS) : List Path → Except Err FS
  | [] => .ok fs
  | p :: ps =>
    match mkdirP fs [] p with
    | .error e => .error e
    | .ok fs1 => mkdirAll fs1 ps

/-- `protect_from_overwrite(path, allow_overwrite=allow)`: the new file system and the exception.
    ```
    path = Path(path).resolve()
    if path.parent.is_file() is False: path.parent.mkdir(parents=True, exist_ok=True)
    if allow_overwrite: return
    elif path.is_file(): raise FileExistsError
    elif path.is_dir() and os.listdir(str(path)): raise FileExistsError
    ``` -/
def protect (fs : FS) (p : Path) (allow : Bool) : FS × Option Err :=
  let par := p.dropLast
  let made : Except Err FS := if isFile fs par then .ok fs else mkdirP fs [] par
  match made with
  | .error e => (fs, some e)
  | .ok fs1 =>
    if allow then (fs1, none)
    else if isFile fs1 p then (fs1, some .fileExists)
    else if isDir fs1 p && hasChildren fs1 p then (fs1, some .fileExists)
    else (fs1, none)

/-! ### the `save_*` convenience functions as effect lists (table regenerated from the source) -/

/-- how an argument of a call is written in the source -/
inductive ArgRef where
  | param (name : String)   -- a parameter of the enclosing function, passed through
  | lit (b : Bool)          -- the literal True / False
  | absent                  -- argument not given (callee's default)
  | other (src : String)    -- any other expression
  deriving Repr, DecidableEq, Inhabited

/-- under which condition a step is executed -/
inductive Cond where
  | always
  | unlessTruthy (param : String)   -- right operand of `param or …`
  | maybe (id : Nat)                -- inside an `if` / `try` / loop: may or may not run
  deriving Repr, DecidableEq, Inhabited

inductive Effect where
  | protect (path allow : ArgRef)                              -- protect_from_overwrite(path, allow_overwrite=allow)
  | inferFormat (path : ArgRef) (needsToExist allowFolder : Bool) -- infer_file_format(…): reads, may raise ValueError
  | getPlugin (registry : String)                              -- get_project_io / get_data_io: ValueError if unknown
  | pluginCall (method : String)                               -- io.<method>(…): arbitrary effect
  | mutateArg (target : String)                                -- attribute / item assignment or deletion: no file-system effect
  | pureCall (name : String)                                   -- Path(…), .as_posix(), isinstance, str, cast
  | raises (exc : String)                                      -- an explicit `raise`
  | unknownCall (name : String)                                -- any other call: arbitrary effect
  deriving Repr, DecidableEq, Inhabited

structure Step where
  eff : Effect
  cond : Cond
  deriving Repr, DecidableEq, Inhabited

structure SaveFn where
  name : String
  module : String
  pathParam : String
  allowParam : String
  formatParam : String
  /-- default of the `allow_overwrite` parameter -/
  allowDefault : Bool
  decorators : List String
  steps : List Step
  deriving Repr, DecidableEq, Inhabited

/-- one call site `save_*(…, allow_overwrite=…)` anywhere in the package (informational table) -/
structure CallSite where
  file : String
  caller : String
  callee : String
  allow : ArgRef
  deriving Repr, DecidableEq, Inhabited

/-- everything the caller and the world contribute to one `save_*` call -/
structure Env where
  path : Path
  allow : Bool
  /-- `format_name` (`none` / `""` are falsy) -/
  formatName : Option String
  /-- formats with a registered plugin -/
  known : List String
  /-- `io.<method>`: **any** effect -/
  plugin : String → FS → FS × Option Err
  /-- any call the extractor could not classify: **any** effect -/
  unknown : String → FS → FS × Option Err
  /-- whether the i-th `maybe` condition holds -/
  maybeHolds : Nat → Bool
  otherBool : String → Bool
  otherPath : String → Path

def truthy : Option String → Bool
  | some s => !s.isEmpty
  | none => false

def resolvePath (f : SaveFn) (env : Env) : ArgRef → Path
  | .param n => if n = f.pathParam then env.path else env.otherPath n
  | .other s => env.otherPath s
  | .lit _ => env.otherPath "lit"
  | .absent => env.otherPath "absent"

def resolveBool (f : SaveFn) (env : Env) : ArgRef → Bool
  | .param n => if n = f.allowParam then env.allow else env.otherBool n
  | .lit b => b
  | .absent => false      -- `protect_from_overwrite(..., allow_overwrite=False)` is the default
  | .other s => env.otherBool s

def condHolds (f : SaveFn) (env : Env) : Cond → Bool
  | .always => true
  | .unlessTruthy p => if p = f.formatParam then !truthy env.formatName else env.otherBool p
  | .maybe i => env.maybeHolds i

/-- `os.path.splitext(name)[1]` without the dot: the text after the last dot, leading dots of the
    name do not count -/
def extOf (name : String) : String :=
  let cs := name.toList
  let body := cs.dropWhile (· == '.')
  if body.contains '.' then
    String.ofList ((body.reverse.takeWhile (· != '.')).reverse)
  else ""

/-- `infer_file_format(path, needs_to_exist=…, allow_folder=…)` -/
def inferFormat (fs : FS) (p : Path) (needsToExist allowFolder : Bool) : Except Err String :=
  if !isFile fs p && needsToExist && !allowFolder then .error .valueError
  else
    let name := p.getLast?.getD ""
    -- a name ending in a dot has the extension "." which lstrip turns into ""; both give ""
    let ext := extOf name
    if name.toList.dropWhile (· == '.') |>.contains '.' then
      .ok (if ext = "yml" then "yaml" else ext)
    else if allowFolder then .ok "yaml"
    else .error .valueError

/-- run the steps in order; the first exception ends the call -/
def runSteps (f : SaveFn) (env : Env) : List Step → FS → Option String → FS × Option Err
  | [], fs, _ => (fs, none)
  | s :: rest, fs, inf =>
    if !condHolds f env s.cond then runSteps f env rest fs inf
    else
      match s.eff with
      | .protect p a =>
        match protect fs (resolvePath f env p) (resolveBool f env a) with
        | (fs', some e) => (fs', some e)
        | (fs', none) => runSteps f env rest fs' inf
      | .inferFormat p nte af =>
        match inferFormat fs (resolvePath f env p) nte af with
        | .error e => (fs, some e)
        | .ok fmt => runSteps f env rest fs (some fmt)
      | .getPlugin _ =>
        let fmt := if truthy env.formatName then env.formatName.getD "" else inf.getD ""
        if env.known.contains fmt then runSteps f env rest fs inf else (fs, some .valueError)
      | .pluginCall m =>
        match env.plugin m fs with
        | (fs', some e) => (fs', some e)
        | (fs', none) => runSteps f env rest fs' inf
      | .unknownCall n =>
        match env.unknown n fs with
        | (fs', some e) => (fs', some e)
        | (fs', none) => runSteps f env rest fs' inf
      | .raises exc => (fs, some (.other exc))
      | .mutateArg _ => runSteps f env rest fs inf
      | .pureCall _ => runSteps f env rest fs inf

/-- `@not_implemented_to_value_error` -/
def decorate (decorators : List String) (e : Option Err) : Option Err :=
  if decorators.contains "not_implemented_to_value_error" then
    match e with
    | some .notImplemented => some .valueError
    | e => e
  else e

def runSave (f : SaveFn) (env : Env) (fs : FS) : FS × Option Err :=
  let r := runSteps f env f.steps fs none
  (r.1, decorate f.decorators r.2)

/-- the first step that is not a whitelisted pure call -/
def firstEffect : List Step → Option Step
  | [] => none
  | s :: rest =>
    match s.eff with
    | .pureCall _ => firstEffect rest
    | _ => some s

/-- table check 1: the first effect of `f` is, unconditionally,
    `protect_from_overwrite(<path param>, allow_overwrite=<allow param>)`, overwriting is off by
    default and the decorators are the transparent one -/
def protectFirst (f : SaveFn) : Bool :=
  decide (firstEffect f.steps = some ⟨.protect (.param f.pathParam) (.param f.allowParam), .always⟩)
    && !f.allowDefault
    && f.decorators.all (fun d => decide (d = "not_implemented_to_value_error"))

/-- only format inference (skipped when `format_name` is given) and pure calls up to the
    unconditional plugin lookup -/
def lookupThenWrite (formatParam : String) : List Step → Bool
  | [] => false
  | s :: rest =>
    match s.eff with
    | .getPlugin _ => decide (s.cond = .always)
    | .inferFormat _ _ _ => decide (s.cond = .unlessTruthy formatParam) && lookupThenWrite formatParam rest
    | .pureCall _ => lookupThenWrite formatParam rest
    | _ => false

/-- the steps after the leading pure calls and the first effect -/
def afterFirst : List Step → List Step
  | [] => []
  | s :: rest =>
    match s.eff with
    | .pureCall _ => afterFirst rest
    | _ => rest

/-- table check 2: between the protection and the plugin lookup nothing can write -/
def lookupBeforeWrite (f : SaveFn) : Bool := lookupThenWrite f.formatParam (afterFirst f.steps)

/-- the steps after the first plugin lookup -/
def afterLookup : List Step → List Step
  | [] => []
  | s :: rest =>
    match s.eff with
    | .getPlugin _ => rest
    | _ => afterLookup rest

/-- only argument mutations and pure calls, then the unconditional plugin call -/
def callsPlugin : List Step → Bool
  | [] => false
  | s :: rest =>
    match s.eff with
    | .pluginCall _ => decide (s.cond = .always)
    | .mutateArg _ => callsPlugin rest
    | .pureCall _ => callsPlugin rest
    | _ => false

/-- table check 3: once the plugin is found it is called -/
def pluginAfterLookup (f : SaveFn) : Bool := callsPlugin (afterLookup (afterFirst f.steps))

/-! ### project-level writers with their own check -/

inductive GuardKind where
  | projectCreate      -- Project.create: exists ∧ ¬allow → FileExistsError; else write
  | generateModel      -- exists ∧ ignore → return; exists ∧ ¬allow → FileExistsError; else write
  | generateParameters -- same order as generateModel
  | importData         -- exists ∧ ignore ∧ ¬allow → return; then save_dataset(allow_overwrite=allow)
  deriving Repr, DecidableEq, Inhabited

inductive GuardOut where
  | written
  | skipped
  | refused     -- FileExistsError
  | failed (e : Err)
  deriving Repr, DecidableEq, Inhabited

/-- `content` stands for whatever the generator / plugin writes -/
def guardedWrite (k : GuardKind) (fs : FS) (p : Path) (allow ignore : Bool) (content : String) :
    FS × GuardOut :=
  let ex := pathExists fs p
  match k with
  | .projectCreate =>
    -- project_folder.mkdir(parents=True, exist_ok=True); check; write; Project.open → the four
    -- registries create their folders
    match mkdirP fs [] p.dropLast with
    | .error e => (fs, .failed e)
    | .ok fs1 =>
      if pathExists fs1 p && !allow then (fs1, .refused)
      else if isDir fs1 p then (fs1, .failed .isADirectory)
      else
        match mkdirAll (set fs1 p (.file content))
            (["data", "models", "parameters", "results"].map (fun s => p.dropLast ++ [s])) with
        | .error e => (set fs1 p (.file content), .failed e)
        | .ok fs3 => (fs3, .written)
  | .generateModel | .generateParameters =>
    if ex && ignore then (fs, .skipped)
    else if ex && !allow then (fs, .refused)
    else if isDir fs p then (fs, .failed .isADirectory)
    else (set fs p (.file content), .written)
  | .importData =>
    if ex && ignore && !allow then (fs, .skipped)
    else
      match protect fs p allow with
      | (fs', some .fileExists) => (fs', .refused)
      | (fs', some e) => (fs', .failed e)
      | (fs', none) =>
        if isDir fs' p then (fs', .failed .isADirectory)
        else (set fs' p (.file content), .written)

/-! ### the builtin result plugins after entry (`yml`, `folder`): which files they write

    The step lists are regenerated from `glotaran/builtin/io/yml/yml.py:YmlProjectIo.save_result` and
    `glotaran/builtin/io/folder/folder_plugin.py:FolderProjectIo.save_result` (`Generated.resultPlugins`).
    The writers of the single files (`Path.write_text`, `DataFrame.to_csv`, `write_dict`, the csv / netCDF /
    yml plugins behind the nested `save_*` calls) are parameters: `World.content` is what they put into the
    file they are given, `World.fail` lets any of them raise (before or after writing).  File names are
    single path components (dataset labels and format names without `/`). -/

/-- a piece of a file name as written in the source -/
inductive NamePart where
  | text (s : String)      -- literal text
  | label                  -- the dataset label of the enclosing `for label, dataset in result.data.items()`
  | paramFormat            -- `saving_options.parameter_format`
  | dataFormat             -- `saving_options.data_format`
  | other (src : String)   -- anything else
  deriving Repr, DecidableEq, Inhabited

/-- where a step of the plugin points to, relative to the call's `result_path` -/
inductive Target where
  | folder                            -- the result folder
  | resultFile                        -- the result file (`result.yml`)
  | inFolder (name : List NamePart)   -- `result_folder / <name>`
  | other (src : String)              -- an expression the extractor cannot place
  deriving Repr, DecidableEq, Inhabited

inductive PCond where
  | always
  | ifReport               -- `if saving_options.report:`
  | forEachLabel           -- body of `for label, dataset in result.data.items():`
  | maybe (id : Nat)
  deriving Repr, DecidableEq, Inhabited

inductive PEffect where
  | refuseIfFile (t : Target)                              -- `if t.is_file(): raise ValueError`
  | mkdir (t : Target)                                     -- `t.mkdir(parents=True, exist_ok=True)`
  | write (via : String) (t : Target) (allow : ArgRef)     -- a call that writes the file `t` (`allow` of a nested save_*)
  | delegate (fmt : String) (t : Target) (allow : ArgRef)  -- `save_result(result, t, format_name=fmt, allow_overwrite=allow)`
  | unknownCall (name : String)                            -- any other call that is not whitelisted as pure
  deriving Repr, DecidableEq, Inhabited

structure PStep where
  eff : PEffect
  cond : PCond
  deriving Repr, DecidableEq, Inhabited

structure ResultPlugin where
  /-- names under which the class is registered -/
  formats : List String
  cls : String
  file : String
  /-- `result_path` names the result file itself when its suffix is one of these, else the file is
      `result_path / defaultFile`; no suffixes: `result_path` is the result folder -/
  fileSuffixes : List String
  defaultFile : String
  steps : List PStep
  deriving Repr, DecidableEq, Inhabited

structure SaveOpts where
  /-- keys of `result.data`, in order -/
  labels : List String
  paramFormat : String
  dataFormat : String
  report : Bool
  deriving Repr, DecidableEq, Inhabited

structure World where
  /-- what the writer of a file puts into it -/
  content : Path → String
  /-- the writer of this file raises; `true`: after having written it -/
  fail : Path → Option (Err × Bool)
  unknown : String → FS → FS × Option Err

/-- does `result_path` name the result file? (`Path.suffix in [".yml", ".yaml"]`) -/
def namesFile (pl : ResultPlugin) (p : Path) : Bool := pl.fileSuffixes.contains (extOf (p.getLast?.getD ""))

def resultFolderOf (pl : ResultPlugin) (p : Path) : Path :=
  if pl.fileSuffixes.isEmpty then p else if namesFile pl p then p.dropLast else p

def resultFileOf (pl : ResultPlugin) (p : Path) : Path :=
  if pl.fileSuffixes.isEmpty then p else if namesFile pl p then p else p ++ [pl.defaultFile]

def renderPart (o : SaveOpts) (label : String) : NamePart → String
  | .text s => s
  | .label => label
  | .paramFormat => o.paramFormat
  | .dataFormat => o.dataFormat
  | .other _ => ""

def renderName (o : SaveOpts) (label : String) (parts : List NamePart) : String :=
  String.join (parts.map (renderPart o label))

def targetPath (pl : ResultPlugin) (o : SaveOpts) (p : Path) (label : String) : Target → Path
  | .folder => resultFolderOf pl p
  | .resultFile => resultFileOf pl p
  | .inFolder name => resultFolderOf pl p ++ [renderName o label name]
  | .other _ => []

/-- the pending loop body repeated for every label -/
def flushBody (o : SaveOpts) (body : List PEffect) : List (PEffect × String) :=
  o.labels.flatMap (fun l => body.map (fun e => (e, l)))

/-- the steps in execution order with the dataset label they run for: `if saving_options.report`
    resolved, every maximal block of loop-body steps (collected in `body`) repeated per label -/
def expandAux (o : SaveOpts) : List PStep → List PEffect → List (PEffect × String)
  | [], body => flushBody o body
  | s :: rest, body =>
    match s.cond with
    | .forEachLabel => expandAux o rest (body ++ [s.eff])
    | .ifReport =>
      flushBody o body ++ (if o.report then [(s.eff, "")] else []) ++ expandAux o rest []
    | _ => flushBody o body ++ (s.eff, "") :: expandAux o rest []

def expandSteps (o : SaveOpts) (steps : List PStep) : List (PEffect × String) := expandAux o steps []

/-- a writer is handed the path `q` -/
def writeAt (w : World) (fs : FS) (q : Path) : FS × Option Err :=
  if isDir fs q then (fs, some .isADirectory)
  else if !isDir fs q.dropLast then (fs, some (.other "FileNotFoundError"))
  else
    match w.fail q with
    | some (e, false) => (fs, some e)
    | some (e, true) => (set fs q (.file (w.content q)), some e)
    | none => (set fs q (.file (w.content q)), none)

def allowOf : ArgRef → Bool
  | .lit b => b
  | _ => false

/-- one step; `delegate fmt q fs` stands for the nested `save_result(…, format_name=fmt)` after its check -/
def runPEffect (delegate : String → Path → FS → FS × Option Err) (pl : ResultPlugin) (o : SaveOpts) (w : World)
    (p : Path) (eff : PEffect) (label : String) (fs : FS) : FS × Option Err :=
  match eff with
  | .refuseIfFile t => if isFile fs (targetPath pl o p label t) then (fs, some .valueError) else (fs, none)
  | .mkdir t =>
    match mkdirP fs [] (targetPath pl o p label t) with
    | .error e => (fs, some e)
    | .ok fs1 => (fs1, none)
  | .write via t allow =>
    let q := targetPath pl o p label t
    if "save_".toList.isPrefixOf via.toList then
      -- nested convenience function: the check first (it creates the parents), then the format's writer
      match protect fs q (allowOf allow) with
      | (fs1, some e) => (fs1, some e)
      | (fs1, none) => writeAt w fs1 q
    else writeAt w fs q
  | .delegate fmt t allow =>
    let q := targetPath pl o p label t
    match protect fs q (allowOf allow) with
    | (fs1, some e) => (fs1, some e)
    | (fs1, none) => delegate fmt q fs1
  | .unknownCall n => w.unknown n fs

/-- the steps in order; the first exception ends the call -/
def runPSteps (delegate : String → Path → FS → FS × Option Err) (pl : ResultPlugin) (o : SaveOpts) (w : World)
    (p : Path) : List (PEffect × String) → FS → FS × Option Err
  | [], fs => (fs, none)
  | (eff, label) :: rest, fs =>
    match runPEffect delegate pl o w p eff label fs with
    | (fs', some e) => (fs', some e)
    | (fs', none) => runPSteps delegate pl o w p rest fs'

def findPlugin (table : List ResultPlugin) (fmt : String) : Option ResultPlugin :=
  table.find? (fun x => x.formats.contains fmt)

/-- a plugin that is called from inside another one (`folder` from `yml`): no further nesting -/
def runInner (table : List ResultPlugin) (o : SaveOpts) (w : World) (fmt : String) (p : Path) (fs : FS) :
    FS × Option Err :=
  match findPlugin table fmt with
  | some pl => runPSteps (fun _ _ fs => (fs, some .valueError)) pl o w p (expandSteps o pl.steps) fs
  | none => (fs, some .valueError)

/-- `io.save_result(result, result_path, saving_options)` of the plugin registered for `fmt` -/
def runResultPlugin (table : List ResultPlugin) (o : SaveOpts) (w : World) (fmt : String) (p : Path) (fs : FS) :
    FS × Option Err :=
  match findPlugin table fmt with
  | some pl => runPSteps (runInner table o w) pl o w p (expandSteps o pl.steps) fs
  | none => (fs, some .valueError)

/-- the files one step is meant to write (`inner fmt q`: those of a nested plugin call) -/
def effTargets (inner : String → Path → List Path) (pl : ResultPlugin) (o : SaveOpts) (p : Path)
    (eff : PEffect) (label : String) : List Path :=
  match eff with
  | .write _ t _ => [targetPath pl o p label t]
  | .delegate fmt t _ => inner fmt (targetPath pl o p label t)
  | _ => []

/-- the files the steps are meant to write, in order -/
def stepTargets (inner : String → Path → List Path) (pl : ResultPlugin) (o : SaveOpts) (p : Path) :
    List (PEffect × String) → List Path
  | [] => []
  | (eff, label) :: rest => effTargets inner pl o p eff label ++ stepTargets inner pl o p rest

def innerFiles (table : List ResultPlugin) (o : SaveOpts) (fmt : String) (p : Path) : List Path :=
  match findPlugin table fmt with
  | some pl => stepTargets (fun _ _ => []) pl o p (expandSteps o pl.steps)
  | none => []

/-- every file `save_result(result, p, format_name=fmt, saving_options=o)` is meant to write -/
def resultFiles (table : List ResultPlugin) (o : SaveOpts) (fmt : String) (p : Path) : List Path :=
  match findPlugin table fmt with
  | some pl => stepTargets (innerFiles table o) pl o p (expandSteps o pl.steps)
  | none => []

/-! table checks on the regenerated plugin table -/

/-- the target is a file directly inside the result folder of plugin `pl` -/
def Target.isInside (pl : ResultPlugin) : Target → Bool
  | .inFolder name => name.all (fun x => match x with | .other _ => false | _ => true)
  | .resultFile => !pl.fileSuffixes.isEmpty
  | _ => false

/-- what a plugin that is called from another plugin may do: refuse / create its folder, write files of the folder -/
def PEffect.leafOk (pl : ResultPlugin) : PEffect → Bool
  | .refuseIfFile t => decide (t = .folder)
  | .mkdir t => decide (t = .folder)
  | .write _ t _ => t.isInside pl
  | .delegate _ _ _ => false
  | .unknownCall _ => false

def PCond.isExact : PCond → Bool
  | .maybe _ => false
  | _ => true

def innerOk (pl : ResultPlugin) : Bool :=
  pl.fileSuffixes.isEmpty && pl.steps.all (fun s => s.eff.leafOk pl && s.cond.isExact)

def stepOk (table : List ResultPlugin) (pl : ResultPlugin) : PEffect → Bool
  | .delegate fmt t _ =>
    decide (t = .folder) && (match findPlugin table fmt with
      | some pl' => innerOk pl'
      | none => false)
  | e => e.leafOk pl

/-- every step of the plugin is classified, unconditional up to `report` / the dataset loop, and points into the
    result folder; a nested plugin call goes to the result folder itself and to a plugin without further nesting -/
def wellPlaced (table : List ResultPlugin) (pl : ResultPlugin) : Bool :=
  pl.steps.all (fun s => stepOk table pl s.eff && s.cond.isExact) && !pl.fileSuffixes.contains ""

/-! ## (b) result runs -/

abbrev Name := List Char

/-- `str.__lt__`: lexicographic by code point -/
def lexLt : Name → Name → Bool
  | [], [] => false
  | [], _ :: _ => true
  | _ :: _, [] => false
  | a :: as, b :: bs =>
    if a.toNat < b.toNat then true
    else if a.toNat = b.toNat then lexLt as bs
    else false

/-- insert into a sorted list, after equal elements -/
def insertSorted (x : Name) : List Name → List Name
  | [] => [x]
  | y :: ys => if lexLt x y then x :: y :: ys else y :: insertSorted x ys

/-- `sorted(...)` -/
def isort : List Name → List Name
  | [] => []
  | x :: xs => insertSorted x (isort xs)

def runInfix : Name := ['_', 'r', 'u', 'n', '_']

/-- `\d` on ASCII names -/
def isDigit (c : Char) : Bool := 48 ≤ c.toNat && c.toNat ≤ 57

def digitVal (c : Char) : Nat := c.toNat - 48

/-- `f"{n:04}"`: the decimal digits of `n`, padded with zeros to at least four characters -/
def fmt4 (n : Nat) : Name :=
  let ds := Nat.toDigits 10 n
  List.replicate (4 - ds.length) '0' ++ ds

/-- `int(ds)` for a string of ASCII digits -/
def parseNat (ds : Name) : Nat := ds.foldl (fun acc c => 10 * acc + digitVal c) 0

def stripPrefix : Name → Name → Option Name
  | [], n => some n
  | _ :: _, [] => none
  | p :: ps, c :: cs => if p = c then stripPrefix ps cs else none

/-- `re.fullmatch(rf"{re.escape(base)}_run_(\d{{4,}})", n)` (run-10000 fix: four *or more* digits) -/
def isRunOf (base n : Name) : Bool :=
  match stripPrefix (base ++ runInfix) n with
  | some ds => decide (4 ≤ ds.length) && ds.all isDigit
  | none => false

/-- `int(name.replace(f"{base}_run_", ""))` for a name that `isRunOf base` -/
def runNumber (base n : Name) : Nat := parseNat (n.drop (base.length + 5))

def runName (base : Name) (k : Nat) : Name := base ++ runInfix ++ fmt4 k

inductive Kind where
  | run (payload : Nat)   -- folder holding a saved result (`result.yml` …); `payload` identifies it
  | emptyDir              -- folder without `result.yml`
  | file                  -- a plain file
  deriving Repr, DecidableEq, Inhabited

structure Entry where
  name : Name
  kind : Kind
  deriving Repr, DecidableEq, Inhabited

/-- listing of `<project>/results` -/
abbrev Dir := List Entry

def names (d : Dir) : List Name := d.map (·.name)

def kindOf (d : Dir) (n : Name) : Option Kind :=
  match d with
  | [] => none
  | e :: rest => if e.name = n then some e.kind else kindOf rest n

def setEntry (d : Dir) (n : Name) (k : Kind) : Dir := ⟨n, k⟩ :: d.filter (fun e => e.name ≠ n)

/-- `ProjectResultRegistry.is_item(directory / n)` = `is_dir()`; the empty name is the results
    folder itself -/
def isDirEntry (d : Dir) (n : Name) : Bool :=
  n.isEmpty || match kindOf d n with
  | some (.run _) => true
  | some .emptyDir => true
  | _ => false

/-- the order of `sorted(runs)` on the pairs `(int(match.group(1)), path)`: by run number, equal
    numbers (`a_run_0005` / `a_run_00005`) by name -/
def runLt (base a b : Name) : Bool :=
  decide (runNumber base a < runNumber base b) ||
    (decide (runNumber base a = runNumber base b) && lexLt a b)

/-- insert into a list sorted by `lt`, after equal elements -/
def insertBy (lt : Name → Name → Bool) (x : Name) : List Name → List Name
  | [] => [x]
  | y :: ys => if lt x y then x :: y :: ys else y :: insertBy lt x ys

/-- `sorted(...)` by the order `lt` -/
def isortBy (lt : Name → Name → Bool) : List Name → List Name
  | [] => []
  | x :: xs => insertBy lt x (isortBy lt xs)

/-- `previous_result_paths(base)`: the entries named `base_run_` + four or more digits, ordered by
    run number (run-10000 fix; before it: exactly four digits, ordered as strings) -/
def previous (d : Dir) (base : Name) : List Name := isortBy (runLt base) ((names d).filter (isRunOf base))

/-- `create_result_run_name(base)` -/
def createRunName (d : Dir) (base : Name) : Name :=
  match (previous d base).getLast? with
  | none => runName base 0
  | some l => runName base (runNumber base l + 1)

inductive SaveOut where
  | saved (rn : Name)
  | fileExists (rn : Name)     -- `result.yml` of that run exists: save_result refuses
  | blockedByFile (rn : Name)  -- a plain file has the run's name: the plugin fails, nothing is written
  deriving Repr, DecidableEq, Inhabited

/-- `ProjectResultRegistry.save(base, result)`: `save_result(result, dir/run_name/"result.yml",
    format_name="yml")` with the default `allow_overwrite=False` -/
def save (d : Dir) (base : Name) (payload : Nat) : Dir × SaveOut :=
  let rn := createRunName d base
  match kindOf d rn with
  | some (.run _) => (d, .fileExists rn)
  | some .file => (d, .blockedByFile rn)
  | _ => (setEntry d rn (.run payload), .saved rn)

/-- the ASCII digits at the end of a name -/
def trailingDigits (n : Name) : Name := (n.reverse.takeWhile isDigit).reverse

/-- `re.search(r"_run_\d{4,}$", n) is not None`: the name ends in `_run_` and four or more digits
    (the digits of a match reach the end of the name and are preceded by `_`, so they are all the
    trailing digits) -/
def endsWithRunSpecifier (n : Name) : Bool :=
  let k := (trailingDigits n).length
  decide (4 ≤ k) && decide (k + 5 ≤ n.length) && (n.drop (n.length - k - 5)).take 5 == runInfix

/-- `re.match(r".+_run_\d{4,}$", n) is not None`: a run specifier with at least one character in front -/
def hasRunSuffix (n : Name) : Bool :=
  endsWithRunSpecifier n && decide ((trailingDigits n).length + 6 ≤ n.length)

inductive Lookup where
  | found (n : Name) (warned : Bool)
  | notFound (shown : Name) (warned : Bool)   -- ValueError naming `shown`
  deriving Repr, DecidableEq, Inhabited

/-- `_latest_result_path_fallback(name, latest=latest)` -/
def fallback (d : Dir) (name : Name) (latest : Bool) : Lookup :=
  if hasRunSuffix name then
    if isDirEntry d name then .found name false else .notFound name false
  else
    let warned := !latest
    let name' := match (previous d name).getLast? with
      | some l => l
      | none => name
    if isDirEntry d name' then .found name' warned else .notFound name' warned

/-- `re.sub(r"_run_\d{4,}$", "", n)` -/
def stripRunSpecifier (n : Name) : Name :=
  if endsWithRunSpecifier n then n.take (n.length - (trailingDigits n).length - 5) else n

/-- `Project.get_latest_result_path(name)` / `load_latest_result(name)` -/
def getLatest (d : Dir) (name : Name) : Lookup := fallback d (stripRunSpecifier name) true

inductive Loaded where
  | loaded (n : Name) (payload : Nat) (warned : Bool)
  | broken (n : Name) (warned : Bool)          -- the folder exists but holds no result.yml
  | notFound (shown : Name) (warned : Bool)
  deriving Repr, DecidableEq, Inhabited

def loadFound (d : Dir) : Lookup → Loaded
  | .found n w =>
    match kindOf d n with
    | some (.run p) => .loaded n p w
    | _ => .broken n w
  | .notFound n w => .notFound n w

/-- `Project.load_result(name, latest=latest)` -/
def loadResult (d : Dir) (name : Name) (latest : Bool) : Loaded := loadFound d (fallback d name latest)

/-- `Project.load_latest_result(name)` -/
def loadLatest (d : Dir) (name : Name) : Loaded := loadFound d (getLatest d name)

/-- `Path.stem`: cut at the last dot unless it is the first or the last character -/
def stem (n : Name) : Name :=
  let tail := (n.reverse.takeWhile (· != '.')).length   -- characters after the last dot
  if n.contains '.' && decide (0 < tail) && decide (tail + 1 < n.length) then n.take (n.length - tail - 1) else n

def lookupKey (items : List (Name × Name)) (k : Name) : Option Name :=
  match items with
  | [] => none
  | (k', v) :: rest => if k' = k then some v else lookupKey rest k

def setKey (items : List (Name × Name)) (k v : Name) : List (Name × Name) :=
  if (lookupKey items k).isSome then items.map (fun e => if e.1 = k then (k, v) else e)
  else items ++ [(k, v)]

/-- loop of `ProjectRegistry.items` over the sorted directories: key = stem, a taken key makes the
    full name the key and warns -/
def itemsLoop : List Name → List (Name × Name) → Nat → List (Name × Name) × Nat
  | [], acc, w => (acc, w)
  | n :: rest, acc, w =>
    let key := stem n
    if (lookupKey acc key).isSome then itemsLoop rest (setKey acc n n) (w + 1)
    else itemsLoop rest (acc ++ [(key, n)]) w

/-- `Project.results`: (key, folder name) sorted by key, and the number of AmbiguousNameWarnings -/
def items (d : Dir) : List (Name × Name) × Nat :=
  let dirs := isort ((names d).filter (isDirEntry d))
  let r := itemsLoop dirs [] 0
  let keys := isort (r.1.map (·.1))
  (keys.filterMap (fun k => (lookupKey r.1 k).map (fun v => (k, v))), r.2)

/-! ## driver -/
open Glotaran.Proto

structure State where
  fs : FS := []
  dir : Dir := []

def showPath (p : Path) : String := showStrs p

def showNode : Node → String
  | .file c => s!"f,{encodeStr c}"
  | .dir => "d,~"

def pathLe (a b : Path) : Bool := decide (a ≤ b)

/-- canonical dump: entries sorted by path -/
def showFS (fs : FS) : String :=
  let sorted := fs.mergeSort (fun a b => pathLe a.1 b.1)
  showList (sorted.map (fun e => s!"[{showPath e.1},{showNode e.2}]"))

def showErr : Err → String
  | .fileExists => "FileExistsError"
  | .notADirectory => "NotADirectoryError"
  | .isADirectory => "IsADirectoryError"
  | .valueError => "ValueError"
  | .notImplemented => "NotImplementedError"
  | .other t => s!"other:{encodeStr t}"

def showOutcome : Option Err → String
  | none => "ok"
  | some e => showErr e

def parseErr (s : String) : Option Err :=
  match s with
  | "FileExistsError" => some .fileExists
  | "NotADirectoryError" => some .notADirectory
  | "IsADirectoryError" => some .isADirectory
  | "ValueError" => some .valueError
  | "NotImplementedError" => some .notImplemented
  | _ => if s.startsWith "other:" then some (.other (decodeStr (String.ofList (s.toList.drop 6)))) else none

def parseNode (k c : Tree) : Option Node := do
  match ← k.raw? with
  | "f" => some (.file (← c.str?))
  | "d" => some .dir
  | _ => none

def parseFS (t : Tree) : Option FS := do
  let entries ← t.items?
  entries.mapM (fun e => do
    match ← e.items? with
    | [p, k, c] => some (← p.strs?, ← parseNode k c)
    | _ => none)

/-- scripted plugin: file-system operations in order, then an optional exception -/
inductive FsOp where
  | write (p : Path) (c : String)   -- parents are created, the entry becomes a file
  | mkdir (p : Path)
  | fail (e : Err)
  deriving Repr

def applyOps : List FsOp → FS → FS × Option Err
  | [], fs => (fs, none)
  | .write p c :: rest, fs =>
    match mkdirP fs [] p.dropLast with
    | .error e => (fs, some e)
    | .ok fs1 => if isDir fs1 p then (fs1, some .isADirectory) else applyOps rest (set fs1 p (.file c))
  | .mkdir p :: rest, fs =>
    match mkdirP fs [] p with
    | .error e => (fs, some e)
    | .ok fs1 => applyOps rest fs1
  | .fail e :: _, fs => (fs, some e)

def parseOps (t : Tree) : Option (List FsOp) := do
  let ops ← t.items?
  ops.mapM (fun o => do
    match ← o.items? with
    | [.atom "w", p, c] => some (.write (← p.strs?) (← c.str?))
    | [.atom "mk", p] => some (.mkdir (← p.strs?))
    | [.atom "raise", e] => some (.fail (← parseErr (← e.raw?)))
    | _ => none)

def parseGuardKind (s : String) : Option GuardKind :=
  match s with
  | "create" => some .projectCreate
  | "genmodel" => some .generateModel
  | "genparams" => some .generateParameters
  | "import" => some .importData
  | _ => none

def showGuardOut : GuardOut → String
  | .written => "written"
  | .skipped => "skipped"
  | .refused => "FileExistsError"
  | .failed e => s!"failed:{showErr e}"

def showName (n : Name) : String := encodeStr (String.ofList n)
def showNames (ns : List Name) : String := showList (ns.map showName)

def parseName (t : Tree) : Option Name := t.str?.map String.toList

def parseKind (k p : Tree) : Option Kind := do
  match ← k.raw? with
  | "run" => some (.run (← p.nat?))
  | "empty" => some .emptyDir
  | "file" => some .file
  | _ => none

def showKind : Kind → String
  | .run p => s!"run,{p}"
  | .emptyDir => "empty,0"
  | .file => "file,0"

def parseDir (t : Tree) : Option Dir := do
  let es ← t.items?
  es.mapM (fun e => do
    match ← e.items? with
    | [n, k, p] => some ⟨← parseName n, ← parseKind k p⟩
    | _ => none)

def showDir (d : Dir) : String :=
  let ns := isort (names d)
  showList (ns.map (fun n => s!"[{showName n},{showOpt showKind (kindOf d n)}]"))

def showLookup : Lookup → String
  | .found n w => s!"found {showName n} {showBool w}"
  | .notFound n w => s!"err {showName n} {showBool w}"

def showLoaded : Loaded → String
  | .loaded n p w => s!"loaded {showName n} {p} {showBool w}"
  | .broken n w => s!"broken {showName n} {showBool w}"
  | .notFound n w => s!"err {showName n} {showBool w}"

def showSaveOut : SaveOut → String
  | .saved rn => s!"saved {showName rn}"
  | .fileExists rn => s!"FileExistsError {showName rn}"
  | .blockedByFile rn => s!"blocked {showName rn}"

def showStep (s : Step) : String :=
  let c := match s.cond with
    | .always => "always"
    | .unlessTruthy p => s!"unless:{encodeStr p}"
    | .maybe i => s!"maybe:{i}"
  let a : ArgRef → String := fun
    | .param n => s!"param:{encodeStr n}"
    | .lit b => s!"lit:{showBool b}"
    | .absent => "absent"
    | .other s => s!"other:{encodeStr s}"
  let e := match s.eff with
    | .protect p al => s!"protect,{a p},{a al}"
    | .inferFormat p n f => s!"infer,{a p},{showBool n},{showBool f}"
    | .getPlugin r => s!"getplugin,{encodeStr r}"
    | .pluginCall m => s!"plugin,{encodeStr m}"
    | .mutateArg t => s!"mutate,{encodeStr t}"
    | .pureCall n => s!"pure,{encodeStr n}"
    | .raises x => s!"raise,{encodeStr x}"
    | .unknownCall n => s!"unknown,{encodeStr n}"
  s!"[{e},{c}]"

def showArgRef : ArgRef → String
  | .param n => s!"param:{encodeStr n}"
  | .lit b => s!"lit:{showBool b}"
  | .absent => "absent"
  | .other s => s!"other:{encodeStr s}"

def showTarget : Target → String
  | .folder => "folder"
  | .resultFile => "file"
  | .inFolder parts => "in:" ++ showList (parts.map (fun
      | .text s => s!"text:{encodeStr s}"
      | .label => "label"
      | .paramFormat => "paramFormat"
      | .dataFormat => "dataFormat"
      | .other s => s!"other:{encodeStr s}"))
  | .other s => s!"other:{encodeStr s}"

def showPStep (s : PStep) : String :=
  let c := match s.cond with
    | .always => "always"
    | .ifReport => "ifReport"
    | .forEachLabel => "forEachLabel"
    | .maybe i => s!"maybe:{i}"
  let e := match s.eff with
    | .refuseIfFile t => s!"refuse,{showTarget t}"
    | .mkdir t => s!"mkdir,{showTarget t}"
    | .write via t a => s!"write,{encodeStr via},{showTarget t},{showArgRef a}"
    | .delegate fmt t a => s!"delegate,{encodeStr fmt},{showTarget t},{showArgRef a}"
    | .unknownCall n => s!"unknown,{encodeStr n}"
  s!"[{e},{c}]"

def showPlugin (pl : ResultPlugin) : String :=
  s!"[{showStrs pl.formats},{encodeStr pl.cls},{showStrs pl.fileSuffixes},{encodeStr pl.defaultFile}," ++
  s!"{showList (pl.steps.map showPStep)}]"

/-- scripted failures of the single-file writers: `[path, error, wrote-first]` -/
def parseFails (t : Tree) : Option (List (Path × Err × Bool)) := do
  let fs ← t.items?
  fs.mapM (fun f => do
    match ← f.items? with
    | [p, e, b] => some (← p.strs?, ← parseErr (← e.raw?), ← b.bool?)
    | _ => none)

def lookupFail (fails : List (Path × Err × Bool)) (q : Path) : Option (Err × Bool) :=
  match fails with
  | [] => none
  | (p, e, b) :: rest => if p = q then some (e, b) else lookupFail rest q

def showSaveFn (f : SaveFn) : String :=
  s!"[{encodeStr f.name},{encodeStr f.module},{encodeStr f.pathParam},{encodeStr f.allowParam}," ++
  s!"{encodeStr f.formatParam},{showBool f.allowDefault},{showStrs f.decorators}," ++
  s!"{showList (f.steps.map showStep)}]"

/-- protocol (one answer line per line):
    * `table`                                   → the regenerated SaveFns table, canonical text
    * `plugins`                                 → the regenerated ResultPlugins table, canonical text
    * `result-files <fmt> <path> <labels> <param fmt> <data fmt> <report>` → the files the plugin is meant to write
    * `save-result <path> <allow> <format|none> <known formats> <labels> <param fmt> <data fmt> <report> <fails>`
                                                → `<outcome> <fs>` (save_result with the modelled builtin plugin)
    * `fs-reset <fs>`                           → `ok`
    * `protect <path> <allow>`                  → `<outcome> <fs>`
    * `save <fn> <path> <allow> <format|none> <known formats> <ops> <maybe conds>` → `<outcome> <fs>`
    * `guarded <kind> <path> <allow> <ignore> <content>` → `<outcome> <fs>`
    * `infer <path> <needs> <folder>`           → `fmt <f>` | `ValueError`
    * `reg-reset <dir>` → `ok`;  `reg-dump` → `<dir>`
    * `reg-previous <base>` → names;  `reg-create <base>` → name
    * `reg-save <base> <payload>` → outcome;  `reg-path <name> <latest>`, `reg-latest <name>` → lookup
    * `reg-load <name> <latest>`, `reg-load-latest <name>` → loaded payload;  `reg-mk <name> <kind> <payload>` → `ok`
    * `reg-items` → `[[key,name],…] <warnings>` -/
def driverStepBase (table : List SaveFn) (plugins : List ResultPlugin) (st : State) (ts : List Tree) : State × String :=
  match ts with
  | [.atom "table"] => (st, showList (table.map showSaveFn))
  | [.atom "plugins"] => (st, showList (plugins.map showPlugin))
  | [.atom "result-files", fmt, p, labels, pf, df, report] =>
    let parsed : Option (List Path) := do
      let o : SaveOpts := { labels := ← labels.strs?, paramFormat := ← pf.str?, dataFormat := ← df.str?, report := ← report.bool? }
      some (resultFiles plugins o (← fmt.str?) (← p.strs?))
    match parsed with
    | some l => (st, showList ((l.mergeSort pathLe).map showPath))
    | none => (st, "bad-op")
  | [.atom "save-result", p, a, fmt, known, labels, pf, df, report, fails] =>
    -- the real `save_result` entry (table) with the modelled builtin plugin behind it; written files hold "W"
    let parsed : Option (SaveFn × Env) := do
      let f ← table.find? (fun f => f.name == "save_result")
      let path ← p.strs?
      let formatName ← fmt.optOf? Tree.str?
      let o : SaveOpts := { labels := ← labels.strs?, paramFormat := ← pf.str?, dataFormat := ← df.str?, report := ← report.bool? }
      let fails ← parseFails fails
      let w : World := { content := fun _ => "W", fail := lookupFail fails, unknown := fun n fs => (fs, some (.other n)) }
      let env : Env := {
        path := path, allow := ← a.bool?, formatName := formatName,
        known := ← known.strs?,
        plugin := fun _ fs =>
          let eff := if truthy formatName then formatName.getD "" else
            match inferFormat fs path false true with
            | .ok x => x
            | .error _ => ""
          runResultPlugin plugins o w eff path fs,
        unknown := fun n fs => (fs, some (.other n)),
        maybeHolds := fun _ => true,
        otherBool := fun _ => false, otherPath := fun _ => [] }
      some (f, env)
    match parsed with
    | some (f, env) =>
      let r := runSave f env st.fs
      ({ st with fs := r.1 }, s!"{showOutcome r.2} {showFS r.1}")
    | none => (st, "bad-op")
  | [.atom "fs-reset", t] =>
    match parseFS t with
    | some fs => ({ st with fs := fs }, "ok")
    | none => (st, "bad-op")
  | [.atom "protect", p, a] =>
    match p.strs?, a.bool? with
    | some p, some a =>
      let r := protect st.fs p a
      ({ st with fs := r.1 }, s!"{showOutcome r.2} {showFS r.1}")
    | _, _ => (st, "bad-op")
  | [.atom "save", fn, p, a, fmt, known, ops, conds] =>
    let parsed : Option (SaveFn × Env) := do
      let name ← fn.str?
      let f ← table.find? (fun f => f.name == name)
      let ops ← parseOps ops
      let conds ← conds.listOf? Tree.bool?
      let env : Env := {
        path := ← p.strs?, allow := ← a.bool?, formatName := ← fmt.optOf? Tree.str?,
        known := ← known.strs?,
        plugin := fun _ fs => applyOps ops fs,
        unknown := fun n fs => (fs, some (.other n)),
        maybeHolds := fun i => conds.getD i true,
        otherBool := fun _ => false, otherPath := fun _ => [] }
      some (f, env)
    match parsed with
    | some (f, env) =>
      let r := runSave f env st.fs
      ({ st with fs := r.1 }, s!"{showOutcome r.2} {showFS r.1}")
    | none => (st, "bad-op")
  | [.atom "guarded", k, p, a, i, c] =>
    let parsed : Option (GuardKind × Path × Bool × Bool × String) := do
      some (← parseGuardKind (← k.raw?), ← p.strs?, ← a.bool?, ← i.bool?, ← c.str?)
    match parsed with
    | some (k, p, a, i, c) =>
      let r := guardedWrite k st.fs p a i c
      ({ st with fs := r.1 }, s!"{showGuardOut r.2} {showFS r.1}")
    | none => (st, "bad-op")
  | [.atom "infer", p, n, f] =>
    match p.strs?, n.bool?, f.bool? with
    | some p, some n, some f =>
      match inferFormat st.fs p n f with
      | .ok fmt => (st, s!"fmt {encodeStr fmt}")
      | .error e => (st, showErr e)
    | _, _, _ => (st, "bad-op")
  | [.atom "reg-reset", t] =>
    match parseDir t with
    | some d => ({ st with dir := d }, "ok")
    | none => (st, "bad-op")
  | [.atom "reg-dump"] => (st, showDir st.dir)
  | [.atom "reg-previous", b] =>
    match parseName b with
    | some b => (st, showNames (previous st.dir b))
    | none => (st, "bad-op")
  | [.atom "reg-create", b] =>
    match parseName b with
    | some b => (st, s!"name {showName (createRunName st.dir b)}")
    | none => (st, "bad-op")
  | [.atom "reg-save", b, p] =>
    match parseName b, p.nat? with
    | some b, some p =>
      let r := save st.dir b p
      ({ st with dir := r.1 }, showSaveOut r.2)
    | _, _ => (st, "bad-op")
  | [.atom "reg-path", n, l] =>
    match parseName n, l.bool? with
    | some n, some l => (st, showLookup (fallback st.dir n l))
    | _, _ => (st, "bad-op")
  | [.atom "reg-latest", n] =>
    match parseName n with
    | some n => (st, showLookup (getLatest st.dir n))
    | none => (st, "bad-op")
  | [.atom "reg-load", n, l] =>
    match parseName n, l.bool? with
    | some n, some l => (st, showLoaded (loadResult st.dir n l))
    | _, _ => (st, "bad-op")
  | [.atom "reg-load-latest", n] =>
    match parseName n with
    | some n => (st, showLoaded (loadLatest st.dir n))
    | none => (st, "bad-op")
  | [.atom "reg-mk", n, k, p] =>
    match parseName n, parseKind k p with
    | some n, some k => ({ st with dir := setEntry st.dir n k }, "ok")
    | _, _ => (st, "bad-op")
  | [.atom "reg-items"] =>
    let r := items st.dir
    (st, s!"{showList (r.1.map (fun e => s!"[{showName e.1},{showName e.2}]"))} {r.2}")
  | _ => (st, "bad-op")

end Glotaran.C18
