/-
C01 — the linear sub-problem is solved optimally (variable projection and NNLS).

Executable model over exact rationals of
  glotaran/optimization/variable_projection.py : residual_variable_projection
  glotaran/optimization/nnls.py                : residual_nnls
  glotaran/optimization/estimation_provider.py : SUPPORTED_RESIUDAL_FUNCTIONS,
                                                 EstimationProvider.__init__ / calculate_residual

External numerical routines are *parameters*:
  `dgeqrf : Mat → Mat × Vec`   LAPACK's compact Householder QR: the array `qr` (R in the upper triangle,
                               the Householder vectors below the diagonal) and the scalars `tau`;
  `nnls   : Mat → Vec → Vec`   `scipy.optimize.nnls`.
What the code does *with* the factorisation is modelled step by step (all of it is rational
arithmetic: applying a reflector `H = I − τ v vᵀ` needs no square root):
  dormqr('L','T')  = `applyQT`   (H_k … H_1 x, H_1 first)
  dtrtrs           = `trtrs`     (back substitution on the leading n×n upper triangle; an exactly zero
                                  diagonal makes LAPACK return its input unchanged with info > 0,
                                  which the code ignores)
  the zeroing loop = `zeroFirst`
  dormqr('L','N')  = `applyQ`    (H_1 … H_k x, H_k first)
Matrices are lists of rows (`Glotaran.LinAlg`).
-/
import GlotaranModel.Proto
import GlotaranModel.LinAlg
import GlotaranModel.Generated.C01
namespace Glotaran.C01
open Glotaran.LinAlg

/-! ### LAPACK's compact Householder form -/

/-- Householder vector `v_i` stored in column `i` of `qr`: zeros above the diagonal position, an
    implicit 1 on it, the stored entries below it -/
def hvec (qr : Mat) (i : Nat) : Vec :=
  (List.range qr.length).map (fun k =>
    if k < i then 0 else if k = i then 1 else (qr.getD k []).getD i 0)

/-- the elementary reflectors `(v_i, τ_i)`, `i = 0 … k-1`, `k = len(tau)` -/
def reflectors (qr : Mat) (tau : Vec) : List (Vec × Rat) :=
  (List.range tau.length).map (fun i => (hvec qr i, tau.getD i 0))

/-- `H x = x − τ (v·x) v` -/
def reflect (h : Vec × Rat) (x : Vec) : Vec := vsub x (vscale (h.2 * dot h.1 x) h.1)

/-- `dormqr('L','T', qr, tau, x)`: `Qᵀ x = H_k … H_1 x` -/
def applyQT (hs : List (Vec × Rat)) (x : Vec) : Vec := hs.foldl (fun acc h => reflect h acc) x

/-- `dormqr('L','N', qr, tau, x)`: `Q x = H_1 … H_k x` -/
def applyQ (hs : List (Vec × Rat)) (x : Vec) : Vec := hs.foldr (fun h acc => reflect h acc) x

/-- rows of the leading `n × n` upper triangle of `qr`, each from its diagonal entry on -/
def upperRows (qr : Mat) (n : Nat) : List Vec :=
  (List.range n).map (fun i => ((qr.getD i []).drop i).take (n - i))

/-- back substitution: row `u = [r_ii, r_i,i+1, …]`, `x_i = (b_i − Σ_{j>i} r_ij x_j) / r_ii` -/
def backSubst : List Vec → Vec → Vec
  | [], _ => []
  | u :: us, b =>
    let x := backSubst us b.tail
    ((b.headD 0 - dot u.tail x) / u.headD 0) :: x

/-- `dtrtrs(qr, b)` (upper, no transpose, non-unit diagonal) on the leading `n × n` block: the first
    `n` entries of `b` are replaced by the solution, the others are left alone.  LAPACK tests the
    diagonal for exact zeros first and then returns `b` untouched (`info > 0`; the code drops `info`). -/
def trtrs (qr : Mat) (n : Nat) (b : Vec) : Vec :=
  let us := upperRows qr n
  if us.any (fun u => u.headD 0 == 0) then b else backSubst us (b.take n) ++ b.drop n

/-- `for i in range(n): temp[i] = 0` -/
def zeroFirst (n : Nat) (v : Vec) : Vec := zeros (min n v.length) ++ v.drop n

/-! ### the two residual functions -/

/-- `residual_variable_projection(matrix, data)` with LAPACK's `dgeqrf` as a parameter -/
def residualVP (dgeqrf : Mat → Mat × Vec) (matrix : Mat) (data : Vec) : Vec × Vec :=
  let n := ncols matrix
  -- `if matrix.shape[1] == 0: return zeros(0), array(data)`
  if n = 0 then ([], data) else
  let (qr, tau) := dgeqrf matrix
  let hs := reflectors qr tau
  let temp := applyQT hs data
  let clp := trtrs qr n temp
  let temp := zeroFirst n temp
  let residual := applyQ hs temp
  (clp.take n, residual)

/-- `np.max(np.abs(v), initial=0.0)` -/
def maxAbs (v : Vec) : Rat := v.foldl (fun acc x => max acc (if x < 0 then -x else x)) 0

/-- `s = np.max(np.abs(.), initial=0.0); if s == 0: s = 1.0` -/
def scaleOf (v : Vec) : Rat := if maxAbs v == 0 then 1 else maxAbs v

/-- `column_scales = np.max(np.abs(matrix), axis=0, initial=0.0); column_scales[column_scales == 0] = 1.0` -/
def columnScales (matrix : Mat) : Vec := (List.range (ncols matrix)).map (fun j => scaleOf (col matrix j))

/-- `matrix / column_scales` (broadcast over rows) -/
def scaleColumns (matrix : Mat) (cs : Vec) : Mat := matrix.map (fun r => List.zipWith (· / ·) r cs)

/-- `residual_nnls(matrix, data)` with `scipy.optimize.nnls` as a parameter.  `none` = the solver
    raised (`RuntimeError("Maximum number of iterations reached.")`), which the code lets propagate.
    The solver sees the problem in normalised units (data and every column of maximum magnitude 1),
    the clp are scaled back, the residual is computed from the original data and matrix. -/
def residualNNLS (nnls : Mat → Vec → Option Vec) (matrix : Mat) (data : Vec) : Option (Vec × Vec) :=
  let dataScale := scaleOf data
  let columnScales := columnScales matrix
  match nnls (scaleColumns matrix columnScales) (data.map (· / dataScale)) with
  | none => none
  | some x =>
    let clp := List.zipWith (fun xi ci => xi * (dataScale / ci)) x columnScales
    some (clp, vsub data (mulVec matrix clp))

/-! ### dispatch (`SUPPORTED_RESIUDAL_FUNCTIONS`, `EstimationProvider.__init__`, `calculate_residual`) -/

inductive Kernel where
  | vp | nnls
  deriving Repr, DecidableEq

/-- which modelled kernel a function object of the table is -/
def kernelOfFunction (modName fnName : String) : Option Kernel :=
  if modName == "glotaran.optimization.variable_projection" && fnName == "residual_variable_projection"
  then some .vp
  else if modName == "glotaran.optimization.nnls" && fnName == "residual_nnls" then some .nnls
  else none

inductive Dispatch where
  | ok (k : Kernel)
  /-- `KeyError` → `UnsupportedResidualFunctionError` -/
  | unsupported
  /-- the table names a function this model does not know -/
  | unmodelled
  deriving Repr, DecidableEq

/-- `SUPPORTED_RESIUDAL_FUNCTIONS[dataset_group.residual_function]` -/
def dispatch (table : List (String × String × String)) (key : String) : Dispatch :=
  match table.find? (fun e => e.1 == key) with
  | none => .unsupported
  | some e =>
    match kernelOfFunction e.2.1 e.2.2 with
    | some k => .ok k
    | none => .unmodelled

/-- `EstimationProvider.calculate_residual` after `__init__` picked the kernel (`none` = raised) -/
def calculateResidual (k : Kernel) (dgeqrf : Mat → Mat × Vec) (nnls : Mat → Vec → Option Vec)
    (matrix : Mat) (data : Vec) : Option (Vec × Vec) :=
  match k with
  | .vp => some (residualVP dgeqrf matrix data)
  | .nnls => residualNNLS nnls matrix data

/-! ### executable hypotheses and certificates (evaluated exactly by the driver) -/

/-- `H = I − τ v vᵀ` is orthogonal iff `τ (2 − τ v·v) = 0` -/
def reflectorOK (h : Vec × Rat) : Bool := h.2 * (2 - h.2 * dot h.1 h.1) == 0

/-- `[R; 0]` (m × n): the upper triangle of the leading block of `qr`, zeros elsewhere -/
def rFull (qr : Mat) (n : Nat) : Mat :=
  (List.range qr.length).map (fun i => (List.range n).map (fun j =>
    if i ≤ j then (qr.getD i []).getD j 0 else 0))

/-- shapes: `a` is m × n, `qr` is m × n, `tau` has min(m, n) entries, n ≤ m -/
def shapesOK (qr : Mat) (tau : Vec) (a : Mat) : Bool :=
  let n := ncols a
  a.all (fun r => r.length == n) && qr.length == a.length && qr.all (fun r => r.length == n) &&
  tau.length == n && n ≤ a.length

/-- `(qr, tau)` is an exact Householder QR factorisation of `a`: every reflector is orthogonal and
    `Qᵀ a = [R; 0]` column by column -/
def isQRof (qr : Mat) (tau : Vec) (a : Mat) : Bool :=
  let n := ncols a
  let hs := reflectors qr tau
  shapesOK qr tau a && hs.all reflectorOK &&
  (List.range n).all (fun j => applyQT hs (col a j) == col (rFull qr n) j)

/-- `R` has no zero on its diagonal (full column rank) -/
def diagNonzero (qr : Mat) (n : Nat) : Bool :=
  (List.range n).all (fun i => (qr.getD i []).getD i 0 != 0)

/-- `r − (y − A c)` -/
def residualDefect (a : Mat) (y c r : Vec) : Vec := vsub r (residual a y c)

/-- everything the tolerance tests of regime R need, exactly:
    ‖r − (y − A c)‖², Aᵀ(y − A c), Aᵀ r, ‖y‖², ‖A‖_F², ‖c‖², c ≥ 0 -/
structure Cert where
  defectSq : Rat
  grad : Vec
  atr : Vec
  ySq : Rat
  aSq : Rat
  cSq : Rat
  cNonneg : Bool
  shapes : Bool

def cert (a : Mat) (y c r : Vec) : Cert :=
  { defectSq := sumSq (residualDefect a y c r)
    grad := gradient a y c
    atr := mulVec (transpose a (ncols a)) r
    ySq := sumSq y
    aSq := (a.map sumSq).foldl (· + ·) 0
    cSq := sumSq c
    cNonneg := c.all (0 ≤ ·)
    shapes := c.length == ncols a && r.length == a.length && y.length == a.length }

/-! ### driver -/
open Glotaran.Proto

structure DState where
  a : Mat := []
  y : Vec := []

def showMat (m : Mat) : String := showList (m.map showRats)

def showPair (p : Vec × Vec) : String := showRats p.1 ++ " " ++ showRats p.2

def driverStep (s : DState) (ts : List Tree) : DState × String :=
  match ts with
  | [.atom "set", a, y] =>
    match a.ratss?, y.rats? with
    | some a, some y => ({ a := a, y := y }, "ok")
    | _, _ => (s, "bad-op")
  -- residual_variable_projection with dgeqrf := the given (qr, tau)
  | [.atom "vp", qr, tau] =>
    match qr.ratss?, tau.rats? with
    | some qr, some tau =>
      let out := residualVP (fun _ => (qr, tau)) s.a s.y
      (s, "vp " ++ showPair out ++ " " ++ showBool (isQRof qr tau s.a) ++ " " ++
        showBool (diagNonzero qr (ncols s.a)) ++ " " ++ showBool (isNormalSol s.a s.y out.1))
    | _, _ => (s, "bad-op")
  -- exact least squares through the normal equations (independent of any factorisation)
  | [.atom "ls"] =>
    match lsExact s.a s.y with
    | some c => (s, "ls " ++ showPair (c, residual s.a s.y c))
    | none => (s, "ls none")
  -- residual_nnls with nnls := exact support enumeration
  | [.atom "nnls"] =>
    match residualNNLS nnlsExact s.a s.y with
    | some out => (s, "nnls " ++ showPair out)
    | none => (s, "nnls none")
  -- residual_nnls with nnls := exact least squares on a given support, certified by isKKT
  | [.atom "nnls-on", sup] =>
    match sup.nats? with
    | some sup =>
      let solver : Mat → Vec → Option Vec := fun a y =>
        (lsExact (selectCols a sup) y).map (scatter (ncols a) sup)
      match residualNNLS solver s.a s.y with
      | some out => (s, "nnls-on " ++ showPair out ++ " " ++ showBool (isKKT s.a s.y out.1))
      | none => (s, "nnls-on none")
    | none => (s, "bad-op")
  | [.atom "cert", c, r] =>
    match c.rats?, r.rats? with
    | some c, some r =>
      let k := cert s.a s.y c r
      (s, "cert " ++ showRat k.defectSq ++ " " ++ showRats k.grad ++ " " ++ showRats k.atr ++ " " ++
        showRat k.ySq ++ " " ++ showRat k.aSq ++ " " ++ showRat k.cSq ++ " " ++ showBool k.cNonneg ++ " " ++
        showBool k.shapes)
    | _, _ => (s, "bad-op")
  | [.atom "dispatch", key] =>
    match key.str? with
    | some k =>
      match dispatch Generated.residualFunctions k with
      | .ok .vp => (s, "kernel vp")
      | .ok .nnls => (s, "kernel nnls")
      | .unsupported => (s, "unsupported")
      | .unmodelled => (s, "unmodelled")
    | none => (s, "bad-op")
  | [.atom "default-key"] => (s, "key " ++ encodeStr Generated.defaultResidualFunction)
  -- EstimationProvider(group).calculate_residual(matrix, data): dispatch, then the kernel
  | [.atom "calc", key, qr, tau] =>
    match key.str?, qr.ratss?, tau.rats? with
    | some k, some qr, some tau =>
      match dispatch Generated.residualFunctions k with
      | .ok kern =>
        match calculateResidual kern (fun _ => (qr, tau)) nnlsExact s.a s.y with
        | some out => (s, "calc " ++ showPair out)
        | none => (s, "calc none")
      | .unsupported => (s, "unsupported")
      | .unmodelled => (s, "unmodelled")
    | _, _, _ => (s, "bad-op")
  | _ => (s, "bad-op")

end Glotaran.C01
