/-
C09 — CLP linking aligns global axes faithfully
(glotaran/optimization/data_provider.py : DataProviderLinked, after fix D2;
glotaran/optimization/estimation_provider.py : EstimationProviderLinked.get_result, residual part, after fix D27).

Model of `align_index`, `create_aligned_global_axes`, `align_data`, `align_dataset_indices`,
`align_groups`, `align_weights` over exact rationals.  A dataset is its label, its global
axis, the size of its model axis, its data as a list of columns (one per global index) and
an optional weight of the same shape.  xarray's outer-join `concat` along the aligned
coordinate is a *parameter of trust*: it is modelled as "sorted union of the coordinates,
every dataset contributes at the coordinate values it has" (`alignedAxis`, `members`).
`np.unique` is `unique` (sort + remove duplicates), `np.argmin` is the first minimum.
-/
import GlotaranModel.Proto
namespace Glotaran.C09

inductive Method where
  | nearest | backward | forward
  deriving Repr, DecidableEq, Inhabited

/-- `np.abs` on one number -/
def absR (r : Rat) : Rat := if r < 0 then -r else r

/-- the side filter on `diff = target - index`:
    forward keeps `diff >= 0`, backward keeps `diff <= 0`, nearest keeps everything -/
def keep : Method → Rat → Bool
  | .nearest, _ => true
  | .backward, d => decide (d ≤ 0)
  | .forward, d => decide (0 ≤ d)

/-- `(target_axis[mask], diff[mask])` as a list of pairs (the same mask is applied to both) -/
def candidates (m : Method) (target : List Rat) (x : Rat) : List (Rat × Rat) :=
  (target.map (fun t => (t, t - x))).filter (fun p => keep m p.2)

/-- `np.argmin(np.abs(diff))` on the paired list: the first pair with minimal `|diff|` -/
def firstMin : List (Rat × Rat) → Option (Rat × Rat)
  | [] => none
  | p :: ps =>
    match firstMin ps with
    | none => some p
    | some b => if absR p.2 ≤ absR b.2 then some p else some b

/-- `DataProviderLinked.align_index(index, target_axis, tolerance, method)` -/
def alignIndex (x : Rat) (target : List Rat) (tol : Rat) (m : Method) : Rat :=
  match firstMin (candidates m target x) with
  | none => x                                   -- len(diff) == 0
  | some b => if absR b.2 ≤ tol then b.1 else x   -- diff.min() <= tolerance

/-- insertion into a strictly increasing list -/
def insertU (x : Rat) : List Rat → List Rat
  | [] => [x]
  | y :: ys => if x < y then x :: y :: ys else if x = y then y :: ys else y :: insertU x ys

/-- `np.unique`: sorted, duplicates removed -/
def unique (l : List Rat) : List Rat := l.foldr insertU []

/-- `len(np.unique(a)) != len(a)` -/
def hasDup (l : List Rat) : Bool := (unique l).length != l.length

/-- the loop of `create_aligned_global_axes`; `acc` is `aligned_axis_values`
    (`none` before the first dataset); result `none` = `AlignDatasetError` -/
def alignLoop (tol : Rat) (m : Method) : Option (List Rat) → List (List Rat) → Option (List (List Rat))
  | _, [] => some []
  | none, ax :: rest => (alignLoop tol m (some ax) rest).map (ax :: ·)
  | some acc, ax :: rest =>
    let al := ax.map (fun x => alignIndex x acc tol m)
    if hasDup al then none
    else (alignLoop tol m (some (unique (acc ++ al))) rest).map (al :: ·)

/-- `create_aligned_global_axes`: one aligned axis per dataset, in dataset order -/
def createAlignedAxes (tol : Rat) (m : Method) (axes : List (List Rat)) : Option (List (List Rat)) :=
  alignLoop tol m none axes

/-- coordinate of the outer join of all aligned axes (`aligned_global_axis`) -/
def alignedAxis (al : List (List Rat)) : List Rat := unique al.flatten

/-- position of the first occurrence -/
def posOf (v : Rat) : List Rat → Option Nat
  | [] => none
  | y :: ys => if y = v then some 0 else (posOf v ys).map (· + 1)

/-- datasets (number, index on their own global axis) present at aligned value `v`,
    in dataset order — what `dropna` leaves of the outer-joined array at that coordinate -/
def membersFrom (v : Rat) : Nat → List (List Rat) → List (Nat × Nat)
  | _, [] => []
  | d, a :: rest =>
    match posOf v a with
    | some j => (d, j) :: membersFrom v (d + 1) rest
    | none => membersFrom v (d + 1) rest

def members (al : List (List Rat)) (v : Rat) : List (Nat × Nat) := membersFrom v 0 al

structure Dataset where
  label : String
  msize : Nat                          -- model axis size
  axis : List Rat                      -- global axis
  data : List (List Rat)               -- one column (length msize) per global index
  weight : Option (List (List Rat))    -- same shape as data
  deriving Repr, Inhabited

/-- `DataProvider.__init__`: `data *= weight` when a weight is present -/
def weightedColumn (ds : Dataset) (j : Nat) : List Rat :=
  let col := ds.data.getD j []
  match ds.weight with
  | none => col
  | some w => List.zipWith (· * ·) col (w.getD j [])

/-- `align_weights`: weight column, or ones for an unweighted member -/
def weightColumn (ds : Dataset) (j : Nat) : List Rat :=
  match ds.weight with
  | none => List.replicate ds.msize 1
  | some w => w.getD j []

structure Tables where
  axis : List Rat
  indices : List (List Nat)
  labels : List String
  defs : List (String × List String)
  data : List (List Rat)
  weights : List (Option (List Rat))
  deriving Repr, Inhabited

/-- `group_definitions`: first occurrence of a group label wins -/
def groupDefs : List (String × List String) → List (String × List String) → List (String × List String)
  | acc, [] => acc
  | acc, (g, ms) :: rest =>
    if acc.any (fun e => e.1 == g) then groupDefs acc rest else groupDefs (acc ++ [(g, ms)]) rest

def tablesOf (dss : List Dataset) (al : List (List Rat)) : Tables :=
  let ax := alignedAxis al
  let mem := ax.map (members al)
  let dsAt (d : Nat) : Dataset := dss.getD d default
  let memLabels := mem.map (fun ms => ms.map (fun p => (dsAt p.1).label))
  let labels := memLabels.map (fun ls => String.join ls)
  let anyWeighted := dss.any (fun ds => ds.weight.isSome)
  { axis := ax
    indices := mem.map (fun ms => ms.map (·.2))
    labels := labels
    defs := groupDefs [] (labels.zip memLabels)
    data := mem.map (fun ms => (ms.map (fun p => weightedColumn (dsAt p.1) p.2)).flatten)
    weights := mem.map (fun ms =>
      if anyWeighted && ms.any (fun p => (dsAt p.1).weight.isSome)
      then some (ms.map (fun p => weightColumn (dsAt p.1) p.2)).flatten
      else none) }

/-- `DataProviderLinked(scheme, group)`: `none` = AlignDatasetError -/
def provider (tol : Rat) (m : Method) (dss : List Dataset) : Option Tables :=
  (createAlignedAxes tol m (dss.map (·.axis))).map (tablesOf dss)

/-! ### `EstimationProviderLinked.get_result`: cutting the stacked residuals back -/

/-- `self._data_provider.get_model_axis(label).size` (datasets are keyed by label) -/
def msizeOf (dss : List Dataset) (l : String) : Nat :=
  match dss.find? (fun ds => ds.label == l) with
  | some ds => ds.msize
  | none => 0

/-- `group_definitions[group_label]` -/
def lookupDef (defs : List (String × List String)) (g : String) : List String :=
  match defs.find? (fun e => e.1 == g) with
  | some e => e.2
  | none => []

/-- one aligned index of `get_result` for the dataset `label`: skipped when the dataset is not in
    the group definition; else `residual[start:end]` with `start` = the summed model-axis sizes of
    the datasets before it in the group definition -/
def cutBlock (szL : String → Nat) (groupDatasets : List String) (residual : List Rat) (label : String) :
    Option (List Rat) :=
  match groupDatasets.idxOf? label with
  | none => none
  | some k => some ((residual.drop ((groupDatasets.take k).map szL).sum).take (szL label))

/-- the same with the index of the part on the dataset's own global axis
    (`get_aligned_dataset_indices(index)[dataset_index]`, after fix D27) -/
def resultPart (szL : String → Nat) (groupDatasets : List String) (indices : List Nat) (residual : List Rat)
    (label : String) : Option (Nat × List Rat) :=
  match groupDatasets.idxOf? label with
  | none => none
  | some k => (cutBlock szL groupDatasets residual label).map (fun b => (indices.getD k 0, b))

/-- insertion into a list of (key, part) pairs ordered by key -/
def insertByKey (p : Nat × List Rat) : List (Nat × List Rat) → List (Nat × List Rat)
  | [] => [p]
  | q :: qs => if p.1 ≤ q.1 then p :: q :: qs else q :: insertByKey p qs

/-- `[parts[i] for i in np.argsort(keys)]` (the keys of one dataset are distinct) -/
def sortByKey (l : List (Nat × List Rat)) : List (Nat × List Rat) := l.foldr insertByKey []

/-- the residual columns `get_result` reports for one dataset: collected in aligned-index order,
    then ordered by their index on the dataset's own global axis (fix D27); the code labels them
    with the dataset's own global axis -/
def resultResidual (dss : List Dataset) (t : Tables) (residuals : List (List Rat)) (label : String) :
    List (List Rat) :=
  (sortByKey (((t.labels.zip t.indices).zip residuals).filterMap (fun lir =>
    resultPart (msizeOf dss) (lookupDef t.defs lir.1.1) lir.1.2 lir.2 label))).map (·.2)

/-- the code before fix D27 (kept for the regression example in Props/C09.lean): the collected
    columns stay in aligned-index order and are labelled positionally -/
def resultResidualBeforeD27 (dss : List Dataset) (t : Tables) (residuals : List (List Rat)) (label : String) :
    List (List Rat) :=
  (t.labels.zip residuals).filterMap (fun lr => cutBlock (msizeOf dss) (lookupDef t.defs lr.1) lr.2 label)

/-! ### array identity: which arrays `create_aligned_global_axes` reads, creates and hands out -/

/-- a store of numpy arrays; a reference is a position.  Arrays are only ever appended: the regenerated functions contain
    no store into an array they did not create themselves (the translator refuses such source: `untranslatable`) -/
abbrev Store := List (List Rat)

def Store.read (s : Store) (r : Nat) : List Rat := s.getD r []

/-- `create_aligned_global_axes` on references (`xarray` hands out the dataset's coordinate array itself, a writable
    view): the first dataset's aligned axis IS its global-axis array (`aligned_global_axis = global_axis`), every later one
    is a new list (the comprehension); `aligned_axis_values` is first that same array, later a new array (`np.unique`) -/
def alignLoopRef (tol : Rat) (m : Method) : Store → Option Nat → List Nat → Option (Store × List Nat)
  | s, _, [] => some (s, [])
  | s, none, r :: rest => (alignLoopRef tol m s (some r) rest).map (fun p => (p.1, r :: p.2))
  | s, some acc, r :: rest =>
    let al := (s.read r).map (fun x => alignIndex x (s.read acc) tol m)
    if hasDup al then none
    else
      (alignLoopRef tol m (s ++ [al] ++ [unique (s.read acc ++ al)]) (some (s.length + 1)) rest).map
        (fun p => (p.1, s.length :: p.2))

/-- `create_aligned_global_axes` on references: `refs` = the datasets' global-axis arrays in dataset order -/
def createAlignedAxesRef (tol : Rat) (m : Method) (s : Store) (refs : List Nat) : Option (Store × List Nat) :=
  alignLoopRef tol m s none refs

/-! ### driver -/
open Glotaran.Proto

def parseMethod : Tree → Option Method
  | .atom "nearest" => some .nearest
  | .atom "backward" => some .backward
  | .atom "forward" => some .forward
  | _ => none

def parseDataset : Tree → Option Dataset
  | .list [l, ms, ax, dat, w] => do
    some ⟨← l.str?, ← ms.nat?, ← ax.rats?, ← dat.ratss?, ← Tree.optOf? Tree.ratss? w⟩
  | _ => none

def showOptRats : Option (List Rat) → String
  | none => "none"
  | some xs => showRats xs

def showTables (t : Tables) : String :=
  "ok axis=" ++ showRats t.axis
    ++ " idx=" ++ showList (t.indices.map showNats)
    ++ " labels=" ++ showStrs t.labels
    ++ " defs=" ++ showList (t.defs.map (fun e => showList [encodeStr e.1, showStrs e.2]))
    ++ " data=" ++ showList (t.data.map showRats)
    ++ " w=" ++ showList (t.weights.map showOptRats)

/-- protocol:
    `align x [target] tol method`            → the aligned value
    `axes tol method [[axis],…]`             → `ok [[aligned],…]` / `err AlignDataset`
    `provider tol method [[label,msize,[axis],[[col],…],none|[[wcol],…]],…]` → tables / error
    `result tol method [datasets as above] [[stacked residual],…]` → per dataset the residual
      columns `get_result` reports (`ok [[[col],…],…]`) / error
    `refs tol method [[axis],…]`             → `create_aligned_global_axes` on references, the store initially holding
      the given axes at references 0,1,…: `ok [out refs] [[input arrays afterwards],…] [[arrays handed out],…]` / error -/
def driverStep (s : Unit) (ts : List Tree) : Unit × String :=
  match ts with
  | [.atom "align", x, tgt, tol, m] =>
    match x.rat?, tgt.rats?, tol.rat?, parseMethod m with
    | some x, some tgt, some tol, some m => (s, showRat (alignIndex x tgt tol m))
    | _, _, _, _ => (s, "bad-op")
  | [.atom "axes", tol, m, axes] =>
    match tol.rat?, parseMethod m, axes.ratss? with
    | some tol, some m, some axes =>
      match createAlignedAxes tol m axes with
      | none => (s, "err AlignDataset")
      | some al => (s, "ok " ++ showList (al.map showRats))
    | _, _, _ => (s, "bad-op")
  | [.atom "refs", tol, m, axes] =>
    match tol.rat?, parseMethod m, axes.ratss? with
    | some tol, some m, some axes =>
      match createAlignedAxesRef tol m axes (List.range axes.length) with
      | none => (s, "err AlignDataset")
      | some (s', outs) =>
        (s, "ok " ++ showNats outs ++ " " ++ showList ((List.range axes.length).map (fun r => showRats (Store.read s' r)))
          ++ " " ++ showList (outs.map (fun r => showRats (Store.read s' r))))
    | _, _, _ => (s, "bad-op")
  | [.atom "provider", tol, m, dss] =>
    match tol.rat?, parseMethod m, Tree.listOf? parseDataset dss with
    | some tol, some m, some dss =>
      match provider tol m dss with
      | none => (s, "err AlignDataset")
      | some t => (s, showTables t)
    | _, _, _ => (s, "bad-op")
  | [.atom "result", tol, m, dss, res] =>
    match tol.rat?, parseMethod m, Tree.listOf? parseDataset dss, res.ratss? with
    | some tol, some m, some dss, some res =>
      match provider tol m dss with
      | none => (s, "err AlignDataset")
      | some t =>
        (s, "ok " ++ showList (dss.map (fun ds => showList ((resultResidual dss t res ds.label).map showRats))))
    | _, _, _, _ => (s, "bad-op")
  | _ => (s, "bad-op")

end Glotaran.C09
