/-
C20 — model validation (glotaran/model/item.py, dataset_model.py, model.py).

An abstract model language over a `Schema` table (regenerated from the live item classes into
`GlotaranModel/Generated/C20.lean`): a model is a list of top-level collections, a collection a
list of items, an item = class key + label + attribute values.  Modelled, as the code does it:

* `iterate_names_and_labels`     → `labelsOf`   (declared structure drives the iteration,
                                                 `if not value: continue`)
* `get_item_model_issues`        → `attrItemIssues`  (`label not in getattr(model, name)`)
* `get_item_parameter_issues`    → `attrParamIssues`
* `get_item_validator_issues`    → `attrValidatorIssues` (`get_megacomplex_issues`, the
                                    length validators of damped-oscillation / pfid, abstract
                                    custom validators `cv`)
* `Model.get_issues`             → `getIssues`  (all items of all collections)
* `get_parameter_labels` / `generate_parameters` → `parameterLabels` / `generateParameters`
* `fill_item`                    → `fillItem`   (fuel = Python's recursion depth)

Everything the Python code can raise while doing this is an explicit `Err` outcome:
`attributeError` (`getattr(model, name)` for a collection the model class does not have),
`shape` (a value whose shape is not the declared structure), `keyError` (`model.x[label]`),
`parameterNotFound`, `outOfFuel` (unbounded recursion).
-/
import GlotaranModel.Proto
namespace Glotaran.C20

/-! ### schema -/

inductive Struct where
  | scalar | list | dict
  deriving Repr, DecidableEq, Inhabited

/-- what the labels stored in an attribute refer to; `item c`: a model item of the top-level
    collection `c` (the alias if the attribute has one, else the attribute name) -/
inductive Kind where
  | item (coll : String)
  | param
  | plain
  deriving Repr, DecidableEq, Inhabited

inductive Validator where
  | none
  | megacomplexes                       -- validate_megacomplexes / validate_global_megacomplexes
  | sameLength (attrs : List String)    -- validate_oscillation_parameter / validate_pfid_parameter
  | custom (name : String)              -- anything else: abstract
  deriving Repr, DecidableEq, Inhabited

structure AttrSpec where
  name : String
  struct : Struct
  optional : Bool
  kind : Kind
  validator : Validator
  deriving Repr, DecidableEq, Inhabited

/-- one item class: `key` = "<collection>/<type>" -/
structure ItemSpec where
  key : String
  coll : String
  attrs : List AttrSpec
  exclusive : Bool
  unique : Bool
  deriving Repr, DecidableEq, Inhabited

abbrev Schema := List ItemSpec

def emptySpec (key : String) : ItemSpec := ⟨key, "", [], false, false⟩

def specOf (sch : Schema) (key : String) : ItemSpec :=
  match sch.find? (fun s => s.key = key) with
  | some s => s
  | none => emptySpec key

/-! ### abstract models -/

inductive Val where
  | none
  | scalar (label : String)
  | list (labels : List String)
  | dict (entries : List (String × String))
  deriving Repr, DecidableEq, Inhabited

structure Item where
  spec : String
  label : String
  vals : List (String × Val)
  deriving Repr, DecidableEq, Inhabited

structure Coll where
  name : String
  items : List Item
  deriving Repr, DecidableEq, Inhabited

abbrev Model := List Coll

def Item.valOf (it : Item) (attr : String) : Val :=
  match it.vals.find? (fun p => p.1 = attr) with
  | some p => p.2
  | none => .none

def findColl (m : Model) (c : String) : Option Coll := m.find? (fun x => x.name = c)
def Coll.hasLabel (c : Coll) (l : String) : Bool := c.items.any (fun it => it.label = l)
def Coll.findItem (c : Coll) (l : String) : Option Item := c.items.find? (fun it => it.label = l)

/-- `Model.iterate_all_items` -/
def allItems (m : Model) : List Item := m.flatMap (·.items)

/-! ### outcomes -/

inductive Err where
  | attributeError (coll : String)
  | shape (item attr : String)
  | keyError (coll label : String)
  | parameterNotFound (label : String)
  | outOfFuel
  deriving Repr, DecidableEq, Inhabited

inductive Issue where
  | missingItem (coll label : String)      -- ModelItemIssue(name, label)
  | missingParam (label : String)          -- ParameterIssue(label)
  | exclusive (label type : String)        -- ExclusiveMegacomplexIssue
  | unique (label type : String)           -- UniqueMegacomplexIssue
  | lengths (label : String) (lens : List Nat)  -- OscillationParameterIssue
  | custom (validator label : String)
  deriving Repr, DecidableEq, Inhabited

/-- sequencing of a list comprehension whose body may raise -/
def collectM {α β : Type} (f : α → Except Err (List β)) : List α → Except Err (List β)
  | [] => .ok []
  | a :: as =>
    match f a with
    | .error e => .error e
    | .ok bs =>
      match collectM f as with
      | .error e => .error e
      | .ok cs => .ok (bs ++ cs)

/-- `iterate_names_and_labels` for one attribute: the labels the code sees.
    `if not value: continue` skips `None`, `""`, `[]`, `{}`. -/
def labelsOf (itemLabel attr : String) : Struct → Val → Except Err (List String)
  | _, .none => .ok []
  | .scalar, .scalar l => if l = "" then .ok [] else .ok [l]
  | .list, .list ls => .ok ls
  | .dict, .dict kvs => .ok (kvs.map (·.2))
  | _, _ => .error (.shape itemLabel attr)

def Item.labels (it : Item) (a : AttrSpec) : Except Err (List String) :=
  labelsOf it.label a.name a.struct (it.valOf a.name)

/-! ### issues -/

/-- `get_item_model_issues`, one attribute -/
def attrItemIssues (m : Model) (it : Item) (a : AttrSpec) : Except Err (List Issue) :=
  match a.kind with
  | .item coll =>
    match it.labels a with
    | .error e => .error e
    | .ok [] => .ok []
    | .ok (l :: ls) =>
      match findColl m coll with
      | none => .error (.attributeError coll)
      | some c => .ok (((l :: ls).filter (fun x => !c.hasLabel x)).map (Issue.missingItem coll))
  | _ => .ok []

/-- `get_item_parameter_issues`, one attribute -/
def attrParamIssues (ps : List String) (it : Item) (a : AttrSpec) : Except Err (List Issue) :=
  match a.kind with
  | .param =>
    match it.labels a with
    | .error e => .error e
    | .ok ls => .ok ((ls.filter (fun x => !ps.contains x)).map Issue.missingParam)
  | _ => .ok []

/-- the loop of `get_megacomplex_issues` over the looked-up megacomplexes -/
def megacomplexIssues (sch : Schema) (mcs : List Item) : List Issue :=
  mcs.flatMap fun mc =>
    let s := specOf sch mc.spec
    (if s.exclusive && decide (mcs.length > 1) then [Issue.exclusive mc.label mc.spec] else []) ++
    (if s.unique && decide ((mcs.filter (fun x => x.spec = mc.spec)).length > 1)
      then [Issue.unique mc.label mc.spec] else [])

/-- `get_megacomplex_issues` (after fix D11: labels that are not defined are skipped here —
    `get_item_model_issues` reports them — instead of raising `KeyError`) -/
def megacomplexValidator (sch : Schema) (m : Model) (it : Item) (a : AttrSpec) :
    Except Err (List Issue) :=
  match it.valOf a.name with
  | .none => .ok []
  | .list ls =>
    match findColl m "megacomplex" with
    | none => .error (.attributeError "megacomplex")
    | some c => .ok (megacomplexIssues sch (ls.filterMap c.findItem))
  | _ => .error (.shape it.label a.name)

/-- `len(item.<attr>)` -/
def lenOf (it : Item) (attr : String) : Except Err (List Nat) :=
  match it.valOf attr with
  | .list ls => .ok [ls.length]
  | .dict kvs => .ok [kvs.length]
  | _ => .error (.shape it.label attr)

def allSame : List Nat → Bool
  | [] => true
  | n :: ns => ns.all (fun k => k = n)

/-- abstract custom validators: validator name → item → what it complains about -/
abbrev CustomValidators := String → Item → List String

/-- `get_item_validator_issues`, one attribute -/
def attrValidatorIssues (cv : CustomValidators) (sch : Schema) (m : Model) (it : Item)
    (a : AttrSpec) : Except Err (List Issue) :=
  match a.validator with
  | .none => .ok []
  | .megacomplexes => megacomplexValidator sch m it a
  | .sameLength attrs =>
    match collectM (lenOf it) attrs with
    | .error e => .error e
    | .ok lens => .ok (if allSame lens then [] else [Issue.lengths it.label lens])
  | .custom name => .ok ((cv name it).map (Issue.custom name))

/-- `get_item_issues` -/
def itemIssues (cv : CustomValidators) (sch : Schema) (m : Model) (ps : Option (List String))
    (it : Item) : Except Err (List Issue) :=
  let attrs := (specOf sch it.spec).attrs
  match collectM (attrItemIssues m it) attrs with
  | .error e => .error e
  | .ok i1 =>
    match collectM (attrValidatorIssues cv sch m it) attrs with
    | .error e => .error e
    | .ok i2 =>
      match ps with
      | none => .ok (i1 ++ i2)
      | some ps =>
        match collectM (attrParamIssues ps it) attrs with
        | .error e => .error e
        | .ok i3 => .ok (i1 ++ i2 ++ i3)

/-- `Model.get_issues(parameters=ps)` -/
def getIssues (cv : CustomValidators) (sch : Schema) (m : Model) (ps : Option (List String)) :
    Except Err (List Issue) :=
  collectM (itemIssues cv sch m ps) (allItems m)

/-! ### parameter labels -/

def attrParamLabels (it : Item) (a : AttrSpec) : Except Err (List String) :=
  match a.kind with
  | .param => it.labels a
  | _ => .ok []

def itemParamLabels (sch : Schema) (it : Item) : Except Err (List String) :=
  collectM (attrParamLabels it) (specOf sch it.spec).attrs

/-- `Model.get_parameter_labels` (a set in Python: order and multiplicity are not observable) -/
def parameterLabels (sch : Schema) (m : Model) : Except Err (List String) :=
  collectM (itemParamLabels sch) (allItems m)

/-- `Model.generate_parameters`: one parameter per label -/
def generateParameters (sch : Schema) (m : Model) : Except Err (List String) :=
  parameterLabels sch m

/-! ### filling -/

/-- a filled item: resolved model items (in attribute order) and resolved parameter labels -/
inductive Filled where
  | node (spec label : String) (children : List Filled) (params : List String)
  deriving Repr, Inhabited

def fillParams (ps : List String) (it : Item) (a : AttrSpec) : Except Err (List String) :=
  match a.kind with
  | .param =>
    match it.labels a with
    | .error e => .error e
    | .ok ls => collectM (fun l => if ps.contains l then .ok [l] else .error (.parameterNotFound l)) ls
  | _ => .ok []

/-- resolution of one model-item attribute; `fill` is the recursive call of `fill_item` -/
def fillAttr (m : Model) (fill : Item → Except Err Filled) (it : Item) (a : AttrSpec) :
    Except Err (List Filled) :=
  match a.kind with
  | .item coll =>
    match it.labels a with
    | .error e => .error e
    | .ok [] => .ok []
    | .ok (l :: ls) =>
      match findColl m coll with
      | none => .error (.attributeError coll)
      | some c =>
        collectM (fun x =>
          match c.findItem x with
          | none => .error (.keyError coll x)
          | some t =>
            match fill t with
            | .error e => .error e
            | .ok f => .ok [f]) (l :: ls)
  | _ => .ok []

/-- `fill_item`: model attributes first (recursively), then parameter attributes;
    the fuel stands for Python's recursion limit -/
def fillItem (sch : Schema) (m : Model) (ps : List String) : Nat → Item → Except Err Filled
  | 0, _ => .error .outOfFuel
  | fuel + 1, it =>
    let attrs := (specOf sch it.spec).attrs
    match collectM (fillAttr m (fillItem sch m ps fuel) it) attrs with
    | .error e => .error e
    | .ok children =>
      match collectM (fillParams ps it) attrs with
      | .error e => .error e
      | .ok params => .ok (.node it.spec it.label children params)

/-! ### driver -/
open Glotaran.Proto

def showErr : Err → String
  | .attributeError c => s!"err attribute {encodeStr c}"
  | .shape i a => s!"err shape {encodeStr i} {encodeStr a}"
  | .keyError c l => s!"err key {encodeStr c} {encodeStr l}"
  | .parameterNotFound l => s!"err parameter {encodeStr l}"
  | .outOfFuel => "err recursion"

def showIssue : Issue → String
  | .missingItem c l => s!"[item,{encodeStr c},{encodeStr l}]"
  | .missingParam l => s!"[param,{encodeStr l}]"
  | .exclusive l t => s!"[exclusive,{encodeStr l},{encodeStr t}]"
  | .unique l t => s!"[unique,{encodeStr l},{encodeStr t}]"
  | .lengths l ns => s!"[lengths,{encodeStr l},{showNats ns}]"
  | .custom v l => s!"[custom,{encodeStr v},{encodeStr l}]"

partial def showFilled : Filled → String
  | .node s l cs ps =>
    s!"[{encodeStr s},{encodeStr l},{showList (cs.map showFilled)},{showStrs ps}]"

def showStruct : Struct → String
  | .scalar => "scalar" | .list => "list" | .dict => "dict"
def showKind : Kind → String
  | .item c => s!"item:{encodeStr c}" | .param => "param" | .plain => "plain"
def showValidator : Validator → String
  | .none => "none" | .megacomplexes => "megacomplexes"
  | .sameLength as => s!"samelength:{showStrs as}" | .custom n => s!"custom:{encodeStr n}"
def showAttr (a : AttrSpec) : String :=
  s!"[{encodeStr a.name},{showStruct a.struct},{showBool a.optional},{showKind a.kind},{showValidator a.validator}]"
def showSpec (s : ItemSpec) : String :=
  s!"[{encodeStr s.key},{encodeStr s.coll},{showBool s.exclusive},{showBool s.unique},{showList (s.attrs.map showAttr)}]"

def parseVal : Tree → Option Val
  | .atom "none" => some .none
  | .list [.atom "s", l] => do some (.scalar (← l.str?))
  | .list [.atom "l", ls] => do some (.list (← ls.strs?))
  | .list [.atom "d", kvs] => do
      let es ← kvs.listOf? (fun t => match t with
        | .list [k, v] => do some ((← k.str?), (← v.str?))
        | _ => none)
      some (.dict es)
  | _ => none

def parseItem (sch : Schema) : Tree → Option Item
  | .list [s, l, vs] => do
      let key ← s.str?
      if !(sch.any (fun x => x.key = key)) then none
      let vals ← vs.listOf? (fun t => match t with
        | .list [a, v] => do some ((← a.str?), (← parseVal v))
        | _ => none)
      some ⟨key, ← l.str?, vals⟩
  | _ => none

def parseModel (sch : Schema) (t : Tree) : Option Model :=
  t.listOf? (fun c => match c with
    | .list [n, items] => do some ⟨← n.str?, ← items.listOf? (parseItem sch)⟩
    | _ => none)

def parsePs (t : Tree) : Option (Option (List String)) := t.optOf? Tree.strs?

def noCustom : CustomValidators := fun _ _ => []

/-- protocol: `schema` prints the table; `model <tree>` sets the current model;
    `issues <ps|none>`, `params`, `fill <ps> <coll> <label> <fuel>` query it. -/
def driverStep (sch : Schema) (st : Option Model) (ts : List Tree) : Option Model × String :=
  match ts with
  | [.atom "schema"] => (st, showList (sch.map showSpec))
  | [.atom "model", t] =>
    match parseModel sch t with
    | some m => (some m, "model")
    | none => (st, "bad-op")
  | [.atom "issues", p] =>
    match st, parsePs p with
    | some m, some ps =>
      match getIssues noCustom sch m ps with
      | .ok iss => (st, "ok " ++ showList (iss.map showIssue))
      | .error e => (st, showErr e)
    | _, _ => (st, "bad-op")
  | [.atom "params"] =>
    match st with
    | some m =>
      match parameterLabels sch m with
      | .ok ls => (st, "ok " ++ showStrs ls)
      | .error e => (st, showErr e)
    | none => (st, "bad-op")
  | [.atom "fill", p, c, l, f] =>
    match st, p.strs?, c.str?, l.str?, f.nat? with
    | some m, some ps, some c, some l, some fuel =>
      match (findColl m c).bind (fun cc => cc.findItem l) with
      | none => (st, "bad-op")
      | some it =>
        match fillItem sch m ps fuel it with
        | .ok f => (st, "ok " ++ showFilled f)
        | .error e => (st, showErr e)
    | _, _, _, _, _ => (st, "bad-op")
  | _ => (st, "bad-op")

end Glotaran.C20
