/-
C20 — model validation (glotaran/model/item.py, dataset_model.py, model.py).

An abstract model language over a `Schema` table (regenerated from the live item classes into
`GlotaranModel/Generated/C20.lean`): a model is a list of top-level collections, a collection a
list of items, an item = class key + label + attribute values.  Modelled, as the code does it:

* `iterate_names_and_labels`     → `labelsOf`   (declared structure drives the iteration,
                                                 `if not value: continue`)
* `get_item_model_issues`        → `attrItemIssues`  (`label not in getattr(model, name)`)
* `get_item_parameter_issues`    → `attrParamIssues`
* `get_item_validator_issues`    → `attrValidatorIssues`: the function attached to an attribute with
                                    `validator=` is looked up by name in a table of validator
                                    predicates (`VTable`, regenerated from the source of the live
                                    validator functions into `Generated/C20Validators.lean`) and the
                                    predicate is INTERPRETED (`interpPred`): exclusive / unique rules over
                                    the resolved megacomplexes, equal list lengths, labels defined in a
                                    collection; only predicates the translator could not express stay
                                    abstract (`opaque`, family `cv`)
* the traversal                  → `walkItem` / `rowAgrees` / `walkerCovers`: the positions the model
                                    visits on a probe item of a class, compared by theorem with the
                                    positions the live walkers visited on the same probe
                                    (`Generated/C20Walker.lean`)
* `Model.get_issues`             → `getIssues`  (all items of all collections)
* `get_parameter_labels` / `generate_parameters` → `parameterLabels` / `generateParameters`
* `fill_item`                    → `fillItem`   (fuel = Python's recursion depth)

Everything the Python code can raise while doing this is an explicit `Err` outcome:
`attributeError` (`getattr(model, name)` for a collection the model class does not have),
`shape` (a value whose shape is not the declared structure), `keyError` (`model.x[label]`),
`parameterNotFound`, `outOfFuel` (unbounded recursion).
-/
import GlotaranModel.Proto
namespace Glotaran.C20

/-! ### schema -/

inductive Struct where
  | scalar | list | dict
  deriving Repr, DecidableEq, Inhabited

/-- what the labels stored in an attribute refer to; `item c`: a model item of the top-level
    collection `c` (the alias if the attribute has one, else the attribute name) -/
inductive Kind where
  | item (coll : String)
  | param
  | plain
  deriving Repr, DecidableEq, Inhabited

/-- what `attribute(validator=…)` attaches: nothing, or a function (its qualified name; what it
    checks is an entry of the validator table) -/
inductive Validator where
  | none
  | named (name : String)
  deriving Repr, DecidableEq, Inhabited

/-! ### the validator predicate language -/

/-- class flags of a megacomplex: `is_exclusive` / `is_unique`; also names the issue class
    (`ExclusiveMegacomplexIssue` / `UniqueMegacomplexIssue`) -/
inductive Flag where
  | exclusive | unique
  deriving Repr, DecidableEq, Inhabited

/-- what is counted: `len(megacomplexes)` / `len([m for m in megacomplexes if m.__class__ is type])` -/
inductive Count where
  | all | sameClass
  deriving Repr, DecidableEq, Inhabited

/-- `if <flag>(type) and <count> > <bound>: issues.append(<issue>(mc.label, mc.type, …))` -/
structure McRule where
  flag : Flag
  count : Count
  bound : Nat
  issue : Flag
  deriving Repr, DecidableEq, Inhabited

inductive VPred where
  /-- `get_megacomplex_issues`: the labels of the validated attribute are resolved in collection
      `coll` (`noneGuard`: `if value is not None`; `skipUndefined`: undefined labels are skipped
      instead of raising `KeyError`), then every resolved item is tested against the rules -/
  | resolved (coll : String) (noneGuard skipUndefined : Bool) (rules : List McRule)
  /-- `len({len(item.a) for a in attrs}) > 1` is an issue -/
  | lengthsEqual (attrs : List String)
  /-- every label stored in the validated attribute (a string or a list of strings) must be a label of
      collection `coll`; an undefined one is reported as `ModelItemIssue(reportAs, label)` -/
  | definedIn (coll reportAs : String)
  /-- a validator the translator cannot express: abstract, by name -/
  | opaque (name : String)
  /-- the translator failed on the source (no theorem about the generated table closes) -/
  | untranslatable (reason : String)
  deriving Repr, DecidableEq, Inhabited

/-- validator function name → what it checks -/
abbrev VTable := List (String × VPred)

def predOf (vt : VTable) (name : String) : VPred :=
  match vt.find? (fun p => p.1 = name) with
  | some p => p.2
  | none => .opaque name

def VPred.translated : VPred → Bool
  | .opaque _ => false
  | .untranslatable _ => false
  | _ => true

structure AttrSpec where
  name : String
  struct : Struct
  optional : Bool
  kind : Kind
  validator : Validator
  deriving Repr, DecidableEq, Inhabited

/-- one item class: `key` = "<collection>/<type>" -/
structure ItemSpec where
  key : String
  coll : String
  attrs : List AttrSpec
  exclusive : Bool
  unique : Bool
  deriving Repr, DecidableEq, Inhabited

abbrev Schema := List ItemSpec

def emptySpec (key : String) : ItemSpec := ⟨key, "", [], false, false⟩

def specOf (sch : Schema) (key : String) : ItemSpec :=
  match sch.find? (fun s => s.key = key) with
  | some s => s
  | none => emptySpec key

/-! ### abstract models -/

inductive Val where
  | none
  | scalar (label : String)
  | list (labels : List String)
  | dict (entries : List (String × String))
  deriving Repr, DecidableEq, Inhabited

structure Item where
  spec : String
  label : String
  vals : List (String × Val)
  deriving Repr, DecidableEq, Inhabited

structure Coll where
  name : String
  items : List Item
  deriving Repr, DecidableEq, Inhabited

abbrev Model := List Coll

def Item.valOf (it : Item) (attr : String) : Val :=
  match it.vals.find? (fun p => p.1 = attr) with
  | some p => p.2
  | none => .none

def findColl (m : Model) (c : String) : Option Coll := m.find? (fun x => x.name = c)
def Coll.hasLabel (c : Coll) (l : String) : Bool := c.items.any (fun it => it.label = l)
def Coll.findItem (c : Coll) (l : String) : Option Item := c.items.find? (fun it => it.label = l)

/-- `Model.iterate_all_items` -/
def allItems (m : Model) : List Item := m.flatMap (·.items)

/-! ### outcomes -/

inductive Err where
  | attributeError (coll : String)
  | shape (item attr : String)
  | keyError (coll label : String)
  | parameterNotFound (label : String)
  | outOfFuel
  deriving Repr, DecidableEq, Inhabited

inductive Issue where
  | missingItem (coll label : String)      -- ModelItemIssue(name, label)
  | missingParam (label : String)          -- ParameterIssue(label)
  | exclusive (label type : String)        -- ExclusiveMegacomplexIssue
  | unique (label type : String)           -- UniqueMegacomplexIssue
  | lengths (label : String) (lens : List Nat)  -- OscillationParameterIssue
  | custom (validator label : String)
  deriving Repr, DecidableEq, Inhabited

/-- sequencing of a list comprehension whose body may raise -/
def collectM {α β : Type} (f : α → Except Err (List β)) : List α → Except Err (List β)
  | [] => .ok []
  | a :: as =>
    match f a with
    | .error e => .error e
    | .ok bs =>
      match collectM f as with
      | .error e => .error e
      | .ok cs => .ok (bs ++ cs)

/-- `iterate_names_and_labels` for one attribute: the labels the code sees.
    `if not value: continue` skips `None`, `""`, `[]`, `{}`. -/
def labelsOf (itemLabel attr : String) : Struct → Val → Except Err (List String)
  | _, .none => .ok []
  | .scalar, .scalar l => if l = "" then .ok [] else .ok [l]
  | .list, .list ls => .ok ls
  | .dict, .dict kvs => .ok (kvs.map (·.2))
  | _, _ => .error (.shape itemLabel attr)

def Item.labels (it : Item) (a : AttrSpec) : Except Err (List String) :=
  labelsOf it.label a.name a.struct (it.valOf a.name)

/-! ### issues -/

/-- `get_item_model_issues`, one attribute -/
def attrItemIssues (m : Model) (it : Item) (a : AttrSpec) : Except Err (List Issue) :=
  match a.kind with
  | .item coll =>
    match it.labels a with
    | .error e => .error e
    | .ok [] => .ok []
    | .ok (l :: ls) =>
      match findColl m coll with
      | none => .error (.attributeError coll)
      | some c => .ok (((l :: ls).filter (fun x => !c.hasLabel x)).map (Issue.missingItem coll))
  | _ => .ok []

/-- `get_item_parameter_issues`, one attribute -/
def attrParamIssues (ps : List String) (it : Item) (a : AttrSpec) : Except Err (List Issue) :=
  match a.kind with
  | .param =>
    match it.labels a with
    | .error e => .error e
    | .ok ls => .ok ((ls.filter (fun x => !ps.contains x)).map Issue.missingParam)
  | _ => .ok []

/-- the flag of the class of a megacomplex -/
def flagOf (sch : Schema) (f : Flag) (mc : Item) : Bool :=
  match f with
  | .exclusive => (specOf sch mc.spec).exclusive
  | .unique => (specOf sch mc.spec).unique

def countOf (mcs : List Item) (mc : Item) : Count → Nat
  | .all => mcs.length
  | .sameClass => (mcs.filter (fun x => x.spec = mc.spec)).length

def ruleFires (sch : Schema) (mcs : List Item) (mc : Item) (r : McRule) : Bool :=
  flagOf sch r.flag mc && decide (countOf mcs mc r.count > r.bound)

def mkIssue (mc : Item) : Flag → Issue
  | .exclusive => .exclusive mc.label mc.spec
  | .unique => .unique mc.label mc.spec

/-- the loop of `get_megacomplex_issues` over the looked-up megacomplexes: for every megacomplex,
    the rules in source order -/
def ruleIssues (sch : Schema) (rules : List McRule) (mcs : List Item) : List Issue :=
  mcs.flatMap fun mc => (rules.filter (ruleFires sch mcs mc)).map (fun r => mkIssue mc r.issue)

/-- `[model.x[label] for label in labels if label in model.x]` (skipUndefined, the code after fix
    D11) or `[model.x[label] for label in labels]` (raises `KeyError`) -/
def resolveLabels (c : Coll) (coll : String) (skip : Bool) (ls : List String) :
    Except Err (List Item) :=
  if skip then .ok (ls.filterMap c.findItem)
  else collectM (fun l => match c.findItem l with
    | some t => .ok [t]
    | none => .error (.keyError coll l)) ls

/-- `len(item.<attr>)` -/
def lenOf (it : Item) (attr : String) : Except Err (List Nat) :=
  match it.valOf attr with
  | .list ls => .ok [ls.length]
  | .dict kvs => .ok [kvs.length]
  | _ => .error (.shape it.label attr)

def allSame : List Nat → Bool
  | [] => true
  | n :: ns => ns.all (fun k => k = n)

/-- the labels a `definedIn` validator looks at: the string itself or the elements of the list
    (no `if not value` here: the empty string is looked up like any other) -/
def plainLabels (it : Item) (attr : String) : Except Err (List String) :=
  match it.valOf attr with
  | .scalar l => .ok [l]
  | .list ls => .ok ls
  | _ => .error (.shape it.label attr)

/-- abstract validators (what the translator could not express): name → item → complaints -/
abbrev CustomValidators := String → Item → List String

/-- the interpreter of the predicate language: what the validator attached to attribute `a` of
    item `it` returns -/
def interpPred (cv : CustomValidators) (sch : Schema) (m : Model) (it : Item) (a : AttrSpec) :
    VPred → Except Err (List Issue)
  | .resolved coll noneGuard skip rules =>
    match it.valOf a.name with
    | .none => if noneGuard then .ok [] else .error (.shape it.label a.name)
    | .list ls =>
      match findColl m coll with
      | none => .error (.attributeError coll)
      | some c =>
        match resolveLabels c coll skip ls with
        | .error e => .error e
        | .ok mcs => .ok (ruleIssues sch rules mcs)
    | _ => .error (.shape it.label a.name)
  | .lengthsEqual attrs =>
    match collectM (lenOf it) attrs with
    | .error e => .error e
    | .ok lens => .ok (if allSame lens then [] else [Issue.lengths it.label lens])
  | .definedIn coll reportAs =>
    match plainLabels it a.name with
    | .error e => .error e
    | .ok ls =>
      match findColl m coll with
      | none => .error (.attributeError coll)
      | some c => .ok ((ls.filter (fun x => !c.hasLabel x)).map (Issue.missingItem reportAs))
  | .opaque name => .ok ((cv name it).map (Issue.custom name))
  | .untranslatable reason => .ok ((cv reason it).map (Issue.custom reason))

/-- `get_item_validator_issues`, one attribute -/
def attrValidatorIssues (cv : CustomValidators) (vt : VTable) (sch : Schema) (m : Model) (it : Item)
    (a : AttrSpec) : Except Err (List Issue) :=
  match a.validator with
  | .none => .ok []
  | .named n => interpPred cv sch m it a (predOf vt n)

/-- `get_item_issues` -/
def itemIssues (cv : CustomValidators) (vt : VTable) (sch : Schema) (m : Model)
    (ps : Option (List String)) (it : Item) : Except Err (List Issue) :=
  let attrs := (specOf sch it.spec).attrs
  match collectM (attrItemIssues m it) attrs with
  | .error e => .error e
  | .ok i1 =>
    match collectM (attrValidatorIssues cv vt sch m it) attrs with
    | .error e => .error e
    | .ok i2 =>
      match ps with
      | none => .ok (i1 ++ i2)
      | some ps =>
        match collectM (attrParamIssues ps it) attrs with
        | .error e => .error e
        | .ok i3 => .ok (i1 ++ i2 ++ i3)

/-- `Model.get_issues(parameters=ps)` -/
def getIssues (cv : CustomValidators) (vt : VTable) (sch : Schema) (m : Model)
    (ps : Option (List String)) : Except Err (List Issue) :=
  collectM (itemIssues cv vt sch m ps) (allItems m)

/-! ### parameter labels -/

def attrParamLabels (it : Item) (a : AttrSpec) : Except Err (List String) :=
  match a.kind with
  | .param => it.labels a
  | _ => .ok []

def itemParamLabels (sch : Schema) (it : Item) : Except Err (List String) :=
  collectM (attrParamLabels it) (specOf sch it.spec).attrs

/-- `Model.get_parameter_labels` (a set in Python: order and multiplicity are not observable) -/
def parameterLabels (sch : Schema) (m : Model) : Except Err (List String) :=
  collectM (itemParamLabels sch) (allItems m)

/-- `Model.generate_parameters`: one parameter per label -/
def generateParameters (sch : Schema) (m : Model) : Except Err (List String) :=
  parameterLabels sch m

/-! ### filling -/

/-- a filled item: resolved model items (in attribute order) and resolved parameter labels -/
inductive Filled where
  | node (spec label : String) (children : List Filled) (params : List String)
  deriving Repr, Inhabited

def fillParams (ps : List String) (it : Item) (a : AttrSpec) : Except Err (List String) :=
  match a.kind with
  | .param =>
    match it.labels a with
    | .error e => .error e
    | .ok ls => collectM (fun l => if ps.contains l then .ok [l] else .error (.parameterNotFound l)) ls
  | _ => .ok []

/-- resolution of one model-item attribute; `fill` is the recursive call of `fill_item` -/
def fillAttr (m : Model) (fill : Item → Except Err Filled) (it : Item) (a : AttrSpec) :
    Except Err (List Filled) :=
  match a.kind with
  | .item coll =>
    match it.labels a with
    | .error e => .error e
    | .ok [] => .ok []
    | .ok (l :: ls) =>
      match findColl m coll with
      | none => .error (.attributeError coll)
      | some c =>
        collectM (fun x =>
          match c.findItem x with
          | none => .error (.keyError coll x)
          | some t =>
            match fill t with
            | .error e => .error e
            | .ok f => .ok [f]) (l :: ls)
  | _ => .ok []

/-- `fill_item`: model attributes first (recursively), then parameter attributes;
    the fuel stands for Python's recursion limit -/
def fillItem (sch : Schema) (m : Model) (ps : List String) : Nat → Item → Except Err Filled
  | 0, _ => .error .outOfFuel
  | fuel + 1, it =>
    let attrs := (specOf sch it.spec).attrs
    match collectM (fillAttr m (fillItem sch m ps fuel) it) attrs with
    | .error e => .error e
    | .ok children =>
      match collectM (fillParams ps it) attrs with
      | .error e => .error e
      | .ok params => .ok (.node it.spec it.label children params)

/-! ### the traversal, made explicit

`attrItemIssues` / `attrParamIssues` / `fillAttr` / `fillParams` / `attrParamLabels` all visit the
positions `Item.labels` yields for the attributes of the right kind.  `walkItem` lists these
positions as the live walkers name them — `(collection, label)` for model items (the alias if the
attribute has one), `(attribute, label)` for parameters — so that they can be compared with what
`iterate_names_and_labels` and `fill_item_attributes` visit on probe items
(`Generated/C20Walker.lean`). -/

def attrWalk (wantItems : Bool) (it : Item) (a : AttrSpec) : Except Err (List (String × String)) :=
  match a.kind with
  | .item c =>
    if wantItems then
      match it.labels a with
      | .error e => .error e
      | .ok ls => .ok (ls.map (fun l => (c, l)))
    else .ok []
  | .param =>
    if wantItems then .ok []
    else
      match it.labels a with
      | .error e => .error e
      | .ok ls => .ok (ls.map (fun l => (a.name, l)))
  | .plain => .ok []

def walkItem (sch : Schema) (wantItems : Bool) (it : Item) : Except Err (List (String × String)) :=
  collectM (attrWalk wantItems it) (specOf sch it.spec).attrs

/-- one probe of the live walkers: the values fed to an instance of class `key`, and the
    `(name, label)` pairs visited by `iterate_model_item_names_and_labels`,
    `iterate_parameter_names_and_labels` and by `fill_item_attributes` over the model / parameter
    attributes -/
structure WalkRow where
  key : String
  kind : String
  vals : List (String × Val)
  items : List (String × String)
  params : List (String × String)
  fillItems : List (String × String)
  fillParams : List (String × String)
  deriving Repr, DecidableEq, Inhabited

/-- the model walker visits exactly what the live walkers visited on this probe -/
def rowAgrees (sch : Schema) (r : WalkRow) : Bool :=
  let it : Item := ⟨r.key, "probe", r.vals⟩
  (match walkItem sch true it with
    | .ok ps => decide (ps = r.items) && decide (ps = r.fillItems)
    | .error _ => false) &&
  (match walkItem sch false it with
    | .ok ps => decide (ps = r.params) && decide (ps = r.fillParams)
    | .error _ => false)

def valLabels : Val → List String
  | .none => []
  | .scalar l => [l]
  | .list ls => ls
  | .dict kvs => kvs.map (·.2)

/-- a probe value of the given kind for an attribute: `full` = the declared container with at
    least two entries (one for a scalar) and non-empty labels, `empty` = `""` / `[]` / `{}`,
    `none` = `None` -/
def probeOK (a : AttrSpec) (kind : String) (v : Val) : Bool :=
  if kind = "none" then (match v with | .none => true | _ => false)
  else if kind = "empty" then
    (match a.struct, v with
      | .scalar, .scalar l => l = ""
      | .list, .list ls => ls.isEmpty
      | .dict, .dict kvs => kvs.isEmpty
      | _, _ => false)
  else if kind = "full" then
    (match a.struct, v with
      | .scalar, .scalar l => l ≠ ""
      | .list, .list ls => decide (ls.length ≥ 2) && ls.all (· ≠ "")
      | .dict, .dict kvs => decide (kvs.length ≥ 2) && kvs.all (·.2 ≠ "")
      | _, _ => false)
  else false

def allDistinct : List String → Bool
  | [] => true
  | x :: xs => !xs.contains x && allDistinct xs

def rowCovers (s : ItemSpec) (kind : String) (r : WalkRow) : Bool :=
  r.key = s.key && r.kind = kind &&
  (s.attrs.all fun a =>
    match a.kind with
    | .plain => true
    | _ => (match r.vals.find? (fun p => p.1 = a.name) with
        | some p => probeOK a kind p.2
        | none => false)) &&
  allDistinct ((r.vals.flatMap (fun p => valLabels p.2)).filter (· ≠ ""))

/-- every class of the schema was probed with every reference attribute full, empty and `None` -/
def walkerCovers (sch : Schema) (rows : List WalkRow) : Bool :=
  sch.all fun s => ["full", "empty", "none"].all fun k => rows.any (rowCovers s k)

/-! ### driver -/
open Glotaran.Proto

def showErr : Err → String
  | .attributeError c => s!"err attribute {encodeStr c}"
  | .shape i a => s!"err shape {encodeStr i} {encodeStr a}"
  | .keyError c l => s!"err key {encodeStr c} {encodeStr l}"
  | .parameterNotFound l => s!"err parameter {encodeStr l}"
  | .outOfFuel => "err recursion"

def showIssue : Issue → String
  | .missingItem c l => s!"[item,{encodeStr c},{encodeStr l}]"
  | .missingParam l => s!"[param,{encodeStr l}]"
  | .exclusive l t => s!"[exclusive,{encodeStr l},{encodeStr t}]"
  | .unique l t => s!"[unique,{encodeStr l},{encodeStr t}]"
  | .lengths l ns => s!"[lengths,{encodeStr l},{showNats ns}]"
  | .custom v l => s!"[custom,{encodeStr v},{encodeStr l}]"

partial def showFilled : Filled → String
  | .node s l cs ps =>
    s!"[{encodeStr s},{encodeStr l},{showList (cs.map showFilled)},{showStrs ps}]"

def showStruct : Struct → String
  | .scalar => "scalar" | .list => "list" | .dict => "dict"
def showKind : Kind → String
  | .item c => s!"item:{encodeStr c}" | .param => "param" | .plain => "plain"
def showValidator : Validator → String
  | .none => "none" | .named n => s!"named:{encodeStr n}"
def showFlag : Flag → String
  | .exclusive => "exclusive" | .unique => "unique"
def showCount : Count → String
  | .all => "all" | .sameClass => "sameclass"
def showRule (r : McRule) : String :=
  s!"[{showFlag r.flag},{showCount r.count},{r.bound},{showFlag r.issue}]"
def showPred : VPred → String
  | .resolved c g k rs => s!"[resolved,{encodeStr c},{showBool g},{showBool k},{showList (rs.map showRule)}]"
  | .lengthsEqual as => s!"[lengthsequal,{showStrs as}]"
  | .definedIn c r => s!"[definedin,{encodeStr c},{encodeStr r}]"
  | .opaque n => s!"[opaque,{encodeStr n}]"
  | .untranslatable r => s!"[untranslatable,{encodeStr r}]"
def showAttr (a : AttrSpec) : String :=
  s!"[{encodeStr a.name},{showStruct a.struct},{showBool a.optional},{showKind a.kind},{showValidator a.validator}]"
def showSpec (s : ItemSpec) : String :=
  s!"[{encodeStr s.key},{encodeStr s.coll},{showBool s.exclusive},{showBool s.unique},{showList (s.attrs.map showAttr)}]"

def parseVal : Tree → Option Val
  | .atom "none" => some .none
  | .list [.atom "s", l] => do some (.scalar (← l.str?))
  | .list [.atom "l", ls] => do some (.list (← ls.strs?))
  | .list [.atom "d", kvs] => do
      let es ← kvs.listOf? (fun t => match t with
        | .list [k, v] => do some ((← k.str?), (← v.str?))
        | _ => none)
      some (.dict es)
  | _ => none

def parseItem (sch : Schema) : Tree → Option Item
  | .list [s, l, vs] => do
      let key ← s.str?
      if !(sch.any (fun x => x.key = key)) then none
      let vals ← vs.listOf? (fun t => match t with
        | .list [a, v] => do some ((← a.str?), (← parseVal v))
        | _ => none)
      some ⟨key, ← l.str?, vals⟩
  | _ => none

def parseModel (sch : Schema) (t : Tree) : Option Model :=
  t.listOf? (fun c => match c with
    | .list [n, items] => do some ⟨← n.str?, ← items.listOf? (parseItem sch)⟩
    | _ => none)

def parsePs (t : Tree) : Option (Option (List String)) := t.optOf? Tree.strs?

def noCustom : CustomValidators := fun _ _ => []

/-- the driver over a schema and a validator table (`driverStep` in GlotaranModel/C20Driver.lean
    instantiates the regenerated validator table).
    protocol: `schema` / `validators` print the tables; `model <tree>` sets the current model;
    `issues <ps|none>`, `params`, `fill <ps> <coll> <label> <fuel>` query it. -/
def driverStepWith (sch : Schema) (vt : VTable) (st : Option Model) (ts : List Tree) :
    Option Model × String :=
  match ts with
  | [.atom "schema"] => (st, showList (sch.map showSpec))
  | [.atom "validators"] => (st, showList (vt.map fun p => s!"[{encodeStr p.1},{showPred p.2}]"))
  | [.atom "model", t] =>
    match parseModel sch t with
    | some m => (some m, "model")
    | none => (st, "bad-op")
  | [.atom "issues", p] =>
    match st, parsePs p with
    | some m, some ps =>
      match getIssues noCustom vt sch m ps with
      | .ok iss => (st, "ok " ++ showList (iss.map showIssue))
      | .error e => (st, showErr e)
    | _, _ => (st, "bad-op")
  | [.atom "params"] =>
    match st with
    | some m =>
      match parameterLabels sch m with
      | .ok ls => (st, "ok " ++ showStrs ls)
      | .error e => (st, showErr e)
    | none => (st, "bad-op")
  | [.atom "fill", p, c, l, f] =>
    match st, p.strs?, c.str?, l.str?, f.nat? with
    | some m, some ps, some c, some l, some fuel =>
      match (findColl m c).bind (fun cc => cc.findItem l) with
      | none => (st, "bad-op")
      | some it =>
        match fillItem sch m ps fuel it with
        | .ok f => (st, "ok " ++ showFilled f)
        | .error e => (st, showErr e)
    | _, _, _, _, _ => (st, "bad-op")
  | _ => (st, "bad-op")

end Glotaran.C20
