/-
C08 — the (hand-written) run-time vocabulary of the function-level translator
(harness/props/_c08_fns.py → lean/GlotaranModel/Generated/C08Fns.lean).

The translator transcribes, statement by statement, the short pure functions property C08 is about
(`IntervalItem.has_interval` / `applies`, `OnlyConstraint.applies`, `does_interval_item_apply`,
`get_axis_slice_from_interval` with its nested `nearest_index`, `_get_area`, the loop body of
`apply_constraints`, the item test of `apply_relations` / `retrieve_clps`, `add_model_weight`) into Lean
definitions over the value types below.  What a *Python / numpy construct* means is fixed here, once:
  * a Python float that may be ±inf (never NaN): `EB`; comparisons, `min`/`max` of two, `np.isinf`;
  * the `interval` field of an item: one tuple or a list of tuples (`Ivs`), `len`, `x[0]` being a tuple,
    `[x]`, iteration;
  * `np.abs(axis - v).argmin()`: element-wise difference with an extended number, absolute value, index of
    the first minimum;
  * Python `int`s that may become negative are `Int`; `xs[i]` with negative indices counting from the end;
    `range(a, b)`; `slice(a, b)` as the pair `(a, b)`;
  * `list[str] | list[list[str]]` clp labels (`Labels`);
  * `Untranslatable`: what the translator emits for source outside its subset, so that the file still
    compiles and every `generated_*_eq_model` theorem about that function stops compiling.
Run-time errors of Python (IndexError, TypeError on a malformed interval value) are not values of these
definitions: the operations are total and documented where they differ; `generated_*_eq_model` and the
`*_in_range` theorems show the generated functions never take those paths on axes with at least one point.
-/
import GlotaranModel.C08
namespace Glotaran.C08.Py
open Glotaran.LinAlg Glotaran.C02

/-- emitted in place of a function the translator cannot translate (with the reason) -/
structure Untranslatable where
  reason : String
  deriving Repr

/-! ### floats with infinities -/
abbrev Pair := EB × EB

def le (a b : EB) : Bool := a.le b
def ge (a b : EB) : Bool := b.le a
def lt (a b : EB) : Bool := !(b.le a)
def gt (a b : EB) : Bool := !(a.le b)
/-- Python `min(a, b)`: the first argument unless the second is strictly smaller -/
def min2 (a b : EB) : EB := if lt b a then b else a
/-- Python `max(a, b)`: the first argument unless the second is strictly larger -/
def max2 (a b : EB) : EB := if gt b a then b else a
def isinf : EB → Bool
  | .fin _ => false
  | _ => true

/-- `a - v` for a finite `a` and a float `v` -/
def subFin (a : Rat) : EB → EB
  | .fin v => .fin (a - v)
  | .pinf => .ninf
  | .ninf => .pinf
def absE : EB → EB
  | .fin r => .fin (absR r)
  | _ => .pinf
/-- `axis - v` (array minus float) -/
def arrSub (axis : List Rat) (v : EB) : List EB := axis.map (fun a => subFin a v)
/-- `np.abs(array)` -/
def arrAbs (xs : List EB) : List EB := xs.map absE
/-- `array.argmin()`: index of the first minimum (0 for an empty array, where numpy raises) -/
def argmin (xs : List EB) : Nat :=
  match xs with
  | [] => 0
  | d :: rest =>
    (rest.foldl (fun (acc : Nat × EB × Nat) v =>
      if lt v acc.2.1 then (acc.2.2 + 1, v, acc.2.2 + 1) else (acc.1, acc.2.1, acc.2.2 + 1)) (0, d, 0)).1
/-- `np.min(axis)` / `np.max(axis)` (0 for an empty array, where numpy raises) -/
def npMin (axis : List Rat) : Rat := listMin axis
def npMax (axis : List Rat) : Rat := listMax axis

/-! ### ints, indexing, ranges, slices -/
/-- `xs[i]` with a Python int (negative = from the end); the default element stands for IndexError -/
def item {β : Type} [Inhabited β] (xs : List β) (i : Int) : β :=
  if 0 ≤ i then xs.getD i.toNat default
  else if (-i).toNat ≤ xs.length then xs.getD (xs.length - (-i).toNat) default else default
/-- `range(a, b)` -/
def range (a b : Int) : List Int := (List.range (b - a).toNat).map (fun (k : Nat) => a + (k : Int))
/-- `slice(start, stop)` -/
abbrev Slice := Int × Int
/-- `xs.index(x)` (the length stands for ValueError) -/
def indexOf (xs : List String) (x : String) : Nat := xs.idxOf x
/-- `xs[i] = v` on a list -/
def setItem {β : Type} (xs : List β) (i : Nat) (v : β) : List β := xs.set i v
/-- `enumerate(xs)` -/
def enumerate {β : Type} (xs : List β) : List (Nat × β) := xs.zipIdx.map (fun p => (p.2, p.1))

/-! ### the `interval` field of an item -/
/-- `tuple[float, float] | list[tuple[float, float]]` -/
inductive Ivs where
  | single (p : Pair)
  | many (l : List Pair)
  deriving Repr, DecidableEq, Inhabited

namespace Ivs
/-- `len(intervals)` -/
def len : Ivs → Nat
  | single _ => 2
  | many l => l.length
/-- `isinstance(intervals[0], (tuple, list))` (false for the empty list, where `[0]` raises) -/
def firstIsSeq : Ivs → Bool
  | single _ => false
  | many (_ :: _) => true
  | many [] => false
/-- `[intervals]`: one tuple becomes a list of one tuple; a list of tuples wrapped once more is no list of
    intervals any more (every later use raises TypeError): the empty list of intervals stands for it -/
def wrap : Ivs → Ivs
  | single p => many [p]
  | many _ => many []
/-- iteration `for i in intervals` yielding tuples (a bare tuple yields floats, on which `i[0]` raises: none) -/
def iter : Ivs → List Pair
  | single _ => []
  | many l => l
end Ivs

/-- the classes of interval items (glotaran/model/clp_constraint.py, clp_relation.py, interval_item.py) -/
inductive Cls where
  | IntervalItem | ClpConstraint | ZeroConstraint | OnlyConstraint | ClpRelation
  deriving Repr, DecidableEq, Inhabited

/-- an interval item as the translated functions see it: its class (for method dispatch), the CURRENT
    value of its `interval` attribute, and the fields of constraints / relations that are read -/
structure Item where
  cls : Cls
  interval : Option Ivs
  target : String := ""
  source : String := ""
  parameter : Rat := 0
  deriving Repr, Inhabited

/-! ### clp labels: `list[str] | list[list[str]]` -/
inductive Labels where
  | flat (l : List String)
  | nested (l : List (List String))
  deriving Repr, Inhabited

namespace Labels
/-- `isinstance(clp_labels[0], list)` (false for an empty list, where `[0]` raises) -/
def firstIsList : Labels → Bool
  | nested (_ :: _) => true
  | _ => false
/-- the value seen as `list[list[str]]` where the test above succeeded -/
def asNested : Labels → List (List String)
  | nested l => l
  | flat _ => []
/-- the value seen as `list[str]` where the test above failed -/
def asFlat : Labels → List String
  | flat l => l
  | nested _ => []
end Labels

/-! ### matrices with labels (`MatrixContainer`) -/
/-- `matrix[:, mask]` with a boolean mask -/
def colMask (m : Mat) (mask : List Bool) : Mat := m.map (fun r => pickMask mask r)

/-! ### model weights -/
/-- the `idx` dictionary of `add_model_weight`: dimension name ↦ slice -/
abbrev Idx := List (String × Slice)
/-- `idx[k] = s` -/
def Idx.set (idx : Idx) (k : String) (s : Slice) : Idx := idx.filter (·.1 != k) ++ [(k, s)]
/-- an `xr.DataArray` with two named dimensions -/
structure DataArray where
  dims : String × String
  data : Mat
  deriving Repr, Inhabited
/-- is position `i` selected by `slice(a, b)` (non-negative bounds; the translated code only builds such) -/
def inSliceI (s : Slice) (i : Nat) : Bool := decide (s.1 ≤ (i : Int)) && decide ((i : Int) < s.2)
/-- is position `i` of dimension `d` selected by the dictionary `idx` -/
def Idx.selects (idx : Idx) (d : String) (i : Nat) : Bool :=
  idx.all (fun p => p.1 != d || inSliceI p.2 i)
/-- `weight[idx] *= v` (positional slices per named dimension; dimensions not named are taken whole) -/
def DataArray.imulAt (w : DataArray) (idx : Idx) (v : Rat) : DataArray :=
  { w with data := w.data.mapIdx (fun m row => row.mapIdx (fun g x =>
      if idx.selects w.dims.1 m && idx.selects w.dims.2 g then x * v else x)) }
/-- `xr.DataArray(np.ones((n, k)), coords=((d1, axis1), (d2, axis2)))` -/
def onesArray (d1 : String) (n : Nat) (d2 : String) (k : Nat) : DataArray :=
  ⟨(d1, d2), List.replicate n (List.replicate k 1)⟩
/-- a model weight as `add_model_weight` reads it -/
structure Weight where
  datasets : List String
  global_interval : Option Pair
  model_interval : Option Pair
  value : Rat
  deriving Repr, Inhabited

end Glotaran.C08.Py
