/-
C01 — the protocol driver of the property: the operations of the extensions (interpreter of the regenerated
step tables, `GlotaranModel/C01Steps.lean`; the EstimationProvider glue, `GlotaranModel/C01Provider.lean`)
in front of the operations of `GlotaranModel/C01.lean`.
-/
import GlotaranModel.Proto
import GlotaranModel.C01
import GlotaranModel.C01Steps
import GlotaranModel.Generated.C01Steps
import GlotaranModel.C01Provider
namespace Glotaran.C01
open Glotaran.Proto Glotaran.LinAlg

def showOutcome (tag : String) : Steps.Outcome → String
  | .ok [.vec c, .vec r] => tag ++ " " ++ showPair (c, r)
  | .ok _ => tag ++ " stuck " ++ encodeStr "does not return a pair of vectors"
  | .raised => tag ++ " raised"
  | .stuck why => tag ++ " stuck " ++ encodeStr why

/-- the regenerated programs on the `set` matrix / data -/
def stepsStep (s : DState) (ts : List Tree) : Option (DState × String) :=
  match ts with
  -- residual_variable_projection as regenerated from its source, dgeqrf := the given (qr, tau)
  | [.atom "gen-vp", qr, tau] =>
    match qr.ratss?, tau.rats? with
    | some qr, some tau =>
      some (s, showOutcome "gen-vp" (Steps.runVP Generated.vpProgram (fun _ => (qr, tau)) s.a s.y))
    | _, _ => some (s, "bad-op")
  -- residual_nnls as regenerated from its source, nnls := exact least squares on a given support
  | [.atom "gen-nnls-on", sup] =>
    match sup.nats? with
    | some sup =>
      let solver : Mat → Vec → Option Vec := fun a y =>
        (lsExact (selectCols a sup) y).map (scatter (ncols a) sup)
      some (s, showOutcome "gen-nnls-on" (Steps.runNNLS Generated.nnlsProgram solver s.a s.y))
    | none => some (s, "bad-op")
  -- … nnls := exact support enumeration
  | [.atom "gen-nnls"] =>
    some (s, showOutcome "gen-nnls" (Steps.runNNLS Generated.nnlsProgram nnlsExact s.a s.y))
  | _ => none

def driverStepX (s : DState) (ts : List Tree) : DState × String :=
  match providerStep s ts with
  | some r => r
  | none =>
    match stepsStep s ts with
    | some r => r
    | none => driverStep s ts

end Glotaran.C01
