/-
C19 — vocabulary of the function-level translator (harness/props/_c19_fns.py).

`Generated/C19Fns.lean` is the Python source of the functions of
glotaran/plugin_system/base_registry.py (and `io_plugin_utils.infer_file_format`) translated
statement by statement into Lean `do` blocks.  This file fixes, once and by hand, what the Python
constructs they use mean on the model's types; nothing here is specific to one translated function.

* the one dict the functions work on (`plugin_registry`, always handed on unchanged) is the
  `Registry` association list of the model: `k in d` = `lookup … |>.isSome`, `d[k]` = `lookup`
  (KeyError when absent), `d[k] = v` = `insert` (position kept / appended), `d.keys()` = `keys`
  (insertion order);
* a function is a state transformer `M α = St → Res α`: the state is the dict, the warnings issued so
  far (`warnings.warn` is an output event) and the counter that names the next instantiated plugin
  object; `raise` ends the function with the state reached so far;
* a plugin (class or instance) is the model's `Plugin` (module, class name, identity); whether the
  object is a class (`isinstance(plugin, type)`) and `os.path.isfile` are parameters (`World`);
* an exception message is kept as the list of its f-string parts, a warning as its keyword arguments;
* `Untranslatable`: what the translator emits for source outside its subset — a definition of this
  type in place of the function, so the file still compiles and every `generated_*_eq_model`
  theorem about that function stops compiling.
-/
import GlotaranModel.C19
namespace Glotaran.C19.Py

/-- emitted in place of a function the translator cannot translate (with the reason) -/
structure Untranslatable where
  reason : String
  deriving Repr

/-- what the functions ask the interpreter / operating system -/
structure World where
  isClass : Plugin → Bool          -- `isinstance(plugin, type)`
  isFile : String → Bool           -- `os.path.isfile(path)`

/-- one part of an f-string used as a message -/
inductive Fmt where
  | lit (s : String)               -- literal text
  | str (s : String)               -- `{x}` of a string
  | repr (s : String)              -- `{x!r}` of a string
  | strs (l : List String)         -- `{xs}` of a list of strings
  deriving Repr, DecidableEq

structure Exc where
  cls : String
  msg : List Fmt
  deriving Repr, DecidableEq

/-- the lists of names a message prints -/
def Exc.lists (e : Exc) : List (List String) :=
  e.msg.filterMap (fun f => match f with | .strs l => some l | _ => none)

/-- a keyword argument of a warning constructor -/
inductive Arg where
  | str (s : String)
  | plugin (p : Plugin)
  deriving Repr, DecidableEq

/-- `warnings.warn(Cls(k=v, …))` -/
structure Warning where
  cls : String
  kwargs : List (String × Arg)
  deriving Repr, DecidableEq

/-- a plugin class that gets instantiated (`plugin_class(format_name)`) -/
structure Cls where
  module : String
  name : String
  deriving Repr, DecidableEq

/-- `str | list[str]` -/
inductive StrOrList where
  | str (s : String)
  | list (l : List String)
  deriving Repr, DecidableEq

structure St where
  reg : Registry
  warns : List Warning
  nextUid : Nat
  deriving Repr

inductive Res (α : Type) where
  | ok (a : α) (s : St)
  | err (e : Exc) (s : St)
  deriving Repr

def Res.state {α : Type} : Res α → St
  | .ok _ s => s
  | .err _ s => s

def M (α : Type) : Type := St → Res α

@[inline] def M.pure {α : Type} (a : α) : M α := fun s => .ok a s

@[inline] def M.bind {α β : Type} (m : M α) (f : α → M β) : M β := fun s =>
  match m s with
  | .ok a s' => f a s'
  | .err e s' => .err e s'

instance : Monad M where
  pure := M.pure
  bind := M.bind

/-- `raise Cls(message)` -/
def raise {α : Type} (e : Exc) : M α := fun s => .err e s

/-- `warnings.warn(…)` -/
def warn (w : Warning) : M Unit := fun s => .ok () { s with warns := s.warns ++ [w] }

/-- `k in plugin_registry` -/
def contains (k : String) : M Bool := fun s => .ok (lookup s.reg k).isSome s

/-- `plugin_registry[k]` -/
def getItem (k : String) : M Plugin := fun s =>
  match lookup s.reg k with
  | some p => .ok p s
  | none => .err ⟨"KeyError", [.repr k]⟩ s

/-- `plugin_registry[k] = p` -/
def setItem (k : String) (p : Plugin) : M Unit := fun s => .ok () { s with reg := insert s.reg k p }

/-- `plugin_registry.keys()` (a list: the translated functions only iterate / filter / sort it) -/
def keysOf : M (List String) := fun s => .ok (keys s.reg) s

/-- `plugin_class(arg)`: a new object of that class -/
def instantiate (c : Cls) (_arg : String) : M Plugin := fun s =>
  .ok ⟨c.module, c.name, s.nextUid⟩ { s with nextUid := s.nextUid + 1 }

/-- `"<c>" in s` for a one-character constant -/
def hasChar (c : Char) (s : String) : Bool := s.toList.contains c

/-- truth value of a string -/
def truthyStr (s : String) : Bool := !s.isEmpty

/-- `sorted(strings)` -/
def sorted (l : List String) : List String := l.mergeSort (fun a b => decide (a ≤ b))

/-- `s.lower()` (ASCII) -/
def lower (s : String) : String := String.ofList (s.toList.map Char.toLower)

/-- `os.path.splitext(path)[1]` (posix): the extension with its dot, `""` if there is none -/
def splitextExt (path : String) : String :=
  match extOf path with
  | some e => "." ++ e
  | none => ""

/-- `s.lstrip(".")` -/
def lstripDots (s : String) : String := String.ofList (s.toList.dropWhile (· = '.'))

/-! ### what the `generated_*_eq_model` theorems compare

The wording of an exception message is not part of the model: an outcome keeps the exception class
and the lists of names the message prints. -/

inductive Outcome (α : Type) where
  | ok (a : α) (s : St)
  | err (cls : String) (lists : List (List String)) (s : St)

def Res.outcome {α : Type} : Res α → Outcome α
  | .ok a s => .ok a s
  | .err e s => .err e.cls e.lists s

/-- the `PluginOverwriteWarning` a conflicting registration issues -/
def overwriteWarning (key : String) (old new : Plugin) (setFn : String) : Warning :=
  ⟨"PluginOverwriteWarning", [("old_key", .str key), ("old_plugin", .plugin old), ("new_plugin", .plugin new),
    ("plugin_set_func_name", .str setFn)]⟩

/-- the warnings of one accepted `add_plugin_to_registry` call on registry `r` (`warned`: the flag of `addOne`) -/
def addWarnings (r : Registry) (key : String) (p : Plugin) (setFn : String) (warned : Bool) : List Warning :=
  match warned, lookup r key with
  | true, some old => [overwriteWarning key old p setFn]
  | _, _ => []

/-- `add_instantiated_plugin_to_registry` on the whole state (dict, warnings, object counter), built from the
    model's `addOne`: the state it ends in and the `Out` of the model's `addInstLoop` (`acc`: flags so far,
    newest first).  The object for a key is created before the key is examined, so the counter also advances
    for the key that is refused. -/
def addInstSt (module name setFn : String) : List String → St → List Bool → St × Out
  | [], s, acc => (s, .oks acc.reverse)
  | k :: ks, s, acc =>
    let p : Plugin := ⟨module, name, s.nextUid⟩
    match addOne s.reg k p k with
    | none => ({ s with nextUid := s.nextUid + 1 }, if acc.isEmpty then .errDotted else .errDottedAfter acc.reverse)
    | some (r', warned) =>
      addInstSt module name setFn ks
        { reg := r', warns := s.warns ++ addWarnings s.reg k p setFn warned, nextUid := s.nextUid + 1 } (warned :: acc)

end Glotaran.C19.Py
