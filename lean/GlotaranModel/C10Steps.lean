/-
C10 (part 3) — vocabulary of the regenerated table `Generated.stepBlocks` (GlotaranModel/Generated/C10Steps.lean): what the
translator harness/props/_c10_steps.py writes down about the methods of `Optimizer`, `OptimizationGroup`, `DatasetGroup`,
`MatrixProvider*`, `EstimationProvider*`, `DataProvider*` that one objective evaluation runs through.

A method body (and every loop body / branch of it that contains a step) is a BLOCK = list of steps in program order; blocks
refer to each other by their number in the table.
-/
namespace Glotaran.C10.Steps

/-- the mutable containers of the objects, by the attribute that holds them -/
inductive Cont where
  | parameters                  -- `Optimizer._parameters`
  | history                     -- `Optimizer._parameter_history`
  | groupParameters             -- `DatasetGroup.parameters`
  | datasetModels               -- `DatasetGroup.dataset_models`                          (by dataset label)
  | matrixContainers            -- `MatrixProvider._matrix_containers`                     (by dataset label)
  | globalMatrixContainers      -- `MatrixProvider._global_matrix_containers`              (by dataset label)
  | preparedMatrixContainer     -- `MatrixProviderUnlinked._prepared_matrix_container`     (by dataset label)
  | fullMatrices                -- `MatrixProviderUnlinked._full_matrices`                 (by dataset label)
  | alignedFullClpLabels        -- `MatrixProviderLinked._aligned_full_clp_labels`         (by aligned index)
  | alignedMatrices             -- `MatrixProviderLinked._aligned_matrices`                (by aligned index)
  | clps                        -- `EstimationProviderUnlinked._clps`                      (by dataset label)
  | residuals                   -- `EstimationProviderUnlinked._residuals`                 (by dataset label)
  | lclps                       -- `EstimationProviderLinked._clps`                        (by aligned index)
  | lresiduals                  -- `EstimationProviderLinked._residuals`                   (by aligned index)
  | clpPenalty                  -- `EstimationProvider._clp_penalty`
  | groupLocal                  -- the local of `calculate_penalty` that holds one value per optimisation group
  | out                         -- the value `calculate_penalty` returns
  | unknown (name : String)     -- an attribute the machine has no container for
  deriving DecidableEq, Repr, Inhabited

/-- how a container is subscripted -/
inductive Key where
  | whole       -- not at all: the container itself
  | cur         -- by the variable of the enclosing loop of the table (dataset label / aligned index)
  | members     -- by the labels of the datasets present at the current point of the aligned axis
  | all         -- by a variable that ranges over all keys (a loop or comprehension that only collects)
  deriving DecidableEq, Repr, Inhabited

structure Ref where
  cont : Cont
  key : Key
  deriving DecidableEq, Repr, Inhabited

inductive ExtKind where
  | matrix      -- `megacomplex.calculate_matrix`
  | residual    -- `EstimationProvider.calculate_residual`
  deriving DecidableEq, Repr, Inhabited

/-- how often an external call happens at this place -/
inductive Mult where
  | once
  | megacomplexes           -- once per megacomplex of the current dataset model
  | globalMegacomplexes     -- once per global megacomplex of the current dataset model
  deriving DecidableEq, Repr, Inhabited

inductive LoopKind where
  | groups          -- `for group in self._optimization_groups`
  | datasets        -- over `dataset_models` of the group
  | globalAxis      -- over the global axis of the current dataset
  | alignedAxis     -- over the aligned global axis of a linked group
  | unknown (text : String)
  deriving DecidableEq, Repr, Inhabited

inductive Cond where
  | full            -- `has_dataset_model_global_model(dataset_model)` of the current dataset
  | weighted        -- `weight is not None` for the weight of the current dataset
  | unknown (text : String)
  deriving DecidableEq, Repr, Inhabited

inductive Step where
  /-- `dst = fn(reads…)`; `live`: the value stored holds live references to what it read (no copy) -/
  | write (dst : Ref) (fn : String) (reads : List Ref) (live : Bool)
  /-- `dst.clear()` -/
  | clear (dst : Ref)
  /-- `dst.append(fn(reads…))`, `dst += fn(reads…)` -/
  | append (dst : Ref) (fn : String) (reads : List Ref)
  /-- any other in-place update of what `dst` holds -/
  | inplace (dst : Ref) (what : String)
  /-- external call(s) -/
  | ext (kind : ExtKind) (mult : Mult)
  /-- call of the method whose block is `unlinked` for an unlinked group and `linked` for a linked one -/
  | call (unlinked linked : Nat)
  | loop (over : LoopKind) (body : Nat)
  | branch (cond : Cond) (thenBlock elseBlock : Nat)
  /-- source the translator could not translate -/
  | untranslatable (reason : String)
  deriving Repr, Inhabited

end Glotaran.C10.Steps
