/-
C12 — the `$label` rewriting (glotaran/parameter/parameter.py).

  PARAMETER_EXPRESSION_REGEX = re.compile(r"\$(?P<parameter_expression>[\w\d\.]+)((?![\w\d\.]+)|$)")
  set_transformed_expression:  transformed = PARAMETER_EXPRESSION_REGEX.sub(
                                   r"parameters.get('\g<parameter_expression>').value", expression)
  Parameter.markdown:          PARAMETER_EXPRESSION_REGEX.findall(expression)

The parameters of the pattern (sigil, members of the character class, `re.ASCII`, whether the
trailer `((?!class+)|$)` is there) and the text the replacement puts around the label are
regenerated from the source on every run (`Generated/C12.lean`); which non-ASCII characters `\w`
and `\d` match is a table taken from the interpreter's `re`.  What is hand-written here is the
*matching algorithm* of that shape of pattern, as the regex engine performs it:

* `matchAt` — a match attempt at one position: the sigil, then the class run greedily, then the
  trailer; when the trailer fails the engine gives characters back one by one (backtracking);
* `scan` — `finditer`: attempts from left to right, after a match the search continues behind it,
  otherwise one character further (leftmost, non-overlapping);
* `rewriteL` — `sub` with the template, `labelsOf` — `findall`.

Texts are `List Char` (code points); `rewrite : String → String` is the wrapper the driver calls.
-/
import GlotaranModel.Generated.C12
namespace Glotaran.C12

/-! ### the character class -/

def inRanges : List (Nat × Nat) → Nat → Bool
  | [], _ => false
  | (lo, hi) :: rest, n => (decide (lo ≤ n) && decide (n ≤ hi)) || inRanges rest n

def asciiDigitN (n : Nat) : Bool := decide (48 ≤ n) && decide (n ≤ 57)

def asciiWordN (n : Nat) : Bool :=
  asciiDigitN n || (decide (65 ≤ n) && decide (n ≤ 90)) || (decide (97 ≤ n) && decide (n ≤ 122)) || n == 95

/-- `\w` (str pattern: Unicode alphanumerics and `_`, or ASCII only under `re.ASCII`) -/
def isWordN (n : Nat) : Bool :=
  if n < 128 then asciiWordN n else !Generated.asciiOnly && inRanges Generated.wordRanges n

/-- `\d` -/
def isDigitN (n : Nat) : Bool :=
  if n < 128 then asciiDigitN n else !Generated.asciiOnly && inRanges Generated.digitRanges n

/-- membership in the class of the capture group, by code point -/
def isTokN (n : Nat) : Bool :=
  Generated.classLits.any (· == n) || inRanges Generated.classRanges n ||
    (Generated.classHasWord && isWordN n) || (Generated.classHasDigit && isDigitN n)

def isTok (c : Char) : Bool := isTokN c.toNat

/-- does the text start with a class character -/
def headTok : List Char → Bool
  | [] => false
  | c :: _ => isTok c

/-! ### one match attempt -/

/-- `((?!class+)|$)` in front of `rest` (`$` = at the end or before a final newline); `true` when
    the pattern has no trailer -/
def trailerOk (rest : List Char) : Bool :=
  !Generated.hasTrailer || !headTok rest || rest == [] || rest == ['\n']

/-- the group took `k` characters of `r` (all class characters); try the trailer, on failure give
    one character back — the engine's backtracking over a greedy repeat, longest first -/
def tryLens (r : List Char) : Nat → Option (List Char × List Char)
  | 0 => none
  | k + 1 => if trailerOk (r.drop (k + 1)) then some (r.take (k + 1), r.drop (k + 1)) else tryLens r k

/-- match attempt at the front of the text: `some (label, rest)` -/
def matchAt : List Char → Option (List Char × List Char)
  | [] => none
  | c :: r => if c = Generated.sigil then tryLens r (r.takeWhile isTok).length else none

/-! ### finditer / sub / findall -/

inductive Seg where
  | plain (c : Char)          -- a character outside every match
  | var (l : List Char)       -- a match; `l` is the capture group (the label)
  deriving Repr, DecidableEq

/-- `finditer` with the gaps; `fuel` bounds the number of attempts (the length of the text is enough) -/
def scanFuel : Nat → List Char → List Seg
  | 0, _ => []
  | _ + 1, [] => []
  | n + 1, c :: r =>
    match matchAt (c :: r) with
    | some (l, rest) => .var l :: scanFuel n rest
    | none => .plain c :: scanFuel n r

def scan (s : List Char) : List Seg := scanFuel s.length s

/-- the replacement of one match: `parameters.get('<label>').value` -/
def lookupText (l : List Char) : List Char := Generated.templatePrefix ++ l ++ Generated.templateSuffix

/-- the text a segment stands for -/
def Seg.src : Seg → List Char
  | .plain c => [c]
  | .var l => Generated.sigil :: l

/-- what `sub` puts in its place -/
def Seg.out : Seg → List Char
  | .plain c => [c]
  | .var l => lookupText l

def Seg.label? : Seg → Option (List Char)
  | .plain _ => none
  | .var l => some l

/-- `PARAMETER_EXPRESSION_REGEX.sub(template, s)` -/
def rewriteL (s : List Char) : List Char := (scan s).flatMap Seg.out

/-- `PARAMETER_EXPRESSION_REGEX.sub(lambda match: f(label), s)` — how `Parameter.markdown` (as fixed:
    match by match, not `str.replace` of the text `$label`) renders an expression -/
def Seg.outWith (f : List Char → List Char) : Seg → List Char
  | .plain c => [c]
  | .var l => f l

def substL (f : List Char → List Char) (s : List Char) : List Char := (scan s).flatMap (Seg.outWith f)

/-- `PARAMETER_EXPRESSION_REGEX.findall(s)` (first group) -/
def labelsOf (s : List Char) : List (List Char) := (scan s).filterMap Seg.label?

/-- `set_transformed_expression` on the expression text -/
def rewrite (s : String) : String := String.ofList (rewriteL s.toList)

def labelStrings (s : String) : List String := (labelsOf s.toList).map String.ofList

/-! ### reading the transformed expression back -/

/-- the character that delimits the label inside the replacement (last character of the prefix) -/
def quoteChar : Char := Generated.templatePrefix.getLast?.getD '\''

/-- string literals of a text delimited by `q`: between the 1st and 2nd, the 3rd and 4th … `q`
    (an unterminated one is dropped) -/
def quotedAux (q : Char) : List Char → Option (List Char) → List (List Char)
  | [], _ => []
  | c :: r, none => if c = q then quotedAux q r (some []) else quotedAux q r none
  | c :: r, some acc => if c = q then acc.reverse :: quotedAux q r none else quotedAux q r (some (c :: acc))

/-- the labels a transformed expression looks up: the arguments of its `parameters.get('…')` -/
def quoted (t : List Char) : List (List Char) := quotedAux quoteChar t none

end Glotaran.C12
