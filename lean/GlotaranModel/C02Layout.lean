/-
C02 (layout glue) — the decisions the C02 model takes as resolved inputs, modelled from the code:

* `DataProvider.__init__` / `infer_global_dimension` / `get_from_dataset` / `add_model_weight`
  (glotaran/optimization/data_provider.py): which stored axis is the global one, when a stored
  variable is transposed, which weight the provider ends up with, `data *= weight`;
* `DatasetGroup.is_linkable` (glotaran/model/dataset_group.py) and the `link_clp is None` decision of
  `OptimizationGroup.__init__` (glotaran/optimization/optimization_group.py).

A stored variable is its tuple of dimension names and its row-major values.  The model weight matrix
(`add_model_weight`'s result, oriented (model, global) by construction) is a parameter — C08's business.
-/
import GlotaranModel.Proto
import GlotaranModel.LinAlg
namespace Glotaran.C02.Layout
open Glotaran.LinAlg (Mat Vec col ncols)

/-! ### stored variables -/

/-- one variable of an `xarray.Dataset`: its own `dims` and its values, row-major in that order -/
structure Var where
  dims : List String
  arr : Mat
  deriving Repr, Inhabited

/-- `.T` of a 2-D array, total on ragged lists: as many rows as the first row is long, missing entries 0 -/
def transpose (m : Mat) : Mat := (List.range (ncols m)).map (col m)

/-- `a[i, j]` (0 outside) -/
def entry (a : Mat) (i j : Nat) : Rat := (a.getD i []).getD j 0

/-- `DataProvider.infer_global_dimension`: the first dimension that is not the model dimension;
    `none` = `StopIteration` -/
def inferGlobalDimension (modelDim : String) (dims : List String) : Option String :=
  dims.find? (fun d => d != modelDim)

/-- `DataProvider.get_from_dataset` for a variable that is present: transposed iff the variable's OWN
    dims differ from (model, global) -/
def orient (v : Var) (modelDim globalDim : String) : Mat :=
  if v.dims != [modelDim, globalDim] then transpose v.arr else v.arr

/-- `DataProvider.get_from_dataset`: `None` when the variable is absent -/
def getFromDataset (v : Option Var) (modelDim globalDim : String) : Option Mat :=
  v.map (fun v => orient v modelDim globalDim)

/-- the weight after `get_from_dataset(dataset, "weight", …)` and `add_model_weight`: the dataset's own
    weight if present (the model weight is then ignored with a warning), else the model weight, else none -/
def weightSource (w : Option Var) (modelWeight : Option Mat) (modelDim globalDim : String) : Option Mat :=
  match getFromDataset w modelDim globalDim with
  | some x => some x
  | none => modelWeight

/-- `data *= weight` -/
def hadamard (a b : Mat) : Mat := List.zipWith (fun r s => List.zipWith (· * ·) r s) a b

/-- one dataset in `DataProvider.__init__`: (`get_data`, `get_weight`); `none` = `StopIteration`
    (the data variable has no dimension other than the model dimension) -/
def layout (modelDim : String) (data : Var) (w : Option Var) (modelWeight : Option Mat) :
    Option (Mat × Option Mat) :=
  match inferGlobalDimension modelDim data.dims with
  | none => none
  | some globalDim =>
    let weight := weightSource w modelWeight modelDim globalDim
    let d := orient data modelDim globalDim
    match weight with
    | some x => some (hadamard d x, some x)
    | none => some (d, none)

def providerData (modelDim : String) (data : Var) (w : Option Var) (mw : Option Mat) : Option Mat :=
  (layout modelDim data w mw).map (·.1)

def providerWeight (modelDim : String) (data : Var) (w : Option Var) (mw : Option Mat) : Option (Option Mat) :=
  (layout modelDim data w mw).map (·.2)

/-- the value of a stored variable addressed by dimension NAME (`var.isel({model: m, global: g})`):
    the index of the model dimension goes where the variable's own dims have the model dimension -/
def isel (v : Var) (modelDim : String) (m g : Nat) : Rat :=
  match v.dims with
  | [a, _] => if a = modelDim then entry v.arr m g else entry v.arr g m
  | _ => 0

/-! ### `is_linkable` and the `link_clp` decision -/

/-- what `is_linkable` reads of one dataset model of the group -/
structure DsDesc where
  hasGlobal : Bool          -- `has_dataset_model_global_model`
  modelDim : String         -- `get_dataset_model_model_dimension`
  coords : List String      -- coordinate names of the dataset's own `data` variable (not read per group:
                            -- the code iterates over ALL of `scheme.data`, see `allCoords`)
  deriving Repr, Inhabited

/-- the elements of a Python `set` built from a list: one representative per value -/
def dedup : List String → List String
  | [] => []
  | x :: xs => if xs.contains x then dedup xs else x :: dedup xs

/-- `DatasetGroup.is_linkable(parameters, data)`; `allCoords` = for every dataset of `data.values()`
    (the whole scheme, not only the group) the names in `dataset.data.coords` -/
def isLinkable (group : List DsDesc) (allCoords : List (List String)) : Bool :=
  if group.any (·.hasGlobal) then false
  else
    let modelDims := dedup (group.map (·.modelDim))
    if modelDims.length != 1 then false
    else
      let globalDims := dedup (allCoords.flatMap (fun cs => cs.filter (fun c => !modelDims.contains c)))
      globalDims.length == 1

/-- `OptimizationGroup.__init__`: `link_clp`, and `is_linkable` when it is `None` -/
def resolveLink (linkClp : Option Bool) (group : List DsDesc) (allCoords : List (List String)) : Bool :=
  match linkClp with
  | some b => b
  | none => isLinkable group allCoords

/-! ### driver ops -/
open Glotaran.Proto

def showMat (m : Mat) : String := showList (m.map showRats)

def parseVar : Tree → Option Var
  | .list [dims, arr] => do some ⟨← dims.strs?, ← arr.ratss?⟩
  | _ => none

def parseDsDesc : Tree → Option DsDesc
  | .list [g, md, cs] => do some ⟨← g.bool?, ← md.str?, ← cs.strs?⟩
  | _ => none

/-- stateless layout ops:
    `layout <modelDim> <dataDims:[a,b]> <data matrix> <weight: none | [[dims],[matrix]]> <modelWeight: none | matrix>`
      → `ok data=<matrix> weight=<none|matrix>` / `err StopIteration`;
    `linkable <linkClp: T|F|none> [[hasGlobal,modelDim,[coords]],… group] [[coords],… all scheme datasets]` → `T` / `F` -/
def layoutOps (ts : List Tree) : Option String :=
  match ts with
  | [.atom "layout", md, dims, arr, w, mw] =>
    match md.str?, dims.strs?, arr.ratss?, Tree.optOf? parseVar w, Tree.optOf? Tree.ratss? mw with
    | some md, some dims, some arr, some w, some mw =>
      match layout md ⟨dims, arr⟩ w mw with
      | none => some "err StopIteration"
      | some (d, pw) => some ("ok data=" ++ showMat d ++ " weight=" ++ showOpt showMat pw)
    | _, _, _, _, _ => some "bad-op"
  | [.atom "linkable", lc, group, all] =>
    match Tree.optOf? Tree.bool? lc, Tree.listOf? parseDsDesc group, Tree.listOf? Tree.strs? all with
    | some lc, some g, some a => some (showBool (resolveLink lc g a))
    | _, _, _ => some "bad-op"
  | .atom "layout" :: _ => some "bad-op"
  | .atom "linkable" :: _ => some "bad-op"
  | _ => none

end Glotaran.C02.Layout
