/-
C14 — vocabulary of the function-level translator (harness/props/_c14_translate.py).

`Generated/C14Fns.lean` is regenerated on every run from the *source text* of glotaran/simulation/simulation.py
(`simulate`, `simulate_from_clp`, `simulate_full_model`).  Every statement of those functions becomes one step of a
Lean term written with the operations below: one definition here per Python / numpy / xarray operation the three
functions use, with the meaning numpy / xarray document for it over exact numbers.

* Exceptions: `Except SimError` (`andThen`, `raise`).  A function that touches numpy's global generator lives in
  `M σ` = exceptions + generator state (`M.andThen`, `M.lift`, `M.seed`, `M.normal`); the generator itself is the
  parameter `Rng σ` of the model.  An exception leaves the generator in the state it had when it was raised.
* `xr.DataArray` (2-D, as `simulate_from_clp` reads it): `DataArray` — dimension names, shape, coordinates by name,
  values row-major in dimension order; `.isel({dim: i})` gives a `DataArray1`, `.sel({dim: labels})` on that a vector.
* `xr.Dataset` with the one variable `data`: the model's `SimResult` (dims, coords, data).
* `MatrixContainer` (result of `MatrixProvider.calculate_dataset_matrix`, the matrix builder the fit shares): the model's
  labelled matrix `C02.LMat` computed by `C02.datasetMatrix` from the dataset model's megacomplex outputs.
-/
import GlotaranModel.C14
namespace Glotaran.C14.Py
open Glotaran.LinAlg Glotaran.C02

/-- what the translator emits for source it cannot translate: a definition of this type, so that the theorem that ties
    the definition to the model does not type-check (the proof obligation is open, the check runs its search) -/
structure Untranslatable where
  reason : String

def untranslatable (reason : String) : Untranslatable := ⟨reason⟩

/-! ### exceptions -/

/-- sequencing of two steps the first of which may raise -/
def andThen {α β : Type} (x : Except SimError α) (f : α → Except SimError β) : Except SimError β :=
  match x with
  | .ok a => f a
  | .error e => .error e

/-- `raise …` -/
def raise {α : Type} (e : SimError) : Except SimError α := .error e

/-! ### exceptions + numpy's global generator -/

def M (σ α : Type) : Type := σ → Except SimError α × σ

def M.ret {σ α : Type} (a : α) : M σ α := fun s => (.ok a, s)

def M.andThen {σ α β : Type} (x : M σ α) (f : α → M σ β) : M σ β := fun s =>
  match x s with
  | (.ok a, s') => f a s'
  | (.error e, s') => (.error e, s')

/-- a call of a function that does not touch the generator -/
def M.lift {σ α : Type} (x : Except SimError α) : M σ α := fun s => (x, s)

def M.raise {σ α : Type} (e : SimError) : M σ α := fun s => (.error e, s)

/-- `np.random.seed(seed)` -/
def M.seed {σ : Type} (rng : Rng σ) (seed : Nat) : M σ Unit := fun _ => (.ok (), rng.reseed seed)

/-- `ndarray.size` of a 2-D array -/
def sizeMat (m : Mat) : Nat := m.length * ncols m

/-- `np.random.normal(loc, scale)` with an array `loc` and a scalar `scale`: `loc + scale · z`, `z` the next `loc.size`
    standard-normal draws of the global generator, laid out row-major over `loc`'s shape -/
def M.normal {σ : Type} (rng : Rng σ) (loc : Mat) (scale : Rat) : M σ Mat := fun s =>
  let zs := rng.normals s (sizeMat loc)
  (.ok (addNoise scale loc zs.1 (ncols loc)), zs.2)

/-! ### numpy -/

/-- `a.size` of a 1-D array -/
def size (v : Vec) : Nat := v.length

/-- `range(n)` -/
def range (n : Nat) : List Nat := List.range n

/-- `np.zeros((r, c))` -/
def zeros2 (r c : Nat) : Mat := List.replicate r (List.replicate c 0)

/-- `np.dot(a, v)` of a 2-D and a 1-D array -/
def npdot (a : Mat) (v : Vec) : Vec := mulVec a v

/-- `a.T` of a 2-D array -/
def transposeMat (a : Mat) : Mat := transpose a (ncols a)

/-- a `for` loop over a list whose body updates one variable and may raise -/
def forEach {α β : Type} (l : List α) (init : β) (body : α → β → Except SimError β) : Except SimError β :=
  match l with
  | [] => .ok init
  | a :: rest => andThen (body a init) (fun b => forEach rest b body)

/-! ### `coordinates`: a dict of axes -/

/-- `coordinates[key]` -/
def dictGet (d : List (String × Vec)) (key : String) : Except SimError Vec :=
  match d.lookup key with
  | some v => .ok v
  | none => .error .coordKey

/-- `next(dim for dim in coordinates if dim != other)` -/
def nextKeyNe (d : List (String × Vec)) (other : String) : Except SimError String :=
  match d.find? (fun p => p.1 != other) with
  | some p => .ok p.1
  | none => .error .noGlobalDim

/-! ### the matrix container -/

/-- the filled dataset model as far as `simulate` uses it -/
structure DatasetModel where
  /-- `get_dataset_model_model_dimension(dataset_model)` -/
  model_dimension : String
  /-- outputs of `megacomplex.calculate_matrix` with the megacomplex scales -/
  mcs : List McOut
  /-- the same for the global megacomplexes -/
  gmcs : List McOut

/-- `has_dataset_model_global_model(dataset_model)` -/
def hasGlobalModel (dm : DatasetModel) : Bool := !dm.gmcs.isEmpty

/-- `MatrixProvider.calculate_dataset_matrix(dataset_model, global_axis, model_axis, global_matrix=…)`: the builder
    the fit uses (`C02.datasetMatrix`) -/
def calculateDatasetMatrix (dm : DatasetModel) (globalMatrix : Bool) : Except SimError LMat :=
  match datasetMatrix (if globalMatrix then dm.gmcs else dm.mcs) with
  | some lm => .ok lm
  | none => .error .noMatrix

/-- `container.is_index_dependent` (`matrix.ndim == 3`) -/
def isIndexDependent (lm : LMat) : Bool :=
  match lm.body with
  | .d3 _ => true
  | .d2 _ => false

/-- `container.matrix` where a 2-D array is expected -/
def matrix2 (lm : LMat) : Mat :=
  match lm.body with
  | .d2 m => m
  | .d3 _ => []

/-- `container.matrix[i]` where the result is expected to be 2-D -/
def matrixAt (lm : LMat) (i : Nat) : Mat :=
  match lm.body with
  | .d3 ms => ms.getD i []
  | .d2 _ => []

/-- `container.clp_labels` -/
def clpLabels (lm : LMat) : List String := lm.labels

/-! ### xarray -/

inductive Coord where
  | strs (l : List String)
  | nums (l : Vec)

def Coord.length : Coord → Nat
  | .strs l => l.length
  | .nums l => l.length

/-- a 2-D `xr.DataArray` -/
structure DataArray where
  dims : String × String
  shape : Nat × Nat
  coords : List (String × Coord)
  /-- `shape.1` rows of `shape.2` entries -/
  values : Mat

/-- a 1-D `xr.DataArray` (one row or column of a 2-D one) -/
structure DataArray1 where
  dim : String
  coord : Option Coord
  values : Vec

/-- `xr.DataArray(values, coords=[(name₁, axis₁), (name₂, axis₂)])` -/
def DataArray.ofCoords (values : Mat) (c₁ c₂ : String × Coord) : DataArray :=
  ⟨(c₁.1, c₂.1), (c₁.2.length, c₂.2.length), [c₁, c₂], values⟩

/-- `name in array.coords` -/
def DataArray.hasCoord (a : DataArray) (name : String) : Bool := a.coords.any (fun c => c.1 == name)

/-- `array.isel({dim: i})`: by POSITION along the named dimension (the coordinate values are not looked at) -/
def DataArray.isel (a : DataArray) (dim : String) (i : Nat) : Except SimError DataArray1 :=
  if dim = a.dims.1 then
    if i < a.shape.1 then .ok ⟨a.dims.2, a.coords.lookup a.dims.2, a.values.getD i []⟩ else .error .index
  else if dim = a.dims.2 then
    if i < a.shape.2 then .ok ⟨a.dims.1, a.coords.lookup a.dims.1, col a.values i⟩ else .error .index
  else .error .badDim

/-- `array.sel({dim: labels})` on a 1-D array: by LABEL; a non-unique index is refused, then a missing label -/
def DataArray1.sel (a : DataArray1) (dim : String) (want : List String) : Except SimError Vec :=
  if dim = a.dim then
    match a.coord with
    | some (.strs ls) =>
      if hasDupS ls then .error .dupLabel
      else if !(want.all (fun l => ls.contains l)) then .error .missingLabel
      else .ok (selectByLabel ls a.values want)
    | _ => .error .badDim
  else .error .badDim

/-- `array.to_dataset(name="data")`: the array becomes the variable `data`, dims and (numeric) coordinates are kept -/
def DataArray.toDataset (a : DataArray) : SimResult :=
  ⟨a.dims, a.coords.filterMap (fun c => match c.2 with | .nums v => some (c.1, v) | .strs _ => none), a.values⟩

/-- `result.data[:, i] = v` -/
def setColumn (d : SimResult) (i : Nat) (v : Vec) : SimResult :=
  { d with data := d.data.mapIdx (fun m row => row.set i (v.getD m 0)) }

/-- `result["data"] = (result.data.dims, values)` -/
def setData (d : SimResult) (values : Mat) : SimResult := { d with data := values }

end Glotaran.C14.Py
