/-
C06 — descriptor language for the tables regenerated from the source text of the builtin megacomplexes
(lean/GlotaranModel/Generated/C06.lean, written by harness/props/c06.py `generate`):
  * `LabelExpr`: the expression `calculate_matrix` builds its clp-label list with (list comprehensions over an attribute
    or over `range(1, n + 1)` with f-string elements, optionally filtered by membership; one-element lists; an attribute
    returned as is; `+`),
  * `FillDesc`: where the kernels put their columns (stores `matrix[:, <index>] = <part>` inside the `zip` loop of the
    no-IRF oscillation kernel, `np.concatenate((osc.real, osc.imag), axis=1)`, constant-column stores guarded by
    `order > k`, `enumerate(<dict>.values())`).
`LabelExpr.eval` is the Python semantics of these expressions on an environment of attribute values.
-/
import GlotaranModel.Proto
namespace Glotaran.C06

/-- a piece of a label: f-string literal, the comprehension variable, a scalar attribute (`self.label`, …) -/
inductive LPart where
  | lit (s : String)
  | var
  | attr (path : String)
  deriving Repr, DecidableEq, Inhabited

/-- what a comprehension / loop iterates: a list (or dict: its keys) attribute, or `range(1, <attribute> + 1)` -/
inductive LSrc where
  | attr (path : String)
  | range1 (path : String)
  deriving Repr, DecidableEq, Inhabited

inductive LabelExpr where
  | comp (parts : List LPart) (src : LSrc) (filter : Option String)   -- [f"…" for x in src if x in <filter>]
  | single (parts : List LPart)                                      -- [f"…"]
  | whole (path : String)                                            -- the attribute itself
  | append (a b : LabelExpr)                                         -- a + b
  | unknown (dump : String)                                          -- not recognised by the translator
  deriving Repr, DecidableEq, Inhabited

/-- attribute values the expressions read -/
structure LEnv where
  lists : List (String × List String) := []
  scalars : List (String × String) := []
  nats : List (String × Nat) := []
  deriving Repr, Inhabited

/-- an f-string: the pieces concatenated, `x` substituted for the comprehension variable -/
def renderParts (e : LEnv) (x : String) : List LPart → Option String
  | [] => some ""
  | .lit s :: rest => (renderParts e x rest).map (s ++ ·)
  | .var :: rest => (renderParts e x rest).map (x ++ ·)
  | .attr p :: rest =>
    match e.scalars.lookup p with
    | some v => (renderParts e x rest).map (v ++ ·)
    | none => none

def LSrc.items (e : LEnv) : LSrc → Option (List String)
  | .attr p => e.lists.lookup p
  | .range1 p => (e.nats.lookup p).map (fun n => (List.range n).map (fun i => toString (i + 1)))

def LabelExpr.eval (e : LEnv) : LabelExpr → Option (List String)
  | .comp parts src flt =>
    match src.items e with
    | none => none
    | some items =>
      match (match flt with
             | none => some items
             | some p => (e.lists.lookup p).map (fun (inn : List String) => items.filter (fun x => inn.contains x))) with
      | none => none
      | some kept => kept.mapM (fun x => renderParts e x parts)
  | .single parts => (renderParts e "" parts).map (fun s => [s])
  | .whole p => e.lists.lookup p
  | .append a b =>
    match a.eval e, b.eval e with
    | some x, some y => some (x ++ y)
    | _, _ => none
  | .unknown _ => none

/-- the column index of a store -/
inductive IdxExpr where
  | idx                          -- the running index variable
  | loopVar                      -- the `enumerate` counter
  | const (k : Nat)
  | idxPlus (k : Nat)            -- idx + k
  | idxPlusSize (arr : String)   -- idx + <arr>.size
  deriving Repr, DecidableEq, Inhabited

/-- what is stored: real / imaginary part of the complex oscillation, or a computed value -/
inductive Part where
  | real | imag | value
  deriving Repr, DecidableEq, Inhabited

structure Store where
  pos : IdxExpr
  part : Part
  guard : Option (String × Nat)      -- `if <name> > k:` around the store
  deriving Repr, DecidableEq, Inhabited

inductive FillDesc where
  | zipLoop (vars arrays : List String) (stores : List Store) (step : Nat)   -- idx = 0; for vars in zip(arrays): stores; idx += step
  | concat (parts : List Part)                                            -- np.concatenate((osc.<p>, …), axis=1)
  | direct (stores : List Store)                                          -- matrix[:, k] = …  (some under `if order > k`)
  | enumerate (path : String) (store : Store)                             -- for i, v in enumerate(<path>.values()): matrix[:, i] += …
  | unknown (dump : String)
  deriving Repr, DecidableEq, Inhabited

end Glotaran.C06
