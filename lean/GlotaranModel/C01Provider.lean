/-
C01 — the `EstimationProvider` glue around the two kernels, per global index.

Executable model over exact rationals of
  glotaran/optimization/matrix_provider.py     : MatrixProvider.apply_constraints (column reduction at one index),
                                                 MatrixContainer.apply_weight / create_weighted_matrix,
                                                 MatrixProviderUnlinked.calculate_prepared_matrices /
                                                 MatrixProviderLinked.calculate_aligned_matrices (order: reduce, then weight)
  glotaran/optimization/data_provider.py       : DataProvider.__init__ (`data *= weight`)
  glotaran/optimization/estimation_provider.py : EstimationProvider.retrieve_clps (without relations),
                                                 EstimationProviderUnlinked.calculate_estimation /
                                                 EstimationProviderLinked.estimate (one index of the loop)
  glotaran/model/dataset_group.py              : default of `DatasetGroupModel.residual_function`
                                                 (regenerated: `Generated.defaultResidualFunction`)

Conventions of the total definitions (the code raises where the model truncates; none of these branches is reachable
from the providers, where the reduced labels are a sub-list of the labels, every row has one entry per label and the
weight has the shape of the data): `maskRow` stops at the shorter of mask and row (numpy: IndexError),
`retrieveClps` ignores a reduced label that is not a label (`list.index`: ValueError) and stops at the shorter of
reduced labels and reduced clp (IndexError), `weightRows` / `weightData` stop at the shorter argument (broadcast error).
-/
import GlotaranModel.Proto
import GlotaranModel.LinAlg
import GlotaranModel.C01
namespace Glotaran.C01
open Glotaran.LinAlg

/-! ### constraint reduction at one global index (`apply_constraints`) -/

/-- `reduced_clp_labels = [c for c in clp_labels if c not in removed_clp_labels]` -/
def reducedLabels (labels removed : List String) : List String :=
  labels.filter (fun c => !removed.contains c)

/-- `mask = [label in reduced_clp_labels for label in clp_labels]` -/
def labelMask (labels reduced : List String) : List Bool := labels.map (fun l => reduced.contains l)

/-- `row[mask]` -/
def maskRow : List Bool → Vec → Vec
  | true :: bs, x :: xs => x :: maskRow bs xs
  | false :: bs, _ :: xs => maskRow bs xs
  | _, _ => []

/-- one pass of the loop body of `apply_constraints`: `removed` are the targets of the constraints that apply at this
    index and are labels of the matrix; nothing is removed ⇒ the container is passed on untouched (`continue`) -/
def reduceColumns (labels removed : List String) (matrix : Mat) : List String × Mat :=
  if removed.isEmpty then (labels, matrix) else
  let reduced := reducedLabels labels removed
  (reduced, matrix.map (maskRow (labelMask labels reduced)))

/-! ### weights (`apply_weight` on the matrix, `data *= weight` on the data) -/

/-- `(matrix.T * weight).T` when the dataset has a weight -/
def weightMatrix (w : Option Vec) (matrix : Mat) : Mat :=
  match w with
  | none => matrix
  | some w => weightRows matrix w

/-- `data[:, index] * weight[:, index]` when the dataset has a weight -/
def weightData (w : Option Vec) (data : Vec) : Vec :=
  match w with
  | none => data
  | some w => List.zipWith (· * ·) data w

/-! ### `retrieve_clps` (no relations) -/

/-- `clps = zeros(len(clp_labels)); for i, label in enumerate(reduced): clps[clp_labels.index(label)] = reduced_clps[i]`;
    `hasItems = false` is the early exit `len(model.clp_relations) == 0 and len(model.clp_constraints) == 0`, which
    returns the reduced clp as they are -/
def retrieveClps (hasItems : Bool) (labels reduced : List String) (reducedClps : Vec) : Vec :=
  if hasItems then
    (List.zip reduced reducedClps).foldl (fun clps p => clps.set (labels.idxOf p.1) p.2) (zeros labels.length)
  else reducedClps

/-- the clp reported under a label (`Result.data[..].clp.sel(clp_label=l)`) -/
def clpOf (labels : List String) (clps : Vec) (l : String) : Rat := clps.getD (labels.idxOf l) 0

/-! ### one index of the estimation loop -/

/-- `dataset_group.residual_function`; a group that does not set the option has the default -/
def groupKey (option : Option String) : String := option.getD Generated.defaultResidualFunction

inductive Estimate where
  /-- clp under the full label list, residual of the (weighted) problem -/
  | ok (clp residual : Vec)
  /-- the kernel raised (NNLS: `RuntimeError`) -/
  | raised
  /-- `UnsupportedResidualFunctionError` -/
  | unsupported
  | unmodelled
  deriving Repr, DecidableEq

/-- the matrix handed to the kernel at this index: columns of the removed labels dropped, then weighted -/
def preparedMatrix (labels removed : List String) (w : Option Vec) (matrix : Mat) : List String × Mat :=
  let r := reduceColumns labels removed matrix
  (r.1, weightMatrix w r.2)

/-- `calculate_estimation` / `estimate` at one global index: prepared matrix and weighted data into the kernel the
    group's key selects, reduced clp back under the full labels -/
def estimateAt (option : Option String) (hasItems : Bool) (labels removed : List String) (w : Option Vec)
    (dgeqrf : Mat → Mat × Vec) (nnls : Mat → Vec → Option Vec) (matrix : Mat) (data : Vec) : Estimate :=
  match dispatch Generated.residualFunctions (groupKey option) with
  | .unsupported => .unsupported
  | .unmodelled => .unmodelled
  | .ok k =>
    let p := preparedMatrix labels removed w matrix
    match calculateResidual k dgeqrf nnls p.2 (weightData w data) with
    | none => .raised
    | some out => .ok (retrieveClps hasItems labels p.1 out.1) out.2

/-! ### driver operations -/
open Glotaran.Proto

/-- `estimate <key|none> <hasItems T|F> <labels> <removed labels> <weight|none> <qr> <tau>` on the `set` matrix / data:
    answers `estimate <clp> <residual> <reduced labels> <matrix handed to the kernel> <data handed to the kernel>`;
    `prepared <labels> <removed> <weight|none>`: the kernel inputs only (the harness factorises that matrix).
    `none` = not an operation of this file. -/
def providerStep (s : DState) (ts : List Tree) : Option (DState × String) :=
  match ts with
  | [.atom "prepared", labels, removed, w] =>
    match labels.strs?, removed.strs?, Tree.optOf? Tree.rats? w with
    | some labels, some removed, some w =>
      let p := preparedMatrix labels removed w s.a
      some (s, "prepared " ++ showStrs p.1 ++ " " ++ showMat p.2 ++ " " ++ showRats (weightData w s.y))
    | _, _, _ => some (s, "bad-op")
  | [.atom "estimate", key, hasItems, labels, removed, w, qr, tau] =>
    match Tree.optOf? Tree.str? key, hasItems.bool?, labels.strs?, removed.strs?, Tree.optOf? Tree.rats? w,
        qr.ratss?, tau.rats? with
    | some key, some hasItems, some labels, some removed, some w, some qr, some tau =>
      let p := preparedMatrix labels removed w s.a
      match estimateAt key hasItems labels removed w (fun _ => (qr, tau)) nnlsExact s.a s.y with
      | .ok clp res =>
        some (s, "estimate " ++ showRats clp ++ " " ++ showRats res ++ " " ++ showStrs p.1 ++ " " ++
          showMat p.2 ++ " " ++ showRats (weightData w s.y))
      | .raised => some (s, "estimate none")
      | .unsupported => some (s, "unsupported")
      | .unmodelled => some (s, "unmodelled")
    | _, _, _, _, _, _, _ => some (s, "bad-op")
  | _ => none

end Glotaran.C01
