/-
C11 — parameter transformations, bounds and fixed parameters
(glotaran/parameter/parameter.py, parameters.py, parameter_history.py, optimization/optimizer.py).

The code computes in doubles and calls `np.log` / `np.exp`.  The model is written once, over an
abstract number type `α` with the operations the code applies (`Num α`): which operation is applied
to which operand, which parameters are selected, in which order, what is passed through unchanged
— all of that is the model; *evaluating* `log`/`exp` is not.
  * executable instance `α := Term` (free term algebra over exact rationals): the driver prints
    terms such as `[exp,3/2]`, `[log,[ifeq,1,1,[add,1,1/10000000000],1]]`; the harness evaluates them with
    IEEE doubles and compares with the real code;
  * theorem instance `α := ℝ` with `Real.log` / `Real.exp` (GlotaranProofs/Lemmas/C11.lean).
Non-finite doubles are explicit (`Ext α`), because `_log_value` branches on `np.isfinite`.
Expression evaluation (`update_parameter_expression`, asteval — property C12) is a parameter `ev`
of every function; the single pass in declaration order is modelled as coded.
-/
import GlotaranModel.Proto
namespace Glotaran.C11

/-- the arithmetic the modelled code performs on doubles -/
class Num (α : Type) where
  ofRat : Rat → α
  add : α → α → α
  sub : α → α → α
  mul : α → α → α
  abs : α → α
  log : α → α
  exp : α → α
  /-- `c if a == b else d` -/
  ifEq : α → α → α → α → α
  /-- `c if a < b else d` -/
  ifLt : α → α → α → α → α

/-- a double: finite (`fin`) or one of the three non-finite values -/
inductive Ext (α : Type) where
  | ninf
  | fin (a : α)
  | pinf
  | nan
  deriving Repr, DecidableEq, Inhabited

/-- `glotaran.parameter.Parameter` (the attributes C11 talks about) -/
structure Parameter (α : Type) where
  label : String
  value : Ext α
  min : Ext α
  max : Ext α
  nonNeg : Bool
  vary : Bool
  expr : Option String
  stderr : Ext α
  deriving Repr, Inhabited

deriving instance DecidableEq for Parameter

variable {α : Type}

/-- validator `set_transformed_expression`: a truthy (non-empty) expression forces `vary = False` -/
def Parameter.setExpr (p : Parameter α) (e : Option String) : Parameter α :=
  match e with
  | some s => if s = "" then { p with expr := some s } else { p with expr := some s, vary := false }
  | none => { p with expr := none }

/-- `Parameter(label, value, expression=…, maximum=…, minimum=…, non_negative=…, vary=…)`:
    attributes are assigned, then the validators run -/
def Parameter.create (label : String) (value min max : Ext α) (nonNeg vary : Bool)
    (expr : Option String) : Parameter α :=
  Parameter.setExpr
    { label := label, value := value, min := min, max := max, nonNeg := nonNeg, vary := vary,
      expr := none, stderr := .nan } expr

/-- the literal `1e-10` of `_log_value` -/
def eps : Rat := 1 / 10000000000

/-- finite branch of `_log_value`: `if value == 1: value += 1e-10; return np.log(value)` -/
def logFin [Num α] (a : α) : α :=
  Num.log (Num.ifEq a (Num.ofRat 1) (Num.add a (Num.ofRat eps)) a)

/-- `_log_value`: non-finite values pass through -/
def logValue [Num α] : Ext α → Ext α
  | .fin a => .fin (logFin a)
  | e => e

/-- value and bounds in optimiser space -/
structure Opt (α : Type) where
  value : Ext α
  lower : Ext α
  upper : Ext α
  deriving Repr

/-- `Parameter.get_value_and_bounds_for_optimization` -/
def toOpt [Num α] (p : Parameter α) : Opt α :=
  if p.nonNeg then ⟨logValue p.value, logValue p.min, logValue p.max⟩
  else ⟨p.value, p.min, p.max⟩

/-- `np.exp` on a double -/
def expE [Num α] : Ext α → Ext α
  | .ninf => .fin (Num.ofRat 0)
  | .fin a => .fin (Num.exp a)
  | .pinf => .pinf
  | .nan => .nan

/-- `np.exp(value) if non_negative else value` -/
def fromOpt [Num α] (nonNeg : Bool) (x : Ext α) : Ext α :=
  if nonNeg then expE x else x

/-- `Parameter.set_value_from_optimization` -/
def Parameter.setFromOpt [Num α] (p : Parameter α) (x : Ext α) : Parameter α :=
  { p with value := fromOpt p.nonNeg x }

/-! ### expressions (`Parameters.update_parameter_expression`) -/

/-- evaluator of an expression string in the context of a parameter set (asteval; C12) -/
abbrev Eval (α : Type) := List (Parameter α) → String → Ext α

/-- one pass in declaration order, in place: a later expression sees earlier updates -/
def updateGo (ev : Eval α) : List (Parameter α) → List (Parameter α) → List (Parameter α)
  | done, [] => done
  | done, p :: rest =>
    let p' : Parameter α :=
      match p.expr with
      | some e => { p with value := ev (done ++ p :: rest) e }
      | none => p
    updateGo ev (done ++ [p']) rest

def updateExpr (ev : Eval α) (ps : List (Parameter α)) : List (Parameter α) := updateGo ev [] ps

/-! ### `Parameters.get_label_value_and_bounds_arrays` -/

structure Arrays (α : Type) where
  labels : List String
  values : List (Ext α)
  lower : List (Ext α)
  upper : List (Ext α)
  deriving Repr

/-- the loop with its four `append`s -/
def arraysLoop [Num α] (excl : Bool) : List (Parameter α) → Arrays α → Arrays α
  | [], acc => acc
  | p :: rest, acc =>
    if !excl || p.vary then
      let o := toOpt p
      arraysLoop excl rest
        ⟨acc.labels ++ [p.label], acc.values ++ [o.value], acc.lower ++ [o.lower], acc.upper ++ [o.upper]⟩
    else arraysLoop excl rest acc

def arrays [Num α] (ev : Eval α) (excl : Bool) (ps : List (Parameter α)) : Arrays α :=
  arraysLoop excl (updateExpr ev ps) ⟨[], [], [], []⟩

/-! ### `Parameters.set_from_label_and_value_arrays` -/

inductive SetStatus where
  | ok
  | lengthMismatch             -- ValueError, nothing changed
  | notFound (label : String)  -- ParameterNotFoundException; earlier pairs are already set
  deriving Repr, DecidableEq

/-- `self.get(label).set_value_from_optimization(value)` (labels are dict keys: unique) -/
def setOne [Num α] (ps : List (Parameter α)) (l : String) (x : Ext α) : List (Parameter α) :=
  ps.map (fun q => if q.label = l then q.setFromOpt x else q)

def setLoop [Num α] : List (Parameter α) → List (String × Ext α) → List (Parameter α) × SetStatus
  | ps, [] => (ps, .ok)
  | ps, (l, x) :: rest =>
    if ps.any (fun q => q.label = l) then setLoop (setOne ps l x) rest
    else (ps, .notFound l)

def setFromArrays [Num α] (ev : Eval α) (ps : List (Parameter α)) (labels : List String)
    (xs : List (Ext α)) : List (Parameter α) × SetStatus :=
  if labels.length ≠ xs.length then (ps, .lengthMismatch)
  else
    match setLoop ps (labels.zip xs) with
    | (ps', .ok) => (updateExpr ev ps', .ok)
    | r => r

/-! ### `ParameterHistory` -/

structure History (α : Type) where
  labels : List String              -- 'iteration' :: all parameter labels
  rows : List (List (Ext α))
  deriving Repr

/-- `ParameterHistory.append`: all parameters (fixed and expression ones too), in optimiser space;
    `none` = ValueError (labels differ from the recorded ones) -/
def History.append [Num α] (ev : Eval α) (h : History α) (ps : List (Parameter α)) (iteration : Ext α) :
    Option (History α) :=
  let a := arrays ev false ps
  let labels := "iteration" :: a.labels
  let hl := if h.labels.isEmpty then labels else h.labels
  if labels ≠ hl then none
  else some ⟨hl, h.rows ++ [iteration :: a.values]⟩

/-- `Parameters.set_from_history(history, index)` for a resolved, valid index -/
def setFromHistory [Num α] (ev : Eval α) (ps : List (Parameter α)) (h : History α) (i : Nat) :
    List (Parameter α) × SetStatus :=
  setFromArrays ev ps h.labels.tail ((h.rows.getD i []).tail)

/-- one call of `Optimizer.objective_function` as far as parameters are concerned:
    free parameters set from the optimiser's vector, then one history record -/
def objectiveStep [Num α] (ev : Eval α) (ps : List (Parameter α)) (freeLabels : List String)
    (x : List (Ext α)) (iteration : Ext α) (h : History α) :
    List (Parameter α) × SetStatus × Option (History α) :=
  let r := setFromArrays ev ps freeLabels x
  (r.1, r.2, h.append ev r.1 iteration)

/-! ### standard errors (`Optimizer.calculate_covariance_matrix_and_standard_errors`) -/

/-- the value stored in `parameter.standard_error` for optimiser-space error `err`.
    A non-negative parameter whose value is not finite is outside the model (the driver refuses it). -/
def seValue [Num α] (p : Parameter α) (err : α) : Ext α :=
  if p.nonNeg then
    match p.value with
    | .fin v =>
      .fin (Num.ifLt err (Num.abs (logFin v))
              (Num.mul v (Num.sub (Num.exp err) (Num.ofRat 1)))
              (Num.abs v))
    | _ => .nan
  else .fin err

def seOne [Num α] (ps : List (Parameter α)) (l : String) (err : α) : List (Parameter α) :=
  ps.map (fun q => if q.label = l then { q with stderr := seValue q err } else q)

/-- `for label, error in zip(self._free_parameter_labels, standard_errors): …` -/
def assignStdErrs [Num α] (ps : List (Parameter α)) (labels : List String) (errs : List α) :
    List (Parameter α) :=
  (labels.zip errs).foldl (fun acc le => seOne acc le.1 le.2) ps

/-! ### look-up (`Parameters.has`, `Parameters.get`) -/

/-- `Parameters.has(label)`: `label in self._parameters` — full labels only; a group path such as
    `rates` is not a label unless a parameter is declared under exactly that label -/
def hasLabel (ps : List (Parameter α)) (l : String) : Bool := ps.any (fun q => q.label = l)

/-- `Parameters.get(label)`; `none` = ParameterNotFoundException(label) -/
def getLabel (ps : List (Parameter α)) (l : String) : Option (Parameter α) :=
  ps.find? (fun q => q.label = l)

/-! ### copies, dictionaries, equality -/

/-- `Parameter.copy()` = `attrs.evolve(self)` = `Parameter(**as_dict)`: a new object is initialised from
    the eight attributes and the validators run again, i.e. a truthy expression forces `vary = False`
    once more (a parameter whose `vary` was re-enabled by assignment is not copied faithfully) -/
def Parameter.copy (p : Parameter α) : Parameter α := Parameter.setExpr p p.expr

/-- `Parameters.copy()`: every parameter copied, then `Parameters.__init__` updates the expressions -/
def copyParams (ev : Eval α) (ps : List (Parameter α)) : List (Parameter α) :=
  updateExpr ev (ps.map Parameter.copy)

/-- `to_parameter_dict_list()`: `as_dict()` of every parameter — the eight attributes, in order -/
def toDictList (ps : List (Parameter α)) : List (Parameter α) := ps

/-- `from_parameter_dict_list(dicts)`: `Parameter(**d)` for every dictionary (validators run), then
    `Parameters.__init__` -/
def fromDictList (ev : Eval α) (ds : List (Parameter α)) : List (Parameter α) :=
  updateExpr ev (ds.map Parameter.copy)

/-- `Parameter._deep_equals`: `nan_or_equal` on all eight attributes (`nan` equals `nan`; in the model
    that is structural equality of `Ext`) -/
def deepEquals [DecidableEq α] (p q : Parameter α) : Bool :=
  p.label == q.label && p.value == q.value && p.stderr == q.stderr && p.expr == q.expr &&
    p.max == q.max && p.min == q.min && p.nonNeg == q.nonNeg && p.vary == q.vary

/-- `Parameters.__eq__`: `self.labels == other.labels` on the *sorted* label lists — i.e. the two label
    lists are permutations of each other — and every parameter deep-equal to the one with the same
    label; declaration order does not take part -/
def paramsEq [DecidableEq α] (ps qs : List (Parameter α)) : Bool :=
  (ps.map (·.label)).isPerm (qs.map (·.label)) &&
    (ps.map (·.label)).all (fun l =>
      match getLabel ps l, getLabel qs l with
      | some p, some q => deepEquals p q
      | _, _ => false)

/-! ### `ParameterHistory`: access by index, data frames -/

/-- `number_of_records` / `len(history)` -/
def History.numberOfRecords (h : History α) : Nat := h.rows.length

/-- a Python list indexed with a Python `int` (negative = from the end); `none` = IndexError -/
def pyIndex {β : Type} (xs : List β) (i : Int) : Option β :=
  if 0 ≤ i then xs[i.toNat]? else
    if (-i).toNat ≤ xs.length then xs[xs.length - (-i).toNat]? else none

/-- `get_parameters(index)` -/
def History.getParameters (h : History α) (i : Int) : Option (List (Ext α)) := pyIndex h.rows i

/-- `to_dataframe()`: columns = the labels, one row per record -/
def History.toDataFrame (h : History α) : List String × List (List (Ext α)) := (h.labels, h.rows)

/-- `from_dataframe(df)` -/
def History.fromDataFrame (df : List String × List (List (Ext α))) : History α := ⟨df.1, df.2⟩

/-- `Parameters.set_from_history(history, index)` with a Python index; `none` = IndexError -/
def setFromHistoryAt [Num α] (ev : Eval α) (ps : List (Parameter α)) (h : History α) (i : Int) :
    Option (List (Parameter α) × SetStatus) :=
  match h.getParameters i with
  | some row => some (setFromArrays ev ps (h.labels.drop 1) (row.drop 1))
  | none => none

/-- a run of `append`s starting from a history -/
def History.appendAll [Num α] (ev : Eval α) : History α → List (List (Parameter α) × Ext α) → Option (History α)
  | h, [] => some h
  | h, (ps, it) :: rest =>
    match h.append ev ps it with
    | some h' => History.appendAll ev h' rest
    | none => none

/-! ### executable instance: free terms over exact rationals -/

inductive Term where
  | q (r : Rat)
  | add (a b : Term)
  | sub (a b : Term)
  | mul (a b : Term)
  | abs (a : Term)
  | log (a : Term)
  | exp (a : Term)
  | ifEq (a b c d : Term)
  | ifLt (a b c d : Term)
  deriving Repr, Inhabited

deriving instance DecidableEq for Term

instance : Num Term where
  ofRat := .q
  add := .add
  sub := .sub
  mul := .mul
  abs := .abs
  log := .log
  exp := .exp
  ifEq := .ifEq
  ifLt := .ifLt

/-! ### driver -/
open Glotaran.Proto

def showTerm : Term → String
  | .q r => showRat r
  | .add a b => s!"[add,{showTerm a},{showTerm b}]"
  | .sub a b => s!"[sub,{showTerm a},{showTerm b}]"
  | .mul a b => s!"[mul,{showTerm a},{showTerm b}]"
  | .abs a => s!"[abs,{showTerm a}]"
  | .log a => s!"[log,{showTerm a}]"
  | .exp a => s!"[exp,{showTerm a}]"
  | .ifEq a b c d => s!"[ifeq,{showTerm a},{showTerm b},{showTerm c},{showTerm d}]"
  | .ifLt a b c d => s!"[iflt,{showTerm a},{showTerm b},{showTerm c},{showTerm d}]"

def showExt : Ext Term → String
  | .ninf => "-inf"
  | .pinf => "inf"
  | .nan => "nan"
  | .fin t => showTerm t

def showExts (xs : List (Ext Term)) : String := showList (xs.map showExt)

def parseExt : Tree → Option (Ext Term)
  | .atom "inf" => some .pinf
  | .atom "-inf" => some .ninf
  | .atom "nan" => some .nan
  | .atom a => (parseRat? a).map (fun r => .fin (.q r))
  | _ => none

/-- `[label,value,min,max,nonNeg,vary,expr|none,stderr]` -/
def parseParam : Tree → Option (Parameter Term)
  | .list [l, v, lo, hi, nn, vy, e, se] => do
    some { label := ← l.str?, value := ← parseExt v, min := ← parseExt lo, max := ← parseExt hi,
           nonNeg := ← nn.bool?, vary := ← vy.bool?, expr := ← Tree.optOf? Tree.str? e,
           stderr := ← parseExt se }
  | _ => none

def parseParams (t : Tree) : Option (List (Parameter Term)) := Tree.listOf? parseParam t

/-- the little expression language the harness generates (sent next to the expression string) -/
inductive Ast where
  | ref (label : String)
  | const (r : Rat)
  | add (a b : Ast)
  | mul (a b : Ast)
  deriving Repr

partial def parseAst : Tree → Option Ast
  | .list [.atom "ref", l] => do some (.ref (← l.str?))
  | .list [.atom "c", r] => do some (.const (← r.rat?))
  | .list [.atom "add", a, b] => do some (.add (← parseAst a) (← parseAst b))
  | .list [.atom "mul", a, b] => do some (.mul (← parseAst a) (← parseAst b))
  | _ => none

def parseTable (t : Tree) : Option (List (String × Ast)) :=
  Tree.listOf? (fun
    | .list [s, a] => do some (← s.str?, ← parseAst a)
    | _ => none) t

def evalAst (ps : List (Parameter Term)) : Ast → Option Term
  | .ref l =>
    match ps.find? (fun p => p.label = l) with
    | some p => match p.value with
      | .fin t => some t
      | _ => none
    | none => none
  | .const r => some (.q r)
  | .add a b => do some (.add (← evalAst ps a) (← evalAst ps b))
  | .mul a b => do some (.mul (← evalAst ps a) (← evalAst ps b))

/-- the evaluator handed to the model; expressions the driver cannot evaluate are rejected
    beforehand by `evaluable` -/
def evOf (table : List (String × Ast)) : Eval Term := fun ps s =>
  match table.find? (fun e => e.1 = s) with
  | some (_, a) => match evalAst ps a with
    | some t => .fin t
    | none => .nan
  | none => .nan

/-- every expression has an AST whose references are parameters with a finite value, and (when
    values are about to be replaced) every incoming value is finite -/
def evaluable (table : List (String × Ast)) (ps : List (Parameter Term)) (xs : List (Ext Term)) : Bool :=
  ps.all (fun p => match p.expr with
    | none => true
    | some s => match table.find? (fun e => e.1 = s) with
      | some (_, a) => (evalAst ps a).isSome
      | none => false)
  && (ps.all (fun p => p.expr.isNone) || xs.all (fun x => match x with | .fin _ => true | _ => false))

def showStatus : SetStatus → String
  | .ok => "ok"
  | .lengthMismatch => "len"
  | .notFound l => s!"notfound:{encodeStr l}"

/-- everything observable of a parameter: `[label,value,min,max,nonNeg,vary,expr,stderr]` -/
def showParam (p : Parameter Term) : String :=
  showList [encodeStr p.label, showExt p.value, showExt p.min, showExt p.max, showBool p.nonNeg,
            showBool p.vary, showOpt encodeStr p.expr, showExt p.stderr]

def showParams (ps : List (Parameter Term)) : String := showList (ps.map showParam)

def showHistory : Option (History Term) → String
  | none => "mismatch"
  | some h => s!"{showStrs h.labels} {showList (h.rows.map showExts)}"

def allFin (xs : List (Ext Term)) : Option (List Term) :=
  xs.mapM (fun x => match x with | .fin t => some t | _ => none)

/-- stateless protocol: every line carries the parameter set it is about -/
def driverStep (s : Unit) (ts : List Tree) : Unit × String :=
  let out : Option String :=
    match ts with
    | [.atom "create", l, v, lo, hi, nn, vy, e] => do
      let p : Parameter Term := Parameter.create (← l.str?) (← parseExt v) (← parseExt lo)
        (← parseExt hi) (← nn.bool?) (← vy.bool?) (← Tree.optOf? Tree.str? e)
      some s!"param {showParam p}"
    | [.atom "arrays", excl, pst, tab] => do
      let ps ← parseParams pst
      let table ← parseTable tab
      if !evaluable table ps [] then none else
      let a := arrays (evOf table) (← excl.bool?) ps
      some s!"arrays {showStrs a.labels} {showExts a.values} {showExts a.lower} {showExts a.upper}"
    | [.atom "set", pst, tab, ls, xs] => do
      let ps ← parseParams pst
      let table ← parseTable tab
      let xs ← Tree.listOf? parseExt xs
      if !evaluable table ps xs then none else
      let r := setFromArrays (evOf table) ps (← ls.strs?) xs
      some s!"set {showStatus r.2} {showParams r.1}"
    | [.atom "objective", pst, tab, ls, xs, it] => do
      let ps ← parseParams pst
      let table ← parseTable tab
      let xs ← Tree.listOf? parseExt xs
      if !evaluable table ps xs then none else
      let r := objectiveStep (evOf table) ps (← ls.strs?) xs (← parseExt it) ⟨[], []⟩
      some s!"objective {showStatus r.2.1} {showParams r.1} {showHistory r.2.2}"
    | [.atom "append", pst, tab, hl, it] => do
      let ps ← parseParams pst
      let table ← parseTable tab
      if !evaluable table ps [] then none else
      some s!"append {showHistory (History.append (evOf table) ⟨← hl.strs?, []⟩ ps (← parseExt it))}"
    | [.atom "fromhistory", pst, tab, hl, rows, i] => do
      let ps ← parseParams pst
      let table ← parseTable tab
      let rows ← Tree.listOf? (Tree.listOf? parseExt) rows
      let i ← i.nat?
      if !evaluable table ps (rows.getD i []) then none else
      let r := setFromHistory (evOf table) ps ⟨← hl.strs?, rows⟩ i
      some s!"set {showStatus r.2} {showParams r.1}"
    | [.atom "stderr", pst, ls, errs] => do
      let ps ← parseParams pst
      let ls ← ls.strs?
      let errs ← allFin (← Tree.listOf? parseExt errs)
      -- outside the model: a listed non-negative parameter without a finite value
      if ps.any (fun p => p.nonNeg && ls.contains p.label &&
          (match p.value with | .fin _ => false | _ => true)) then some "unmodelled" else
      some s!"stderr {showParams (assignStdErrs ps ls errs)}"
    | [.atom "has", pst, l] => do
      let ps ← parseParams pst
      some s!"has {showBool (hasLabel ps (← l.str?))}"
    | [.atom "get", pst, l] => do
      let ps ← parseParams pst
      let l ← l.str?
      match getLabel ps l with
      | some p => some s!"get {showParam p}"
      | none => some s!"get notfound:{encodeStr l}"
    | [.atom "copy", pst, tab] => do
      let ps ← parseParams pst
      let table ← parseTable tab
      if !evaluable table ps [] then none else
      some s!"copy {showParams (copyParams (evOf table) ps)}"
    | [.atom "dictlist", pst, tab] => do
      let ps ← parseParams pst
      let table ← parseTable tab
      if !evaluable table ps [] then none else
      some s!"dictlist {showParams (fromDictList (evOf table) (toDictList ps))}"
    | [.atom "eq", pst, qst] => do
      let ps ← parseParams pst
      let qs ← parseParams qst
      some s!"eq {showBool (paramsEq ps qs)}"
    | [.atom "histget", hl, rows, i] => do
      let rows ← Tree.listOf? (Tree.listOf? parseExt) rows
      let h : History Term := History.fromDataFrame (← hl.strs?, rows)
      let df := h.toDataFrame
      match h.getParameters (← i.int?) with
      | some row => some s!"histget {h.numberOfRecords} {showStrs df.1} {showExts row}"
      | none => some s!"histget {h.numberOfRecords} {showStrs df.1} indexerror"
    | [.atom "fromhistoryat", pst, tab, hl, rows, i] => do
      let ps ← parseParams pst
      let table ← parseTable tab
      let rows ← Tree.listOf? (Tree.listOf? parseExt) rows
      let i ← i.int?
      let h : History Term := ⟨← hl.strs?, rows⟩
      if !evaluable table ps ((h.getParameters i).getD []) then none else
      match setFromHistoryAt (evOf table) ps h i with
      | some r => some s!"set {showStatus r.2} {showParams r.1}"
      | none => some "set indexerror"
    | _ => none
  (s, out.getD "bad-op")

end Glotaran.C11
