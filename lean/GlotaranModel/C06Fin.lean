/-
C06 — `finalize_data` of the builtin megacomplexes: which result variable reports what under which label.

  * `BExpr`, `ResVar`, `Out`: by-label result descriptors — a result variable is a list of (coordinate label of its label
    dimension ↦ expression over the matrix column / the clp series stored under a *label*).  No positions occur.
  * `oscResult`, `artifactResult`, `spectralResult`, `baselineResult`, `guideResult`, `decayResult` (+ the global side of
    full models): the hand-written model of the `finalize_data` functions — the descriptors the driver prints and the
    harness evaluates on the real result datasets (harness/props/c06.py `check_finalize`).
  * `Table.interp`: the interpretation of the tables regenerated from the source text (Generated/C06Fin.lean, vocabulary
    C06FinDesc.lean): label lists are evaluated with the Python semantics of the loops (`allSpecies` = first seen first),
    `.sel` with an f-string becomes a by-label reference, `sqrt(a*a + b*b)` becomes `hypot`, `np.unwrap(np.arctan2(s, c))`
    is accepted only along the series of one label.  A selection by position / mask, an unwrap across labels, a label
    the environment does not bind have no interpretation (`none`).
`generated_finalize_eq_model_*` (Props/C06.lean) prove `interp = model` for all label lists and megacomplex lists.
-/
import GlotaranModel.C06
import GlotaranModel.C06FinDesc
import GlotaranModel.Generated.C06Fin
namespace Glotaran.C06.Fin
open Glotaran.C06

/-! ### by-label result descriptors -/

inductive BExpr where
  | clp (label : String)                         -- the series over the global axis of the clp under `label`
  | matrixCol (label : String)                   -- the column of `matrix` under `label` (one per index for a 3-D matrix)
  | globalMatrixCol (label : String)             -- the column of `global_matrix` under the global clp label
  | resultVar (name dim label : String)          -- `dataset[name].sel({dim: label})`
  | hypot (a b : BExpr)                          -- sqrt(a² + b²), element-wise
  | unwrapAtan2 (sin cos : BExpr)                -- np.unwrap(np.arctan2(sin, cos)) along the series of this one label
  deriving Repr, DecidableEq, Inhabited

structure ResVar where
  name : String
  dims : List String
  labelDim : Option String
  rank3 : Option Bool                            -- only for a 3-D (`some true`) / 2-D (`some false`) matrix; `none`: always
  entries : List (String × BExpr)                -- coordinate label ↦ what is reported under it ("" when there is no label dimension)
  deriving Repr, DecidableEq, Inhabited

inductive Out where
  | coord (name : String) (labels : List String)
  | coordOn (name dim path : String)             -- coordinate `name` on dimension `dim`: the attribute `path`, position-wise
  | var (v : ResVar)
  | lincomb (name : String) (dims : List String) (terms : List BExpr) (weights : String) (transposed : Bool)
      -- Σ_s terms[s] ⊗ weights[:, s] (transposed) — decay associated spectra
  | guard (dim : String)                         -- nothing is written when the dataset already has this coordinate
  | external (fn : String)
  deriving Repr, DecidableEq, Inhabited

/-! ### what the functions are run on -/

/-- a megacomplex of the dataset as `finalize_data` sees it: class name, label, its own label list (compartments of a
    decay megacomplex, keys of `shape` of a spectral one) -/
structure McInfo where
  cls : String
  label : String
  items : List String
  deriving Repr, DecidableEq, Inhabited

structure Args where
  mcs : List McInfo          -- the megacomplexes (`dataset_model.megacomplex`, or `.global_megacomplex` for the global side)
  selfLabel : String         -- `self.label`
  dsLabel : String           -- `dataset_model.label`
  gdim : String              -- `dataset.attrs["global_dimension"]`
  mdim : String              -- `dataset.attrs["model_dimension"]`
  labels : List String       -- `self.labels`
  order : Nat                -- `self.order`
  deriving Repr, Inhabited

structure FEnv where
  base : LEnv
  mcs : List (String × List McInfo)      -- expression that yields megacomplexes ↦ the megacomplexes
  innerKey : String                      -- the attribute / call under which a megacomplex' `items` are read

def megacomplexSources : List String :=
  ["dataset_model.megacomplex", "dataset_model.global_megacomplex",
   "collect_megacomplexes(dataset_model, False)", "collect_megacomplexes(dataset_model, True)"]

def finEnv (innerKey : String) (a : Args) : FEnv :=
  { base := { lists := [("self.labels", a.labels)],
              scalars := [("self.label", a.selfLabel), ("dataset_model.label", a.dsLabel),
                          ("global_dimension", a.gdim), ("model_dimension", a.mdim)],
              nats := [("self.order", a.order)] },
    mcs := megacomplexSources.map (fun s => (s, a.mcs)),
    innerKey := innerKey }

/-- inside `for <v> in <megacomplexes>`: `<v>.label` and `<v>.<innerKey>` are bound -/
def FEnv.withMc (e : FEnv) (v : String) (m : McInfo) : FEnv :=
  { e with base := { e.base with scalars := (v ++ ".label", m.label) :: e.base.scalars,
                                 lists := (v ++ "." ++ e.innerKey, m.items) :: e.base.lists } }

/-! ### interpretation of a regenerated table -/

def Labels.eval (e : FEnv) : Labels → Option (List String)
  | .attr p => e.base.lists.lookup p
  | .range1 p => (e.base.nats.lookup p).map (fun n => (List.range n).map (fun i => toString (i + 1)))
  | .firstSeen outer cls inner =>
    if inner = e.innerKey then
      (e.mcs.lookup outer).map (fun ms =>
        allSpecies ((ms.filter (fun m => match cls with | none => true | some c => m.cls == c)).map (·.items)))
    else none
  | .untranslatable _ => none

def Cell.interp (e : LEnv) (x : String) : Cell → Option BExpr
  | .sel .clp dim parts => if dim = "clp_label" then (renderParts e x parts).map .clp else none
  | .sel .matrix dim parts => if dim = "clp_label" then (renderParts e x parts).map .matrixCol else none
  | .sel .globalMatrix dim parts => if dim = "global_clp_label" then (renderParts e x parts).map .globalMatrixCol else none
  | .sel (.resultVar n) dim parts =>
    match renderParts e "" n, renderParts e x parts with
    | some n', some l => some (.resultVar n' dim l)
    | _, _ => none
  | .hypot a b =>
    match a.interp e x, b.interp e x with
    | some a', some b' => some (.hypot a' b')
    | _, _ => none
  | .sqrt (.add (.mul a a') (.mul b b')) =>
    if a = a' ∧ b = b' then
      match a.interp e x, b.interp e x with
      | some p, some q => some (.hypot p q)
      | _, _ => none
    else none
  | .unwrap .series (.atan2 a b) =>
    match a.interp e x, b.interp e x with
    | some p, some q => some (.unwrapAtan2 p q)
    | _, _ => none
  | _ => none

def Scalar.eval (e : FEnv) : Scalar → Option String
  | .parts p => renderParts e.base "" p
  | .ifUnique cls outer t f =>
    match e.mcs.lookup outer with
    | some ms => if (ms.filter (fun m => m.cls == cls)).length < 2 then renderParts e.base "" t else renderParts e.base "" f
    | none => none
  | .ifEq lhs v t f =>
    match renderParts e.base "" lhs with
    | some l => if l = v then renderParts e.base "" t else renderParts e.base "" f
    | none => none
  | .untranslatable _ => none

/-- the string-valued locals, in source order, become scalars of the environment -/
def evalScalars (e : FEnv) : List (String × Scalar) → Option FEnv
  | [] => some e
  | (n, s) :: rest =>
    match s.eval e with
    | some v => evalScalars { e with base := { e.base with scalars := (n, v) :: e.base.scalars } } rest
    | none => none

def entriesOf (e : LEnv) (cell : Cell) (ls : List String) : Option (List (String × BExpr)) :=
  ls.mapM (fun x => (cell.interp e x).map (fun b => (x, b)))

def Row.interp (e : FEnv) : Row → Option Out
  | .coord name labels =>
    match renderParts e.base "" name, labels.eval e with
    | some n, some ls => some (.coord n ls)
    | _, _ => none
  | .coordOn name dim path =>
    match renderParts e.base "" name, renderParts e.base "" dim with
    | some n, some d => some (.coordOn n d path)
    | _, _ => none
  | .var name dims none rank3 cell =>
    match renderParts e.base "" name, dims.mapM (renderParts e.base ""), cell.interp e.base "" with
    | some n, some ds, some b => some (.var ⟨n, ds, none, rank3, [("", b)]⟩)
    | _, _, _ => none
  | .var name dims (some (ld, labs)) rank3 cell =>
    match renderParts e.base "" name, dims.mapM (renderParts e.base ""), renderParts e.base "" ld, labs.eval e with
    | some n, some ds, some l, some ls =>
      -- the label dimension is the last declared dimension (`.values` keeps the selected labels last)
      if ds.getLast? = some l then (entriesOf e.base cell ls).map (fun en => .var ⟨n, ds, some l, rank3, en⟩) else none
    | _, _, _, _ => none
  | .lincomb name dims src selDim species weights tr =>
    match renderParts e.base "" name, dims.mapM (renderParts e.base ""), species.eval e with
    | some n, some ds, some ls =>
      (ls.mapM (fun x => (Cell.sel src selDim [.var]).interp e.base x)).map (fun ts => .lincomb n ds ts weights tr)
    | _, _, _ => none
  | .guard dim => (renderParts e.base "" dim).map .guard
  | .external fn => some (.external fn)
  | .untranslatable _ => none

def Step.interp (e : FEnv) (s : Step) : Option (List Out) :=
  match s.scope with
  | none => (s.row.interp e).map (fun o => [o])
  | some (v, outer) =>
    match e.mcs.lookup outer with
    | some ms => ms.mapM (fun m => s.row.interp (e.withMc v m))
    | none => none

def Table.interp (e : FEnv) (t : Table) : Option (List Out) :=
  match evalScalars e t.scalars with
  | some e' => (t.steps.mapM (Step.interp e')).map List.flatten
  | none => none

/-! ### the hand-written model of the `finalize_data` functions -/

def amplitudeOf (l : String) : BExpr := .hypot (.clp (l ++ "_sin")) (.clp (l ++ "_cos"))
def phaseOf (l : String) : BExpr := .unwrapAtan2 (.clp (l ++ "_sin")) (.clp (l ++ "_cos"))

def countCls (cls : String) (ms : List McInfo) : Nat := (ms.filter (fun m => m.cls == cls)).length

/-- `prefix = "damped_oscillation" if unique else f"{self.label}_damped_oscillation"` -/
def oscPrefix (base cls : String) (a : Args) : String :=
  if countCls cls a.mcs < 2 then base else a.selfLabel ++ ("_" ++ base)

/-- Every variable of an oscillation megacomplex carries the dimension `prefix` labelled by the declared labels; under
    label `l`: amplitude and phase from the clps `l_sin`, `l_cos` (phase unwrapped along the series of `l` alone), the
    `_sin` / `_cos` variables the matrix columns `l_sin` / `l_cos`. -/
def oscResult (pfid : Bool) (a : Args) : List Out :=
  let p := if pfid then oscPrefix "pfid" "PFIDMegacomplex" a else oscPrefix "damped_oscillation" "DampedOscillationMegacomplex" a
  let byLabel (f : String → BExpr) := a.labels.map (fun l => (l, f l))
  [.coord p a.labels, .coordOn (p ++ "_frequency") p "self.frequencies", .coordOn (p ++ "_rate") p "self.rates",
   .var ⟨p ++ "_associated_spectra", [a.gdim, p], some p, none, byLabel amplitudeOf⟩,
   .var ⟨p ++ "_phase", [a.gdim, p], some p, none, byLabel phaseOf⟩] ++
  (if pfid then
    [.var ⟨p ++ "_sin", [a.gdim, a.mdim, p], some p, none, byLabel (fun l => .matrixCol (l ++ "_sin"))⟩,
     .var ⟨p ++ "_cos", [a.gdim, a.mdim, p], some p, none, byLabel (fun l => .matrixCol (l ++ "_cos"))⟩]
   else
    [.var ⟨p ++ "_sin", [a.gdim, a.mdim, p], some p, some true, byLabel (fun l => .matrixCol (l ++ "_sin"))⟩,
     .var ⟨p ++ "_sin", [a.mdim, p], some p, some false, byLabel (fun l => .matrixCol (l ++ "_sin"))⟩,
     .var ⟨p ++ "_cos", [a.gdim, a.mdim, p], some p, some true, byLabel (fun l => .matrixCol (l ++ "_cos"))⟩,
     .var ⟨p ++ "_cos", [a.mdim, p], some p, some false, byLabel (fun l => .matrixCol (l ++ "_cos"))⟩])

/-- coherent artifact: order `i` (1-based) reports the column / clp under `coherent_artifact_<i>_<label>` -/
def artifactResult (a : Args) : List Out :=
  let orders := (List.range a.order).map (fun i => toString (i + 1))
  let lab (x : String) := "coherent_artifact_" ++ x ++ "_" ++ a.selfLabel
  [.coord "coherent_artifact_order" orders,
   .var ⟨"coherent_artifact_response", [a.gdim, a.mdim, "coherent_artifact_order"], some "coherent_artifact_order", some true,
         orders.map (fun x => (x, .matrixCol (lab x)))⟩,
   .var ⟨"coherent_artifact_response", [a.mdim, "coherent_artifact_order"], some "coherent_artifact_order", some false,
         orders.map (fun x => (x, .matrixCol (lab x)))⟩,
   .var ⟨"coherent_artifact_associated_spectra", [a.gdim, "coherent_artifact_order"], some "coherent_artifact_order", none,
         orders.map (fun x => (x, .clp (lab x)))⟩,
   .external "retrieve_irf"]

def itemsOfCls (cls : String) (ms : List McInfo) : List (List String) := (ms.filter (fun m => m.cls == cls)).map (·.items)

/-- spectral megacomplexes: species = keys of `shape` of all spectral megacomplexes of the dataset, first seen first -/
def spectralResult (a : Args) : List Out :=
  let species := allSpecies (itemsOfCls "SpectralMegacomplex" a.mcs)
  [.guard "species", .coord "species" species,
   .var ⟨"species_spectra", [a.mdim, "species"], some "species", none, species.map (fun s => (s, .matrixCol s))⟩,
   .var ⟨"species_associated_concentrations", [a.gdim, "species"], some "species", none, species.map (fun s => (s, .clp s))⟩]

/-- the global side of a full model (`as_global=True`, `is_full_model=True`) -/
def spectralResultGlobal (a : Args) : List Out :=
  let species := allSpecies (itemsOfCls "SpectralMegacomplex" a.mcs)
  [.guard "spectral_species", .coord "spectral_species" species,
   .var ⟨"species_spectra", [a.gdim, "spectral_species"], some "spectral_species", none, species.map (fun s => (s, .globalMatrixCol s))⟩]

def baselineResult (a : Args) : List Out :=
  [.var ⟨"baseline", [a.gdim], none, none, [("", .clp (a.dsLabel ++ "_baseline"))]⟩]

def guideResult (_ : Args) : List Out := []

def sasName (a : Args) : String := "species_associated_" ++ (if a.gdim = "pixel" then "images" else "spectra")

/-- decay megacomplexes (`a.mcs` = the decay megacomplexes of the dataset, `items` = `get_compartments`): species first
    seen first; concentration / spectrum of species `s` = matrix column / clp under `s`; the decay associated spectra of
    megacomplex `m` combine the species associated spectra of *its own* compartments with *its own* A-matrix. -/
def decayResult (a : Args) : List Out :=
  let species := allSpecies (a.mcs.map (·.items))
  let name := if a.gdim = "pixel" then "images" else "spectra"
  [.guard "species", .coord "species" species,
   .var ⟨"species_concentration", [a.gdim, a.mdim, "species"], some "species", some true, species.map (fun s => (s, .matrixCol s))⟩,
   .var ⟨"species_concentration", [a.mdim, "species"], some "species", some false, species.map (fun s => (s, .matrixCol s))⟩,
   .var ⟨sasName a, [a.gdim, "species"], some "species", none, species.map (fun s => (s, .clp s))⟩,
   .external "retrieve_initial_concentration", .external "retrieve_irf"] ++
  a.mcs.map (fun m => .lincomb ("decay_associated_" ++ name ++ "_" ++ m.label) [a.gdim, "component_" ++ m.label]
    (m.items.map (fun s => .resultVar (sasName a) "species" s)) "megacomplex.get_a_matrix(dataset_model)" true)

/-- the global side of a full model: `model_dimension, global_dimension = global_dimension, model_dimension` first -/
def decayResultGlobal (a : Args) : List Out :=
  let species := allSpecies (a.mcs.map (·.items))
  [.guard "decay_species", .coord "decay_species" species,
   .var ⟨"species_concentration", [a.mdim, a.gdim, "decay_species"], some "decay_species", some true,
         species.map (fun s => (s, .globalMatrixCol s))⟩,
   .var ⟨"species_concentration", [a.gdim, "decay_species"], some "decay_species", some false,
         species.map (fun s => (s, .globalMatrixCol s))⟩,
   .external "retrieve_initial_concentration", .external "retrieve_irf"]

/-! ### evaluating descriptors on exact data: the selected columns -/

/-- the matrix columns a variable reports, by label (`none`: an entry is not a plain matrix column / KeyError) -/
def ResVar.matrixColumns (labels : List String) (m : LinAlg.Mat) (v : ResVar) : Option (List (String × LinAlg.Vec)) :=
  v.entries.mapM (fun en => match en.2 with
    | .matrixCol l => (C02.colOf labels m l).map (fun c => (en.1, c))
    | _ => none)

/-! ### driver -/
open Glotaran.Proto

def showBExpr : BExpr → String
  | .clp l => showList ["clp", encodeStr l]
  | .matrixCol l => showList ["mcol", encodeStr l]
  | .globalMatrixCol l => showList ["gcol", encodeStr l]
  | .resultVar n d l => showList ["rvar", encodeStr n, encodeStr d, encodeStr l]
  | .hypot a b => showList ["hypot", showBExpr a, showBExpr b]
  | .unwrapAtan2 a b => showList ["uphase", showBExpr a, showBExpr b]

def showOut : Out → String
  | .coord n ls => showList ["coord", encodeStr n, showStrs ls]
  | .coordOn n d p => showList ["coordon", encodeStr n, encodeStr d, encodeStr p]
  | .var v => showList ["var", encodeStr v.name, showStrs v.dims, showOpt encodeStr v.labelDim, showOpt showBool v.rank3,
      showList (v.entries.map (fun en => showList [encodeStr en.1, showBExpr en.2]))]
  | .lincomb n ds ts w tr => showList ["lincomb", encodeStr n, showStrs ds, showList (ts.map showBExpr), encodeStr w, showBool tr]
  | .guard d => showList ["guard", encodeStr d]
  | .external f => showList ["external", encodeStr f]

def parseMcInfo : Tree → Option McInfo
  | .list [c, l, items] => do some ⟨← c.str?, ← l.str?, ← items.strs?⟩
  | _ => none

/-- hand-written model and regenerated table of a kind -/
def kindOf (k : String) : Option ((Args → List Out) × Table × String) :=
  match k with
  | "osc" => some (oscResult false, Generated.dampedOscillationFinalize, "shape")
  | "pfid" => some (oscResult true, Generated.pfidFinalize, "shape")
  | "artifact" => some (artifactResult, Generated.coherentArtifactFinalize, "shape")
  | "spectral" => some (spectralResult, Generated.spectralFinalize, "shape")
  | "spectralglobal" => some (spectralResultGlobal, Generated.spectralFinalizeGlobal, "shape")
  | "baseline" => some (baselineResult, Generated.baselineFinalize, "shape")
  | "guide" => some (guideResult, Generated.clpGuideFinalize, "shape")
  | "decay" => some (decayResult, Generated.decayFinalize, "get_compartments(dataset_model)")
  | "decayglobal" => some (decayResultGlobal, Generated.decayFinalizeGlobal, "get_compartments(dataset_model)")
  | _ => none

/-- `fin <model|gen> <kind> <megacomplexes> <self.label> <dataset label> <global dim> <model dim> <self.labels> <self.order>` -/
def finOp (ts : List Tree) : String :=
  match ts with
  | [which, kind, ms, sl, dl, g, m, labels, order] =>
    match which.raw?, kind.raw?.bind kindOf, Tree.listOf? parseMcInfo ms, sl.str?, dl.str?, g.str?, m.str?, labels.strs?, order.nat? with
    | some w, some (model, table, key), some ms, some sl, some dl, some g, some m, some ls, some o =>
      let a : Args := ⟨ms, sl, dl, g, m, ls, o⟩
      if w = "model" then "fin " ++ showList ((model a).map showOut)
      else if w = "gen" then
        match table.interp (finEnv key a) with
        | some outs => "fin " ++ showList (outs.map showOut)
        | none => "none"
      else "bad-op"
    | _, _, _, _, _, _, _, _, _ => "bad-op"
  | _ => "bad-op"

/-- the C06 driver with the `fin` operations in front -/
def driverStep (s : Unit) (ts : List Tree) : Unit × String :=
  match ts with
  | .atom "fin" :: rest => (s, finOp rest)
  | _ => C06.driverStep s ts

end Glotaran.C06.Fin
