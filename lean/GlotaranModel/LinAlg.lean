/-
Exact linear algebra over core `Rat` on list-of-rows matrices, used by the executable models.
`lsExact` / `nnlsExact` are *certifying*: they return a solution only if the Boolean checker
(`isNormalSol` / `isKKT`) accepts it, so their soundness rests on the checkers, not on the
elimination.
-/
namespace Glotaran.LinAlg

abbrev Vec := List Rat
abbrev Mat := List (List Rat)   -- list of rows

def dot (a b : Vec) : Rat := (List.zipWith (· * ·) a b).foldl (· + ·) 0
def vadd (a b : Vec) : Vec := List.zipWith (· + ·) a b
def vsub (a b : Vec) : Vec := List.zipWith (· - ·) a b
def vscale (k : Rat) (a : Vec) : Vec := a.map (k * ·)
def mulVec (m : Mat) (v : Vec) : Vec := m.map (fun r => dot r v)
def ncols (m : Mat) : Nat := match m with | [] => 0 | r :: _ => r.length
def col (m : Mat) (j : Nat) : Vec := m.map (fun r => r.getD j 0)
def transpose (m : Mat) (n : Nat) : Mat := (List.range n).map (col m)
def matMul (a b : Mat) (nb : Nat) : Mat :=
  let bt := transpose b nb
  a.map (fun r => bt.map (fun c => dot r c))
def zeros (n : Nat) : Vec := List.replicate n 0
def sumSq (v : Vec) : Rat := dot v v
def mscale (k : Rat) (m : Mat) : Mat := m.map (vscale k)
/-- `(matrix.T * weight).T` : row i multiplied by weight i -/
def weightRows (m : Mat) (w : Vec) : Mat := List.zipWith (fun r wi => vscale wi r) m w

/-! ### Gaussian elimination with exact pivots (first non-zero pivot) -/

/-- eliminate on an augmented system `rows` (each row = coefficients ++ [rhs]); returns the
    reduced row-echelon rows, or `none` if some column has no pivot (singular). -/
def gaussJordan (n : Nat) : Nat → List Vec → List Vec → Option (List Vec)
  | 0, done, _ => some done.reverse
  | k + 1, done, rest =>
    let c := n - (k + 1)
    match rest.find? (fun r => r.getD c 0 != 0) with
    | none => none
    | some p =>
      let rest' := rest.erase p
      let pn := vscale (1 / p.getD c 0) p
      let elim := fun (r : Vec) => vsub r (vscale (r.getD c 0) pn)
      gaussJordan n k ((pn :: done.map elim)) (rest'.map elim)

/-- solve the square system `a x = b` (n unknowns); `none` if singular -/
def solve (a : Mat) (b : Vec) : Option Vec :=
  let n := a.length
  let aug := List.zipWith (fun r bi => r ++ [bi]) a b
  match gaussJordan n n [] aug with
  | none => none
  | some rows =>
    -- rows are in pivot order (column 0 first after the final reverse of `done`)
    some ((List.range n).map (fun i =>
      match rows.find? (fun r => r.getD i 0 == 1 && (List.range n).all (fun j => j == i || r.getD j 0 == 0)) with
      | some r => r.getD n 0
      | none => 0))

def normalMatrix (a : Mat) : Mat :=
  let n := ncols a
  matMul (transpose a n) a n
def normalRhs (a : Mat) (y : Vec) : Vec := mulVec (transpose a (ncols a)) y
def residual (a : Mat) (y c : Vec) : Vec := vsub y (mulVec a c)
/-- Aᵀ (y − A c) -/
def gradient (a : Mat) (y c : Vec) : Vec := mulVec (transpose a (ncols a)) (residual a y c)

/-- checker: `c` satisfies the normal equations of `min ‖y − A c‖` exactly -/
def isNormalSol (a : Mat) (y c : Vec) : Bool :=
  c.length == ncols a && (gradient a y c).all (· == 0)

/-- checker: Karush–Kuhn–Tucker conditions of `min ‖y − A c‖, c ≥ 0` -/
def isKKT (a : Mat) (y c : Vec) : Bool :=
  let g := gradient a y c
  c.length == ncols a && c.all (0 ≤ ·) && g.all (· ≤ 0) && (List.zipWith (· * ·) c g).all (· == 0)

/-- exact least squares via the normal equations; `none` = rank deficient -/
def lsExact (a : Mat) (y : Vec) : Option Vec :=
  if ncols a = 0 then (if isNormalSol a y [] then some [] else none) else
  match solve (normalMatrix a) (normalRhs a y) with
  | some c => if isNormalSol a y c then some c else none
  | none => none

/-- all sublists of column indices -/
def supports : Nat → List (List Nat)
  | 0 => [[]]
  | n + 1 => (supports n).flatMap (fun s => [s, s ++ [n]])

def selectCols (a : Mat) (s : List Nat) : Mat := a.map (fun r => s.map (fun j => r.getD j 0))
def scatter (n : Nat) (s : List Nat) (v : Vec) : Vec :=
  (List.range n).map (fun j => match s.idxOf? j with | some i => v.getD i 0 | none => 0)

/-- exact NNLS by support enumeration (n ≤ ~10): first support whose restricted LS solution
    passes the KKT test -/
def nnlsExact (a : Mat) (y : Vec) : Option Vec :=
  let n := ncols a
  (supports n).findSome? (fun s =>
    match lsExact (selectCols a s) y with
    | some v => let c := scatter n s v; if isKKT a y c then some c else none
    | none => none)

end Glotaran.LinAlg
