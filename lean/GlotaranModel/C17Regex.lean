/-
C17 — a small regular-expression machine for the patterns of glotaran/utils/regex.py that the yml loader uses.

The patterns themselves are *not* written here: they are regenerated from the source on every run
(`Generated/C17.lean`, translator harness/props/_c17_regex.py) as values of the AST below.  What is hand-written
is the matching algorithm of Python's `re` for this fragment (sequences of single-character classes with greedy /
lazy bounded repetition and end anchors), as a backtracking engine with Python's priorities:

* `matchItems acc p s` — one match attempt at the front of `s`: the text after the *first* match in priority order
  (greedy repeats longest first, lazy ones shortest first) whose remainder satisfies `acc`
  (`re.match`: any; `re.fullmatch`: empty; a search that must advance: shorter than `s`);
* `scan` — `findall`: attempts from left to right, non-overlapping, with CPython's rule for empty matches.

`\w`, `\d`, `\s` are ASCII here (labels outside ASCII are explored by the oracle only).
-/
namespace Glotaran.C17

abbrev Str := List Char

/-- `\w` restricted to ASCII (labels outside ASCII are explored by the oracle only) -/
def isWordChar (c : Char) : Bool := c.isAlphanum || c == '_'

/-- `\s` (ASCII: `\t\n\v\f\r`, the four separators 0x1c–0x1f, blank) -/
def isSpaceChar (c : Char) : Bool :=
  c == ' ' || c == '\t' || c == '\n' || c == '\r' || c == Char.ofNat 11 || c == Char.ofNat 12 ||
  c == Char.ofNat 28 || c == Char.ofNat 29 || c == Char.ofNat 30 || c == Char.ofNat 31

namespace Regex

/-- member of a character class -/
inductive CItem where
  | lit (c : Char)
  | range (lo hi : Nat)
  | space | word | digit
  | notSpace | notWord | notDigit
  deriving Repr, DecidableEq

def CItem.test : CItem → Char → Bool
  | .lit c, x => x == c
  | .range lo hi, x => decide (lo ≤ x.toNat) && decide (x.toNat ≤ hi)
  | .space, x => isSpaceChar x
  | .word, x => isWordChar x
  | .digit, x => x.isDigit
  | .notSpace, x => !isSpaceChar x
  | .notWord, x => !isWordChar x
  | .notDigit, x => !x.isDigit

/-- `[...]` / `[^...]`; a literal is a class with one member -/
structure Cls where
  neg : Bool
  items : List CItem
  deriving Repr, DecidableEq

def Cls.test (c : Cls) (x : Char) : Bool := c.neg != c.items.any (·.test x)

inductive Item where
  | one (c : Cls)
  | rep (greedy : Bool) (lo : Nat) (hi : Option Nat) (c : Cls)
  | atEnd                       -- `\Z`
  | atEndNl                     -- `$` (end, or before a final newline)
  | untranslatable (why : String)
  deriving Repr, DecidableEq

/-- how the code applies a pattern -/
inductive Use where
  | matchPrefix                 -- `.match(s)`
  | fullMatch                   -- `.fullmatch(s)`
  | findall                     -- `.findall(s)`
  | untranslatable (why : String)
  deriving Repr, DecidableEq

/-- a part of the f-string that renders a tuple key -/
inductive RenderPart where
  | text (t : Str)
  | elem (i : Nat)              -- `{k[i]}`
  | untranslatable (why : String)
  deriving Repr, DecidableEq

/-- number of leading characters of `s` in the class -/
def runLen (c : Cls) (s : Str) : Nat := (s.takeWhile c.test).length

def capLen : Option Nat → Nat → Nat
  | none, n => n
  | some h, n => min h n

/-- lazy repeat: the continuation after `cur`, `cur + 1`, … `cur + f` characters, first success -/
def tryUp (k : Str → Option Str) (s : Str) : Nat → Nat → Option Str
  | 0, cur => k (s.drop cur)
  | f + 1, cur =>
    match k (s.drop cur) with
    | some r => some r
    | none => tryUp k s f (cur + 1)

/-- greedy repeat: the continuation after `lo + e`, … `lo + 1`, `lo` characters, first success -/
def tryDown (k : Str → Option Str) (s : Str) (lo : Nat) : Nat → Option Str
  | 0 => k (s.drop lo)
  | e + 1 =>
    match k (s.drop (lo + (e + 1))) with
    | some r => some r
    | none => tryDown k s lo e

/-- one match attempt at the front of the text: what follows the first match (in the engine's priority order)
    whose remainder is accepted by `acc` -/
def matchItems (acc : Str → Bool) : List Item → Str → Option Str
  | [] => fun s => if acc s then some s else none
  | .one c :: rest => fun s =>
    match s with
    | x :: xs => if c.test x then matchItems acc rest xs else none
    | [] => none
  | .rep g lo hi c :: rest => fun s =>
    let n := capLen hi (runLen c s)
    if n < lo then none
    else if g then tryDown (matchItems acc rest) s lo (n - lo)
    else tryUp (matchItems acc rest) s (n - lo) lo
  | .atEnd :: rest => fun s => if s.isEmpty then matchItems acc rest s else none
  | .atEndNl :: rest => fun s => if s.isEmpty || s == ['\n'] then matchItems acc rest s else none
  | .untranslatable _ :: _ => fun _ => none

/-- `p.match(s)` / `p.fullmatch(s)`: the text after the match (`none` = no match) -/
def useRest : Use → List Item → Str → Option Str
  | .matchPrefix, p, s => matchItems (fun _ => true) p s
  | .fullMatch, p, s => matchItems (fun r => r.isEmpty) p s
  | _, _, _ => none

/-- truth value of `p.match(s)` / `p.fullmatch(s)` -/
def useTest (u : Use) (p : List Item) (s : Str) : Bool := (useRest u p s).isSome

/-- `finditer` over `s`: `adv` = the previous match was empty and ended here (an empty match is then refused);
    after a match the search continues behind it, otherwise one character further -/
def scan (p : List Item) : Nat → Bool → Str → List Str
  | 0, _, _ => []
  | f + 1, adv, s =>
    match matchItems (fun r => !adv || decide (r.length < s.length)) p s with
    | some rest =>
      let m := s.take (s.length - rest.length)
      m :: scan p f m.isEmpty rest
    | none =>
      match s with
      | [] => []
      | _ :: s' => scan p f false s'

/-- `p.findall(s)` for a pattern whose only capture group (if any) is the whole pattern -/
def findall (p : List Item) (s : Str) : List Str := scan p (2 * s.length + 2) false s

def useFindall : Use → List Item → Str → List Str
  | .findall, p, s => findall p s
  | _, _, _ => []

/-- the f-string applied to a key whose elements are `elems` (`none` = IndexError / untranslatable) -/
def renderWith : List RenderPart → List Str → Option Str
  | [], _ => some []
  | .text t :: rest, elems => (renderWith rest elems).map (t ++ ·)
  | .elem i :: rest, elems =>
    match elems[i]?, renderWith rest elems with
    | some e, some r => some (e ++ r)
    | _, _ => none
  | .untranslatable _ :: _, _ => none

end Regex
end Glotaran.C17
