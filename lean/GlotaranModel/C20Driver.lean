/-
C20 — driver glue: the protocol driver of GlotaranModel/C20.lean over the regenerated validator
table (the schema table is passed by Main.lean, as before).
-/
import GlotaranModel.C20
import GlotaranModel.Generated.C20Validators
namespace Glotaran.C20

def driverStep (sch : Schema) (st : Option Model) (ts : List Proto.Tree) : Option Model × String :=
  driverStepWith sch Generated.validators st ts

end Glotaran.C20
