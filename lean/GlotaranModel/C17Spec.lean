/-
C17 — vocabulary of the regenerated dataclass field tables (`Generated/C17Scheme.lean`): what
`dataclasses.fields(Scheme)` / `fields(Result)` of the live classes say about every field — name, whether it is
written by `asdict` (metadata `exclude_from_dict`), whether it is a file-loadable component (metadata `file_loader`,
one reference or a label → reference mapping), whether `__init__` takes it, the declared type and the default.
Imports nothing.
-/
namespace Glotaran.C17

/-- declared type of a field (annotation of the live class) -/
inductive FTy where
  | bool | int | float | str
  | enum (alts : List String)          -- `Literal["a", "b"]`
  | opt (t : FTy)                      -- `T | None`
  | listStr                            -- `list[str]`
  | component                          -- a file-loadable class (the annotation is not a yaml type)
  | untranslatable (why : String)
  deriving Repr, DecidableEq, Inhabited

inductive FKind where
  | plain                              -- written as it is
  | fileOne                            -- `file_loadable_field(T)`: one reference
  | fileMap                            -- `file_loadable_field(DatasetMapping, is_wrapper_class=True)`: label ↦ reference
  | excluded                           -- metadata `exclude_from_dict`: never written
  | untranslatable (why : String)
  deriving Repr, DecidableEq, Inhabited

/-- the default of a field as far as the loader needs it -/
inductive FDefault where
  | required                           -- no default: `__init__` raises TypeError when the key is missing
  | none | bool (b : Bool) | int (i : Int) | float (yamlText : String) | str (s : String)
  | other                              -- a default outside the yaml types (only on excluded fields)
  deriving Repr, DecidableEq, Inhabited

structure FieldSpec where
  name : String
  kind : FKind
  ty : FTy
  init : Bool
  default : FDefault
  deriving Repr, DecidableEq, Inhabited

/-- what a function of the yml plugin does with the dataclass helpers -/
inductive IoShape where
  | asdictParentFolder                       -- `write_dict(asdict(obj, folder=Path(file_name).parent), file_name=file_name)`
  | fromdictParentFolder (cls : String)      -- `fromdict(cls, <parsed file>, folder=<file>.parent)`
  | untranslatable (why : String)
  deriving Repr, DecidableEq, Inhabited

end Glotaran.C17
