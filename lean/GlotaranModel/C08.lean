/-
C08 — interval-scoped items act on their interval.

The interval machinery itself lives in GlotaranModel/C02.lean and is reused here (the same
definitions the C02/C03 drivers execute):
  `EB`, `Interval.contains`, `applies`, `Constraint.appliesAt`          glotaran/model/interval_item.py, clp_constraint.py
  `argminAbs`, `nearestIdx`, `axisSlice`                                DataProvider.get_axis_slice_from_interval (as fixed: D1, D22)
  `areaSlice`, `getArea`, `clpPenalties`                                estimation_provider._get_area (as fixed: D23) / calculate_clp_penalties
  `applyRelationsAt`, `applyConstraintsAt`, `retrieveClps`              MatrixProvider.apply_relations / apply_constraints, retrieve_clps
This file adds what C02 takes as an input:
  `doesIntervalItemApply`                                               MatrixProvider.does_interval_item_apply
  `applyWeight`, `addModelWeight`                                       DataProvider.add_model_weight (as fixed: D10)
  `effective`                                                           DataProvider.__init__: the weight every dataset ends up with
  `numberOfClps`, `penaltyWarnings`                                     MatrixProvider*.number_of_clps, warnings of calculate_clp_penalties
and a driver for the unit functions and for whole schemes (C02 description lines + `weight`, `maxis`).
-/
import GlotaranModel.C03
namespace Glotaran.C08
open Glotaran.LinAlg Glotaran.C02

/-! ### `does_interval_item_apply` -/

/-- `IntervalItem.applies(index)` with an optional index (`None` ⇒ everywhere) -/
def appliesOpt (ivs : Option (List Interval)) : Option Rat → Bool
  | none => true
  | some x => applies ivs x

/-- `prop.applies(index)` for the item kinds: `only` negates -/
def itemApplies (only : Bool) (ivs : Option (List Interval)) (index : Option Rat) : Bool :=
  if only then !(appliesOpt ivs index) else appliesOpt ivs index

/-- `MatrixProvider.does_interval_item_apply` → (applies, warned): an item *with* interval on a matrix
    without index applies and warns; otherwise `prop.applies(index)` -/
def doesIntervalItemApply (only : Bool) (ivs : Option (List Interval)) (index : Option Rat) : Bool × Bool :=
  if ivs.isSome && index.isNone then (true, true)
  else (itemApplies only ivs index, false)

/-! ### model weights -/

structure WeightItem where
  datasets : List String
  globalInterval : Option (EB × EB)
  modelInterval : Option (EB × EB)
  value : Rat
  deriving Repr, Inhabited

/-- the index range a weight interval selects on an axis; no interval ⇒ the whole axis -/
def sliceOf (iv : Option (EB × EB)) (axis : List Rat) : Nat × Nat :=
  match iv with
  | none => (0, axis.length)
  | some (lo, hi) => axisSlice lo hi axis

def inSlice (s : Nat × Nat) (i : Nat) : Bool := s.1 ≤ i && i < s.2

/-- does the weight item touch entry (m, g) -/
def WeightItem.covers (it : WeightItem) (modelAxis globalAxis : List Rat) (m g : Nat) : Bool :=
  inSlice (sliceOf it.modelInterval modelAxis) m && inSlice (sliceOf it.globalInterval globalAxis) g

/-- `weight[idx] *= model_weight.value` -/
def applyWeight (modelAxis globalAxis : List Rat) (w : Mat) (it : WeightItem) : Mat :=
  w.mapIdx (fun m row => row.mapIdx (fun g v =>
    if it.covers modelAxis globalAxis m g then v * it.value else v))

def ones (nModel nGlobal : Nat) : Mat := List.replicate nModel (List.replicate nGlobal 1)

structure WeightOut where
  weight : Option Mat
  warned : Bool
  deriving Repr, Inhabited, DecidableEq

/-- the model weights that name the dataset -/
def matching (ws : List WeightItem) (label : String) : List WeightItem :=
  ws.filter (fun w => w.datasets.contains label)

/-- `DataProvider.add_model_weight`: nothing to do without a matching model weight; a weight supplied
    by the dataset wins (with a warning); otherwise ones, multiplied block by block -/
def addModelWeight (ws : List WeightItem) (label : String) (dsWeight : Option Mat)
    (modelAxis globalAxis : List Rat) : WeightOut :=
  let mws := matching ws label
  if mws.isEmpty then ⟨dsWeight, false⟩
  else
    match dsWeight with
    | some w => ⟨some w, true⟩
    | none =>
      ⟨some (mws.foldl (applyWeight modelAxis globalAxis) (ones modelAxis.length globalAxis.length)), false⟩

/-! ### whole schemes: the weight each dataset ends up with, then the C02/C03 model -/

structure State where
  base : C02.DState := {}
  weights : List WeightItem := []
  modelAxes : List (String × List Rat) := []
  deriving Inhabited

def lookupAxis (axes : List (String × List Rat)) (label : String) : Option (List Rat) :=
  (axes.find? (fun p => p.1 == label)).map (·.2)

/-- `DataProvider.__init__` for one dataset: (dataset with its final weight, warned?) -/
def effectiveDataset (ws : List WeightItem) (axes : List (String × List Rat)) (d : Dataset) :
    Option (Dataset × Bool) :=
  match lookupAxis axes d.label with
  | none => none
  | some ma =>
    let o := addModelWeight ws d.label d.weight ma d.globalAxis
    some ({ d with weight := o.weight }, o.warned)

def effectiveGroup (ws : List WeightItem) (axes : List (String × List Rat)) (g : Group) :
    Option (Group × List String) :=
  (g.datasets.mapM (effectiveDataset ws axes)).map (fun ds =>
    ({ g with datasets := ds.map (·.1) }, (ds.filter (·.2)).map (·.1.label)))

/-- the scheme the providers work with + the datasets whose model weight was ignored (warning) -/
def effective (s : State) : Option (C02.DState × List String) :=
  (s.base.groups.mapM (effectiveGroup s.weights s.modelAxes)).map (fun gs =>
    ({ s.base with groups := gs.map (·.1) }, gs.flatMap (·.2)))

/-- `MatrixProviderUnlinked.number_of_clps` / `MatrixProviderLinked.number_of_clps` -/
def numberOfClps (mi : ModelItems) (g : Group) : Option Nat :=
  if g.linked then
    (linkedProblems mi g).map (fun ap => (ap.2.map (·.reduced.labels.length)).foldl (· + ·) 0)
  else
    (g.datasets.mapM (fun d =>
      if !d.gmcs.isEmpty then
        match datasetMatrix d.mcs, datasetMatrix d.gmcs with
        | some lm, some gm => some (lm.labels.length * gm.labels.length)
        | _, _ => none
      else
        (unlinkedProblems mi d).map (fun ps => (ps.map (·.reduced.labels.length)).foldl (· + ·) 0))).map
      (fun ns => ns.foldl (· + ·) 0)

/-- number of axis points an area collects (independent of the clp values) -/
def areaCount (label : String) (labels : List (List String)) (ivs : List Interval) (axis : List Rat) : Nat :=
  (getArea label labels (labels.map (fun ls => ls.map (fun _ => 0))) ivs axis).length

/-- warnings of `calculate_clp_penalties`: the penalty is dropped with a warning when exactly one of
    the two areas is empty -/
def penaltyWarnings (mi : ModelItems) (labels : List (List String)) (axis : List Rat) : List String :=
  mi.penalties.filterMap (fun p =>
    let sa := areaCount p.source labels p.sourceIntervals axis
    let ta := areaCount p.target labels p.targetIntervals axis
    if ta == 0 && sa == 0 then none
    else if ta == 0 then some ("target:" ++ p.target)
    else if sa == 0 then some ("source:" ++ p.source)
    else none)

def groupPenaltyWarnings (mi : ModelItems) (g : Group) : Option (List String) :=
  if g.linked then
    (linkedProblems mi g).map (fun ap => penaltyWarnings mi (ap.2.map (·.fullLabels)) ap.1)
  else
    (g.datasets.mapM (fun d =>
      if !d.gmcs.isEmpty then some []
      else (unlinkedProblems mi d).map (fun ps => penaltyWarnings mi (ps.map (·.fullLabels)) d.globalAxis))).map
      List.flatten

/-! ### linked groups: the decisions of the interval items, per aligned point and per member -/

/-- for every aligned point `v` of a linked group, in the order of the aligned axis: `v`, the members
    (dataset number, index on the dataset's own global axis) with their own coordinates, the labels of
    the stacked matrix, the labels left after `reduce_matrix` **at `v`**, then for every constraint /
    relation of the model (in model order) whether it applies at `v` and whether it would apply at each
    member's own coordinate -/
def linkDecisions (mi : ModelItems) (g : Group) : Option (List String) :=
  match alignAxes (g.datasets.map (·.globalAxis)) g.tol g.method, linkedProblems mi g with
  | some aligned, some (axis, ps) =>
    some ((axis.zip ps).map (fun vp =>
      let v := vp.1
      let p := vp.2
      let mem := memberIdx aligned v
      let own := mem.map (fun dj => (g.datasets.getD dj.1 default).globalAxis.getD dj.2 0)
      let consAt := fun (x : Rat) => Proto.showList (mi.constraints.map (fun c => Proto.showBool (c.appliesAt x)))
      let relAt := fun (x : Rat) => Proto.showList (mi.relations.map (fun r => Proto.showBool (applies r.interval x)))
      Proto.showList [Proto.showRat v, Proto.showList (mem.map (fun dj => Proto.showNats [dj.1, dj.2])), Proto.showRats own,
        Proto.showStrs p.fullLabels, Proto.showStrs p.reduced.labels, consAt v, relAt v,
        Proto.showList (own.map consAt), Proto.showList (own.map relAt)]))
  | _, _ => none

/-! ### driver -/
open Glotaran.Proto

def parsePair : Tree → Option (EB × EB)
  | .list [a, b] => do some (← parseEB a, ← parseEB b)
  | _ => none

def parseWeightItem : Tree → Option WeightItem
  | .list [ds, gi, mi, v] => do
      some ⟨← ds.strs?, ← Tree.optOf? parsePair gi, ← Tree.optOf? parsePair mi, ← v.rat?⟩
  | _ => none

def parseBools : Tree → Option (List Bool) := Tree.listOf? Tree.bool?

def showOptMat : Option Mat → String
  | none => "none"
  | some m => C02.showMat m

def driverStep (s : State) (ts : List Tree) : State × String :=
  match ts with
  | [.atom "reset"] => ({}, "ok")
  /- unit functions -/
  | [.atom "slice", lo, hi, axis] =>
    match parseEB lo, parseEB hi, axis.rats? with
    | some l, some h, some ax => let r := axisSlice l h ax; (s, showNats [r.1, r.2])
    | _, _, _ => (s, "bad-op")
  | [.atom "applies", kind, ivs, x] =>
    match kind.raw?, Tree.optOf? parseIntervals ivs, x.rat? with
    | some "zero", some i, some v => (s, showBool (Constraint.appliesAt ⟨false, "t", i⟩ v))
    | some "only", some i, some v => (s, showBool (Constraint.appliesAt ⟨true, "t", i⟩ v))
    | some "relation", some i, some v => (s, showBool (applies i v))
    | _, _, _ => (s, "bad-op")
  | [.atom "does", only, ivs, index] =>
    match only.bool?, Tree.optOf? parseIntervals ivs, Tree.optOf? Tree.rat? index with
    | some o, some i, some x =>
      let r := doesIntervalItemApply o i x; (s, showList [showBool r.1, showBool r.2])
    | _, _, _ => (s, "bad-op")
  | [.atom "area", ivs, axis, mask] =>
    -- clp of label "a" at index i is i; present where the mask says so
    match parseIntervals ivs, axis.rats?, parseBools mask with
    | some i, some ax, some m =>
      let labels := m.map (fun b => if b then ["b", "a"] else ["b"])
      let clps : List Vec := (List.range m.length).map (fun (k : Nat) => [(-1 : Rat), ((k : Int) : Rat)])
      (s, showRats (getArea "a" labels clps i ax))
    | _, _, _ => (s, "bad-op")
  | [.atom "mweight", label, dsw, maxis, gaxis, items] =>
    match label.str?, Tree.optOf? Tree.ratss? dsw, maxis.rats?, gaxis.rats?, Tree.listOf? parseWeightItem items with
    | some l, some w, some ma, some ga, some its =>
      let o := addModelWeight its l w ma ga
      (s, showList [showOptMat o.weight, showBool o.warned])
    | _, _, _, _, _ => (s, "bad-op")
  /- whole schemes: description lines -/
  | [.atom "weight", item] =>
    match parseWeightItem item with
    | some it => ({ s with weights := s.weights ++ [it] }, "ok")
    | none => (s, "bad-op")
  | [.atom "maxis", label, axis] =>
    match label.str?, axis.rats? with
    | some l, some ax => ({ s with modelAxes := s.modelAxes ++ [(l, ax)] }, "ok")
    | _, _ => (s, "bad-op")
  /- whole schemes: observables -/
  | [.atom "weights"] =>
    match effective s with
    | some (e, warned) =>
      (s, "weights " ++ showList [showList (e.groups.flatMap (fun g => g.datasets.map (fun d =>
        showList [encodeStr d.label, showOptMat d.weight]))), showStrs warned])
    | none => (s, "err no-model-axis")
  | [.atom "nclps"] =>
    match effective s with
    | some (e, _) =>
      match e.groups.mapM (numberOfClps e.mi) with
      | some ns => (s, "nclps " ++ toString (ns.foldl (· + ·) 0))
      | none => (s, "err unsolvable")
    | none => (s, "err no-model-axis")
  | [.atom "linkdec"] =>
    -- one entry per group: `none` for an unlinked group, `err` when the alignment is refused / a dataset has no matrix
    match effective s with
    | some (e, _) =>
      (s, "linkdec " ++ showList (e.groups.map (fun g =>
        if g.linked then
          match linkDecisions e.mi g with
          | some rows => showList rows
          | none => "err"
        else "none")))
    | none => (s, "err no-model-axis")
  | [.atom "penwarn"] =>
    match effective s with
    | some (e, _) =>
      match e.groups.mapM (groupPenaltyWarnings e.mi) with
      | some ws => (s, "penwarn " ++ showStrs ws.flatten)
      | none => (s, "err unsolvable")
    | none => (s, "err no-model-axis")
  | [.atom op] =>
    if op == "results" || op == "parts" || op == "objective" || op == "inputs" then
      match effective s with
      | some (e, _) => (s, (C03.driverStep e ts).2)
      | none => (s, "err no-model-axis")
    else (s, "bad-op")
  | _ =>
    -- C02 description lines (constraint / relation / penalty / group / dataset)
    let r := C02.driverStep s.base ts
    ({ s with base := r.1 }, r.2)

end Glotaran.C08
