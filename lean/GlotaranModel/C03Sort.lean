/-
C03 — `np.argsort` and list indexing by an index list, as used by `EstimationProviderLinked.get_result`
(`order = np.argsort(dataset_global_indices)`, `[parts[i] for i in order]`).  Structural recursion only
(stable insertion sort), so the kernel evaluates it.
-/
import GlotaranModel.Proto
namespace Glotaran.C03

/-- insert `(key, position)` before the first entry whose key is not smaller (stable) -/
def insertByKey (x : Nat × Nat) : List (Nat × Nat) → List (Nat × Nat)
  | [] => [x]
  | y :: ys => if x.1 ≤ y.1 then x :: y :: ys else y :: insertByKey x ys

def sortByKey : List (Nat × Nat) → List (Nat × Nat)
  | [] => []
  | x :: xs => insertByKey x (sortByKey xs)

/-- `np.argsort(keys)` (stable): the positions of `keys` in ascending key order -/
def argsort (keys : List Nat) : List Nat := (sortByKey keys.zipIdx).map (·.2)

/-- `[xs[i] for i in order]` -/
def pickOrder {α} (order : List Nat) (xs : List α) : List α := order.filterMap (fun i => xs[i]?)

end Glotaran.C03
