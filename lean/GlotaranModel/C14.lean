/-
C14 — simulation and fitting agree (glotaran/simulation/simulation.py on top of the C02/C03 model of
the provider stack).

`simulate` dispatches to `simulate_full_model` (dataset has global megacomplexes) or
`simulate_from_clp` (a `clp` array is given); both build the dataset matrix with the *same*
`MatrixProvider.calculate_dataset_matrix` the fit uses (`C02.datasetMatrix`: megacomplex scales,
label-wise combination — but NOT the dataset scale), then

    data[:, i] = matrix_i · clp.isel(global = i).sel(clp_label = matrix.clp_labels)

i.e. the clp row is taken *by position* on the global dimension and *by label* on `clp_label`.
Seeded Gaussian noise: `np.random.seed(seed)` only when a seed is given, then
`np.random.normal(data, std)` = `data + std · z` with `z` the next `model × global` standard-normal
draws of numpy's global generator (row-major over (model, global)).  The generator is a parameter
(`Rng`): a reseed function and a draw function on an abstract state.

The simulated data are put into a `C02.Dataset`; `C02.objective` / `C03.results` of the resulting
groups are what `Optimizer(scheme).objective_function(x_true)` / `optimize(scheme).data[..].clp`
compute (C02/C03 tie those to the code).
-/
import GlotaranModel.Proto
import GlotaranModel.LinAlg
import GlotaranModel.C02
import GlotaranModel.C03
namespace Glotaran.C14
open Glotaran.LinAlg Glotaran.C02

/-- the `clp` argument of `simulate`: an array with (or without) a `clp_label` coordinate and one row
    of values per *position* on the global dimension (the coordinate values of that dimension are
    never looked at) -/
structure ClpTable where
  labels : Option (List String)
  rows : List Vec
  deriving Repr, Inhabited

inductive SimError where
  | noClp            -- ValueError: no global megacomplex and no clp
  | noClpLabel       -- ValueError: Missing coordinate 'clp_label' in clp
  | globalIndexDependent  -- ValueError: index dependent global matrix
  | index            -- IndexError: fewer clp rows than global points
  | dupLabel         -- pandas InvalidIndexError: clp labels not unique
  | missingLabel     -- KeyError: a matrix label is not a clp label
  | noMatrix         -- no megacomplex at all
  | coordKey         -- KeyError: `coordinates` has no entry for the model dimension
  | noGlobalDim      -- StopIteration: `coordinates` has no entry besides the model dimension
  | badDim           -- xarray: `.isel` / `.sel` along a dimension (index) the array does not have
  deriving Repr, DecidableEq, Inhabited

def SimError.name : SimError → String
  | .noClp => "no-clp"
  | .noClpLabel => "no-clp-label"
  | .globalIndexDependent => "global-index-dependent"
  | .index => "index"
  | .dupLabel => "dup-label"
  | .missingLabel => "missing-label"
  | .noMatrix => "no-matrix"
  | .coordKey => "coord-key"
  | .noGlobalDim => "no-global-dim"
  | .badDim => "bad-dim"

def hasDupS : List String → Bool
  | [] => false
  | x :: xs => xs.contains x || hasDupS xs

/-- value of clp label `l` in one row of the table (`.sel(clp_label = l)`) -/
def lookup (labels : List String) (row : Vec) (l : String) : Rat := row.getD (labels.idxOf l) 0

/-- `.sel(clp_label = want)`: the values of the wanted labels, in the wanted order -/
def selectByLabel (labels : List String) (row : Vec) (want : List String) : Vec :=
  want.map (lookup labels row)

/-- the columns (one per global index) of `simulate_from_clp`, given the dataset matrix -/
def simulateColumns (lm : LMat) (nGlobal : Nat) (clp : ClpTable) : Except SimError (List Vec) :=
  match clp.labels with
  | none => .error .noClpLabel
  | some ls =>
    if nGlobal = 0 then .ok []
    else if clp.rows.isEmpty then .error .index
    else if hasDupS ls then .error .dupLabel
    else if !(lm.labels.all (fun l => ls.contains l)) then .error .missingLabel
    else if clp.rows.length < nGlobal then .error .index
    else
      let sl := slices lm nGlobal
      .ok ((List.range nGlobal).map (fun i =>
        mulVec (sl.getD i default).m (selectByLabel ls (clp.rows.getD i []) lm.labels)))

/-- `simulate_from_clp`: data in (model × global) layout -/
def simulateFromClp (mcs : List McOut) (nModel nGlobal : Nat) (clp : ClpTable) : Except SimError Mat :=
  match clp.labels with
  | none => .error .noClpLabel          -- checked before the matrix is calculated
  | some _ =>
    match datasetMatrix mcs with
    | none => .error .noMatrix
    | some lm =>
      match simulateColumns lm nGlobal clp with
      | .error e => .error e
      | .ok cols => .ok (C03.ofColumns nModel cols)

/-- the clp table `simulate_full_model` builds from the global matrix: `global_matrix.T` labelled by the
    global clp labels, i.e. row `g` of the global matrix at global position `g` -/
def globalClpTable (gm : LMat) : Except SimError ClpTable :=
  match gm.body with
  | .d3 _ => .error .globalIndexDependent
  | .d2 g => .ok ⟨some gm.labels, g⟩

/-- `simulate_full_model` -/
def simulateFullModel (mcs gmcs : List McOut) (nModel nGlobal : Nat) : Except SimError Mat :=
  match datasetMatrix gmcs with
  | none => .error .noMatrix
  | some gm =>
    match globalClpTable gm with
    | .error e => .error e
    | .ok t => simulateFromClp mcs nModel nGlobal t

structure Noise where
  std : Rat
  seed : Option Nat
  deriving Repr, Inhabited

structure SimInput where
  nModel : Nat
  nGlobal : Nat
  mcs : List McOut
  gmcs : List McOut
  clp : Option ClpTable
  noise : Option Noise
  deriving Repr, Inhabited

/-- the noise-free part of `simulate` -/
def noiseless (inp : SimInput) : Except SimError Mat :=
  if !inp.gmcs.isEmpty then simulateFullModel inp.mcs inp.gmcs inp.nModel inp.nGlobal
  else match inp.clp with
    | none => .error .noClp
    | some t => simulateFromClp inp.mcs inp.nModel inp.nGlobal t

/-- numpy's global generator as far as `simulate` uses it -/
structure Rng (σ : Type) where
  reseed : Nat → σ
  normals : σ → Nat → Vec × σ

/-- `np.random.normal(data, std)` given the standard-normal draws `z` (row-major over (model, global)) -/
def addNoise (std : Rat) (data : Mat) (z : Vec) (nGlobal : Nat) : Mat :=
  data.mapIdx (fun m row => row.mapIdx (fun g x => x + std * z.getD (m * nGlobal + g) 0))

/-- `simulate`: result and the generator state afterwards -/
def simulate {σ : Type} (rng : Rng σ) (st : σ) (inp : SimInput) : Except SimError Mat × σ :=
  match noiseless inp with
  | .error e => (.error e, st)
  | .ok data =>
    match inp.noise with
    | none => (.ok data, st)
    | some nz =>
      let st1 := match nz.seed with
        | some s => rng.reseed s
        | none => st
      let zs := rng.normals st1 (inp.nModel * inp.nGlobal)
      (.ok (addNoise nz.std data zs.1 inp.nGlobal), zs.2)

/-! ### the call `simulate(model, dataset, parameters, coordinates, clp, noise, …)` and the returned `xr.Dataset` -/

/-- what the call hands in: the dataset model (its model dimension and megacomplex outputs), the `coordinates`
    dict (in its order), the clp table and the noise arguments -/
structure SimCall where
  modelDim : String
  coords : List (String × Vec)
  mcs : List McOut
  gmcs : List McOut
  clp : Option ClpTable
  noise : Option Noise
  deriving Repr, Inhabited

/-- the returned dataset: variable `data` over (model dimension, global dimension), on the coordinates of the request -/
structure SimResult where
  dims : String × String
  coords : List (String × Vec)
  data : Mat
  deriving Repr, Inhabited, DecidableEq

/-- `model_axis = coordinates[model_dimension]`; the global dimension is the FIRST other key of `coordinates` -/
def SimCall.resolve (c : SimCall) : Except SimError (Vec × String × Vec) :=
  match c.coords.lookup c.modelDim with
  | none => .error .coordKey
  | some maxis =>
    match c.coords.find? (fun p => p.1 != c.modelDim) with
    | none => .error .noGlobalDim
    | some p => .ok (maxis, p.1, p.2)

def mkResult (mdim : String) (maxis : Vec) (gdim : String) (gaxis : Vec) (d : Mat) : SimResult :=
  ⟨(mdim, gdim), [(mdim, maxis), (gdim, gaxis)], d⟩

/-- `simulate` as called: sizes from the coordinates, data from `simulate`, dims / coords from the request -/
def simulateCall {σ : Type} (rng : Rng σ) (st : σ) (c : SimCall) : Except SimError SimResult × σ :=
  match c.resolve with
  | .error e => (.error e, st)
  | .ok (maxis, gdim, gaxis) =>
    let r := simulate rng st ⟨maxis.length, gaxis.length, c.mcs, c.gmcs, c.clp, c.noise⟩
    (r.1.map (mkResult c.modelDim maxis gdim gaxis), r.2)

/-! ### from a simulation to the dataset the fit sees -/

structure SimDataset where
  label : String
  globalAxis : List Rat
  weight : Option Mat
  scale : Option Rat
  inp : SimInput
  deriving Repr, Inhabited

def SimDataset.toDataset (s : SimDataset) (data : Mat) : Dataset :=
  ⟨s.label, s.globalAxis, data, s.weight, s.scale, s.inp.mcs, s.inp.gmcs⟩

/-- a generator that replays a tape of draws (used by the driver: the harness supplies numpy's draws) -/
def tapeRng (seeded : Vec) : Rng Vec := ⟨fun _ => seeded, fun t n => (t.take n, t.drop n)⟩

/-! ### driver -/
open Glotaran.Proto

structure DState where
  base : C02.DState := {}
  deriving Inhabited

def parseClp : Tree → Option ClpTable
  | .list [labels, rows] => do
      some ⟨← Tree.optOf? Tree.strs? labels, ← rows.ratss?⟩
  | _ => none

structure NoiseSpec where
  noise : Noise
  tapeSeeded : Vec
  tapeGlobal : Vec

def parseNoise : Tree → Option NoiseSpec
  | .list [std, seed, ts, tg] => do
      some ⟨⟨← std.rat?, ← Tree.optOf? Tree.nat? seed⟩, ← ts.rats?, ← tg.rats?⟩
  | _ => none

def showOutcome (r : Except SimError Mat) : String :=
  match r with
  | .ok d => "data " ++ C02.showMat d
  | .error e => "err " ++ e.name

def runSim (nModel nGlobal : Nat) (mcs gmcs : List McOut) (clp : Option ClpTable)
    (nz : Option NoiseSpec) : Except SimError Mat :=
  let inp : SimInput := ⟨nModel, nGlobal, mcs, gmcs, clp, nz.map (·.noise)⟩
  match nz with
  | none => (simulate (tapeRng []) [] inp).1
  | some n => (simulate (tapeRng n.tapeSeeded) n.tapeGlobal inp).1

def parseCoord : Tree → Option (String × Vec)
  | .list [n, ax] => do some (← n.str?, ← ax.rats?)
  | _ => none

def showResult (r : Except SimError SimResult) : String :=
  match r with
  | .ok d => "result " ++ showList [encodeStr d.dims.1, encodeStr d.dims.2] ++ " " ++
      showList (d.coords.map (fun c => showList [encodeStr c.1, showRats c.2])) ++ " " ++ C02.showMat d.data
  | .error e => "err " ++ e.name

def driverStep (s : DState) (ts : List Tree) : DState × String :=
  match ts with
  | [.atom "simcall", mdim, coords, mcs, gmcs, clp, noise] =>
    match mdim.str?, Tree.listOf? parseCoord coords, Tree.listOf? parseMc mcs, Tree.listOf? parseMc gmcs,
          Tree.optOf? parseClp clp, Tree.optOf? parseNoise noise with
    | some md, some cs, some ms, some gs, some c, some nz =>
      let call : SimCall := ⟨md, cs, ms, gs, c, nz.map (·.noise)⟩
      let r := match nz with
        | none => (simulateCall (tapeRng []) [] call).1
        | some n => (simulateCall (tapeRng n.tapeSeeded) n.tapeGlobal call).1
      (s, showResult r)
    | _, _, _, _, _, _ => (s, "bad-op")
  | [.atom "sim", nModel, nGlobal, mcs, gmcs, clp, noise] =>
    match nModel.nat?, nGlobal.nat?, Tree.listOf? parseMc mcs, Tree.listOf? parseMc gmcs,
          Tree.optOf? parseClp clp, Tree.optOf? parseNoise noise with
    | some nm, some ng, some ms, some gs, some c, some nz => (s, showOutcome (runSim nm ng ms gs c nz))
    | _, _, _, _, _, _ => (s, "bad-op")
  | [.atom "simdataset", label, axis, nModel, weight, scale, mcs, gmcs, clp, noise] =>
    match label.str?, axis.rats?, nModel.nat?, Tree.optOf? Tree.ratss? weight, Tree.optOf? Tree.rat? scale,
          Tree.listOf? parseMc mcs, Tree.listOf? parseMc gmcs, Tree.optOf? parseClp clp,
          Tree.optOf? parseNoise noise with
    | some l, some ax, some nm, some w, some sc, some ms, some gs, some c, some nz =>
      if s.base.groups.isEmpty then (s, "bad-op") else
      let r := runSim nm ax.length ms gs c nz
      match r with
      | .ok d =>
        let sd : SimDataset := ⟨l, ax, w, sc, ⟨nm, ax.length, ms, gs, c, nz.map (·.noise)⟩⟩
        ({ s with base := { s.base with groups := modLast s.base.groups (fun g =>
            { g with datasets := g.datasets ++ [sd.toDataset d] }) } }, showOutcome r)
      | .error _ => (s, showOutcome r)
    | _, _, _, _, _, _, _, _, _ => (s, "bad-op")
  | _ =>
    let (b, out) := C03.driverStep s.base ts
    ({ s with base := b }, out)

end Glotaran.C14
