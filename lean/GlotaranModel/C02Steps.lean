/-
C02 (part 2) — vocabulary and interpreter of the regenerated table `Generated.table`
(GlotaranModel/Generated/C02Steps.lean): what the translator harness/props/_c02_steps.py reads off the SOURCE of
glotaran/optimization/{matrix,estimation,data}_provider.py, optimization_group.py and optimizer.calculate_penalty about the
ORDER and the OPERANDS of the steps that build the penalty vector:

  * per megacomplex: scale (in place), then combine into the accumulated matrix (which side);
  * data: copy from the dataset, multiply by the weight (in place on the copy); flattening order of data / weight;
  * unlinked: dataset scale → one container per index → relations → constraints → rows × weight[:, i];
    which container / data column / labels / axis value go to `calculate_residual` and `retrieve_clps`;
  * full model: kron(global, model) → rows × flattened weight; flattened data;
  * linked: per member slice its own index → align with the dataset scales → relations → constraints → rows × aligned weight;
    aligned data / aligned weight: stacking order, which column, what an unweighted member contributes, when there is no weight;
  * assembly: clearing / appending of the penalties, residual order, `get_full_penalty`, concatenation of the groups.

The interpreter below executes such a table with the operations of the hand-written model (GlotaranModel/C02.lean);
GlotaranProofs/Props/C02.lean proves the interpretation of the regenerated table EQUAL to the hand-written pipeline
(`generated_pipeline_eq_model_unlinked/_linked/_full`, `generated_assembly_eq_model`), for every input.  A step the translator
cannot translate is `untranslatable`/`unknown`: the interpreter gets stuck (`none`), the equality stops being provable.
-/
import GlotaranModel.C02
namespace Glotaran.C02.Steps
open Glotaran.LinAlg

/-! ### operand selectors -/

/-- which column of a (model × global) array / which entry of a per-index list, relative to the loop index `i` -/
inductive ColSel where
  | own                      -- `[:, i]`
  | fixed (k : Nat)          -- `[:, k]`
  | shifted (d : Int)        -- `[:, i + d]` (numpy wraps a negative index)
  | unknown (why : String)
  deriving DecidableEq, Repr, Inhabited

def ColSel.ok : ColSel → Bool
  | .unknown _ => false
  | _ => true

def ColSel.at (c : ColSel) (n i : Nat) : Nat :=
  match c with
  | .own => i
  | .fixed k => k
  | .shifted d => if (i : Int) + d < 0 then ((n : Int) + (i : Int) + d).toNat else ((i : Int) + d).toNat
  | .unknown _ => 0

/-- flattening of a (model × global) array -/
inductive FlatOrder where
  | globalMajor              -- `.T.flatten()`
  | modelMajor               -- `.flatten()`
  | unknown (why : String)
  deriving DecidableEq, Repr, Inhabited

def FlatOrder.ok : FlatOrder → Bool
  | .unknown _ => false
  | _ => true

def flat (o : FlatOrder) (nGlobal : Nat) (m : Mat) : Vec :=
  match o with
  | .globalMajor => (List.range nGlobal).flatMap (fun g => col m g)
  | .modelMajor => m.flatten
  | .unknown _ => []

/-! ### `MatrixProvider.calculate_dataset_matrix`: the loop over the megacomplexes -/
inductive McStep where
  | scaleMc (inPlace : Bool)       -- `this_matrix *= scale` when the megacomplex has a scale
  | combine (accLeft : Bool)       -- first megacomplex: taken as is; later: combine_megacomplex_matrices(matrix, this_matrix, …)
  | untranslatable (why : String)
  deriving DecidableEq, Repr, Inhabited

def scaleLM (k : Option Rat) (lm : LMat) : LMat :=
  match k with
  | some k => ⟨lm.labels, lm.body.scale k⟩
  | none => lm

structure McState where
  acc : Option LMat        -- `matrix` (None before the first megacomplex)
  cur : LMat               -- `this_matrix`
  merged : Bool            -- `this_matrix` has gone into `matrix`
  ok : Bool

def mcStep (scale : Option Rat) (st : McState) : McStep → McState
  | .scaleMc _ =>
    if st.merged then { st with acc := st.acc.map (scaleLM scale) } else { st with cur := scaleLM scale st.cur }
  | .combine accLeft =>
    if st.merged then { st with ok := false }
    else { st with merged := true,
                   acc := some (match st.acc with
                     | none => st.cur
                     | some a => if accLeft then combine a st.cur else combine st.cur a) }
  | .untranslatable _ => { st with ok := false }

/-- one round of the loop; outer `none` = stuck -/
def mcFold (steps : List McStep) (acc : Option (Option LMat)) (o : McOut) : Option (Option LMat) :=
  match acc with
  | none => none
  | some acc =>
    let st := steps.foldl (mcStep o.scale) ⟨acc, o.out, false, true⟩
    if st.ok && st.merged then some st.acc else none

def interpMcs (steps : List McStep) (mcs : List McOut) : Option LMat :=
  match mcs.foldl (mcFold steps) (some none) with
  | some r => r
  | none => none

/-! ### `DataProvider.__init__`: the data the solver sees -/
inductive DataStep where
  | fromDataset (copy : Bool)      -- `get_from_dataset(dataset, "data", …)`: laid out (model, global); a copy or the caller's array
  | mulWeight (inPlace : Bool)     -- `data *= weight` / `data = data * weight`, when the dataset ends up with a weight
  | untranslatable (why : String)
  deriving DecidableEq, Repr, Inhabited

structure DataState where
  val : Mat
  owned : Bool             -- the array is the provider's own (an in-place update does not reach the caller)
  ok : Bool

def dataStep (d : Dataset) (st : DataState) : DataStep → DataState
  | .fromDataset copy => { st with val := d.data, owned := copy }
  | .mulWeight inPlace =>
    if inPlace && !st.owned then { st with ok := false }
    else { st with val := (match d.weight with | some w => hadamard st.val w | none => st.val), owned := true }
  | .untranslatable _ => { st with ok := false }

def interpData (steps : List DataStep) (d : Dataset) : Option Mat :=
  let st := steps.foldl (dataStep d) ⟨[], false, true⟩
  if st.ok then some st.val else none

/-! ### unlinked: `calculate_prepared_matrices` (+ `reduce_matrix`) and the per-index call of the solver -/
inductive MStep where
  | scaleDataset                   -- `create_scaled_matrix(float(dataset_model.scale or 1))`
  | slice                          -- `reduce_matrix`: one container per point of the global axis
  | relations                      -- `apply_relations`
  | constraints                    -- `apply_constraints`
  | weightRows (c : ColSel)        -- `create_weighted_matrix(weight[:, c])` when the weight is not None: ROWS × weight
  | weightCols (c : ColSel)        -- columns × weight (the other axis): the model has no such operation
  | untranslatable (why : String)
  deriving DecidableEq, Repr, Inhabited

inductive MState where
  | whole (lm : LMat)
  | perIndex (f : Nat → LMat2)
  | stuck

def mStep (mi : ModelItems) (d : Dataset) : MState → MStep → MState
  | .whole lm, .scaleDataset => .whole ⟨lm.labels, lm.body.scale (d.scale.getD 1)⟩
  | .perIndex f, .scaleDataset => .perIndex (fun i => ⟨(f i).labels, mscale (d.scale.getD 1) (f i).m⟩)
  | .whole lm, .slice => .perIndex (fun i => (slices lm d.nGlobal).getD i default)
  | .perIndex f, .relations => .perIndex (fun i => applyRelationsAt mi.relations (d.globalAxis.getD i 0) (f i))
  | .perIndex f, .constraints => .perIndex (fun i => applyConstraintsAt mi.constraints (d.globalAxis.getD i 0) (f i))
  | .perIndex f, .weightRows c =>
    if c.ok then
      .perIndex (fun i => match d.weight with
        | some w => { f i with m := weightRows (f i).m (col w (c.at d.nGlobal i)) }
        | none => f i)
    else .stuck
  | _, _ => .stuck

/-- where the "full" clp labels given to `retrieve_clps` / `calculate_clp_penalties` come from -/
inductive LabelSrc where
  | datasetMatrix                  -- `get_matrix_container(label).clp_labels` / `aligned_full_clp_labels[index]`
  | container                      -- the labels of the (reduced) container that went into the solver
  | unknown (why : String)
  deriving DecidableEq, Repr, Inhabited

/-- the per-index call `calculate_residual(container.matrix, data[:, ·])`, `retrieve_clps(full, container.clp_labels, clps, x)` -/
structure Call where
  container : ColSel               -- which prepared / aligned container
  data : ColSel                    -- which data column / aligned data entry
  full : LabelSrc
  x : ColSel                       -- which axis value
  deriving DecidableEq, Repr, Inhabited

def Call.ok (c : Call) : Bool :=
  c.container.ok && c.data.ok && c.x.ok && (match c.full with | .unknown _ => false | _ => true)

/-! ### full model: `calculate_full_matrices`, `calculate_full_model_estimation` -/
inductive FStep where
  | kron (globalLeft : Bool)       -- `np.kron(global_matrix, matrix)` (per index + concatenate when index dependent)
  | weightRowsFlat                 -- `apply_weight(full_matrix, get_flattened_weight(label))` when not None
  | untranslatable (why : String)
  deriving DecidableEq, Repr, Inhabited

inductive FData where
  | flattened                      -- `get_flattened_data(label)`
  | unknown (why : String)
  deriving DecidableEq, Repr, Inhabited

/-! ### linked: `calculate_aligned_matrices`, `align_data`, `align_weights` -/
inductive LStep where
  | sliceLocal                     -- `matrix[index]` with the member's own index when index dependent, else the container
  | align (scaled : Bool)          -- `align_matrices(containers, [scale or 1 …])`
  | relations
  | constraints
  | weightRows                     -- `create_weighted_matrix(get_aligned_weight(i))` when not None
  | untranslatable (why : String)
  deriving DecidableEq, Repr, Inhabited

/-- how one member's column is picked for an aligned point -/
inductive Pick where
  | alignedValue                   -- by the aligned coordinate of the point (= the member's own index there)
  | unknown (why : String)
  deriving DecidableEq, Repr, Inhabited

structure AlignedData where
  weighted : Bool                  -- stacks `get_data(label)` (already multiplied by the weight)
  datasetOrder : Bool              -- members stacked in the order of the group's datasets
  pick : Pick
  deriving DecidableEq, Repr, Inhabited

structure AlignedWeight where
  datasetOrder : Bool
  pick : Pick
  onesForUnweighted : Bool         -- a member without weight contributes ones(model size)
  noneIfNoMemberWeighted : Bool    -- no weight at a point none of whose members is weighted
  noneIfNoDatasetWeighted : Bool   -- no weight at all when no dataset of the group is weighted
  deriving DecidableEq, Repr, Inhabited

abbrev Member := (Dataset × LMat) × Nat

inductive LState where
  | members (mem : List Member)
  | blocks (mem : List Member) (b : List LMat2)
  | one (lm : LMat2) (fullLabels : List String)
  | stuck

def lStep (mi : ModelItems) (v : Rat) (w : Option Vec) : LState → LStep → LState
  | .members mem, .sliceLocal => .blocks mem (mem.map (fun di => (slices di.1.2 di.1.1.nGlobal).getD di.2 default))
  | .blocks mem b, .align scaled =>
    let stacked := alignMatrices (b.zip (mem.map (fun di => if scaled then di.1.1.scale.getD 1 else 1)))
    .one stacked stacked.labels
  | .one lm fl, .relations => .one (applyRelationsAt mi.relations v lm) fl
  | .one lm fl, .constraints => .one (applyConstraintsAt mi.constraints v lm) fl
  | .one lm fl, .weightRows => .one (match w with | some w => { lm with m := weightRows lm.m w } | none => lm) fl
  | _, _ => .stuck

/-! ### assembly of the penalty vector -/
/-- body of the loop over the datasets in `EstimationProviderUnlinked.estimate` (callees inlined) -/
inductive DStep where
  | clearOwn                       -- `_clps[label].clear()`, `_residuals[label].clear()`
  | solve                          -- full model: one call; else one call per index, residuals appended in index order
  | appendPenalties                -- `_clp_penalty += calculate_clp_penalties(labels, clps, global_axis)`
  | untranslatable (why : String)
  deriving DecidableEq, Repr, Inhabited

inductive EStep where
  | clearPenalties                 -- `_clp_penalty.clear()`
  | perDataset (body : List DStep)
  | perAlignedIndex                -- linked: one call per aligned index, stored at that index
  | setPenalties                   -- linked: `_clp_penalty = calculate_clp_penalties(…)`
  | untranslatable (why : String)
  deriving DecidableEq, Repr, Inhabited

/-- `get_full_penalty` -/
inductive PStep where
  | residuals (indexMajor : Bool)  -- datasets in group order, per dataset by index (model index fastest) / aligned indices in order
  | penalties                      -- `_clp_penalty`
  | untranslatable (why : String)
  deriving DecidableEq, Repr, Inhabited

/-- `Optimizer.calculate_penalty` -/
inductive OStep where
  | groupsInOrder                  -- `[group.get_full_penalty() for group in self._optimization_groups]`, concatenated
  | untranslatable (why : String)
  deriving DecidableEq, Repr, Inhabited

structure Table where
  mc : List McStep
  data : List DataStep
  flatData : FlatOrder
  flatWeight : FlatOrder
  prepared : List MStep
  unlinkedCall : Call
  full : List FStep
  fullData : FData
  aligned : List LStep
  alignedData : AlignedData
  alignedWeight : AlignedWeight
  linkedCall : Call
  unlinkedEstimate : List EStep
  unlinkedPenalty : List PStep
  linkedEstimate : List EStep
  linkedPenalty : List PStep
  objective : List OStep
  deriving Repr

/-! ### the interpreter -/

def fullLabelsOf (src : LabelSrc) (whole : List String) (c : LMat2) : List String :=
  match src with
  | .datasetMatrix => whole
  | _ => c.labels

/-- `calculate_prepared_matrices` + the per-index calls of `calculate_estimation` -/
def interpUnlinked (t : Table) (mi : ModelItems) (d : Dataset) : Option (List IndexProblem) :=
  match interpMcs t.mc d.mcs, interpData t.data d with
  | some lm, some wd =>
    match t.prepared.foldl (mStep mi d) (.whole lm) with
    | .perIndex f =>
      if t.unlinkedCall.ok then
        some ((List.range d.nGlobal).map (fun i =>
          let c := f (t.unlinkedCall.container.at d.nGlobal i)
          { fullLabels := fullLabelsOf t.unlinkedCall.full lm.labels c, reduced := c,
            data := col wd (t.unlinkedCall.data.at d.nGlobal i),
            x := d.globalAxis.getD (t.unlinkedCall.x.at d.nGlobal i) 0 }))
      else none
    | _ => none
  | _, _ => none

def fStep (t : Table) (d : Dataset) (lm gm : LMat) : Option (Option Mat) → FStep → Option (Option Mat)
  | some none, .kron true =>
    let gmat : Mat := match gm.body with | .d2 g => g | .d3 _ => []
    some (some (match lm.body with
      | .d2 m => gmat.flatMap (fun grow => kronRow grow m)
      | .d3 ms => (List.zipWith (fun grow m => kronRow grow m) gmat ms).flatten))
  | some (some full), .weightRowsFlat =>
    if t.flatWeight.ok then
      some (some (match d.weight with
        | some w => weightRows full (flat t.flatWeight d.nGlobal w)
        | none => full))
    else none
  | _, _ => none

/-- `calculate_full_matrices` + the call of `calculate_full_model_estimation` -/
def interpFull (t : Table) (d : Dataset) : Option (Mat × Vec) :=
  match interpMcs t.mc d.mcs, interpMcs t.mc d.gmcs, interpData t.data d with
  | some lm, some gm, some wd =>
    match t.full.foldl (fStep t d lm gm) (some none), t.fullData with
    | some (some full), .flattened => if t.flatData.ok then some (full, flat t.flatData d.nGlobal wd) else none
    | _, _ => none
  | _, _, _ => none

/-- `get_data(label)` as the table builds it -/
def dataOf (t : Table) (d : Dataset) : Mat := (interpData t.data d).getD []

def pickCol (p : Pick) (m : Mat) (localIdx : Nat) : Vec :=
  match p with
  | .alignedValue => col m localIdx
  | .unknown _ => []

def AlignedData.ok (a : AlignedData) : Bool :=
  a.datasetOrder && (match a.pick with | .alignedValue => true | .unknown _ => false)

def AlignedWeight.ok (a : AlignedWeight) : Bool :=
  a.datasetOrder && (match a.pick with | .alignedValue => true | .unknown _ => false)

/-- the members of one aligned point: (dataset, its matrix), own index — in dataset order -/
def membersOf (dms : List (Dataset × LMat)) (aligned : List (List Rat)) (v : Rat) : List Member :=
  (dms.zip aligned).filterMap (fun (da : (Dataset × LMat) × List Rat) => (da.2.idxOf? v).map (fun i => (da.1, i)))

/-- one aligned point: aligned matrix, aligned weight, aligned data, what goes to the solver -/
def linkedAt (t : Table) (mi : ModelItems) (anyWeight : Bool) (mem : List Member) (v : Rat) : Option IndexProblem :=
  let hasW := (if t.alignedWeight.noneIfNoDatasetWeighted then anyWeight else true)
    && (if t.alignedWeight.noneIfNoMemberWeighted then mem.any (fun (di : Member) => di.1.1.weight.isSome) else true)
  let w : Vec := mem.flatMap (fun (di : Member) =>
    match di.1.1.weight with
    | some w => pickCol t.alignedWeight.pick w di.2
    | none => if t.alignedWeight.onesForUnweighted then List.replicate di.1.1.nModel 1 else [])
  let data : Vec := mem.flatMap (fun (di : Member) =>
    pickCol t.alignedData.pick (if t.alignedData.weighted then dataOf t di.1.1 else di.1.1.data) di.2)
  match t.aligned.foldl (lStep mi v (if hasW then some w else none)) (.members mem) with
  | .one red fl =>
    some { fullLabels := fullLabelsOf t.linkedCall.full fl red, reduced := red, data := data, x := v }
  | _ => none

/-- `calculate_aligned_matrices` + `align_data` + `align_weights` + the per-index calls of the linked `estimate` -/
def interpLinked (t : Table) (mi : ModelItems) (g : Group) : Option (List Rat × List IndexProblem) :=
  match alignAxes (g.datasets.map (·.globalAxis)) g.tol g.method with
  | none => none
  | some aligned =>
    let axis := aligned.foldl sortedUnion []
    match g.datasets.mapM (fun d => (interpMcs t.mc d.mcs).map (fun lm => (d, lm))),
          g.datasets.mapM (fun d => interpData t.data d) with
    | some dms, some _ =>
      if !(t.alignedData.ok && t.alignedWeight.ok && t.linkedCall.ok
            && t.linkedCall.container == .own && t.linkedCall.data == .own && t.linkedCall.x == .own) then none
      else
        (axis.mapM (fun v =>
          linkedAt t mi (g.datasets.any (·.weight.isSome)) (membersOf dms aligned v) v)).map (fun ps => (axis, ps))
    | _, _ => none

/-! #### assembly -/

def countD (body : List DStep) (s : DStep) : Nat := (body.filter (· == s)).length

def dBodyOk (body : List DStep) : Bool :=
  body.all (fun s => match s with | .untranslatable _ => false | _ => true)
  -- the residual list of the dataset is emptied before the calls append to it
  && (match body with | .clearOwn :: rest => !rest.contains .clearOwn | _ => false)
  && countD body .solve == 1

/-- the solver run on the problems of one dataset, its residuals (index order) and its equal-area penalties -/
def interpDataset (t : Table) (mi : ModelItems) (s : Solver) (d : Dataset) : Option (Vec × Vec) :=
  if !d.gmcs.isEmpty then
    match interpFull t d with
    | some (a, y) => (solveLS s a y).map (fun cr => (cr.2, []))
    | none => none
  else
    match interpUnlinked t mi d with
    | none => none
    | some ps =>
      match ps.mapM (fun p => (solveLS s p.reduced.m p.data).map (fun cr => (p, cr))) with
      | none => none
      | some sols =>
        let res := sols.flatMap (fun pc => pc.2.2)
        let clps := sols.map (fun pc => retrieveClps mi pc.1.fullLabels pc.1.reduced.labels pc.2.1 pc.1.x)
        let labels := sols.map (fun pc => pc.1.fullLabels)
        some (res, clpPenalties mi labels clps d.globalAxis)

/-- `EstimationProviderUnlinked.estimate` + `get_full_penalty` -/
def interpGroupUnlinked (t : Table) (mi : ModelItems) (g : Group) : Option Vec :=
  match t.unlinkedEstimate with
  | [.clearPenalties, .perDataset body] =>
    if !dBodyOk body then none else
    match g.datasets.mapM (interpDataset t mi g.solver) with
    | none => none
    | some parts =>
      let res := parts.flatMap (·.1)
      let pens := parts.flatMap (fun p => (List.replicate (countD body .appendPenalties) p.2).flatten)
      t.unlinkedPenalty.foldl (fun acc s => match acc, s with
        | some out, .residuals true => some (out ++ res)
        | some out, .penalties => some (out ++ pens)
        | _, _ => none) (some [])
  | _ => none

/-- `EstimationProviderLinked.estimate` + `get_full_penalty` -/
def interpGroupLinked (t : Table) (mi : ModelItems) (g : Group) : Option Vec :=
  match t.linkedEstimate with
  | [.perAlignedIndex, .setPenalties] =>
    match interpLinked t mi g with
    | none => none
    | some (axis, ps) =>
      match ps.mapM (fun p => (solveLS g.solver p.reduced.m p.data).map (fun cr => (p, cr))) with
      | none => none
      | some sols =>
        let res := sols.flatMap (fun pc => pc.2.2)
        let clps := sols.map (fun pc => retrieveClps mi pc.1.fullLabels pc.1.reduced.labels pc.2.1 pc.1.x)
        let labels := sols.map (fun pc => pc.1.fullLabels)
        let pens := clpPenalties mi labels clps axis
        t.linkedPenalty.foldl (fun acc s => match acc, s with
          | some out, .residuals true => some (out ++ res)
          | some out, .penalties => some (out ++ pens)
          | _, _ => none) (some [])
  | _ => none

def interpGroup (t : Table) (mi : ModelItems) (g : Group) : Option Vec :=
  if g.linked then interpGroupLinked t mi g else interpGroupUnlinked t mi g

/-- `Optimizer.calculate_penalty` -/
def interpObjective (t : Table) (mi : ModelItems) (gs : List Group) : Option Vec :=
  match t.objective with
  | [.groupsInOrder] => (gs.mapM (interpGroup t mi)).map List.flatten
  | _ => none

end Glotaran.C02.Steps
