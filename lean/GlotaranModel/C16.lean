/-
C16 — parameter files round-trip; specifications equal the programmatic construction.

Modelled code (the glotaran layer, as it is after the `fix:` commits D12, D15, C16-empty-parameters,
C16-numeric-group-key, C16-sci-string-numbering):

* glotaran/parameter/parameter.py   `Parameter.__init__` (converters, validators: `valid_label`,
  `instance_of`, `set_transformed_expression`), `Parameter.as_dict`, `Parameter.from_list`,
  `_retrieve_item_from_list_by_type`, `deserialize_options`
* glotaran/parameter/parameters.py  `Parameters.to_dataframe / from_dataframe /
  from_parameter_dict_list / from_list / from_dict`, `flatten_parameter_dict`, `Parameters.__init__`
  (dict insertion, then `update_parameter_expression` = the C12 model)
* glotaran/builtin/io/pandas/csv.py, tsv.py, xlsx.py   `save_parameters` (±inf → empty cell,
  `na_rep="None"`), `load_parameters` (NA strings, lower-casing and renaming of columns,
  `fillna` of the bounds, text columns)
* glotaran/utils/io.py              `safe_dataframe_fillna`, `safe_dataframe_replace`
* glotaran/utils/sanitize.py        `sanitize_parameter_list`, `convert_scientific_to_float`
  (the regular expression `number_scientific` as a hand-written scanner, applied with `fullmatch`
  since the `fix:` commit e7da7c2: the whole string has to be the number)

Not modelled (parameters of the model, observed by the correspondence): the bytes of the file
formats.  A table is a `Frame` of typed cells; what pandas' reader makes of the table a writer
was given is `readFrame` (strings that are NA tokens and `None` become NaN, everything else is
kept).  Decimal text of floats is never produced or parsed here: `float(str)` of the
scientific-notation strings is a table supplied by the harness (`FloatTab`), and so is the AST
of every expression text (`ParseTab`; expression semantics is the C12 model).
-/
import GlotaranModel.Proto
import GlotaranModel.C12
import GlotaranModel.Generated.C16
namespace Glotaran.C16

/-! ### parameters -/

/-- the attributes of a `Parameter` that `as_dict` reports, in that order -/
structure Param where
  label : String
  value : Flt := .nan
  stderr : Flt := .nan
  expr : Option String := none
  maximum : Flt := .pinf
  minimum : Flt := .ninf
  nonNeg : Bool := false
  vary : Bool := true
  deriving Repr, DecidableEq, Inhabited

inductive Err where
  | missingColumn (c : String)      -- ValueError "Missing required column"
  | nonNumeric (c : String)         -- ValueError "has non numeric values"
  | nonBoolean (c : String)         -- ValueError "has non boolean values"
  | invalidLabel (l : String)       -- ValueError "is not a valid parameter label"
  | typeError (what : String)       -- TypeError of `Parameter(**kwargs)` (unexpected keyword, attrs `instance_of`)
  | floatError (s : String)         -- ValueError of `float(s)` in `convert_scientific_to_float`
  | expression (e : C12.Err)        -- `update_parameter_expression` raised
  | unsupported (why : String)      -- outside the modelled language (never a default answer)
  deriving Repr, DecidableEq

/-! ### `Parameter.as_dict`, `Parameters.to_dataframe` -/

def cellOfOptStr : Option String → Cell
  | Option.none => Cell.none
  | Option.some s => Cell.str s

/-- `Parameter.as_dict()` -/
def toRecord (p : Param) : List (String × Cell) :=
  [("label", .str p.label), ("value", .flt p.value), ("standard_error", .flt p.stderr),
   ("expression", cellOfOptStr p.expr), ("maximum", .flt p.maximum), ("minimum", .flt p.minimum),
   ("non_negative", .bool p.nonNeg), ("vary", .bool p.vary)]

/-- a DataFrame: column names and rows of cells (every row as long as `columns`) -/
structure Frame where
  columns : List String
  rows : List (List Cell)
  deriving Repr, DecidableEq

/-- `Parameters.to_dataframe()`: the columns are the attribute names even for an empty set -/
def toFrame (ps : List Param) : Frame :=
  { columns := Generated.paramFields, rows := ps.map (fun p => (toRecord p).map (·.2)) }

/-- apply `f` to the cells of column `name` if the column exists, else do nothing -/
def mapCol (name : String) (f : Cell → Cell) (fr : Frame) : Frame :=
  { fr with rows := fr.rows.map (fun r => List.zipWith (fun c x => if c = name then f x else x) fr.columns r) }

/-- `Series.replace([target], repl)` on one cell -/
def replaceCell (target repl : Cell) (c : Cell) : Cell := if c = target then repl else c

/-- pandas' NA: `None` and NaN -/
def isNA : Cell → Bool
  | .none => true
  | .flt .nan => true
  | _ => false

/-- `Series.fillna(v)` on one cell -/
def fillna (v : Cell) (c : Cell) : Cell := if isNA c then v else c

/-- `CsvProjectIo.save_parameters` / `ExcelProjectIo.save_parameters` up to the writer call
    (`replaceInf` is `replace_infinfinity`; the Excel plugin always replaces) -/
def saveFrame (replaceInf : Bool) (ps : List Param) : Frame :=
  let fr := toFrame ps
  if replaceInf then
    mapCol "maximum" (replaceCell (.flt .pinf) (.str "")) (mapCol "minimum" (replaceCell (.flt .ninf) (.str "")) fr)
  else fr

/-! ### the transport: what the reader returns for the table the writer was given -/

/-- the two plugins: csv (tsv is csv with a tab) and the Excel-like formats (xlsx, ods) -/
inductive Format where
  | csv | excel
  deriving Repr, DecidableEq, Inhabited

/-- strings the reader treats as NA: pandas' defaults and the `na_values` of the plugin -/
def naTokens : Format → List String
  | .csv => Generated.pandasNaTokens ++ Generated.csvNaValues
  | .excel => Generated.pandasNaTokens ++ Generated.excelNaValues

/-- writer (`na_rep="None"`) then reader: NA cells are written as `None`, which is an NA token;
    strings that are NA tokens (the empty string among them) come back as NaN -/
def readCell (fmt : Format) : Cell → Cell
  | .none => .flt .nan
  | .str s => if s ∈ naTokens fmt then .flt .nan else .str s
  | c => c

def readFrame (fmt : Format) (fr : Frame) : Frame := { fr with rows := fr.rows.map (·.map (readCell fmt)) }

/-! ### `load_parameters` of the pandas plugins -/

/-- `str.lower()` (ASCII) -/
def lower (s : String) : String := String.ofList (s.toList.map Char.toLower)

def lookup (t : List (String × α)) (k : String) : Option α := (t.find? (·.1 = k)).map (·.2)

/-- `OPTION_NAMES_DESERIALIZED.get(k, k)` -/
def deserializeName (k : String) : String := (lookup Generated.optionNamesDeserialized k).getD k

/-- lower-case and rename the columns, then fill the NA bounds -/
def prepare (fr : Frame) : Frame :=
  let fr := { fr with columns := fr.columns.map (fun c => deserializeName (lower c)) }
  mapCol "maximum" (fillna (.flt .pinf)) (mapCol "minimum" (fillna (.flt .ninf)) fr)

/-! ### `Parameter.__init__` -/

/-- `VALID_LABEL_REGEX` finds no `\W` (ASCII) in the label with dots replaced, and the label is not reserved -/
def labelChar (c : Char) : Bool := c.isAlphanum || c == '_' || c == '.'
def validLabel (l : String) : Bool := l.toList.all labelChar && !(Generated.reservedLabels.contains l)

/-- converter `str` of the label attribute (the text of a finite float is outside the model) -/
def labelOf : Cell → Except Err String
  | .str s => .ok s
  | .int i => .ok (toString i)
  | .none => .ok "None"
  | .bool true => .ok "True"
  | .bool false => .ok "False"
  | .flt .nan => .ok "nan"
  | .flt .pinf => .ok "inf"
  | .flt .ninf => .ok "-inf"
  | .flt (.fin _) => .error (.unsupported "label is a finite float")

/-- `instance_of((int, float))` (bool is an int); `value` additionally converts ints to float -/
def numOf (what : String) : Cell → Except Err Flt
  | .flt x => .ok x
  | .int i => .ok (.fin i)
  | .bool b => .ok (.fin (if b then 1 else 0))
  | _ => .error (.typeError what)

/-- attributes without validator: other types are stored as they are — outside the model -/
def stderrOf : Cell → Except Err Flt
  | .flt x => .ok x
  | .int i => .ok (.fin i)
  | _ => .error (.unsupported "standard_error is not a number")

def exprOf : Cell → Except Err (Option String)
  | .none => .ok none
  | .str s => .ok (some s)
  | _ => .error (.unsupported "expression is neither None nor str")

def boolOf (what : String) : Cell → Except Err Bool
  | .bool b => .ok b
  | _ => .error (.unsupported what)

/-- `set_transformed_expression`: a non-empty expression switches `vary` off -/
def hasExpression (e : Option String) : Bool :=
  match e with
  | some s => s != ""
  | none => false

/-- `Parameter.__init__() got an unexpected keyword argument` -/
def checkKeys (kw : List (String × Cell)) : Except Err Unit :=
  if kw.any (fun e => !(Generated.paramFields.contains e.1)) then .error (.typeError "unexpected keyword")
  else .ok ()

/-- the label: required, converted with `str`, validated by `valid_label` -/
def labelFrom (kw : List (String × Cell)) : Except Err String :=
  match lookup kw "label" with
  | none => .error (.typeError "missing label")
  | some c =>
    match labelOf c with
    | .error e => .error e
    | .ok l => if validLabel l then .ok l else .error (.invalidLabel l)

/-- every attribute but the label (validators in attribute order: value, maximum, minimum) -/
def restFrom (kw : List (String × Cell)) : Except Err Param := do
  let get := fun (k : String) (dflt : Cell) => (lookup kw k).getD dflt
  let value ← numOf "value" (get "value" (.flt .nan))
  let expr ← exprOf (get "expression" .none)
  let maximum ← numOf "maximum" (get "maximum" (.flt .pinf))
  let minimum ← numOf "minimum" (get "minimum" (.flt .ninf))
  let stderr ← stderrOf (get "standard_error" (.flt .nan))
  let nonNeg ← boolOf "non_negative" (get "non_negative" (.bool false))
  let vary ← boolOf "vary" (get "vary" (.bool true))
  pure { label := "", value, stderr, expr, maximum, minimum, nonNeg, vary := if hasExpression expr then false else vary }

/-- `Parameter(**kwargs)`; error order: unexpected keyword, missing label, then the validators
    in attribute order (label, value, maximum, minimum) -/
def mkParam (kw : List (String × Cell)) : Except Err Param :=
  match checkKeys kw with
  | .error e => .error e
  | .ok () =>
    match labelFrom kw with
    | .error e => .error e
    | .ok l =>
      match restFrom kw with
      | .error e => .error e
      | .ok p => .ok { p with label := l }

/-! ### `Parameters.__init__`: dict semantics, then the expression update (C12) -/

/-- `parameters[label] = parameter` -/
def dictInsert (d : List Param) (p : Param) : List Param :=
  if d.any (fun q => q.label = p.label) then d.map (fun q => if q.label = p.label then p else q)
  else d ++ [p]

def ofList (items : List Param) : List Param := items.foldl dictInsert []

/-- AST of an expression text (`none`: the harness did not supply it) -/
abbrev ParseTab := String → Option C12.Expr

def toVal : Flt → Option C12.Val
  | .nan => some none
  | .fin q => some (some q)
  | _ => none

def ofVal : C12.Val → Flt
  | none => .nan
  | some q => .fin q

/-- AST of an optional expression text: `none` = the text is not in the table -/
def exprAst (parse : ParseTab) : Option String → Option (Option C12.Expr)
  | none => some none
  | some s => (parse s).map some

def toC12 (parse : ParseTab) (p : Param) : Option C12.Param :=
  match toVal p.value, exprAst parse p.expr with
  | some v, some e => some { label := p.label, value := v, expr := e, vary := p.vary, nonNeg := p.nonNeg }
  | _, _ => none

/-- `update_parameter_expression` on the loaded parameters: without expressions nothing
    happens; with expressions the C12 model runs on the embedding (infinite values and
    unknown expression texts are outside it) and the values are written back -/
def evalExpressions (parse : ParseTab) (F : C12.Funs) (d : List Param) : Except Err (List Param) :=
  if d.all (fun p => p.expr.isNone) then .ok d
  else
    match d.mapM (toC12 parse) with
    | none => .error (.unsupported "expression outside the C12 embedding")
    | some cs =>
      match C12.update F cs with
      | .error (e, _) => .error (.expression e)
      | .ok cs' => .ok (List.zipWith (fun p c => { p with value := ofVal c.value }) d cs')

/-- `Parameters(parameters)` for parameters created one after the other -/
def construct (parse : ParseTab) (F : C12.Funs) (items : List Param) : Except Err (List Param) :=
  evalExpressions parse F (ofList items)

/-! ### `Parameters.from_dataframe` -/

def Frame.column (fr : Frame) (name : String) : Option (List Cell) :=
  match fr.columns.idxOf? name with
  | none => none
  | some i => some (fr.rows.map (fun r => r.getD i .none))

/-- `np.isreal(v)` on a DataFrame cell -/
def isReal : Cell → Bool
  | .str _ => false
  | _ => true

/-- `v != 0 if isinstance(v, int) else v` (a bool is an int) -/
def coerceBool : Cell → Cell
  | .int i => .bool (i != 0)
  | c => c

def isBool : Cell → Bool
  | .bool _ => true
  | _ => false

/-- `expr if isinstance(expr, str) else None` -/
def cleanExpr : Cell → Cell
  | .str s => .str s
  | _ => .none

def firstMissing (fr : Frame) : List String → Option String
  | [] => none
  | c :: rest => if fr.columns.contains c then firstMissing fr rest else some c

def firstBad (fr : Frame) (ok : Cell → Bool) : List String → Option String
  | [] => none
  | c :: rest =>
    match fr.column c with
    | none => firstBad fr ok rest
    | some cells => if cells.all ok then firstBad fr ok rest else some c

def records (fr : Frame) : List (List (String × Cell)) := fr.rows.map (fun r => fr.columns.zip r)

/-- the parameters of the rows, before `Parameters.__init__` -/
def frameParams (fr : Frame) : Except Err (List Param) := do
  match firstMissing fr ["label", "value"] with
  | some c => throw (.missingColumn c)
  | none => pure ()
  match firstBad fr isReal ["minimum", "maximum", "value"] with
  | some c => throw (.nonNumeric c)
  | none => pure ()
  let fr := mapCol "vary" coerceBool (mapCol "non_negative" coerceBool fr)
  match firstBad fr isBool ["non_negative", "vary"] with
  | some c => throw (.nonBoolean c)
  | none => pure ()
  let fr := mapCol "expression" cleanExpr fr
  (records fr).mapM mkParam

/-- `Parameters.from_dataframe(df)` -/
def fromDataFrame (parse : ParseTab) (F : C12.Funs) (fr : Frame) : Except Err (List Param) := do
  let items ← frameParams fr
  construct parse F items

/-- `load_parameters` of the csv / tsv / xlsx / ods plugins on the table the reader returned -/
def loadFrame (parse : ParseTab) (F : C12.Funs) (fr : Frame) : Except Err (List Param) :=
  fromDataFrame parse F (prepare fr)

/-- `save_parameters` followed by `load_parameters` -/
def roundtrip (parse : ParseTab) (F : C12.Funs) (fmt : Format) (replaceInf : Bool) (ps : List Param) :
    Except Err (List Param) :=
  loadFrame parse F (readFrame fmt (saveFrame (replaceInf || fmt = .excel) ps))

/-! ### scientific-notation strings (`number_scientific.fullmatch`: the whole string is the number) -/

/-- `[0-9]` -/
def isDigit (c : Char) : Bool := c.isDigit

def skipSign : List Char → List Char
  | '+' :: r => r
  | '-' :: r => r
  | cs => cs

/-- `[0-9]*\.?[0-9]+` at the start: either digits (at least one) or digits, a dot and at least one digit;
    what follows the mantissa (`none`: there is no mantissa) -/
def sciMantissa (cs : List Char) : Option (List Char) :=
  let d1 := cs.takeWhile isDigit
  let r1 := cs.dropWhile isDigit
  match r1 with
  | '.' :: r2 =>
    let d2 := r2.takeWhile isDigit
    if d2.isEmpty then none else some (r2.dropWhile isDigit)
  | _ => if d1.isEmpty then none else some r1

/-- `([eE][-+]?[0-9]+)` and then the end of the string: `e` or `E`, optional sign, at least one digit,
    nothing after the digits -/
def sciExponent : List Char → Bool
  | e :: r3 =>
    if e == 'e' || e == 'E' then
      let r4 := skipSign r3
      !(r4.takeWhile isDigit).isEmpty && (r4.dropWhile isDigit).isEmpty
    else false
  | [] => false

/-- `[-+]?[0-9]*\.?[0-9]+([eE][-+]?[0-9]+)` matching the whole string: optional sign, mantissa, exponent
    and nothing after it -/
def sciMatchChars (cs : List Char) : Bool :=
  match sciMantissa (skipSign cs) with
  | none => false
  | some r => sciExponent r

def sciMatch (s : String) : Bool := sciMatchChars s.toList

/-- `float(s)` for the strings of a specification: `none` = not supplied, `some none` = raises -/
abbrev FloatTab := String → Option (Option Flt)

/-! ### specifications: `Parameter.from_list`, `Parameters.from_list / from_dict` -/

/-- a dict of options (keys in serialized or attribute form) -/
abbrev Opts := List (String × Cell)

/-- an element of a parameter definition list -/
inductive Atom where
  | cell (c : Cell)
  | opts (o : Opts)
  deriving Repr, DecidableEq, Inhabited

/-- an element of a parameter list: a list (a definition) or anything else (a bare value, or
    a dict = block of default options) -/
inductive Item where
  | bare (a : Atom)
  | lst (xs : List Atom)
  deriving Repr, DecidableEq, Inhabited

mutual
  /-- a value of the nested specification dict -/
  inductive Node where
    | items (xs : List Item)
    | group (kids : Kids)
    | other
  /-- a dict with string keys (formatted by the harness as the f-string would), insertion order -/
  inductive Kids where
    | nil
    | cons (key : String) (n : Node) (rest : Kids)
end

/-- `convert_scientific_to_float` on one list element: a str that is a scientific-notation number in
    full becomes `float(s)`, every other str (also one with a number-like prefix, `1e3x`) is kept -/
def sanitizeAtom (T : FloatTab) : Atom → Except Err Atom
  | .cell (.str s) =>
    if sciMatch s then
      match T s with
      | none => .error (.unsupported s!"float({s}) not supplied")
      | some none => .error (.floatError s)
      | some (some x) => .ok (.cell (.flt x))
    else .ok (.cell (.str s))
  | a => .ok a

/-- `sanitize_parameter_list` -/
def sanitize (T : FloatTab) (xs : List Atom) : Except Err (List Atom) := xs.mapM (sanitizeAtom T)

def isStr : Atom → Bool
  | .cell (.str _) => true
  | _ => false

/-- `isinstance(x, (int, float))` -/
def isNum : Atom → Bool
  | .cell (.int _) => true
  | .cell (.flt _) => true
  | .cell (.bool _) => true
  | _ => false

def isDict : Atom → Bool
  | .opts _ => true
  | _ => false

/-- `d |= new` -/
def dictUpdate (d : List (String × Cell)) : List (String × Cell) → List (String × Cell)
  | [] => d
  | (k, v) :: rest =>
    let d' := if d.any (·.1 = k) then d.map (fun e => if e.1 = k then (k, v) else e) else d ++ [(k, v)]
    dictUpdate d' rest

/-- `deserialize_options`: the entries with renamed keys, in order.  (The dict comprehension of the
    code collapses keys that coincide after renaming — later wins, first position; its result is
    only ever merged into another dict with `|=`, and `d |= collapsed` is entry by entry the same
    dict as updating `d` with the uncollapsed entries one after the other, which is `dictUpdate`.) -/
def deserialize (o : Opts) : Opts := o.map (fun e => (deserializeName e.1, e.2))

/-- the keyword arguments `Parameter.from_list` builds from the sanitized list: the first str is
    the label, the first number the value, the first dict the options; defaults, then own options -/
def listKwargs (vs : List Atom) (defaults : Option Opts) : List (String × Cell) :=
  let label := match vs.find? isStr with
    | some (.cell c) => c
    | _ => .str ""
  let vs1 := vs.eraseP isStr
  let value := match vs1.find? isNum with
    | some (.cell c) => c
    | _ => .flt .nan
  let vs2 := vs1.eraseP isNum
  let options := match vs2.find? isDict with
    | some (.opts o) => o
    | _ => []
  let base := [("label", label), ("value", value)]
  let withDefaults := match defaults with
    | some d => dictUpdate base (deserialize d)
    | none => base
  dictUpdate withDefaults (deserialize options)

/-- `Parameter.from_list(values, default_options=defaults)` -/
def paramFromList (T : FloatTab) (values : List Atom) (defaults : Option Opts) : Except Err Param := do
  let vs ← sanitize T values
  mkParam (listKwargs vs defaults)

def isDictItem : Item → Bool
  | .bare (.opts _) => true
  | _ => false

/-- `next((item for item in value if isinstance(item, dict)), None)` -/
def firstDefaults (xs : List Item) : Option Opts :=
  match xs.find? isDictItem with
  | some (.bare (.opts o)) => some o
  | _ => none

/-- does the item carry a label of its own: a str that is not a scientific-notation number -/
def hasLabel (T : FloatTab) (xs : List Atom) : Except Err Bool := do
  let s ← sanitize T xs
  pure (s.any isStr)

def numberLabel (i : Nat) : Atom := .cell (.str (toString (i + 1)))

/-- one non-dict item of a flat list (`Parameters.from_list`), `i` counts from 0 -/
def listItemDef (T : FloatTab) (item : Item) (i : Nat) : Except Err (List Atom) := do
  let l := match item with
    | .lst l => l
    | .bare a => [a]
  if (← hasLabel T l) then pure l else pure (l ++ [numberLabel i])

/-- `Parameters.from_list` up to `Parameters.__init__` -/
def listParams (T : FloatTab) (xs : List Item) : Except Err (List Param) :=
  let defaults := firstDefaults xs
  ((xs.filter (fun x => !isDictItem x)).zipIdx).mapM (fun (item, i) => do
    let d ← listItemDef T item i
    paramFromList T d defaults)

def fromList (parse : ParseTab) (F : C12.Funs) (T : FloatTab) (xs : List Item) : Except Err (List Param) := do
  let items ← listParams T xs
  construct parse F items

/-- what `flatten_parameter_dict` yields: concatenated keys, definition, default options -/
abbrev Triple := String × List Atom × Option Opts

/-- one non-dict item of a group list (`flatten_parameter_dict`) -/
def groupItemDef (T : FloatTab) (item : Item) (i : Nat) : Except Err (List Atom) :=
  match item with
  | .bare a => pure [numberLabel i, a]
  | .lst l => do if (← hasLabel T l) then pure l else pure (l ++ [numberLabel i])

def flattenItems (T : FloatTab) (key : String) (xs : List Item) : List (Except Err Triple) :=
  let defaults := firstDefaults xs
  ((xs.filter (fun x => !isDictItem x)).zipIdx).map (fun (item, i) =>
    (groupItemDef T item i).map (fun d => (key, d, defaults)))

mutual
  /-- `flatten_parameter_dict` for the value found under `key`; the generator is lazy, so an
      error is an element of the stream, raised when it is reached -/
  def flattenNode (T : FloatTab) (key : String) : Node → List (Except Err Triple)
    | .items xs => flattenItems T key xs
    | .group kids => (flattenKids T kids).map (fun r => r.map (fun t => (key ++ "." ++ t.1, t.2)))
    | .other => []
  def flattenKids (T : FloatTab) : Kids → List (Except Err Triple)
    | .nil => []
    | .cons key n rest => flattenNode T key n ++ flattenKids T rest
end

/-- one step of the loop of `Parameters.from_dict` -/
def dictParam (T : FloatTab) (r : Except Err Triple) : Except Err Param := do
  let (key, d, defaults) ← r
  let p ← paramFromList T d defaults
  let full := key ++ "." ++ p.label
  if validLabel full then pure { p with label := full } else throw (.invalidLabel full)

/-- `Parameters.from_dict` up to `Parameters.__init__` -/
def dictParams (T : FloatTab) (spec : Kids) : Except Err (List Param) :=
  (flattenKids T spec).mapM (dictParam T)

def fromDict (parse : ParseTab) (F : C12.Funs) (T : FloatTab) (spec : Kids) : Except Err (List Param) := do
  let items ← dictParams T spec
  construct parse F items

/-! ### driver -/
open Glotaran.Proto

def showFlt : Flt → String
  | .nan => "nan"
  | .pinf => "inf"
  | .ninf => "-inf"
  | .fin q => showRat q

def parseFlt? : Tree → Option Flt
  | .atom "nan" => some .nan
  | .atom "inf" => some .pinf
  | .atom "-inf" => some .ninf
  | t => t.rat?.map .fin

def showCell : Cell → String
  | .none => "[z]"
  | .str s => s!"[s,{encodeStr s}]"
  | .int i => s!"[i,{i}]"
  | .flt x => s!"[f,{showFlt x}]"
  | .bool b => s!"[b,{showBool b}]"

def parseCell? : Tree → Option Cell
  | .list [.atom "z"] => some .none
  | .list [.atom "s", s] => s.str?.map .str
  | .list [.atom "i", i] => i.int?.map .int
  | .list [.atom "f", x] => (parseFlt? x).map .flt
  | .list [.atom "b", b] => b.bool?.map .bool
  | _ => none

def showParam (p : Param) : String :=
  showList [encodeStr p.label, showFlt p.value, showFlt p.stderr, showOpt encodeStr p.expr,
            showFlt p.maximum, showFlt p.minimum, showBool p.nonNeg, showBool p.vary]

def parseParam? : Tree → Option Param
  | .list [l, v, se, e, mx, mn, nn, vary] => do
    some { label := ← l.str?, value := ← parseFlt? v, stderr := ← parseFlt? se, expr := ← e.optOf? Tree.str?,
           maximum := ← parseFlt? mx, minimum := ← parseFlt? mn, nonNeg := ← nn.bool?, vary := ← vary.bool? }
  | _ => none

def showParams (ps : List Param) : String := showList (ps.map showParam)

def showErr : Err → String
  | .missingColumn c => s!"err missing {encodeStr c}"
  | .nonNumeric c => s!"err nonnumeric {encodeStr c}"
  | .nonBoolean c => s!"err nonboolean {encodeStr c}"
  | .invalidLabel l => s!"err label {encodeStr l}"
  | .typeError _ => "err type"
  | .floatError s => s!"err float {encodeStr s}"
  | .expression e => s!"err expression {C12.showErr e}"
  | .unsupported why => s!"unsupported {encodeStr why}"

def showRes : Except Err (List Param) → String
  | .ok ps => s!"ok {showParams ps}"
  | .error e => showErr e

def showFrame (fr : Frame) : String :=
  s!"{showStrs fr.columns} {showList (fr.rows.map (fun r => showList (r.map showCell)))}"

def parseFormat? : Tree → Option Format
  | .atom "csv" => some .csv
  | .atom "excel" => some .excel
  | _ => none

def parseFrame? (cols rows : Tree) : Option Frame := do
  let columns ← cols.strs?
  let rows ← rows.listOf? (Tree.listOf? parseCell?)
  if rows.all (fun r => r.length = columns.length) && columns.eraseDups.length = columns.length then
    some { columns, rows }
  else none

def parseOpts? (t : Tree) : Option Opts :=
  t.listOf? (fun e => match e with
    | .list [k, v] => do some (← k.str?, ← parseCell? v)
    | _ => none)

def parseAtom? : Tree → Option Atom
  | .list [.atom "d", o] => (parseOpts? o).map .opts
  | t => (parseCell? t).map .cell

def parseItem? : Tree → Option Item
  | .list [.atom "l", xs] => (xs.listOf? parseAtom?).map .lst
  | t => (parseAtom? t).map .bare

mutual
  partial def parseNode? : Tree → Option Node
    | .list [.atom "items", xs] => (xs.listOf? parseItem?).map .items
    | .list [.atom "group", kids] => (parseKids? kids).map .group
    | .list [.atom "other"] => some .other
    | _ => none
  partial def parseKids? : Tree → Option Kids
    | .list entries =>
      entries.foldr (fun e acc => do
        let rest ← acc
        match e with
        | .list [k, n] => some (.cons (← k.str?) (← parseNode? n) rest)
        | _ => none) (some .nil)
    | _ => none
end

structure DState where
  asts : List (String × C12.Expr) := []
  floats : List (String × Option Flt) := []
  funs : List (String × List C12.Val × C12.Val) := []

/-- protocol (answers: `ok [param,…]`, `err <kind> …`, `unsupported <why>`)
    `reset`                          forget the tables
    `ast <text> <expr tree>`         AST of an expression text (C12 syntax)
    `fun f [args] v`                 function value for the C12 evaluator
    `float <text> <flt>|raises`      `float(text)`
    `roundtrip csv|excel T|F [param,…]`   save_parameters then load_parameters (flag = replace_infinfinity)
    `save csv|excel T|F [param,…]`   the frame handed to the writer: `[columns] [[cell,…],…]`
    `read csv|excel [columns] [[cell,…],…]`  the frame the reader returns for a written frame
    `load [columns] [[cell,…],…]`    load_parameters on the frame the reader returned
    `loadfile csv|excel [columns] [[cell,…]]`  load_parameters on a file holding this table (`read`, then `load`)
    `fromframe [columns] [[cell,…]]` Parameters.from_dataframe
    `fromlist [item,…]`              Parameters.from_list
    `fromdict [[key,node],…]`        Parameters.from_dict
    `sci <text>`                     does number_scientific match the whole text (fullmatch): T|F
    `validlabel <text>`              valid_label accepts: T|F
    `consts`                         the regenerated tables the model uses -/
def driverStep (s : DState) (ts : List Tree) : DState × String :=
  let parse : ParseTab := fun t => lookup s.asts t
  let F := C12.driverFuns s.funs
  let T : FloatTab := fun t => lookup s.floats t
  match ts with
  | [.atom "reset"] => ({}, "reset")
  | [.atom "ast", t, e] =>
    match t.str?, C12.parseExpr? e with
    | some t, some e => ({ s with asts := (t, e) :: s.asts }, "ast")
    | _, _ => (s, "bad-op")
  | [.atom "fun", f, args, v] =>
    match f.str?, args.listOf? C12.parseVal?, C12.parseVal? v with
    | some f, some args, some v => ({ s with funs := (f, args, v) :: s.funs }, "fun")
    | _, _, _ => (s, "bad-op")
  | [.atom "float", t, .atom "raises"] =>
    match t.str? with
    | some t => ({ s with floats := (t, none) :: s.floats }, "float")
    | none => (s, "bad-op")
  | [.atom "float", t, x] =>
    match t.str?, parseFlt? x with
    | some t, some x => ({ s with floats := (t, some x) :: s.floats }, "float")
    | _, _ => (s, "bad-op")
  | [.atom "roundtrip", fmt, flag, ps] =>
    match parseFormat? fmt, flag.bool?, ps.listOf? parseParam? with
    | some fmt, some flag, some ps => (s, showRes (roundtrip parse F fmt flag ps))
    | _, _, _ => (s, "bad-op")
  | [.atom "save", fmt, flag, ps] =>
    match parseFormat? fmt, flag.bool?, ps.listOf? parseParam? with
    | some fmt, some flag, some ps => (s, showFrame (saveFrame (flag || fmt = .excel) ps))
    | _, _, _ => (s, "bad-op")
  | [.atom "read", fmt, cols, rows] =>
    match parseFormat? fmt, parseFrame? cols rows with
    | some fmt, some fr => (s, showFrame (readFrame fmt fr))
    | _, _ => (s, "bad-op")
  | [.atom "load", cols, rows] =>
    match parseFrame? cols rows with
    | some fr => (s, showRes (loadFrame parse F fr))
    | none => (s, "bad-op")
  | [.atom "loadfile", fmt, cols, rows] =>
    match parseFormat? fmt, parseFrame? cols rows with
    | some fmt, some fr => (s, showRes (loadFrame parse F (readFrame fmt fr)))
    | _, _ => (s, "bad-op")
  | [.atom "fromframe", cols, rows] =>
    match parseFrame? cols rows with
    | some fr => (s, showRes (fromDataFrame parse F fr))
    | none => (s, "bad-op")
  | [.atom "fromlist", xs] =>
    match xs.listOf? parseItem? with
    | some xs => (s, showRes (fromList parse F T xs))
    | none => (s, "bad-op")
  | [.atom "fromdict", kids] =>
    match parseKids? kids with
    | some kids => (s, showRes (fromDict parse F T kids))
    | none => (s, "bad-op")
  | [.atom "sci", t] =>
    match t.str? with
    | some t => (s, showBool (sciMatch t))
    | none => (s, "bad-op")
  | [.atom "validlabel", t] =>
    match t.str? with
    | some t => (s, showBool (validLabel t))
    | none => (s, "bad-op")
  | [.atom "consts"] =>
    (s, s!"{showStrs Generated.paramFields} {showStrs (naTokens .csv)} {showStrs (naTokens .excel)} {showStrs Generated.textColumns} "
        ++ s!"{showList (Generated.optionNamesDeserialized.map (fun e => showStrs [e.1, e.2]))} "
        ++ s!"{showBool Generated.replaceInfDefault}")
  | _ => (s, "bad-op")

end Glotaran.C16
