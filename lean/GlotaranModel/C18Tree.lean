/-
C18 (b') — result names with path separators: the tree below `<project>/results`.

`Project.optimize("sub/model")` without `result_name` stores its runs under the result name `sub/model`
(model keys of `ProjectRegistry.items` contain the sub folder).  `ProjectResultRegistry` after the fix
`result-name-subfolder`:

    _result_path(name)            = directory / Path(name), ValueError when the path is absolute or has a `..` part
    previous_result_paths(base)   : run_prefix = _result_path(f"{base}_run_"); the entries of run_prefix.parent
                                    (when it is a directory) whose name is run_prefix.name + four or more digits,
                                    ordered by run number
    create_result_run_name(base)  : f"{base}_run_{int(previous[-1].name.rsplit('_run_', 1)[1]) + 1:04}"
    save(base, result)            : save_result(result, directory / run_name / "result.yml", format_name="yml")
    _latest_result_path_fallback  : name without run specifier -> posix path of the last previous run (if any);
                                    path = _result_path(name); found iff it is a directory

`RTree` maps the component lists below `results/` to the `Kind` of part (b); the listing of one folder is a `Dir`
of part (b), so `previous`, `createRunName`, `runNumber` … are the same definitions (and keep their theorems).
pathlib's reading of a name (`Path(s).parts`: split at `/`, empty and `.` components dropped, a leading `/`
makes it absolute) is `parts` / `isAbsolute`; `folderOf` / `leafOf` are `Path(f"{base}_run_").parent.parts` and
`.name` without the `_run_` (proved equal to that reading in `Lemmas/C18Tree.lean: parts_runPrefix`).
-/
import GlotaranModel.C18
namespace Glotaran.C18

abbrev RPath := List Name
abbrev RTree := List (RPath × Kind)

def kindAt (t : RTree) (p : RPath) : Option Kind :=
  match t with
  | [] => none
  | (q, k) :: rest => if q = p then some k else kindAt rest p

def setAt (t : RTree) (p : RPath) (k : Kind) : RTree := (p, k) :: t.filter (fun e => e.1 ≠ p)

def isDirKind : Option Kind → Bool
  | some (.run _) => true
  | some .emptyDir => true
  | _ => false

/-- every component from `done` downwards is a folder -/
def dirChain (t : RTree) (done : RPath) : List Name → Bool
  | [] => true
  | c :: cs => isDirKind (kindAt t (done ++ [c])) && dirChain t (done ++ [c]) cs

/-- `(results / p).is_dir()`; `[]` is the results folder itself -/
def isDirAt (t : RTree) (p : RPath) : Bool := dirChain t [] p

/-- `p = q / n` -/
def childName (q p : RPath) : Option Name :=
  match p.getLast? with
  | some n => if p.dropLast = q then some n else none
  | none => none

/-- the entries directly inside `results / q` -/
def listing (t : RTree) (q : RPath) : Dir :=
  t.filterMap (fun e => (childName q e.1).map (fun n => (⟨n, e.2⟩ : Entry)))

/-- `iterdir()` of `results / q` behind the `is_dir()` guard of `previous_result_paths` -/
def listingAt (t : RTree) (q : RPath) : Dir := if isDirAt t q then listing t q else []

/-- `str.split(c)` -/
def splitOn (c : Char) : Name → List Name
  | [] => [[]]
  | x :: xs =>
    if x = c then [] :: splitOn c xs
    else match splitOn c xs with
      | h :: rest => (x :: h) :: rest
      | [] => [[x]]

def dotdot : Name := ['.', '.']

def keepPart (c : Name) : Bool := c != [] && c != ['.']

/-- `Path(s).parts` without the root -/
def parts (s : Name) : List Name := (splitOn '/' s).filter keepPart

/-- `Path(s).is_absolute()` (posix) -/
def isAbsolute (s : Name) : Bool := s.head? == some '/'

/-- `_result_path(s)`: the components below `results/`; `none` = ValueError -/
def resultPath (s : Name) : Option RPath :=
  if isAbsolute s || (parts s).contains dotdot then none else some (parts s)

/-- `Path(f"{base}_run_").parent.parts` -/
def folderOf (base : Name) : RPath := ((splitOn '/' base).dropLast).filter keepPart

/-- `Path(f"{base}_run_").name` without the `_run_`: the text after the last `/` -/
def leafOf (base : Name) : Name := ((splitOn '/' base).getLast?).getD []

/-- `_result_path(f"{base}_run_")` raises -/
def nameRejected (base : Name) : Bool := isAbsolute base || (folderOf base).contains dotdot

/-- `previous_result_paths(base)`; `none` = ValueError -/
def previousT (t : RTree) (base : Name) : Option (List RPath) :=
  if nameRejected base then none
  else some ((previous (listingAt t (folderOf base)) (leafOf base)).map (fun n => folderOf base ++ [n]))

/-- the folder name (last component) of the next run of `base` -/
def nextRunLeaf (t : RTree) (base : Name) : Name := createRunName (listingAt t (folderOf base)) (leafOf base)

/-- the run number `create_result_run_name` puts behind `f"{base}_run_"` -/
def nextRunNumber (t : RTree) (base : Name) : Nat :=
  match (previous (listingAt t (folderOf base)) (leafOf base)).getLast? with
  | none => 0
  | some l => runNumber (leafOf base) l + 1

/-- `create_result_run_name(base)`: the *text* `f"{base}_run_{n:04}"`; `none` = ValueError -/
def createRunNameT (t : RTree) (base : Name) : Option Name :=
  if nameRejected base then none else some (runName base (nextRunNumber t base))

/-- the folder that text names below `results/` -/
def nextRunPath (t : RTree) (base : Name) : RPath := folderOf base ++ [nextRunLeaf t base]

/-- `mkdir(parents=True, exist_ok=True)` of `results / (done ++ todo)`: `none` when a file is in the way -/
def mkdirsT (t : RTree) (done : RPath) : List Name → Option RTree
  | [] => some t
  | c :: cs =>
    match kindAt t (done ++ [c]) with
    | some .file => none
    | some _ => mkdirsT t (done ++ [c]) cs
    | none => mkdirsT (setAt t (done ++ [c]) .emptyDir) (done ++ [c]) cs

inductive SaveOutT where
  | saved (p : RPath)
  | fileExists (p : RPath)   -- `result.yml` of that run exists: save_result refuses (the run is NOT stored)
  | blocked (p : RPath)      -- a plain file is in the way of the run folder: nothing is written
  | rejected                 -- ValueError: the name leaves the results folder
  deriving Repr, DecidableEq, Inhabited

/-- `ProjectResultRegistry.save(base, result)` -/
def saveT (t : RTree) (base : Name) (payload : Nat) : RTree × SaveOutT :=
  if nameRejected base then (t, .rejected)
  else
    let rp := nextRunPath t base
    match mkdirsT t [] (folderOf base) with
    | none => (t, .blocked rp)
    | some t1 =>
      match kindAt t1 rp with
      | some (.run _) => (t1, .fileExists rp)
      | some .file => (t1, .blocked rp)
      | _ => (setAt t1 rp (.run payload), .saved rp)

inductive LookupT where
  | found (p : RPath) (warned : Bool)
  | notFound (shown : Name) (warned : Bool)   -- ValueError "Result '<shown>' does not exist"
  | rejected (warned : Bool)                  -- ValueError "… is not a relative path inside of the results folder"
  deriving Repr, DecidableEq, Inhabited

/-- `PurePath.as_posix()` of a relative path -/
def posix : RPath → Name
  | [] => ['.']
  | [c] => c
  | c :: rest => c ++ ['/'] ++ posix rest

def lookupAt (t : RTree) (shown : Name) (p : Option RPath) (warned : Bool) : LookupT :=
  match p with
  | none => .rejected warned
  | some p => if isDirAt t p then .found p warned else .notFound shown warned

/-- `_latest_result_path_fallback(name, latest=latest)` -/
def fallbackT (t : RTree) (name : Name) (latest : Bool) : LookupT :=
  if hasRunSuffix name then lookupAt t name (resultPath name) false
  else
    let warned := !latest
    if nameRejected name then .rejected warned
    else
      match (previous (listingAt t (folderOf name)) (leafOf name)).getLast? with
      | some l => lookupAt t (posix (folderOf name ++ [l])) (some (folderOf name ++ [l])) warned
      | none => lookupAt t name (resultPath name) warned

/-- `Project.get_latest_result_path(name)` -/
def getLatestT (t : RTree) (name : Name) : LookupT := fallbackT t (stripRunSpecifier name) true

inductive LoadedT where
  | loaded (p : RPath) (payload : Nat) (warned : Bool)
  | broken (p : RPath) (warned : Bool)          -- the folder exists but holds no result.yml
  | notFound (shown : Name) (warned : Bool)
  | rejected (warned : Bool)
  deriving Repr, DecidableEq, Inhabited

def loadFoundT (t : RTree) : LookupT → LoadedT
  | .found p w =>
    match kindAt t p with
    | some (.run x) => .loaded p x w
    | _ => .broken p w
  | .notFound n w => .notFound n w
  | .rejected w => .rejected w

/-- `Project.load_result(name, latest=latest)` -/
def loadResultT (t : RTree) (name : Name) (latest : Bool) : LoadedT := loadFoundT t (fallbackT t name latest)

/-- `Project.load_latest_result(name)` -/
def loadLatestT (t : RTree) (name : Name) : LoadedT := loadFoundT t (getLatestT t name)

/-! ### aborted saves (goal: `partial_run_never_reused`)

A plugin fault in the middle of `save_result` — after the run folder (and perhaps some files) was created, before
`result.yml` was written — leaves a folder without `result.yml`: `Kind.emptyDir` ("folder that holds no result"). -/

/-- `save` with the plugin failing after `written` files (0 = right after the folder was made): the folder stays -/
def saveAbortedT (t : RTree) (base : Name) : RTree × SaveOutT :=
  if nameRejected base then (t, .rejected)
  else
    let rp := nextRunPath t base
    match mkdirsT t [] (folderOf base) with
    | none => (t, .blocked rp)
    | some t1 =>
      match kindAt t1 rp with
      | some (.run _) => (t1, .fileExists rp)
      | some .file => (t1, .blocked rp)
      | some .emptyDir => (t1, .blocked rp)
      | none => (setAt t1 rp .emptyDir, .blocked rp)

/-! ## driver of the tree ops -/
open Glotaran.Proto

structure StateT where
  base : State := {}
  tree : RTree := []

def showRPath (p : RPath) : String := showList (p.map showName)

def parseRPath (t : Tree) : Option RPath := t.listOf? parseName

def parseRTree (t : Tree) : Option RTree := do
  let items ← t.items?
  items.mapM (fun e => do
    match ← e.items? with
    | [p, k, x] => some (← parseRPath p, ← parseKind k x)
    | _ => none)

def rpathLe (a b : RPath) : Bool := decide ((a.map String.ofList) ≤ (b.map String.ofList))

def showRTree (t : RTree) : String :=
  let sorted := t.mergeSort (fun a b => rpathLe a.1 b.1)
  showList (sorted.map (fun e => s!"[{showRPath e.1},{showKind e.2}]"))

def showSaveOutT : SaveOutT → String
  | .saved p => s!"saved {showRPath p}"
  | .fileExists p => s!"FileExistsError {showRPath p}"
  | .blocked p => s!"blocked {showRPath p}"
  | .rejected => "rejected"

def showLookupT : LookupT → String
  | .found p w => s!"found {showRPath p} {showBool w}"
  | .notFound n w => s!"err {showName n} {showBool w}"
  | .rejected w => s!"rejected {showBool w}"

def showLoadedT : LoadedT → String
  | .loaded p x w => s!"loaded {showRPath p} {x} {showBool w}"
  | .broken p w => s!"broken {showRPath p} {showBool w}"
  | .notFound n w => s!"err {showName n} {showBool w}"
  | .rejected w => s!"rejected {showBool w}"

/-- protocol of the tree ops (everything else is answered by `driverStepBase` of C18.lean):
    * `tree-reset <[[path,kind,payload],…]>` → `ok`;  `tree-dump` → entries sorted by path
    * `tree-mk <path> <kind> <payload>` → `ok`
    * `tree-previous <base>` → `[path,…]` | `rejected`;  `tree-create <base>` → `name <text>` | `rejected`
    * `tree-save <base> <payload>`, `tree-abort <base>` → `saved <path>` | `FileExistsError <path>` | `blocked <path>` | `rejected`
    * `tree-path <name> <latest>`, `tree-latest <name>` → `found <path> <warned>` | `err <shown> <warned>` | `rejected <warned>`
    * `tree-load <name> <latest>`, `tree-load-latest <name>` → `loaded <path> <payload> <warned>` | `broken …` | `err …` | `rejected …`
    * `tree-parts <name>` → `<rejected?> <folder> <leaf>` -/
def driverStep (table : List SaveFn) (plugins : List ResultPlugin) (st : StateT) (ts : List Tree) : StateT × String :=
  match ts with
  | [.atom "tree-reset", t] =>
    match parseRTree t with
    | some t => ({ st with tree := t }, "ok")
    | none => (st, "bad-op")
  | [.atom "tree-dump"] => (st, showRTree st.tree)
  | [.atom "tree-mk", p, k, x] =>
    match parseRPath p, parseKind k x with
    | some p, some k => ({ st with tree := setAt st.tree p k }, "ok")
    | _, _ => (st, "bad-op")
  | [.atom "tree-parts", b] =>
    match parseName b with
    | some b => (st, s!"{showBool (nameRejected b)} {showRPath (folderOf b)} {showName (leafOf b)}")
    | none => (st, "bad-op")
  | [.atom "tree-previous", b] =>
    match parseName b with
    | some b =>
      match previousT st.tree b with
      | some l => (st, showList (l.map showRPath))
      | none => (st, "rejected")
    | none => (st, "bad-op")
  | [.atom "tree-create", b] =>
    match parseName b with
    | some b =>
      match createRunNameT st.tree b with
      | some n => (st, s!"name {showName n}")
      | none => (st, "rejected")
    | none => (st, "bad-op")
  | [.atom "tree-save", b, p] =>
    match parseName b, p.nat? with
    | some b, some p =>
      let r := saveT st.tree b p
      ({ st with tree := r.1 }, showSaveOutT r.2)
    | _, _ => (st, "bad-op")
  | [.atom "tree-abort", b] =>
    match parseName b with
    | some b =>
      let r := saveAbortedT st.tree b
      ({ st with tree := r.1 }, showSaveOutT r.2)
    | none => (st, "bad-op")
  | [.atom "tree-path", n, l] =>
    match parseName n, l.bool? with
    | some n, some l => (st, showLookupT (fallbackT st.tree n l))
    | _, _ => (st, "bad-op")
  | [.atom "tree-latest", n] =>
    match parseName n with
    | some n => (st, showLookupT (getLatestT st.tree n))
    | none => (st, "bad-op")
  | [.atom "tree-load", n, l] =>
    match parseName n, l.bool? with
    | some n, some l => (st, showLoadedT (loadResultT st.tree n l))
    | _, _ => (st, "bad-op")
  | [.atom "tree-load-latest", n] =>
    match parseName n with
    | some n => (st, showLoadedT (loadLatestT st.tree n))
    | none => (st, "bad-op")
  | _ =>
    let r := driverStepBase table plugins st.base ts
    ({ st with base := r.1 }, r.2)

end Glotaran.C18
