/-
C05 — Gaussian IRF convolution, for every index of a dispersed or shifted IRF
(glotaran/builtin/megacomplexes/decay/{irf.py, decay_matrix_gaussian_irf.py, util.py}).

What is modelled, as coded:
  * `IrfMultiGaussian.parameter` / `IrfSpectralMultiGaussian.parameter`: broadcasting of centres and
    widths, default scales, the scale-count check, shift lookup with its index error, back-sweep
    period, the dispersion variable (`(x - x0)/100` or `1e3/x - 1e3/x0`) and the two coefficient
    loops `value += coef * dist^(i+1)`; `is_index_dependent`; `Irf.calculate`,
    `calculate_dispersion`;
  * `calculate_decay_matrix_gaussian_irf_on_index`: per Gaussian / rate / time the two numerical
    branches on `thresh = beta - alpha < -1` and the optional back-sweep term, accumulated with `+=`;
  * `calculate_decay_matrix_gaussian_irf`: the per-index loop over `all_centers[n_w]`;
  * `decay_matrix_implementation_index_independent / _index_dependent`: `centers - shift`,
    scales / back-sweep taken from the last index, division by `sum(scales)` when `normalize`;
    `calculate_decay_matrix_no_irf`; `calculate_matrix` with its finiteness check and the final `matrix @ a_matrix` (the
    A-matrix is an input: C04), and what the compiled kernels raise before a matrix comes back (`kernelGuard`: zero width,
    empty global axis; `calculateMatrixChecked` is what the driver executes);
  * `Irf.calculate` (on `centers - shift`, fix irf-trace-ignores-shift) and `util.retrieve_irf`.
Every function with a source counterpart is also regenerated from the source (Generated/C05Fns.lean, Generated/C05Irf.lean) and
proved equal to the definition here (GlotaranProofs/Props/C05.lean, `generated_*_eq_model`).

All plumbing is exact rational arithmetic (every double is a rational).  The transcendental part
is written once over an abstract number type (`Num α`: which operation is applied to which
operand); `exp`, `erf`, `erfcx`, `sqrt 2` are *symbols*:
  * executable instance `α := Term` — the driver prints terms with exact rational leaves, the
    harness evaluates them with mpmath at 50 digits and compares with the numba doubles;
  * theorem instance `α := ℝ` (GlotaranProofs/Lemmas/C05.lean) with `erf` defined by its integral.
The branch decision `thresh < -1` is taken exactly: `thresh = d/√2` with the rational
`d = (t - c)/w - k*w`, and `d < -√2 ⇔ d < 0 ∧ d² > 2`.
-/
import GlotaranModel.Proto
namespace Glotaran.C05

/-- the arithmetic the numba kernel performs on doubles -/
class Num (α : Type) where
  ofRat : Rat → α
  add : α → α → α
  sub : α → α → α
  mul : α → α → α
  div : α → α → α
  neg : α → α
  exp : α → α
  erf : α → α
  erfcx : α → α
  /-- `SQRT2 = np.sqrt(2)` -/
  sqrt2 : α

/-! ### IRF items and `parameter` -/

/-- `IrfMultiGaussian` / `IrfGaussian` (`spectral = false`; a single centre / width is a list of
    one) and `IrfSpectralMultiGaussian` / `IrfSpectralGaussian` (`spectral = true`), filled. -/
structure Irf where
  spectral : Bool
  center : List Rat
  width : List Rat
  scale : Option (List Rat)
  shift : Option (List Rat)
  normalize : Bool
  backsweep : Bool
  backsweepPeriod : Option Rat
  dispersionCenter : Option Rat
  centerDisp : List Rat
  widthDisp : List Rat
  wavenumber : Bool
  deriving Repr, Inhabited

inductive IrfError where
  /-- ModelError: len(centers) != len(widths) and none of them is 1 -/
  | lenMismatch
  /-- ModelError: number of scales differs from the number of Gaussians -/
  | scaleMismatch
  /-- ModelError: no shift parameter for this global index -/
  | noShift
  /-- TypeError: an index-dependent quantity was asked for without a global index -/
  | typeError
  /-- AttributeError: back-sweep without a period -/
  | noPeriod
  /-- IndexError: global index outside the global axis -/
  | indexError
  /-- ModelError: dispersion coefficients without a dispersion centre -/
  | noDispersionCenter
  /-- ZeroDivisionError: `1e3 / dispersion_center` with a zero centre -/
  | zeroDivision
  /-- a non-finite double would appear (`1e3 / 0.0` on the axis): outside the model -/
  | nonFinite
  /-- a zero width at some global index of an index-dependent IRF: the division raises inside numba's `prange` loop, where
      an exception is either turned into a SystemError or lost (the slice of that index then stays as far as it was
      written), depending on the thread that runs the iteration — not well defined, outside the model (known finding
      `silent-matrix:zero-width`) -/
  | zeroWidthParallel
  /-- ValueError of numba ("cannot compute fingerprint of empty list"): the scales of an index-dependent IRF on an
      empty global axis are the untouched Python list `[]` -/
  | emptyList
  /-- ValueError "Non-finite concentrations" of `calculate_matrix` -/
  | nonFiniteMatrix
  deriving Repr, DecidableEq, Inhabited

/-- the tuple `parameter` returns -/
structure Params where
  centers : List Rat
  widths : List Rat
  scales : List Rat
  shift : Rat
  backsweep : Bool
  period : Rat
  deriving Repr, Inhabited, DecidableEq

/-- broadcasting of centres and widths (`none` = the ModelError) -/
def broadcast (center width : List Rat) : Option (List Rat × List Rat) :=
  let nc := center.length
  let nw := width.length
  if nc ≠ nw then
    if min nc nw ≠ 1 then none
    else if nc = 1 then some (List.replicate nw (center.headD 0), width)
    else some (center, List.replicate nc (width.headD 0))
  else some (center, width)

/-- `self.scale if self.scale is not None else [1.0 for _ in centers]` -/
def scalesOf (scale : Option (List Rat)) (centers : List Rat) : List Rat :=
  match scale with
  | none => centers.map (fun _ => (1 : Rat))
  | some s => s

/-- the shift of global index `gi`: 0 without a shift list; with one, `self.shift[global_index]`, the
    ModelError when the list is too short (its message evaluates `global_axis[global_index]`: an
    IndexError when the index is beyond the axis too), a TypeError for `None >= len(...)` -/
def shiftAt (shift : Option (List Rat)) (gi : Option Nat) (axisLen : Nat) : Except IrfError Rat :=
  match shift with
  | none => .ok 0
  | some sh =>
    match gi with
    | none => .error .typeError
    | some i =>
      if sh.length ≤ i then (if axisLen ≤ i then .error .indexError else .error .noShift)
      else .ok (sh.getD i 0)

/-- `IrfMultiGaussian.parameter(global_index, global_axis)`; only the length of the axis matters -/
def baseParameter (irf : Irf) (gi : Option Nat) (axisLen : Nat) : Except IrfError Params :=
  match broadcast irf.center irf.width with
  | none => .error .lenMismatch
  | some (centers, widths) =>
    if (scalesOf irf.scale centers).length ≠ centers.length then .error .scaleMismatch else
    match shiftAt irf.shift gi axisLen with
    | .error e => .error e
    | .ok shift =>
      if irf.backsweep then
        match irf.backsweepPeriod with
        | none => .error .noPeriod
        | some T => .ok ⟨centers, widths, scalesOf irf.scale centers, shift, true, T⟩
      else .ok ⟨centers, widths, scalesOf irf.scale centers, shift, false, 0⟩

/-- the dispersion variable for the axis value `x` and dispersion centre `x0` -/
def dispDist (wavenumber : Bool) (x x0 : Rat) : Rat :=
  if wavenumber then 1000 / x - 1000 / x0 else (x - x0) / 100

/-- `for i, disp in enumerate(coefs): values += disp * np.power(dist, i + 1)` started at `i` -/
def dispLoop (dist : Rat) : Nat → List Rat → List Rat → List Rat
  | _, [], vs => vs
  | i, d :: rest, vs => dispLoop dist (i + 1) rest (vs.map (fun v => v + d * dist ^ (i + 1)))

/-- `IrfSpectralMultiGaussian.parameter(global_index, global_axis)` -/
def spectralParameter (irf : Irf) (gi : Option Nat) (axis : List Rat) : Except IrfError Params :=
  match baseParameter irf gi axis.length with
  | .error e => .error e
  | .ok p =>
    -- index = global_axis[global_index] if global_index is not None else None
    let indexR : Except IrfError (Option Rat) :=
      match gi with
      | none => .ok none
      | some i => if axis.length ≤ i then .error .indexError else .ok (some (axis.getD i 0))
    match indexR with
    | .error e => .error e
    | .ok index =>
      let distR : Except IrfError (Option Rat) :=
        match irf.dispersionCenter with
        | none => .ok none
        | some x0 =>
          match index with
          | none => .error .typeError
          | some x =>
            if irf.wavenumber && x0 == 0 then .error .zeroDivision
            else if irf.wavenumber && x == 0 then
              -- `1e3 / 0.0 = inf` (numpy scalar): harmless when no coefficient uses it
              (if irf.centerDisp.isEmpty && irf.widthDisp.isEmpty then .ok (some 0) else .error .nonFinite)
            else .ok (some (dispDist irf.wavenumber x x0))
      match distR with
      | .error e => .error e
      | .ok dist =>
        if !irf.centerDisp.isEmpty && dist.isNone then .error .noDispersionCenter
        else
          let centers := if irf.centerDisp.isEmpty then p.centers
            else dispLoop (dist.getD 0) 0 irf.centerDisp p.centers
          if !irf.widthDisp.isEmpty && dist.isNone then .error .noDispersionCenter
          else
            let widths := if irf.widthDisp.isEmpty then p.widths
              else dispLoop (dist.getD 0) 0 irf.widthDisp p.widths
            .ok { p with centers := centers, widths := widths }

/-- `irf.parameter(global_index, global_axis)` by item type -/
def parameter (irf : Irf) (gi : Option Nat) (axis : List Rat) : Except IrfError Params :=
  if irf.spectral then spectralParameter irf gi axis else baseParameter irf gi axis.length

/-- `is_index_dependent()` -/
def isIndexDependent (irf : Irf) : Bool :=
  irf.shift.isSome || (irf.spectral && irf.dispersionCenter.isSome)

/-- `calculate_dispersion(axis)`: centres of every index, transposed to `[gaussian][index]` -/
def calculateDispersion (irf : Irf) (axis : List Rat) : Except IrfError (List (List Rat)) :=
  match (List.range axis.length).mapM (fun i => spectralParameter irf (some i) axis) with
  | .error e => .error e
  | .ok ps =>
    let rows := ps.map (·.centers)
    let n := (rows.headD []).length
    .ok ((List.range n).map (fun g => rows.map (fun r => r.getD g 0)))

/-! ### the kernel `calculate_decay_matrix_gaussian_irf_on_index` -/

/-- `d < -√2` for a rational `d` -/
def ltNegSqrt2 (d : Rat) : Bool := decide (d < 0) && decide (2 < d * d)

/-- the rational `d` with `thresh = beta - alpha = d / √2` -/
def threshNum (k t c w : Rat) : Rat := (t - c) / w - k * w

/-- the branch condition `thresh < -1` -/
def threshLt (k t c w : Rat) : Bool := ltNegSqrt2 (threshNum k t c w)

section kernel
variable {α : Type} [Num α]
open Num

/-- `alpha = (r_n * width) / SQRT2` -/
def alphaT (k w : Rat) : α := div (ofRat (k * w)) sqrt2
/-- `beta = (t_n - center) / (width * SQRT2)` -/
def betaT (t c w : Rat) : α := div (ofRat (t - c)) (mul (ofRat w) sqrt2)
/-- `thresh = beta - alpha` -/
def threshT (k t c w : Rat) : α := sub (betaT t c w) (alphaT k w)

/-- `scale * 0.5 * erfcx(-thresh) * np.exp(-beta * beta)` -/
def erfcxBranch (k t c w s : Rat) : α :=
  mul (mul (mul (ofRat s) (ofRat (1/2))) (erfcx (neg (threshT k t c w))))
    (exp (neg (mul (betaT t c w) (betaT t c w))))

/-- `scale * 0.5 * (1 + erf(thresh)) * np.exp(alpha * (alpha - 2 * beta))` -/
def erfBranch (k t c w s : Rat) : α :=
  mul (mul (mul (ofRat s) (ofRat (1/2))) (add (ofRat 1) (erf (threshT k t c w))))
    (exp (mul (alphaT k w) (sub (alphaT k w) (mul (ofRat 2) (betaT t c w)))))

/-- one Gaussian's contribution to `matrix[n_t, n_r]` -/
def gaussEntry (k t c w s : Rat) : α :=
  if threshLt k t c w then erfcxBranch k t c w s else erfBranch k t c w s

/-- the double literal `0.001` of `backsweep_valid` -/
def lit001 : Rat := 1152921504606847 / 1152921504606846976

/-- `backsweep and abs(r_n) * backsweep_period > 0.001` -/
def backsweepValid (bs : Bool) (k T : Rat) : Bool :=
  bs && decide (lit001 < (if k < 0 then -k else k) * T)

/-- `scale * (x1 + x2) / (1 - x3)` with `x1 = exp(-r (t - c + T))`, `x2 = exp(-r (T/2 - (t - c)))`,
    `x3 = exp(-r T)` -/
def backsweepTerm (k t c s T : Rat) : α :=
  div (mul (ofRat s) (add (exp (ofRat (-k * (t - c + T)))) (exp (ofRat (-k * (T / 2 - (t - c)))))))
    (sub (ofRat 1) (exp (ofRat (-k * T))))

/-- one pass of the `n_i` loop on the entry `(t, k)`: `+=` the Gaussian term, then `+=` the
    back-sweep term when it is valid -/
def entryStep (bs : Bool) (T k t : Rat) (acc : α) (g : Rat × Rat × Rat) : α :=
  let e := add acc (gaussEntry k t g.1 g.2.1 g.2.2)
  if backsweepValid bs k T then add e (backsweepTerm k t g.1 g.2.2 T) else e

/-- `matrix[n_t, n_r]` after the kernel ran on a zero matrix; `gs` = `(centre, width, scale)` per Gaussian -/
def kernelEntry (gs : List (Rat × Rat × Rat)) (bs : Bool) (T k t : Rat) : α :=
  gs.foldl (entryStep bs T k t) (ofRat 0)

/-- the `(times × rates)` matrix of one index -/
def kernelOnIndex (gs : List (Rat × Rat × Rat)) (bs : Bool) (T : Rat) (times rates : List Rat) :
    List (List α) :=
  times.map (fun t => rates.map (fun k => kernelEntry gs bs T k t))

/-- `calculate_decay_matrix_no_irf`: `exp(-r t)` on zeros -/
def noIrfMatrix (times rates : List Rat) : List (List α) :=
  times.map (fun t => rates.map (fun k => add (ofRat 0) (exp (ofRat (-k * t)))))

/-- `matrix /= np.sum(irf_scales)` -/
def normalise (scales : List Rat) (m : List (List α)) : List (List α) :=
  m.map (fun row => row.map (fun x => div x (ofRat scales.sum)))

/-- `matrix @ a_matrix` for one `(times × rates)` slice; `a : rates × compartments` -/
def applyA (a : List (List Rat)) (ncomp : Nat) (m : List (List α)) : List (List α) :=
  m.map (fun row =>
    (List.range ncomp).map (fun c =>
      (row.zip a).foldl (fun acc xa => add acc (mul xa.1 (ofRat (xa.2.getD c 0)))) (ofRat 0)))

end kernel

/-- `(centre - shift, width, scale)` per Gaussian, as handed to the kernel -/
def gaussians (centers widths scales : List Rat) (shift : Rat) : List (Rat × Rat × Rat) :=
  (centers.map (· - shift)).zip (widths.zip scales)

/-- the kernel on one parameter tuple `(centers, widths, scales, shift, backsweep, period)`:
    `calculate_decay_matrix_gaussian_irf_on_index(matrix, rates, times, centers - shift, widths,
    scales, backsweep, period)`, then `matrix /= np.sum(scales)` when `normalize` -/
def matrixOfParams {α : Type} [Num α] (norm : Bool) (p : Params) (times rates : List Rat) :
    List (List α) :=
  let m : List (List α) :=
    kernelOnIndex (gaussians p.centers p.widths p.scales p.shift) p.backsweep p.period times rates
  if norm then normalise p.scales m else m

/-- `decay_matrix_implementation_index_independent` with a Gaussian IRF -/
def matrixIndep {α : Type} [Num α] (irf : Irf) (axis times rates : List Rat) :
    Except IrfError (List (List α)) :=
  match parameter irf none axis with
  | .error e => .error e
  | .ok p => .ok (matrixOfParams irf.normalize p times rates)

/-- `decay_matrix_implementation_index_dependent`: the parameters of every index are collected,
    then `calculate_decay_matrix_gaussian_irf` runs the kernel for `n_w` on `all_centers[n_w]`,
    `all_widths[n_w]` with the scales / back-sweep of the **last** index.  An empty global axis is
    outside the model (`nonFinite` is never produced here; the driver refuses it). -/
def matrixDep {α : Type} [Num α] (irf : Irf) (axis times rates : List Rat) :
    Except IrfError (List (List (List α))) :=
  match (List.range axis.length).mapM (fun i => parameter irf (some i) axis) with
  | .error e => .error e
  | .ok ps =>
    let allCenters := ps.map (fun p => p.centers.map (· - p.shift))
    let allWidths := ps.map (·.widths)
    let last := ps.getLastD default
    .ok ((List.range allCenters.length).map (fun n =>
      let m : List (List α) :=
        kernelOnIndex ((allCenters.getD n []).zip ((allWidths.getD n []).zip last.scales))
          last.backsweep last.period times rates
      if irf.normalize then normalise last.scales m else m))

/-- result of `calculate_matrix` before / after the A-matrix -/
inductive Matrix (α : Type) where
  | indep (m : List (List α))
  | dep (ms : List (List (List α)))
  deriving Repr

/-- `util.calculate_matrix` for a dataset with IRF `irf` (`none`: no IRF), without the A-matrix -/
def decayMatrix {α : Type} [Num α] (irf : Option Irf) (axis times rates : List Rat) :
    Except IrfError (Matrix α) :=
  match irf with
  | none => .ok (.indep (noIrfMatrix times rates))
  | some irf =>
    if isIndexDependent irf then
      match matrixDep irf axis times rates with
      | .error e => .error e
      | .ok ms => .ok (.dep ms)
    else
      match matrixIndep irf axis times rates with
      | .error e => .error e
      | .ok m => .ok (.indep m)

/-- `util.calculate_matrix`: the above, then `matrix @ a_matrix` -/
def calculateMatrix {α : Type} [Num α] (irf : Option Irf) (axis times rates : List Rat)
    (a : List (List Rat)) (ncomp : Nat) : Except IrfError (Matrix α) :=
  match decayMatrix irf axis times rates with
  | .error e => .error e
  | .ok (.indep m) => .ok (.indep (applyA a ncomp m))
  | .ok (.dep ms) => .ok (.dep (ms.map (applyA a ncomp)))

/-! ### `calculate_matrix` with its finiteness check, and what the compiled kernels raise -/

/-- `np.all(f(matrix))` -/
def Matrix.all {α : Type} (f : α → Bool) : Matrix α → Bool
  | .indep m => m.all (fun row => row.all f)
  | .dep ms => ms.all (fun m => m.all (fun row => row.all f))

/-- `matrix @ a_matrix` on either shape -/
def Matrix.applyA {α : Type} [Num α] (a : List (List Rat)) (ncomp : Nat) : Matrix α → Matrix α
  | .indep m => .indep (Glotaran.C05.applyA a ncomp m)
  | .dep ms => .dep (ms.map (Glotaran.C05.applyA a ncomp))

/-- `util.calculate_matrix` as written: the decay matrix, `if not np.all(np.isfinite(matrix)): raise ValueError`, then
    `matrix @ a_matrix`; `fin` is `np.isfinite` on the number type -/
def calculateMatrixFin {α : Type} [Num α] (fin : α → Bool) (irf : Option Irf) (axis times rates : List Rat)
    (a : List (List Rat)) (ncomp : Nat) : Except IrfError (Matrix α) :=
  match decayMatrix irf axis times rates with
  | .error e => .error e
  | .ok M => if !(M.all fin) then .error .nonFiniteMatrix else .ok (M.applyA a ncomp)

/-- the widths the kernel divides by: of the single tuple, or of every global index -/
def kernelWidths (irf : Irf) (axis : List Rat) : List Rat :=
  if isIndexDependent irf then
    (List.range axis.length).flatMap (fun i =>
      match parameter irf (some i) axis with
      | .ok p => p.widths
      | .error _ => [])
  else
    match parameter irf none axis with
    | .ok p => p.widths
    | .error _ => []

/-- What the compiled kernels raise before a matrix comes back (numba, `error_model = python`; the arithmetic of the
    model is total, so these are stated on the inputs):
    * an index-dependent IRF on an empty global axis hands numba the Python list `[]` as scales: ValueError;
    * `beta = (t_n - center) / (width * SQRT2)` with a zero width raises as soon as the loop body runs (at least one
      time and one rate): ZeroDivisionError from the index-independent kernel; inside the parallel per-index kernel the
      outcome is not well defined (`zeroWidthParallel`). -/
def kernelGuard (irf : Irf) (axis times rates : List Rat) : Option IrfError :=
  if isIndexDependent irf && axis.isEmpty then some .emptyList
  else if (kernelWidths irf axis).any (· == 0) && !times.isEmpty && !rates.isEmpty then
    some (if isIndexDependent irf then .zeroWidthParallel else .zeroDivision)
  else none

/-- `util.calculate_matrix` as observed: errors of `parameter` first, then what the kernels raise, then the finiteness
    check and the A-matrix -/
def calculateMatrixChecked {α : Type} [Num α] (fin : α → Bool) (irf : Option Irf) (axis times rates : List Rat)
    (a : List (List Rat)) (ncomp : Nat) : Except IrfError (Matrix α) :=
  match decayMatrix (α := α) irf axis times rates with
  | .error e => .error e
  | .ok _ =>
    match irf.bind (fun i => kernelGuard i axis times rates) with
    | some e => .error e
    | none => calculateMatrixFin fin irf axis times rates a ncomp

/-- `Irf.calculate(index, global_axis, model_axis)` (after the fix `irf-trace-ignores-shift`: on `centers - shift`, the
    tuple list the kernel of that index receives):
    `sum(scale * exp(-1 * (t - center)**2 / (2 * width**2)))`, Python's `sum` starts at 0 -/
def irfCalculate {α : Type} [Num α] (irf : Irf) (index : Nat) (axis times : List Rat) :
    Except IrfError (List α) :=
  match parameter irf (some index) axis with
  | .error e => .error e
  | .ok p =>
    .ok (times.map (fun t =>
      (gaussians p.centers p.widths p.scales p.shift).foldl
        (fun acc g => Num.add acc
          (Num.mul (Num.ofRat g.2.2)
            (Num.exp (Num.ofRat (-1 * ((t - g.1) * (t - g.1)) / (2 * (g.2.1 * g.2.1)))))))
        (Num.ofRat 0)))

/-! ### `util.retrieve_irf` -/

/-- what `util.retrieve_irf` stores in the result dataset -/
structure IrfResult (α : Type) where
  /-- `irf`: `Irf.calculate(index=0, …)` on the model axis -/
  irf : List α
  /-- `irf_center`, `irf_width`: the declared (not broadcast) centres / widths -/
  center : List Rat
  width : List Rat
  /-- `irf_shift`: `center[0] - shift_i` per global index -/
  shift : Option (List Rat)
  /-- `irf_center_location[gaussian][index]` -/
  centerLocation : Option (List (List Rat))
  /-- `center_dispersion_1` = `irf_center_location.sel(irf_nr=0)` -/
  centerDispersion1 : Option (List Rat)

inductive RetrieveError where
  | irf (e : IrfError)
  /-- xarray: `irf_shift` has another length than the global dimension -/
  | conflictingSizes
  deriving Repr

/-- `retrieve_irf(dataset_model, dataset, global_dimension)` for a Gaussian IRF (the global dimension is
    `spectral`, which the dispersion branch reads explicitly); `center[0]` / `width[0]` of an empty list: IndexError -/
def retrieveIrf {α : Type} [Num α] (irf : Irf) (axis times : List Rat) :
    Except RetrieveError (IrfResult α) :=
  match irfCalculate (α := α) irf 0 axis times with
  | .error e => .error (.irf e)
  | .ok v =>
    if irf.center.isEmpty || irf.width.isEmpty then .error (.irf .indexError) else
    let shiftR : Except RetrieveError (Option (List Rat)) :=
      match irf.shift with
      | none => .ok none
      | some sh =>
        if sh.length ≠ axis.length then .error .conflictingSizes
        else .ok (some (sh.map (fun s => irf.center.headD 0 - s)))
    match shiftR with
    | .error e => .error e
    | .ok shift =>
      if irf.spectral && irf.dispersionCenter.isSome then
        match calculateDispersion irf axis with
        | .error e => .error (.irf e)
        | .ok loc => .ok ⟨v, irf.center, irf.width, shift, some loc, some (loc.getD 0 [])⟩
      else .ok ⟨v, irf.center, irf.width, shift, none, none⟩

/-! ### executable instance: free terms over exact rationals -/

inductive Term where
  | q (r : Rat)
  | add (a b : Term)
  | sub (a b : Term)
  | mul (a b : Term)
  | div (a b : Term)
  | neg (a : Term)
  | exp (a : Term)
  | erf (a : Term)
  | erfcx (a : Term)
  | sqrt2
  deriving Repr, Inhabited

instance : Num Term where
  ofRat := .q
  add := .add
  sub := .sub
  mul := .mul
  div := .div
  neg := .neg
  exp := .exp
  erf := .erf
  erfcx := .erfcx
  sqrt2 := .sqrt2

/-- `np.isfinite` on a term, as far as the exact model decides it: a quotient whose denominator is the exact number 0
    is `inf` or `nan` (`x / 0.0` in numpy); overflow of `exp` is not decided here (the harness observes it) -/
def Term.finite : Term → Bool
  | .q _ => true
  | .add a b => a.finite && b.finite
  | .sub a b => a.finite && b.finite
  | .mul a b => a.finite && b.finite
  | .div a (.q r) => a.finite && r != 0
  | .div a b => a.finite && b.finite
  | .neg a => a.finite
  | .exp a => a.finite
  | .erf a => a.finite
  | .erfcx a => a.finite
  | .sqrt2 => true

/-! ### driver -/
open Glotaran.Proto

def showTerm : Term → String
  | .q r => showRat r
  | .add a b => s!"[add,{showTerm a},{showTerm b}]"
  | .sub a b => s!"[sub,{showTerm a},{showTerm b}]"
  | .mul a b => s!"[mul,{showTerm a},{showTerm b}]"
  | .div a b => s!"[div,{showTerm a},{showTerm b}]"
  | .neg a => s!"[neg,{showTerm a}]"
  | .exp a => s!"[exp,{showTerm a}]"
  | .erf a => s!"[erf,{showTerm a}]"
  | .erfcx a => s!"[erfcx,{showTerm a}]"
  | .sqrt2 => "sqrt2"

def showTerms (xs : List Term) : String := showList (xs.map showTerm)
def showTermss (xs : List (List Term)) : String := showList (xs.map showTerms)

def showError : IrfError → String
  | .lenMismatch => "err:ModelError:len"
  | .scaleMismatch => "err:ModelError:scales"
  | .noShift => "err:ModelError:shift"
  | .typeError => "err:TypeError"
  | .noPeriod => "err:AttributeError"
  | .indexError => "err:IndexError"
  | .noDispersionCenter => "err:ModelError:dispersion-center"
  | .zeroDivision => "err:ZeroDivisionError"
  | .nonFinite => "unmodelled:non-finite"
  | .zeroWidthParallel => "unmodelled:zero-width-per-index"
  | .emptyList => "err:other:ValueError"
  | .nonFiniteMatrix => "err:ValueError:non-finite"

/-- `[spectral,[centers],[widths],none|[scales],none|[shifts],normalize,backsweep,none|period,
     none|dispersion_center,[center coefs],[width coefs],wavenumber]` -/
def parseIrf : Tree → Option Irf
  | .list [sp, c, w, sc, sh, nz, bs, T, dc, cd, wd, wn] => do
    some { spectral := ← sp.bool?, center := ← c.rats?, width := ← w.rats?,
           scale := ← Tree.optOf? Tree.rats? sc, shift := ← Tree.optOf? Tree.rats? sh,
           normalize := ← nz.bool?, backsweep := ← bs.bool?,
           backsweepPeriod := ← Tree.optOf? Tree.rat? T,
           dispersionCenter := ← Tree.optOf? Tree.rat? dc,
           centerDisp := ← cd.rats?, widthDisp := ← wd.rats?, wavenumber := ← wn.bool? }
  | _ => none

def showParams (p : Params) : String :=
  s!"ok {showRats p.centers} {showRats p.widths} {showRats p.scales} {showRat p.shift} {showBool p.backsweep} {showRat p.period}"

def showMatrix : Matrix Term → String
  | .indep m => s!"indep {showTermss m}"
  | .dep ms => s!"dep {showList (ms.map showTermss)}"

/-- a width of zero makes `beta` non-finite: outside the model -/
def zeroWidth (irf : Irf) (dep : Bool) (axis : List Rat) : Bool :=
  if dep then
    (List.range axis.length).any (fun i =>
      match parameter irf (some i) axis with
      | .ok p => p.widths.any (· == 0)
      | .error _ => false)
  else
    match parameter irf none axis with
    | .ok p => p.widths.any (· == 0)
    | .error _ => false

/-- protocol (stateless):
    `param irf idx|none [axis]`                         → `ok c w s shift bs T` / `err:…`
    `indexdep irf`                                      → `T` / `F`
    `dispersion irf [axis]`                             → `ok [[centre per index] per gaussian]`
    `kernel [rates] [times] [c] [w] [s] bs T`           → `ok [[term per rate] per time]`
    `matrix irf|none [axis] [times] [rates] [[a]] ncomp` → `indep …` / `dep …` / `err:…` / `unmodelled:…`
    `irfcalc irf idx [axis] [times]`                    → `ok [term per time]`
    `retrieve irf [axis] [times]`                       → `ok [irf terms] [centres] [widths] none|[shifts] none|[[location]] none|[dispersion_1]` -/
def driverStep (s : Unit) (ts : List Tree) : Unit × String :=
  let out : Option String :=
    match ts with
    | [.atom "param", irf, gi, axis] => do
      let irf ← parseIrf irf
      let gi ← Tree.optOf? Tree.nat? gi
      let axis ← axis.rats?
      match parameter irf gi axis with
      | .ok p => some (showParams p)
      | .error e => some (showError e)
    | [.atom "indexdep", irf] => do
      some (showBool (isIndexDependent (← parseIrf irf)))
    | [.atom "dispersion", irf, axis] => do
      match calculateDispersion (← parseIrf irf) (← axis.rats?) with
      | .ok rows => some s!"ok {showList (rows.map showRats)}"
      | .error e => some (showError e)
    | [.atom "kernel", rates, times, c, w, sc, bs, T] => do
      let rates ← rates.rats?
      let times ← times.rats?
      let c ← c.rats?
      let w ← w.rats?
      let sc ← sc.rats?
      let bs ← bs.bool?
      let T ← T.rat?
      if c.length ≠ w.length || c.length ≠ sc.length then some "unmodelled:lengths"
      else if w.any (· == 0) then some "unmodelled:zero-width"
      else
        let m : List (List Term) := kernelOnIndex (c.zip (w.zip sc)) bs T times rates
        some s!"ok {showTermss m}"
    | [.atom "matrix", irf, axis, times, rates, a, nc] => do
      let irf ← Tree.optOf? parseIrf irf
      let axis ← axis.rats?
      let times ← times.rats?
      let rates ← rates.rats?
      let a ← a.ratss?
      let nc ← nc.nat?
      if a.length ≠ rates.length then some "unmodelled:a-matrix-shape" else
      match calculateMatrixChecked (α := Term) Term.finite irf axis times rates a nc with
      | .ok m => some (showMatrix m)
      | .error e => some (showError e)
    | [.atom "irfcalc", irf, idx, axis, times] => do
      let irf ← parseIrf irf
      let idx ← idx.nat?
      let axis ← axis.rats?
      let times ← times.rats?
      match parameter irf (some idx) axis with
      | .ok p =>
        if p.widths.any (· == 0) then some "unmodelled:zero-width" else
        match irfCalculate (α := Term) irf idx axis times with
        | .ok xs => some s!"ok {showTerms xs}"
        | .error e => some (showError e)
      | .error e => some (showError e)
    | [.atom "retrieve", irf, axis, times] => do
      let irf ← parseIrf irf
      let axis ← axis.rats?
      let times ← times.rats?
      if axis.isEmpty then some "unmodelled:empty-global-axis" else
      if irf.center.isEmpty then some "unmodelled:no-centre" else
      match parameter irf (some 0) axis with
      | .ok p =>
        if p.widths.any (· == 0) then some "unmodelled:zero-width" else
        match retrieveIrf (α := Term) irf axis times with
        | .ok r =>
          some s!"ok {showTerms r.irf} {showRats r.center} {showRats r.width} {showOpt showRats r.shift} {showOpt (fun l => showList (l.map showRats)) r.centerLocation} {showOpt showRats r.centerDispersion1}"
        | .error (.irf e) => some (showError e)
        | .error .conflictingSizes => some "err:ValueError:conflicting-sizes"
      | .error e => some (showError e)
    | _ => none
  (s, out.getD "bad-op")

end Glotaran.C05
