/-
C10 (part 4) — interpreter of the regenerated steps table: the micro-step list of one evaluation as THE SOURCE TEXT gives
it, for a scheme structure.  GlotaranProofs/Props/C10.lean proves it equal to the hand-written `calculatePenalty spec`
(`generated_steps_eq_model`), so that `containers_overwritten_before_read` is a statement about what the source says now.

Anything the interpreter cannot place (an unknown container, a step under an unknown loop or condition, an in-place update,
a store under a subscript that is not the loop variable, an `untranslatable` step) becomes the micro-step `poison …`, which
the model's programs never contain.
-/
import GlotaranModel.C10
import GlotaranModel.C10Steps
namespace Glotaran.C10
open Steps

/-- where the interpretation is: scheme, current group, current dataset, current point of the aligned axis -/
structure Ctx where
  spec : Spec
  g : Nat
  gs : GroupSpec
  d : Option DatasetSpec
  i : Option (Nat × List String)

def poison (reason : String) : List Instr := [.assign .out ("untranslatable: " ++ reason) []]

def perDataset (c : Ctx) (k : Key) (mk : Nat → String → Loc) : Option (List Loc) :=
  match k with
  | .cur => c.d.map (fun d => [mk c.g d.label])
  | .members => c.i.map (fun p => p.2.map (mk c.g))
  | .whole => some (c.gs.datasets.map (fun d => mk c.g d.label))
  | .all => some (c.gs.datasets.map (fun d => mk c.g d.label))

def perIndex (c : Ctx) (k : Key) (mk : Nat → Nat → Loc) : Option (List Loc) :=
  match k with
  | .cur => c.i.map (fun p => [mk c.g p.1])
  | .members => none
  | .whole => some ((List.range c.gs.aligned.length).map (mk c.g))
  | .all => some ((List.range c.gs.aligned.length).map (mk c.g))

/-- the containers of the machine a reference of the table denotes -/
def locsOf (c : Ctx) (r : Ref) : Option (List Loc) :=
  match r.cont with
  | .parameters => some [.params]
  | .history => some [.history]
  | .groupParameters => some [.groupParams c.g]
  | .datasetModels => perDataset c r.key Loc.datasetModel
  | .matrixContainers => perDataset c r.key Loc.matrix
  | .globalMatrixContainers => perDataset c r.key Loc.globalMatrix
  | .preparedMatrixContainer => perDataset c r.key Loc.prepared
  | .fullMatrices => perDataset c r.key Loc.fullMatrix
  | .clps => perDataset c r.key Loc.clps
  | .residuals => perDataset c r.key Loc.residuals
  | .alignedFullClpLabels => perIndex c r.key Loc.alignedLabels
  | .alignedMatrices => perIndex c r.key Loc.alignedMatrix
  | .lclps => perIndex c r.key Loc.lclps
  | .lresiduals => perIndex c r.key Loc.lresiduals
  | .clpPenalty => some [.clpPenalty c.g]
  | .groupLocal =>
    match r.key with
    | .cur => some [.groupPenalty c.g]
    | .members => none
    | .whole => some ((List.range c.spec.length).map Loc.groupPenalty)
    | .all => some ((List.range c.spec.length).map Loc.groupPenalty)
  | .out => some [.out]
  | .unknown _ => none

/-- the ONE container a step writes -/
def dstOf (c : Ctx) (r : Ref) : Option Loc :=
  match r.key, r.cont with
  | .members, _ => none
  | .all, _ => none
  | .whole, .parameters => none          -- the parameter objects are never overwritten by a step
  | _, _ =>
    match locsOf c r with
    | some [l] => some l
    | _ => none

def refReads (c : Ctx) : List Ref → Option (List Loc)
  | [] => some []
  | [r] => locsOf c r
  | r :: rs =>
    match locsOf c r, refReads c rs with
    | some a, some b => some (a ++ b)
    | _, _ => none

def callKind : ExtKind → CallKind
  | .matrix => .matrix
  | .residual => .residual

/-- the steps that are not structure -/
def simpleStep (c : Ctx) : Steps.Step → List Instr
  | .write dst fn reads live =>
    match dstOf c dst, refReads c reads with
    | some d, some rs =>
      if live then
        match rs with
        | [src] => [.alias d fn src]
        | _ => poison ("a value with live references to several containers is stored: " ++ fn)
      else [.assign d fn rs]
    | _, _ => poison ("store: " ++ fn)
  | .clear dst =>
    match dstOf c dst with
    | some d => [.clear d]
    | none => poison "clear"
  | .append dst fn reads =>
    match dstOf c dst, refReads c reads with
    | some d, some rs =>
      match dst.cont with
      | .history => [.log d fn rs]
      | _ => [.append d fn rs]
    | _, _ => poison ("append: " ++ fn)
  | .inplace _ what => poison ("in-place update: " ++ what)
  | .ext k m =>
    match m, c.d with
    | .once, _ => [.mark (callKind k) 1]
    | .megacomplexes, some d => [.mark (callKind k) d.nMc]
    | .globalMegacomplexes, some d => [.mark (callKind k) d.nGmc]
    | _, none => poison "external call per megacomplex outside a loop over the datasets"
  | .untranslatable reason => poison reason
  | .call _ _ => []
  | .loop _ _ => []
  | .branch _ _ _ => []

/-- one step, in front of the micro-steps `k` that follow it; `rec` interprets a block (the interpreter itself, with
    less fuel).  Accumulator style: how the source splits the work into methods does not show in the result. -/
def runStep (rec : Ctx → Nat → List Instr → List Instr) (c : Ctx) (s : Steps.Step) (k : List Instr) : List Instr :=
  match s with
  | .call u l => if u = l then rec c u k else if c.gs.linked then rec c l k else rec c u k
  | .loop kind body =>
    match kind with
    | .groups =>
      (List.zipIdx c.spec).foldr (fun p acc => rec { c with g := p.2, gs := p.1, d := none, i := none } body acc) k
    | .datasets => c.gs.datasets.foldr (fun d acc => rec { c with d := some d } body acc) k
    | .globalAxis =>
      match c.d with
      | some d => (List.range d.nGlobal).foldr (fun _ acc => rec c body acc) k
      | none => poison "loop over a global axis outside a loop over the datasets" ++ k
    | .alignedAxis => (List.zipIdx c.gs.aligned).foldr (fun p acc => rec { c with i := some (p.2, p.1) } body acc) k
    | .unknown text => poison ("steps inside a loop the translator cannot classify: " ++ text) ++ k
  | .branch cond a b =>
    match cond, c.d with
    | .full, some d => if d.full then rec c a k else rec c b k
    | .weighted, some d => if d.weighted then rec c a k else rec c b k
    | .unknown text, _ => poison ("steps under a condition the translator cannot classify: " ++ text) ++ k
    | _, none => poison "condition on the dataset outside a loop over the datasets" ++ k
  | s => simpleStep c s ++ k

/-- interpretation of block `b` of table `t` in front of `k` (fuel = nesting depth of calls, loops and branches) -/
def runBlock (t : Nat → List Steps.Step) : Nat → Ctx → Nat → List Instr → List Instr
  | 0, _, _, k => poison "nesting too deep" ++ k
  | n + 1, c, b, k => (t b).foldr (fun s acc => runStep (runBlock t n) c s acc) k

def fuel : Nat := 16

/-- the micro-steps of block `entry` for a scheme structure -/
def interpret (t : Nat → List Steps.Step) (entry : Nat) (spec : Spec) : List Instr :=
  runBlock t fuel ⟨spec, 0, default, none, none⟩ entry []

/-! ### `objective_function` -/

inductive EvalStep where
  | setParameters       -- in-place update of `Optimizer._parameters` (`set_from_label_and_value_arrays`)
  | calculatePenalty    -- `self.calculate_penalty()`
  | other (what : String)
  deriving DecidableEq, Repr

/-- what `Machine.eval` does, in order: `ops.set` on the private parameters, then `Machine.penalty` -/
def evalSteps : List EvalStep := [.setParameters, .calculatePenalty]

def objectiveSteps (t : Nat → List Steps.Step) (obj pen : Nat) : List EvalStep :=
    (t obj).map (fun s =>
      match s with
      | .inplace ⟨.parameters, .whole⟩ _ => .setParameters
      | .call a b => if a = pen ∧ b = pen then .calculatePenalty else .other "call"
      | _ => .other "step")

end Glotaran.C10
