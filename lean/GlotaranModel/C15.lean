/-
C15 — failures during optimisation are contained and reported.

State machine `optimizeSM` of `glotaran.optimization.optimize.optimize`:
`Optimizer.__init__` + `Optimizer.optimize` + `Optimizer.create_result`
(glotaran/optimization/optimizer.py), `TeeContext.__enter__/__exit__` (glotaran/utils/tee.py),
`Parameters.set_from_history`, `ParameterHistory.append`.

What is a parameter here: the model never looks inside a parameter vector, so the vector type is a
type parameter `α` (the theorems hold for every `α`; the driver instantiates it with vector ids).

Adversary.  `scipy.optimize.least_squares` is a `Schedule`: any finite list of objective calls at
arbitrary vectors, each of which returns or raises (`fault = some msg`: some `calculate_matrix`
raised `msg` during that evaluation); after the last call returned it either returns an
`OptimizeResult` (`x`, `nfev`, `message`) or raises itself.  An exception of the objective is not
caught by the optimiser (trusted assumption about scipy).  The two evaluations that `create_result`
performs have their own fault flags.

Python exceptions do not roll back state: every step returns the new state *and* the exception.
-/
import GlotaranModel.Proto
import GlotaranModel.Generated.C15
namespace Glotaran.C15

abbrev Msg := String

/-- identity of the object bound to `sys.stdout` -/
inductive Handle where
  | user (id : Nat)   -- whatever the caller had installed
  | tee               -- the optimizer's `TeeContext`
  deriving Repr, DecidableEq

/-- what `OptimizationGroup.__init__` can stumble over, per dataset group, in code order -/
structure GroupSpec where
  /-- a parameter label used by the group's items that `scheme.parameters` does not have
      (`dataset_group.set_parameters` → `ParameterNotFoundException`) -/
  missingLabel : Option String
  residualFunction : String
  deriving Repr, DecidableEq

/-- the caller's `Scheme`, reduced to what `Optimizer.__init__` inspects -/
structure Scheme (α : Type) where
  /-- `[label for label in scheme.model.dataset if label not in scheme.data]` -/
  missingData : List String
  /-- `scheme.parameters` (`None`, or the vector of the parameters) -/
  parameters : Option α
  method : String
  groups : List GroupSpec
  deriving Repr, DecidableEq

inductive Err where
  | missingDatasets (labels : List String)          -- MissingDatasetsError
  | parameterNotInitialized                         -- ParameterNotInitializedError
  | unsupportedMethod (method : String)             -- UnsupportedMethodError
  | parameterNotFound (label : String)              -- ParameterNotFoundException
  | unsupportedResidualFunction (name : String)     -- UnsupportedResidualFunctionError
  | initialParameter                                -- InitialParameterError
  | raised (msg : Msg)   -- the very exception the model evaluation / least_squares raised
  deriving Repr, DecidableEq

/-! ### the adversary -/

structure Call (α : Type) where
  x : α
  fault : Option Msg
  deriving Repr, DecidableEq

structure LsqResult (α : Type) where
  x : α
  nfev : Nat
  message : String
  deriving Repr, DecidableEq

inductive LsqEnd (α : Type) where
  | returns (r : LsqResult α)
  | raises (msg : Msg)
  deriving Repr, DecidableEq

structure Schedule (α : Type) where
  /-- the objective calls `least_squares` makes as long as each of them returns -/
  calls : List (Call α)
  /-- what `least_squares` does once all of them have returned -/
  finish : LsqEnd α
  /-- fault of `create_result`'s `calculate_penalty()` -/
  penaltyFault : Option Msg
  /-- fault of `create_result`'s final `group.calculate` loop -/
  finalFault : Option Msg
  /-- `calculate_covariance_matrix_and_standard_errors` (numpy SVD of the returned Jacobian) raises;
      only consulted on the success path -/
  covarianceFault : Option Msg
  /-- `group.create_result_data()` / `Result(**result_args)` raises after the final evaluation -/
  dataFault : Option Msg
  deriving Repr, DecidableEq

/-! ### state -/

/-- everything outside the `Optimizer` object -/
structure World (α : Type) where
  stdout : Handle
  warnings : List String
  /-- the caller's scheme object -/
  scheme : Scheme α
  /-- instrumentation: model evaluations started -/
  evaluations : Nat
  /-- instrumentation: vectors whose evaluation returned, oldest first -/
  evaluatedOK : List α
  deriving Repr, DecidableEq

structure Optimizer (α : Type) where
  /-- `self._parameters = scheme.parameters.copy()` -/
  parameters : α
  /-- `TeeContext().stdout`, captured at construction -/
  teeSaved : Handle
  verbose : Bool
  raiseException : Bool
  optimizationResult : Option (LsqResult α)
  terminationReason : String
  /-- `ParameterHistory` rows (the iteration column is not modelled) -/
  history : List α
  deriving Repr, DecidableEq

structure Result (α : Type) where
  success : Bool
  terminationReason : String
  optimizedParameters : α
  /-- failure path: index of the history record the parameters were restored from -/
  restoredRecord : Option Nat
  numberOfFunctionEvaluations : Nat
  parameterHistory : List α
  deriving Repr, DecidableEq

inductive Outcome (α : Type) where
  | result (r : Result α)
  | exception (e : Err)
  deriving Repr, DecidableEq

variable {α : Type}

/-! ### `Optimizer.__init__` -/

def initGroup (g : GroupSpec) : Option Err :=
  match g.missingLabel with
  | some l => some (.parameterNotFound l)
  | none =>
    if Generated.supportedResidualFunctions.contains g.residualFunction then none
    else some (.unsupportedResidualFunction g.residualFunction)

/-- `[OptimizationGroup(scheme, group) for group in ...]`: the first group that raises wins -/
def initGroups : List GroupSpec → Option Err
  | [] => none
  | g :: gs =>
    match initGroup g with
    | some e => some e
    | none => initGroups gs

def init (w : World α) (verbose raiseException : Bool) : Except Err (Optimizer α) :=
  if !w.scheme.missingData.isEmpty then .error (.missingDatasets w.scheme.missingData)
  else
    match w.scheme.parameters with
    | none => .error .parameterNotInitialized
    | some p0 =>
      if !Generated.supportedMethods.contains w.scheme.method then
        .error (.unsupportedMethod w.scheme.method)
      else
        -- `self._tee = TeeContext()` happens here: it remembers the current `sys.stdout`
        match initGroups w.scheme.groups with
        | some e => .error e
        | none =>
          .ok { parameters := p0, teeSaved := w.stdout, verbose := verbose,
                raiseException := raiseException, optimizationResult := none,
                terminationReason := "", history := [p0] }

/-! ### evaluations -/

/-- one sweep `for group in self._optimization_groups: group.calculate(parameters)` -/
def evaluate (w : World α) (p : α) (fault : Option Msg) : World α × Option Msg :=
  let w := { w with evaluations := w.evaluations + 1 }
  match fault with
  | some m => (w, some m)
  | none => ({ w with evaluatedOK := w.evaluatedOK ++ [p] }, none)

/-- `Optimizer.calculate_penalty`: the history is appended after the sweep returned -/
def calculatePenalty (w : World α) (o : Optimizer α) (fault : Option Msg) :
    World α × Optimizer α × Option Msg :=
  match evaluate w o.parameters fault with
  | (w', some m) => (w', o, some m)
  | (w', none) => (w', { o with history := o.history ++ [o.parameters] }, none)

/-- `Optimizer.objective_function` -/
def objective (w : World α) (o : Optimizer α) (c : Call α) : World α × Optimizer α × Option Msg :=
  calculatePenalty w { o with parameters := c.x } c.fault

/-- `least_squares(self.objective_function, ...)` driven by the adversary -/
def leastSquares (w : World α) (o : Optimizer α) :
    List (Call α) → LsqEnd α → World α × Optimizer α × Except Msg (LsqResult α)
  | [], .returns r => (w, o, .ok r)
  | [], .raises m => (w, o, .error m)
  | c :: cs, fin =>
    match objective w o c with
    | (w', o', some m) => (w', o', .error m)
    | (w', o', none) => leastSquares w' o' cs fin

/-! ### `Optimizer.optimize` -/

def failureWarning (m : Msg) : String := "Optimization failed:\n\n" ++ m

def optimize (w : World α) (o : Optimizer α) (sch : Schedule α) :
    World α × Optimizer α × Option Err :=
  let w := { w with stdout := Handle.tee }                         -- TeeContext.__enter__
  match leastSquares w o sch.calls sch.finish with
  | (w, o, .ok res) =>
    let o := { o with optimizationResult := some res, terminationReason := res.message }
    ({ w with stdout := o.teeSaved }, o, none)                     -- __exit__
  | (w, o, .error m) =>
    if o.raiseException then
      ({ w with stdout := o.teeSaved }, o, some (.raised m))       -- `raise e`, then __exit__
    else
      let w := { w with warnings := w.warnings ++ [failureWarning m] }
      let o := { o with terminationReason := m }
      ({ w with stdout := o.teeSaved }, o, none)                   -- __exit__

/-! ### `Optimizer.create_result` -/

/-- `self._parameters.set_from_history(self._parameter_history, -2)` -/
def restore (o : Optimizer α) : Optimizer α :=
  match o.history[o.history.length - 2]? with
  | some p => { o with parameters := p }
  | none => o     -- not reachable: the history has at least two records here

/-- the part of `create_result` after the parameters have been chosen: `calculate_penalty()`, the final
    `group.calculate` / `create_result_data` loop, `Result(**result_args)` -/
def buildResult (w : World α) (o : Optimizer α) (sch : Schedule α) (restored : Option Nat) (nfe : Nat) :
    World α × Outcome α :=
  match calculatePenalty w o sch.penaltyFault with
  | (w, _, some m) => (w, .exception (.raised m))
  | (w, o2, none) =>
    match evaluate w o2.parameters sch.finalFault with
    | (w, some m) => (w, .exception (.raised m))
    | (w, none) =>
      match sch.dataFault with
      | some m => (w, .exception (.raised m))
      | none =>
        (w, .result { success := o.optimizationResult.isSome,
                      terminationReason := o2.terminationReason,
                      optimizedParameters := o2.parameters,
                      restoredRecord := restored,
                      numberOfFunctionEvaluations := nfe,
                      parameterHistory := o2.history })

def createResult (w : World α) (o : Optimizer α) (sch : Schedule α) : World α × Outcome α :=
  if o.history.length = 1 then (w, .exception .initialParameter)
  else
    match o.optimizationResult with
    | none =>
      -- `number_of_function_evaluations` is read before the re-evaluation appends its record
      buildResult w (restore o) sch (some (o.history.length - 2)) o.history.length
    | some r =>
      -- `set_from_label_and_value_arrays(labels, result.x)`, then the covariance matrix
      match sch.covarianceFault with
      | some m => (w, .exception (.raised m))
      | none => buildResult w { o with parameters := r.x } sch none r.nfev

/-- `glotaran.optimization.optimize.optimize(scheme, verbose, raise_exception)` -/
def optimizeSM (w : World α) (verbose raiseException : Bool) (sch : Schedule α) :
    World α × Outcome α :=
  match init w verbose raiseException with
  | .error e => (w, .exception e)
  | .ok o =>
    match optimize w o sch with
    | (w, _, some e) => (w, .exception e)
    | (w, o, none) => createResult w o sch

/-- a fresh world around a scheme -/
def World.fresh (s : Scheme α) (out : Handle) : World α :=
  { stdout := out, warnings := [], scheme := s, evaluations := 0, evaluatedOK := [] }

/-! ### single-fault schedules: "an exception injected at the k-th model evaluation" -/

/-- objective calls at `xs` of which number `k` (1-based) raises `msg`; `k = 0` or `k > xs.length`: none -/
def injectCalls : List α → Nat → Msg → List (Call α)
  | [], _, _ => []
  | x :: xs, k, msg => { x := x, fault := if k = 1 then some msg else none } :: injectCalls xs (k - 1) msg

/-- the fault-free run evaluates at `xs` (optimiser), then twice in `create_result`;
    `inject xs fin k msg` makes evaluation number `k` (1-based) of that run raise `msg` -/
def inject (xs : List α) (fin : LsqEnd α) (k : Nat) (msg : Msg) : Schedule α :=
  { calls := injectCalls xs k msg,
    finish := fin,
    penaltyFault := if k = xs.length + 1 then some msg else none,
    finalFault := if k = xs.length + 2 then some msg else none,
    covarianceFault := none,
    dataFault := none }

/-! ### driver -/
open Glotaran.Proto

def optStr? : Tree → Option (Option String)
  | .list [] => some none
  | .list [t] => (t.str?).map some
  | _ => none

def parseGroup : Tree → Option GroupSpec
  | .list [l, r] => do some { missingLabel := ← optStr? l, residualFunction := ← r.str? }
  | _ => none

def parseCall : Tree → Option (Call Nat)
  | .list [x, f] => do some { x := ← x.nat?, fault := ← optStr? f }
  | _ => none

def parseFinish : Tree → Option (LsqEnd Nat)
  | .list [.atom "ret", x, n, m] => do
      some (.returns { x := ← x.nat?, nfev := ← n.nat?, message := ← m.str? })
  | .list [.atom "raise", m] => do some (.raises (← m.str?))
  | _ => none

def showHandle : Handle → String
  | .user i => s!"user:{i}"
  | .tee => "tee"

def showErr : Err → String
  | .missingDatasets ls => s!"MissingDatasetsError {showStrs ls}"
  | .parameterNotInitialized => "ParameterNotInitializedError ~"
  | .unsupportedMethod m => s!"UnsupportedMethodError {encodeStr m}"
  | .parameterNotFound l => s!"ParameterNotFoundException {encodeStr l}"
  | .unsupportedResidualFunction f => s!"UnsupportedResidualFunctionError {encodeStr f}"
  | .initialParameter => "InitialParameterError ~"
  | .raised m => s!"raised {encodeStr m}"

def showOutcome : Outcome Nat → String
  | .exception e => s!"exc {showErr e}"
  | .result r =>
    s!"result {showBool r.success} {encodeStr r.terminationReason} {r.optimizedParameters} " ++
    s!"{showOpt toString r.restoredRecord} {r.numberOfFunctionEvaluations} {showNats r.parameterHistory}"

def showRun (s : Scheme Nat) (p : World Nat × Outcome Nat) : String :=
  s!"{showOutcome p.2} | evals={p.1.evaluations} stdout={showHandle p.1.stdout} " ++
  s!"warnings={showStrs p.1.warnings} ok={showNats p.1.evaluatedOK} " ++
  s!"scheme={showBool (decide (p.1.scheme = s))}"

/-- `run <stdout id> <verbose> <raise> <missing data> <[]|[params id]> <method> <groups>
        <calls> <finish> <penalty fault> <final fault> <covariance fault> <result data fault>` -/
def driverStep (u : Unit) (ts : List Tree) : Unit × String :=
  match ts with
  | [.atom "run", out, vb, rs, md, ps, meth, gs, calls, fin, pf, ff, cf, df] =>
    let parsed : Option (Scheme Nat × Handle × Bool × Bool × Schedule Nat) := do
      let ps ← match ps with
        | .list [] => some none
        | .list [t] => t.nat?.map some
        | _ => none
      let s : Scheme Nat := { missingData := ← md.strs?, parameters := ps, method := ← meth.str?,
                              groups := ← gs.listOf? parseGroup }
      let sch : Schedule Nat := { calls := ← calls.listOf? parseCall, finish := ← parseFinish fin,
                                  penaltyFault := ← optStr? pf, finalFault := ← optStr? ff,
                                  covarianceFault := ← optStr? cf, dataFault := ← optStr? df }
      some (s, .user (← out.nat?), ← vb.bool?, ← rs.bool?, sch)
    match parsed with
    | none => (u, "bad-op")
    | some (s, out, vb, rs, sch) => (u, showRun s (optimizeSM (World.fresh s out) vb rs sch))
  | [.atom "inject", xs, fin, k, m] =>
    -- the single-fault schedule of the theorems, printed so that the harness can compare it with
    -- the schedule it observed
    let parsed : Option (Schedule Nat) := do
      some (inject (← xs.nats?) (← parseFinish fin) (← k.nat?) (← m.str?))
    match parsed with
    | none => (u, "bad-op")
    | some sch =>
      let calls := sch.calls.map (fun c => showList [toString c.x, showOpt encodeStr c.fault])
      (u, s!"{showList calls} {showOpt encodeStr sch.penaltyFault} {showOpt encodeStr sch.finalFault}")
  | _ => (u, "bad-op")

end Glotaran.C15
