/-
C15 — failures during optimisation are contained and reported.

State machine `optimizeSM` of `glotaran.optimization.optimize.optimize`:
`Optimizer.__init__` + `Optimizer.optimize` + `Optimizer.objective_function` +
`Optimizer.calculate_penalty` + `Optimizer.create_result` (glotaran/optimization/optimizer.py),
`TeeContext.__enter__/__exit__` (glotaran/utils/tee.py), `Parameters.set_from_history`,
`ParameterHistory.append`.

Order of effects.  The machine does not hard-code the order of the statements of these methods: it
*interprets* the statement tables of GlotaranModel/Generated/C15.lean, which the harness regenerates
from the source text on every run (types: GlotaranModel/C15Types.lean).  What one statement does is
written here (`initStep`, `penaltyStep`, `objectiveStep`, `tryStep`, `handlerStep`, `crStep`).

Parameters.  Three kinds of value occur: the vector `V` the optimiser hands to the objective, the
record `R` that `ParameterHistory.append` stores, the parameter set `P` the `Optimizer` holds.  What
the code does with them is a parameter of the machine (`ParamOps`):
  * `ParamOps.plain α` (`V = R = P = α`, nothing is transformed) — the control-flow instance; the
    driver line `run` executes it with vector ids;
  * `paramOps ev freeLabels` (GlotaranModel/C15Params.lean) — C11's parameter model: vectors and
    records in optimiser space (non-negative parameters as logarithms), `set_from_history` mapping
    a record back with `exp`; the driver line `runp` executes it.
The theorems hold for every `ParamOps`.

Adversary.  `scipy.optimize.least_squares` is a `Schedule`: any finite list of objective calls at
arbitrary vectors, each of which returns or raises (`fault = some msg`: some `calculate_matrix`
raised `msg` during that evaluation); after the last call returned it either returns an
`OptimizeResult` (`x`, `nfev`, `message`) or raises itself.  An exception of the objective is not
caught by the optimiser (trusted assumption about scipy).  The two evaluations that `create_result`
performs, numpy's SVD in the covariance computation and the construction of the result data have
their own fault flags.

Python exceptions do not roll back state: every step returns the new state *and* the exception.
-/
import GlotaranModel.Proto
import GlotaranModel.Generated.C15
namespace Glotaran.C15

abbrev Msg := String

/-- identity of the object bound to `sys.stdout` -/
inductive Handle where
  | user (id : Nat)   -- whatever the caller had installed
  | tee               -- the optimizer's `TeeContext`
  deriving Repr, DecidableEq

/-- what `OptimizationGroup.__init__` can stumble over, per dataset group, in code order -/
structure GroupSpec where
  /-- a parameter label used by the group's items that `scheme.parameters` does not have
      (`dataset_group.set_parameters` → `ParameterNotFoundException`) -/
  missingLabel : Option String
  residualFunction : String
  deriving Repr, DecidableEq

/-- the caller's `Scheme`, reduced to what `Optimizer.__init__` inspects -/
structure Scheme (P : Type) where
  /-- `[label for label in scheme.model.dataset if label not in scheme.data]` -/
  missingData : List String
  /-- `scheme.parameters` (`None`, or the parameter set) -/
  parameters : Option P
  method : String
  groups : List GroupSpec
  deriving Repr, DecidableEq

inductive Err where
  | missingDatasets (labels : List String)          -- MissingDatasetsError
  | parameterNotInitialized                         -- ParameterNotInitializedError
  | unsupportedMethod (method : String)             -- UnsupportedMethodError
  | parameterNotFound (label : String)              -- ParameterNotFoundException
  | unsupportedResidualFunction (name : String)     -- UnsupportedResidualFunctionError
  | initialParameter                                -- InitialParameterError
  | raised (msg : Msg)   -- the very exception the model evaluation / least_squares raised
  /-- a statement ran that the tables do not explain (`unknown`), or before what it needs exists
      (AttributeError / NameError / IndexError): never produced with the tables of the current source -/
  | internal (what : String)
  deriving Repr, DecidableEq

/-- `str(e)` of an exception caught by `except Exception as e` in `Optimizer.optimize` -/
def Err.msg : Err → Msg
  | .raised m => m
  | .internal s => s
  | _ => ""

/-! ### what the code does with parameter values -/

structure ParamOps (V R P : Type) where
  /-- `Parameters.set_from_label_and_value_arrays(free_labels, x)` on the parameter set `p` -/
  setFree : P → V → P
  /-- `update_parameter_expression()`, run in place whenever the arrays of a parameter set are read -/
  refresh : P → P
  /-- `Parameters.copy()`: the constructor of the copy runs `update_parameter_expression()` on it -/
  copy : P → P
  /-- the record `ParameterHistory.append` stores for an (already refreshed) parameter set -/
  row : P → R
  /-- `Parameters.set_from_history(history, i)` on the parameter set `p`, given record `i` -/
  fromRow : P → R → P

/-- nothing is transformed: the vector is the parameter set is the record -/
def ParamOps.plain (α : Type) : ParamOps α α α :=
  { setFree := fun _ x => x, refresh := fun p => p, copy := fun p => p, row := fun p => p,
    fromRow := fun _ r => r }

/-- the optimizer's private parameter set once `__init__` has taken the first history record from it -/
def ParamOps.start {V R P : Type} (ops : ParamOps V R P) (p0 : P) : P := ops.refresh (ops.copy p0)

/-! ### the adversary -/

structure Call (V : Type) where
  x : V
  fault : Option Msg
  deriving Repr, DecidableEq

structure LsqResult (V : Type) where
  x : V
  nfev : Nat
  message : String
  deriving Repr, DecidableEq

inductive LsqEnd (V : Type) where
  | returns (r : LsqResult V)
  | raises (msg : Msg)
  deriving Repr, DecidableEq

structure Schedule (V : Type) where
  /-- the objective calls `least_squares` makes as long as each of them returns -/
  calls : List (Call V)
  /-- what `least_squares` does once all of them have returned -/
  finish : LsqEnd V
  /-- fault of `create_result`'s `calculate_penalty()` -/
  penaltyFault : Option Msg
  /-- fault of `create_result`'s final `group.calculate` loop -/
  finalFault : Option Msg
  /-- `calculate_covariance_matrix_and_standard_errors` (numpy SVD of the returned Jacobian) raises;
      only consulted on the success path -/
  covarianceFault : Option Msg
  /-- `group.create_result_data()` / `Result(**result_args)` raises after the final evaluation -/
  dataFault : Option Msg
  deriving Repr, DecidableEq

/-! ### state -/

/-- everything outside the `Optimizer` object -/
structure World (P : Type) where
  stdout : Handle
  warnings : List String
  /-- the caller's scheme object -/
  scheme : Scheme P
  /-- instrumentation: model evaluations started -/
  evaluations : Nat
  /-- instrumentation: parameter sets whose evaluation returned, oldest first -/
  evaluatedOK : List P
  deriving Repr, DecidableEq

structure Optimizer (V R P : Type) where
  /-- `self._parameters` (a private copy of `scheme.parameters`) -/
  parameters : P
  /-- `TeeContext().stdout`, captured at construction -/
  teeSaved : Handle
  verbose : Bool
  raiseException : Bool
  optimizationResult : Option (LsqResult V)
  terminationReason : String
  /-- `ParameterHistory` rows (the iteration column is not modelled) -/
  history : List R
  deriving Repr, DecidableEq

structure Result (R P : Type) where
  success : Bool
  terminationReason : String
  optimizedParameters : P
  /-- failure path: index of the history record the parameters were restored from -/
  restoredRecord : Option Nat
  numberOfFunctionEvaluations : Nat
  parameterHistory : List R
  /-- the parameter set whose evaluation was the last one to return when `additional_penalty` was read -/
  penaltyOf : Option P
  /-- the parameter set the result data (`group.calculate` + `create_result_data`) were computed from -/
  dataOf : Option P
  deriving Repr, DecidableEq

inductive Outcome (R P : Type) where
  | result (r : Result R P)
  | exception (e : Err)
  deriving Repr, DecidableEq

variable {V R P : Type}

/-- `history.append(<ref>)`: reading the arrays refreshes the referenced object in place (a refresh
    of a copy is lost); `none`: the referenced object does not exist (`scheme.parameters is None`) -/
def appendFrom (ops : ParamOps V R P) (ref : ParamRef) (w : World P) (own : P) (hist : List R) :
    Option (World P × P × List R) :=
  match ref with
  | .own => some (w, ops.refresh own, hist ++ [ops.row (ops.refresh own)])
  | .ownCopy => some (w, own, hist ++ [ops.row (ops.refresh (ops.copy own))])
  | .scheme =>
    match w.scheme.parameters with
    | some p => some ({ w with scheme := { w.scheme with parameters := some (ops.refresh p) } }, own,
                      hist ++ [ops.row (ops.refresh p)])
    | none => none
  | .schemeCopy =>
    match w.scheme.parameters with
    | some p => some (w, own, hist ++ [ops.row (ops.refresh (ops.copy p))])
    | none => none

/-! ### `Optimizer.__init__` -/

def initGroup (g : GroupSpec) : Option Err :=
  match g.missingLabel with
  | some l => some (.parameterNotFound l)
  | none =>
    if Generated.supportedResidualFunctions.contains g.residualFunction then none
    else some (.unsupportedResidualFunction g.residualFunction)

/-- `[OptimizationGroup(scheme, group) for group in ...]`: the first group that raises wins -/
def initGroups : List GroupSpec → Option Err
  | [] => none
  | g :: gs =>
    match initGroup g with
    | some e => some e
    | none => initGroups gs

/-- the attributes of the object under construction -/
structure InitState (R P : Type) where
  parameters : Option P
  tee : Option Handle
  groups : Bool
  history : Option (List R)

def initStep (ops : ParamOps V R P) (st : InitStep) (w : World P) (b : InitState R P) :
    World P × Except Err (InitState R P) :=
  match st with
  | .checkMissingData =>
    if !w.scheme.missingData.isEmpty then (w, .error (.missingDatasets w.scheme.missingData)) else (w, .ok b)
  | .checkParametersNone =>
    match w.scheme.parameters with
    | none => (w, .error .parameterNotInitialized)
    | some _ => (w, .ok b)
  | .copyParameters =>
    match w.scheme.parameters with
    | none => (w, .error (.internal "AttributeError: 'NoneType' object has no attribute 'copy'"))
    | some p => (w, .ok { b with parameters := some (ops.copy p) })
  | .checkMethod =>
    if !Generated.supportedMethods.contains w.scheme.method then (w, .error (.unsupportedMethod w.scheme.method))
    else (w, .ok b)
  | .createTee => (w, .ok { b with tee := some w.stdout })
  | .createGroups =>
    match initGroups w.scheme.groups with
    | some e => (w, .error e)
    | none => (w, .ok { b with groups := true })
  | .appendHistory ref =>
    match b.parameters with
    | none => (w, .error (.internal "AttributeError: _parameters"))
    | some own =>
      match appendFrom ops ref w own [] with
      | none => (w, .error (.internal "AttributeError: 'NoneType' object"))
      | some (w', own', h) => (w', .ok { b with parameters := some own', history := some h })
  | .unknown s => (w, .error (.internal s))

def runInit (ops : ParamOps V R P) : List InitStep → World P → InitState R P →
    World P × Except Err (InitState R P)
  | [], w, b => (w, .ok b)
  | st :: rest, w, b =>
    match initStep ops st w b with
    | (w', .error e) => (w', .error e)
    | (w', .ok b') => runInit ops rest w' b'

def init (ops : ParamOps V R P) (w : World P) (verbose raiseException : Bool) :
    World P × Except Err (Optimizer V R P) :=
  match runInit ops Generated.initSteps w ⟨none, none, false, none⟩ with
  | (w', .error e) => (w', .error e)
  | (w', .ok b) =>
    match b.parameters, b.tee, b.history, b.groups with
    | some p, some t, some h, true =>
      (w', .ok { parameters := p, teeSaved := t, verbose := verbose, raiseException := raiseException,
                 optimizationResult := none, terminationReason := "", history := h })
    | _, _, _, _ => (w', .error (.internal "AttributeError: incomplete Optimizer"))

/-! ### evaluations -/

/-- one sweep `for group in self._optimization_groups: group.calculate(parameters)` -/
def evaluate (w : World P) (p : P) (fault : Option Msg) : World P × Option Msg :=
  let w := { w with evaluations := w.evaluations + 1 }
  match fault with
  | some m => (w, some m)
  | none => ({ w with evaluatedOK := w.evaluatedOK ++ [p] }, none)

def penaltyStep (ops : ParamOps V R P) (st : PenaltyStep) (w : World P) (o : Optimizer V R P)
    (fault : Option Msg) : World P × Optimizer V R P × Option Err :=
  match st with
  | .evaluate =>
    match evaluate w o.parameters fault with
    | (w', some m) => (w', o, some (.raised m))
    | (w', none) => (w', o, none)
  | .appendHistory ref =>
    match appendFrom ops ref w o.parameters o.history with
    | none => (w, o, some (.internal "AttributeError: 'NoneType' object"))
    | some (w', p, h) => (w', { o with parameters := p, history := h }, none)
  | .unknown s => (w, o, some (.internal s))

def runPenalty (ops : ParamOps V R P) : List PenaltyStep → World P → Optimizer V R P → Option Msg →
    World P × Optimizer V R P × Option Err
  | [], w, o, _ => (w, o, none)
  | st :: rest, w, o, fault =>
    match penaltyStep ops st w o fault with
    | (w', o', some e) => (w', o', some e)
    | (w', o', none) => runPenalty ops rest w' o' fault

/-- `Optimizer.calculate_penalty`: with the current source, the history is appended after the sweep
    returned -/
def calculatePenalty (ops : ParamOps V R P) (w : World P) (o : Optimizer V R P) (fault : Option Msg) :
    World P × Optimizer V R P × Option Err :=
  runPenalty ops Generated.penaltySteps w o fault

def objectiveStep (ops : ParamOps V R P) (st : ObjectiveStep) (w : World P) (o : Optimizer V R P)
    (c : Call V) : World P × Optimizer V R P × Option Err :=
  match st with
  | .setFree => (w, { o with parameters := ops.setFree o.parameters c.x }, none)
  | .calculatePenalty => calculatePenalty ops w o c.fault
  | .unknown s => (w, o, some (.internal s))

def runObjective (ops : ParamOps V R P) : List ObjectiveStep → World P → Optimizer V R P → Call V →
    World P × Optimizer V R P × Option Err
  | [], w, o, _ => (w, o, none)
  | st :: rest, w, o, c =>
    match objectiveStep ops st w o c with
    | (w', o', some e) => (w', o', some e)
    | (w', o', none) => runObjective ops rest w' o' c

/-- `Optimizer.objective_function` -/
def objective (ops : ParamOps V R P) (w : World P) (o : Optimizer V R P) (c : Call V) :
    World P × Optimizer V R P × Option Err :=
  runObjective ops Generated.objectiveSteps w o c

/-- `least_squares(self.objective_function, ...)` driven by the adversary -/
def leastSquares (ops : ParamOps V R P) (w : World P) (o : Optimizer V R P) :
    List (Call V) → LsqEnd V → World P × Optimizer V R P × Except Err (LsqResult V)
  | [], .returns r => (w, o, .ok r)
  | [], .raises m => (w, o, .error (.raised m))
  | c :: cs, fin =>
    match objective ops w o c with
    | (w', o', some e) => (w', o', .error e)
    | (w', o', none) => leastSquares ops w' o' cs fin

/-! ### `Optimizer.optimize` -/

def failureWarning (m : Msg) : String := "Optimization failed:\n\n" ++ m

def tryStep (ops : ParamOps V R P) (st : TryStep) (w : World P) (o : Optimizer V R P) (sch : Schedule V) :
    World P × Optimizer V R P × Option Err :=
  match st with
  | .leastSquares =>
    match leastSquares ops w o sch.calls sch.finish with
    | (w', o', .ok res) => (w', { o' with optimizationResult := some res }, none)
    | (w', o', .error e) => (w', o', some e)
  | .setReasonFromResult =>
    match o.optimizationResult with
    | some res => (w, { o with terminationReason := res.message }, none)
    | none => (w, o, some (.internal "AttributeError: 'NoneType' object has no attribute 'message'"))
  | .unknown s => (w, o, some (.internal s))

def runTry (ops : ParamOps V R P) : List TryStep → World P → Optimizer V R P → Schedule V →
    World P × Optimizer V R P × Option Err
  | [], w, o, _ => (w, o, none)
  | st :: rest, w, o, sch =>
    match tryStep ops st w o sch with
    | (w', o', some e) => (w', o', some e)
    | (w', o', none) => runTry ops rest w' o' sch

/-- one statement of `except Exception as e:`; `some _` = the handler is left by an exception -/
def handlerStep (st : HandlerStep) (w : World P) (o : Optimizer V R P) (e : Err) :
    World P × Optimizer V R P × Option Err :=
  match st with
  | .reraiseIfRaise => if o.raiseException then (w, o, some e) else (w, o, none)
  | .warn => ({ w with warnings := w.warnings ++ [failureWarning e.msg] }, o, none)
  | .setReasonFromException => (w, { o with terminationReason := e.msg }, none)
  | .unknown s => (w, o, some (.internal s))

def runHandler : List HandlerStep → World P → Optimizer V R P → Err →
    World P × Optimizer V R P × Option Err
  | [], w, o, _ => (w, o, none)      -- the exception is swallowed
  | st :: rest, w, o, e =>
    match handlerStep st w o e with
    | (w', o', some e') => (w', o', some e')
    | (w', o', none) => runHandler rest w' o' e

/-- reading the start vector: `<ref>.get_label_value_and_bounds_arrays(exclude_non_vary=True)` -/
def readStart (ops : ParamOps V R P) (ref : ParamRef) (w : World P) (o : Optimizer V R P) :
    World P × Optimizer V R P :=
  match ref with
  | .own => (w, { o with parameters := ops.refresh o.parameters })
  | .scheme => ({ w with scheme := { w.scheme with parameters := w.scheme.parameters.map ops.refresh } }, o)
  | .ownCopy => (w, o)
  | .schemeCopy => (w, o)

def optimize (ops : ParamOps V R P) (w : World P) (o : Optimizer V R P) (sch : Schedule V) :
    World P × Optimizer V R P × Option Err :=
  let T := Generated.optimizeTable
  let (w, o) := readStart ops T.startVector w o
  let w := if T.teeWrapsTry then { w with stdout := Handle.tee } else w       -- TeeContext.__enter__
  let (w, o, e) :=
    match runTry ops T.tryBody w o sch with
    | (w, o, none) => (w, o, none)
    | (w, o, some e) => runHandler T.handler w o e
  (if T.teeWrapsTry then { w with stdout := o.teeSaved } else w, o, e)       -- __exit__, on every path

/-! ### `Optimizer.create_result` -/

/-- local variables and `result_args` entries of `create_result` that the model follows -/
structure Frame (P : Type) where
  success : Option Bool
  reason : Option String
  nfev : Option Nat
  historyBound : Bool
  parametersBound : Bool
  restored : Option Nat
  /-- outer `none`: `additional_penalty` not read yet -/
  penaltyOf : Option (Option P)
  dataOf : Option P
  dataBuilt : Bool

def Frame.empty : Frame P := ⟨none, none, none, false, false, none, none, none, false⟩

inductive StepRes (V R P : Type) where
  | next (w : World P) (o : Optimizer V R P) (f : Frame P)
  | stop (w : World P) (out : Outcome R P)

def guardHolds : Guard → Option Bool → Option Bool
  | .always, _ => some true
  | .ifSuccess, s => s
  | .ifNotSuccess, s => s.map (!·)

def crStep (ops : ParamOps V R P) (sch : Schedule V) (st : CrStep) (w : World P) (o : Optimizer V R P)
    (f : Frame P) : StepRes V R P :=
  match st with
  | .readSuccess => .next w o { f with success := some o.optimizationResult.isSome }
  | .checkInitial =>
    if o.history.length = 1 then .stop w (.exception .initialParameter) else .next w o f
  | .restore back =>
    -- Python index `-back`
    if back = 0 ∨ o.history.length < back then .stop w (.exception (.internal "IndexError")) else
    match o.history[o.history.length - back]? with
    | some rec => .next w { o with parameters := ops.fromRow o.parameters rec }
                    { f with restored := some (o.history.length - back) }
    | none => .stop w (.exception (.internal "IndexError"))
  | .bindHistory => .next w o { f with historyBound := true }
  | .readReason => .next w o { f with reason := some o.terminationReason }
  | .readNfev =>
    match f.success, o.optimizationResult with
    | some true, some r => .next w o { f with nfev := some r.nfev }
    | some false, _ => .next w o { f with nfev := some o.history.length }
    | _, _ => .stop w (.exception (.internal "NameError/AttributeError: nfev"))
  | .setFromResult =>
    match o.optimizationResult with
    | some r => .next w { o with parameters := ops.setFree o.parameters r.x } f
    | none => .stop w (.exception (.internal "AttributeError: 'NoneType' object has no attribute 'x'"))
  | .covariance =>
    match sch.covarianceFault with
    | some m => .stop w (.exception (.raised m))
    | none => .next w o f
  | .calculatePenalty =>
    match calculatePenalty ops w o sch.penaltyFault with
    | (w', _, some e) => .stop w' (.exception e)
    | (w', o', none) => .next w' o' f
  | .readAdditionalPenalty => .next w o { f with penaltyOf := some w.evaluatedOK.getLast? }
  | .bindParameters => .next w o { f with parametersBound := true }
  | .finalCalculate =>
    match evaluate w o.parameters sch.finalFault with
    | (w', some m) => .stop w' (.exception (.raised m))
    | (w', none) => .next w' o { f with dataOf := some o.parameters }
  | .createResultData =>
    match sch.dataFault with
    | some m => .stop w (.exception (.raised m))
    | none => .next w o { f with dataBuilt := true }
  | .construct =>
    match f.success, f.reason, f.nfev, f.penaltyOf with
    | some s, some reason, some n, some pen =>
      if f.historyBound && f.parametersBound && f.dataBuilt then
        .stop w (.result { success := s, terminationReason := reason, optimizedParameters := o.parameters,
                           restoredRecord := f.restored, numberOfFunctionEvaluations := n,
                           parameterHistory := o.history, penaltyOf := pen, dataOf := f.dataOf })
      else .stop w (.exception (.internal "TypeError: Result() missing arguments"))
    | _, _, _, _ => .stop w (.exception (.internal "TypeError: Result() missing arguments"))
  | .unknown s => .stop w (.exception (.internal s))

def runCr (ops : ParamOps V R P) (sch : Schedule V) : List GStep → World P → Optimizer V R P → Frame P →
    World P × Outcome R P
  | [], w, _, _ => (w, .exception (.internal "create_result returned None"))
  | g :: rest, w, o, f =>
    match guardHolds g.guard f.success with
    | none => (w, .exception (.internal "NameError: success"))
    | some false => runCr ops sch rest w o f
    | some true =>
      match crStep ops sch g.step w o f with
      | .next w' o' f' => runCr ops sch rest w' o' f'
      | .stop w' out => (w', out)

def createResult (ops : ParamOps V R P) (w : World P) (o : Optimizer V R P) (sch : Schedule V) :
    World P × Outcome R P :=
  runCr ops sch Generated.createResultSteps w o Frame.empty

/-- `glotaran.optimization.optimize.optimize(scheme, verbose, raise_exception)` -/
def optimizeSM (ops : ParamOps V R P) (w : World P) (verbose raiseException : Bool) (sch : Schedule V) :
    World P × Outcome R P :=
  match init ops w verbose raiseException with
  | (w, .error e) => (w, .exception e)
  | (w, .ok o) =>
    match optimize ops w o sch with
    | (w, _, some e) => (w, .exception e)
    | (w, o, none) => createResult ops w o sch

/-- a fresh world around a scheme -/
def World.fresh (s : Scheme P) (out : Handle) : World P :=
  { stdout := out, warnings := [], scheme := s, evaluations := 0, evaluatedOK := [] }

/-! ### single-fault schedules: "an exception injected at the k-th model evaluation" -/

/-- objective calls at `xs` of which number `k` (1-based) raises `msg`; `k = 0` or `k > xs.length`: none -/
def injectCalls : List V → Nat → Msg → List (Call V)
  | [], _, _ => []
  | x :: xs, k, msg => { x := x, fault := if k = 1 then some msg else none } :: injectCalls xs (k - 1) msg

/-- the fault-free run evaluates at `xs` (optimiser), then twice in `create_result`;
    `inject xs fin k msg` makes evaluation number `k` (1-based) of that run raise `msg` -/
def inject (xs : List V) (fin : LsqEnd V) (k : Nat) (msg : Msg) : Schedule V :=
  { calls := injectCalls xs k msg,
    finish := fin,
    penaltyFault := if k = xs.length + 1 then some msg else none,
    finalFault := if k = xs.length + 2 then some msg else none,
    covarianceFault := none,
    dataFault := none }

/-! ### driver (control-flow instance: `ParamOps.plain Nat`, vectors are ids) -/
open Glotaran.Proto

def optStr? : Tree → Option (Option String)
  | .list [] => some none
  | .list [t] => (t.str?).map some
  | _ => none

def parseGroup : Tree → Option GroupSpec
  | .list [l, r] => do some { missingLabel := ← optStr? l, residualFunction := ← r.str? }
  | _ => none

def parseCallWith {V : Type} (px : Tree → Option V) : Tree → Option (Call V)
  | .list [x, f] => do some { x := ← px x, fault := ← optStr? f }
  | _ => none

def parseFinishWith {V : Type} (px : Tree → Option V) : Tree → Option (LsqEnd V)
  | .list [.atom "ret", x, n, m] => do
      some (.returns { x := ← px x, nfev := ← n.nat?, message := ← m.str? })
  | .list [.atom "raise", m] => do some (.raises (← m.str?))
  | _ => none

def parseCall : Tree → Option (Call Nat) := parseCallWith Tree.nat?
def parseFinish : Tree → Option (LsqEnd Nat) := parseFinishWith Tree.nat?

/-- the six trees `<calls> <finish> <penalty fault> <final fault> <covariance fault> <result data fault>` -/
def parseScheduleWith {V : Type} (px : Tree → Option V) (calls fin pf ff cf df : Tree) : Option (Schedule V) := do
  some { calls := ← calls.listOf? (parseCallWith px), finish := ← parseFinishWith px fin,
         penaltyFault := ← optStr? pf, finalFault := ← optStr? ff,
         covarianceFault := ← optStr? cf, dataFault := ← optStr? df }

def showHandle : Handle → String
  | .user i => s!"user:{i}"
  | .tee => "tee"

def showErr : Err → String
  | .missingDatasets ls => s!"MissingDatasetsError {showStrs ls}"
  | .parameterNotInitialized => "ParameterNotInitializedError ~"
  | .unsupportedMethod m => s!"UnsupportedMethodError {encodeStr m}"
  | .parameterNotFound l => s!"ParameterNotFoundException {encodeStr l}"
  | .unsupportedResidualFunction f => s!"UnsupportedResidualFunctionError {encodeStr f}"
  | .initialParameter => "InitialParameterError ~"
  | .raised m => s!"raised {encodeStr m}"
  | .internal s => s!"internal {encodeStr s}"

def showOutcome : Outcome Nat Nat → String
  | .exception e => s!"exc {showErr e}"
  | .result r =>
    s!"result {showBool r.success} {encodeStr r.terminationReason} {r.optimizedParameters} " ++
    s!"{showOpt toString r.restoredRecord} {r.numberOfFunctionEvaluations} {showNats r.parameterHistory} " ++
    s!"{showOpt toString r.penaltyOf} {showOpt toString r.dataOf}"

def showWorldTail {P : Type} [DecidableEq P] (s : Scheme P) (w : World P) : String :=
  s!"evals={w.evaluations} stdout={showHandle w.stdout} warnings={showStrs w.warnings} " ++
  s!"scheme={showBool (decide (w.scheme = s))}"

def showRun (s : Scheme Nat) (p : World Nat × Outcome Nat Nat) : String :=
  s!"{showOutcome p.2} | {showWorldTail s p.1} ok={showNats p.1.evaluatedOK}"

/-- `run <stdout id> <verbose> <raise> <missing data> <[]|[params id]> <method> <groups>
        <calls> <finish> <penalty fault> <final fault> <covariance fault> <result data fault>` -/
def driverStepPlain (ts : List Tree) : Option String :=
  match ts with
  | [.atom "run", out, vb, rs, md, ps, meth, gs, calls, fin, pf, ff, cf, df] =>
    let parsed : Option (Scheme Nat × Handle × Bool × Bool × Schedule Nat) := do
      let ps ← match ps with
        | .list [] => some none
        | .list [t] => t.nat?.map some
        | _ => none
      let s : Scheme Nat := { missingData := ← md.strs?, parameters := ps, method := ← meth.str?,
                              groups := ← gs.listOf? parseGroup }
      let sch ← parseScheduleWith Tree.nat? calls fin pf ff cf df
      some (s, .user (← out.nat?), ← vb.bool?, ← rs.bool?, sch)
    match parsed with
    | none => none
    | some (s, out, vb, rs, sch) =>
      some (showRun s (optimizeSM (ParamOps.plain Nat) (World.fresh s out) vb rs sch))
  | [.atom "inject", xs, fin, k, m] =>
    -- the single-fault schedule of the theorems, printed so that the harness can compare it with
    -- the schedule it observed
    let parsed : Option (Schedule Nat) := do
      some (inject (← xs.nats?) (← parseFinish fin) (← k.nat?) (← m.str?))
    match parsed with
    | none => none
    | some sch =>
      let calls := sch.calls.map (fun c => showList [toString c.x, showOpt encodeStr c.fault])
      some s!"{showList calls} {showOpt encodeStr sch.penaltyFault} {showOpt encodeStr sch.finalFault}"
  | _ => none

end Glotaran.C15
