/-
C02 — the objective handed to the optimiser (glotaran/optimization/{matrix,estimation,data}_provider.py,
optimization_group.py, optimizer.py), as an executable model over exact rationals.

Inputs are what the providers see: per dataset the (unweighted) data, the weight the data
provider ends up with, the dataset scale and the *outputs of each megacomplex* (labels, 2-D or
per-index 3-D matrix, megacomplex scale); model-level constraints / relations / penalties with
evaluated parameters.  The linear solver is `lsExact` / `nnlsExact` (certifying, GlotaranModel.LinAlg).
Everything mirrors the code's order of operations:
  unlinked:  combine megacomplexes → · dataset scale → relations → constraints → · weight
  linked:    combine → per aligned index stack (block · scale) on the union labels → relations →
             constraints → · stacked weight
-/
import GlotaranModel.Proto
import GlotaranModel.LinAlg
import GlotaranModel.C02Layout
namespace Glotaran.C02
open Glotaran.LinAlg

/-! ### extended rationals and intervals -/
inductive EB where
  | ninf | fin (r : Rat) | pinf
  deriving Repr, DecidableEq, Inhabited

def EB.le : EB → EB → Bool
  | .ninf, _ => true
  | _, .pinf => true
  | .fin a, .fin b => a ≤ b
  | .pinf, _ => false
  | _, .ninf => false

structure Interval where
  lo : EB
  hi : EB
  deriving Repr, DecidableEq

/-- `IntervalItem.applies` for one interval: bounds swapped when reversed, closed -/
def Interval.contains (iv : Interval) (x : Rat) : Bool :=
  let (lo, hi) := if iv.lo.le iv.hi then (iv.lo, iv.hi) else (iv.hi, iv.lo)
  lo.le (.fin x) && EB.le (.fin x) hi

/-- `IntervalItem.applies(index)`: no interval ⇒ everywhere; a list ⇒ any -/
def applies (ivs : Option (List Interval)) (x : Rat) : Bool :=
  match ivs with
  | none => true
  | some l => l.any (·.contains x)

structure Constraint where
  only : Bool               -- `only` = complement of `zero`
  target : String
  interval : Option (List Interval)
  deriving Repr

def Constraint.appliesAt (c : Constraint) (x : Rat) : Bool :=
  if c.only then !(applies c.interval x) else applies c.interval x

structure Relation where
  source : String
  target : String
  param : Rat
  interval : Option (List Interval)
  deriving Repr

structure Penalty where
  source : String
  sourceIntervals : List Interval
  target : String
  targetIntervals : List Interval
  param : Rat
  weight : Rat
  deriving Repr

/-! ### labelled matrices -/
inductive Body where
  | d2 (m : Mat)              -- index independent: model axis × labels
  | d3 (ms : List Mat)        -- one matrix per global index
  deriving Repr, Inhabited

structure LMat where
  labels : List String
  body : Body
  deriving Repr, Inhabited

/-- an index-independent labelled matrix -/
structure LMat2 where
  labels : List String
  m : Mat
  deriving Repr, Inhabited

def colOf (labels : List String) (m : Mat) (l : String) : Option Vec :=
  match labels.idxOf? l with
  | some j => some (col m j)
  | none => none

def addOpt (n : Nat) (a b : Option Vec) : Vec :=
  match a, b with
  | some x, some y => vadd x y
  | some x, none => x
  | none, some y => y
  | none, none => zeros n

/-- columns (one per label of `labels`) → row-major matrix with `n` rows -/
def fromCols (n : Nat) (cols : List Vec) : Mat :=
  (List.range n).map (fun i => cols.map (fun c => c.getD i 0))

def combine2 (labels : List String) (ll lr : List String) (a b : Mat) : Mat :=
  fromCols a.length (labels.map (fun l => addOpt a.length (colOf ll a l) (colOf lr b l)))

/-- `MatrixProvider.combine_megacomplex_matrices` -/
def combine (left right : LMat) : LMat :=
  -- swap when the left one is 2-D and the right one 3-D
  let (left, right) := match left.body, right.body with
    | .d2 _, .d3 _ => (right, left)
    | _, _ => (left, right)
  let labels := left.labels ++ right.labels.filter (fun c => !left.labels.contains c)
  match left.body, right.body with
  | .d2 a, .d2 b => ⟨labels, .d2 (combine2 labels left.labels right.labels a b)⟩
  | .d3 as, .d2 b => ⟨labels, .d3 (as.map (fun a => combine2 labels left.labels right.labels a b))⟩
  | .d3 as, .d3 bs =>
    ⟨labels, .d3 (List.zipWith (fun a b => combine2 labels left.labels right.labels a b) as bs)⟩
  | .d2 a, .d3 _ => ⟨labels, .d2 a⟩   -- unreachable after the swap

def Body.scale (k : Rat) : Body → Body
  | .d2 m => .d2 (mscale k m)
  | .d3 ms => .d3 (ms.map (mscale k))

structure McOut where
  out : LMat
  scale : Option Rat
  deriving Repr

def McOut.scaled (o : McOut) : LMat :=
  match o.scale with
  | some k => ⟨o.out.labels, o.out.body.scale k⟩
  | none => o.out

/-- `MatrixProvider.calculate_dataset_matrix` -/
def datasetMatrix (mcs : List McOut) : Option LMat :=
  match mcs with
  | [] => none
  | m :: rest => some (rest.foldl (fun acc o => combine acc o.scaled) m.scaled)

/-! ### reduction by relations and constraints -/
def identityRows (n : Nat) : Mat :=
  (List.range n).map (fun i => (List.range n).map (fun j => if i = j then 1 else 0))

def setEntry (m : Mat) (i j : Nat) (v : Rat) : Mat :=
  m.mapIdx (fun ri r => if ri = i then r.mapIdx (fun cj x => if cj = j then v else x) else r)

def deleteCols (m : Mat) (del : List Nat) : Mat :=
  m.map (fun r => (r.zipIdx.filter (fun p => !del.contains p.2)).map (·.1))

/-- `apply_relations` at one global-axis value `x` -/
def applyRelationsAt (rels : List Relation) (x : Rat) (lm : LMat2) : LMat2 :=
  let n := lm.labels.length
  let (rm, del) := rels.foldl (fun (acc : Mat × List Nat) r =>
    if lm.labels.contains r.target && applies r.interval x then
      match lm.labels.idxOf? r.source, lm.labels.idxOf? r.target with
      | some si, some ti => (setEntry acc.1 ti si r.param, acc.2 ++ [ti])
      | _, _ => acc
    else acc) (identityRows n, [])
  if del.isEmpty then lm
  else
    let labels := (lm.labels.zipIdx.filter (fun p => !del.contains p.2)).map (·.1)
    let rm' := deleteCols rm del
    ⟨labels, matMul lm.m rm' labels.length⟩

def pickMask {α} (keep : List Bool) (xs : List α) : List α :=
  ((xs.zip keep).filter (·.2)).map (·.1)

/-- `apply_constraints` at one global-axis value `x` -/
def applyConstraintsAt (cons : List Constraint) (x : Rat) (lm : LMat2) : LMat2 :=
  let removed := (cons.filter (fun c => lm.labels.contains c.target && c.appliesAt x)).map (·.target)
  if removed.isEmpty then lm
  else
    let keep := lm.labels.map (fun l => !removed.contains l)
    ⟨pickMask keep lm.labels, lm.m.map (fun r => pickMask keep r)⟩

structure ModelItems where
  constraints : List Constraint := []
  relations : List Relation := []
  penalties : List Penalty := []
  deriving Repr, Inhabited

def reduceAt (mi : ModelItems) (x : Rat) (lm : LMat2) : LMat2 :=
  applyConstraintsAt mi.constraints x (applyRelationsAt mi.relations x lm)

/-- the per-index slices of a dataset matrix (`reduce_matrix`'s first line) -/
def slices (lm : LMat) (nGlobal : Nat) : List LMat2 :=
  match lm.body with
  | .d2 m => List.replicate nGlobal ⟨lm.labels, m⟩
  | .d3 ms => ms.map (fun m => ⟨lm.labels, m⟩)

/-- `retrieve_clps` -/
def retrieveClps (mi : ModelItems) (full reduced : List String) (c : Vec) (x : Rat) : Vec :=
  if mi.relations.isEmpty && mi.constraints.isEmpty then c
  else
    let base := full.map (fun l => match reduced.idxOf? l with | some i => c.getD i 0 | none => 0)
    mi.relations.foldl (fun clps r =>
      if full.contains r.target && applies r.interval x && full.contains r.source then
        match full.idxOf? r.source, full.idxOf? r.target with
        | some si, some ti => clps.mapIdx (fun i v => if i = ti then r.param * clps.getD si 0 else v)
        | _, _ => clps
      else clps) base

/-! ### axis slices and the equal-area penalty -/
def absR (r : Rat) : Rat := if r < 0 then -r else r

/-- index of the first minimum of |axis − b| (numpy argmin) -/
def argminAbs (axis : List Rat) (b : Rat) : Nat :=
  let ds := axis.map (fun a => absR (a - b))
  match ds with
  | [] => 0
  | d :: rest =>
    (rest.foldl (fun (acc : Nat × Rat × Nat) v =>
      if v < acc.2.1 then (acc.2.2 + 1, v, acc.2.2 + 1) else (acc.1, acc.2.1, acc.2.2 + 1)) (0, d, 0)).1

/-- nearest axis index of an extended bound (`nearest_index` inside `get_axis_slice_from_interval`):
    −∞ ↦ first point, +∞ ↦ last point, finite ↦ first argmin of |axis − b| -/
def nearestIdx (axis : List Rat) : EB → Nat
  | .fin r => argminAbs axis r
  | .ninf => 0
  | .pinf => axis.length - 1

/-- `DataProvider.get_axis_slice_from_interval` → (start, stop) -/
def axisSlice (lo hi : EB) (axis : List Rat) : Nat × Nat :=
  let (lo, hi) := if lo.le hi then (lo, hi) else (hi, lo)
  (nearestIdx axis lo, nearestIdx axis hi + 1)

def ebMax (a : EB) (b : Rat) : EB := if a.le (.fin b) then .fin b else a
def ebMin (a : EB) (b : Rat) : EB := if a.le (.fin b) then a else .fin b
def listMin (l : List Rat) : Rat := l.foldl (fun a b => if b < a then b else a) (l.headD 0)
def listMax (l : List Rat) : Rat := l.foldl (fun a b => if a < b then b else a) (l.headD 0)

/-- the index range one interval contributes in `_get_area`: bounds ordered, skipped when the lower
    bound lies above the last axis point, clamped to [min axis, max axis], then sliced -/
def areaSlice (iv : Interval) (axis : List Rat) : Option (Nat × Nat) :=
  let (lower, upper) := if iv.lo.le iv.hi then (iv.lo, iv.hi) else (iv.hi, iv.lo)
  if !(lower.le (.fin (axis.getLastD 0))) then none      -- lower > axis[-1]
  else some (axisSlice (ebMax lower (listMin axis)) (ebMin upper (listMax axis)) axis)

/-- `_get_area` -/
def getArea (label : String) (labels : List (List String)) (clps : List Vec)
    (ivs : List Interval) (axis : List Rat) : Vec :=
  ivs.flatMap (fun iv =>
    match areaSlice iv axis with
    | none => []
    | some (s, e) =>
      (List.range (e - s)).filterMap (fun k =>
        let i := s + k
        let ls := labels.getD i []
        match ls.idxOf? label with
        | some j => some ((clps.getD i []).getD j 0)
        | none => none))

def vsum (v : Vec) : Rat := v.foldl (· + ·) 0

/-- `calculate_clp_penalties` -/
def clpPenalties (mi : ModelItems) (labels : List (List String)) (clps : List Vec)
    (axis : List Rat) : Vec :=
  mi.penalties.filterMap (fun p =>
    let sa := getArea p.source labels clps p.sourceIntervals axis
    let ta := getArea p.target labels clps p.targetIntervals axis
    if ta.isEmpty || sa.isEmpty then none
    else some (absR (vsum sa - p.param * vsum ta) * p.weight))

/-! ### datasets and groups -/
structure Dataset where
  label : String
  globalAxis : List Rat
  data : Mat                        -- model × global, unweighted
  weight : Option Mat               -- model × global
  scale : Option Rat
  mcs : List McOut
  gmcs : List McOut                 -- global megacomplexes (non-empty ⇒ full model)
  deriving Repr, Inhabited

def Dataset.nModel (d : Dataset) : Nat := d.data.length
def Dataset.nGlobal (d : Dataset) : Nat := d.globalAxis.length

def hadamard (a b : Mat) : Mat := List.zipWith (fun r s => List.zipWith (· * ·) r s) a b

/-- `DataProvider.__init__`: data ·= weight -/
def Dataset.weightedData (d : Dataset) : Mat :=
  match d.weight with
  | some w => hadamard d.data w
  | none => d.data

inductive Solver where | vp | nnls
  deriving Repr, DecidableEq, Inhabited

def solveLS (s : Solver) (a : Mat) (y : Vec) : Option (Vec × Vec) :=
  match (match s with | .vp => lsExact a y | .nnls => nnlsExact a y) with
  | some c => some (c, residual a y c)
  | none => none

/-- what goes into the linear solver at one index, and what comes out -/
structure IndexProblem where
  fullLabels : List String
  reduced : LMat2
  data : Vec
  x : Rat
  deriving Repr

/-- unlinked, no global model: the per-index problems (`calculate_prepared_matrices` + data) -/
def unlinkedProblems (mi : ModelItems) (d : Dataset) : Option (List IndexProblem) :=
  match datasetMatrix d.mcs with
  | none => none
  | some lm =>
    let k := d.scale.getD 1
    let scaled : LMat := ⟨lm.labels, lm.body.scale k⟩
    let sl := slices scaled d.nGlobal
    let wd := d.weightedData
    some ((List.range d.nGlobal).map (fun i =>
      let x := d.globalAxis.getD i 0
      let red := reduceAt mi x (sl.getD i default)
      let red := match d.weight with
        | some w => { red with m := weightRows red.m (col w i) }
        | none => red
      { fullLabels := lm.labels, reduced := red, data := col wd i, x := x }))

def kronRow (g : Vec) (m : Mat) : Mat :=
  m.map (fun r => g.flatMap (fun gv => r.map (gv * ·)))

/-- `calculate_full_matrices` + flattened data for a dataset with a global model -/
def fullModelProblem (d : Dataset) : Option (Mat × Vec) :=
  match datasetMatrix d.mcs, datasetMatrix d.gmcs with
  | some lm, some gm =>
    let gmat : Mat := match gm.body with | .d2 g => g | .d3 _ => []
    let full : Mat := match lm.body with
      | .d2 m => gmat.flatMap (fun grow => kronRow grow m)
      | .d3 ms => (List.zipWith (fun grow m => kronRow grow m) gmat ms).flatten
    let wd := d.weightedData
    -- data.T.flatten(): global-major
    let flat := (List.range d.nGlobal).flatMap (fun g => col wd g)
    let full := match d.weight with
      | some w => weightRows full ((List.range d.nGlobal).flatMap (fun g => col w g))
      | none => full
    some (full, flat)
  | _, _ => none

/-- penalty contribution of one unlinked dataset: residuals (index-major) and clp penalties -/
def unlinkedDataset (mi : ModelItems) (s : Solver) (d : Dataset) : Option (Vec × Vec) :=
  if !d.gmcs.isEmpty then
    match fullModelProblem d with
    | some (a, y) => (solveLS s a y).map (fun cr => (cr.2, []))
    | none => none
  else
    match unlinkedProblems mi d with
    | none => none
    | some ps =>
      match ps.mapM (fun p => (solveLS s p.reduced.m p.data).map (fun cr => (p, cr))) with
      | none => none
      | some sols =>
        let res := sols.flatMap (fun pc => pc.2.2)
        let clps := sols.map (fun pc => retrieveClps mi pc.1.fullLabels pc.1.reduced.labels pc.2.1 pc.1.x)
        let labels := sols.map (fun pc => pc.1.fullLabels)
        some (res, clpPenalties mi labels clps d.globalAxis)

/-! ### linked groups: alignment -/
inductive Method where | nearest | backward | forward
  deriving Repr, DecidableEq, Inhabited

/-- `align_index`: the nearest target on the permitted side if within tolerance, else `x` -/
def alignIndex (x : Rat) (target : List Rat) (tol : Rat) (m : Method) : Rat :=
  let cands := target.filter (fun t => match m with
    | .nearest => true | .forward => x ≤ t | .backward => t ≤ x)
  match cands with
  | [] => x
  | c :: rest =>
    let best := rest.foldl (fun b t => if absR (t - x) < absR (b - x) then t else b) c
    if absR (best - x) ≤ tol then best else x

def insertSorted (x : Rat) : List Rat → List Rat
  | [] => [x]
  | y :: ys => if x < y then x :: y :: ys else if x = y then y :: ys else y :: insertSorted x ys

def sortedUnion (a b : List Rat) : List Rat := b.foldl (fun acc x => insertSorted x acc) a

def hasDup : List Rat → Bool
  | [] => false
  | x :: xs => xs.contains x || hasDup xs

/-- `create_aligned_global_axes`; `none` = AlignDatasetError.  The accumulated target is
    `np.unique(np.concatenate([aligned_axis_values, aligned_global_axis]))`: after the second dataset
    it is sorted and duplicate-free even when the first dataset's own axis is not (the first
    dataset's axis itself is the target of the second one verbatim). -/
def alignAxes (axes : List (List Rat)) (tol : Rat) (m : Method) : Option (List (List Rat)) :=
  match axes with
  | [] => some []
  | first :: rest =>
    (rest.foldl (fun (acc : Option (List Rat × List (List Rat))) ax =>
      match acc with
      | none => none
      | some (vals, done) =>
        let al := ax.map (fun x => alignIndex x vals tol m)
        if hasDup al then none
        else some (sortedUnion [] (vals ++ al), done ++ [al])) (some (first, [first]))).map (·.2)

structure Group where
  linked : Bool
  solver : Solver
  tol : Rat
  method : Method
  datasets : List Dataset
  deriving Repr, Inhabited

/-- `aligned_global_axis`: the outer-joined coordinate of all aligned axes -/
def alignedAxisOf (aligned : List (List Rat)) : List Rat := aligned.foldl sortedUnion []

/-- for one aligned value: (dataset number, local index) of the members, in dataset order —
    the member selection of `linkedProblems` on dataset numbers -/
def memberIdx (aligned : List (List Rat)) (v : Rat) : List (Nat × Nat) :=
  ((List.range aligned.length).zip aligned).filterMap (fun da => (da.2.idxOf? v).map (fun i => (da.1, i)))

/-- for one aligned value: the member datasets with their local index, in dataset order -/
def membersAt (ds : List Dataset) (aligned : List (List Rat)) (v : Rat) : List (Dataset × Nat) :=
  (ds.zip aligned).filterMap (fun da => (da.2.idxOf? v).map (fun i => (da.1, i)))

def unionLabels (ls : List (List String)) : List String :=
  ls.foldl (fun acc l => acc ++ l.filter (fun c => !acc.contains c)) []

/-- `align_matrices` (a single member is returned as is — scale applied or not exactly as the code does) -/
def alignMatrices (blocks : List (LMat2 × Rat)) : LMat2 :=
  match blocks with
  | [b] => ⟨b.1.labels, mscale b.2 b.1.m⟩
  | _ =>
    let labels := unionLabels (blocks.map (·.1.labels))
    ⟨labels, blocks.flatMap (fun b =>
      (mscale b.2 b.1.m).map (fun r => labels.map (fun l =>
        match b.1.labels.idxOf? l with | some j => r.getD j 0 | none => 0)))⟩

def linkedProblems (mi : ModelItems) (g : Group) : Option (List Rat × List IndexProblem) :=
  match alignAxes (g.datasets.map (·.globalAxis)) g.tol g.method with
  | none => none
  | some aligned =>
    let axis := aligned.foldl sortedUnion []
    match g.datasets.mapM (fun d => (datasetMatrix d.mcs).map (fun lm => (d, lm))) with
    | none => none
    | some dms =>
      let anyWeight := g.datasets.any (·.weight.isSome)
      some (axis, axis.map (fun v =>
        let mem := (dms.zip aligned).filterMap (fun da => (da.2.idxOf? v).map (fun i => (da.1, i)))
        let blocks := mem.map (fun di =>
          let d := di.1.1; let lm := di.1.2
          ((slices lm d.nGlobal).getD di.2 default, d.scale.getD 1))
        let stacked := alignMatrices blocks
        let red := reduceAt mi v stacked
        let hasW := anyWeight && mem.any (fun di => di.1.1.weight.isSome)
        let w : Vec := mem.flatMap (fun di =>
          match di.1.1.weight with
          | some w => col w di.2
          | none => List.replicate di.1.1.nModel 1)
        let red := if hasW then { red with m := weightRows red.m w } else red
        let data : Vec := mem.flatMap (fun di => col di.1.1.weightedData di.2)
        { fullLabels := stacked.labels, reduced := red, data := data, x := v }))

def linkedGroup (mi : ModelItems) (g : Group) : Option (Vec × Vec) :=
  match linkedProblems mi g with
  | none => none
  | some (axis, ps) =>
    match ps.mapM (fun p => (solveLS g.solver p.reduced.m p.data).map (fun cr => (p, cr))) with
    | none => none
    | some sols =>
      let res := sols.flatMap (fun pc => pc.2.2)
      let clps := sols.map (fun pc => retrieveClps mi pc.1.fullLabels pc.1.reduced.labels pc.2.1 pc.1.x)
      let labels := sols.map (fun pc => pc.1.fullLabels)
      some (res, clpPenalties mi labels clps axis)

/-- `get_full_penalty` of one optimisation group: residual part and penalty part -/
def groupPenaltyParts (mi : ModelItems) (g : Group) : Option (Vec × Vec) :=
  if g.linked then linkedGroup mi g
  else
    (g.datasets.mapM (unlinkedDataset mi g.solver)).map (fun parts =>
      (parts.flatMap (·.1), parts.flatMap (·.2)))

def groupPenalty (mi : ModelItems) (g : Group) : Option Vec :=
  (groupPenaltyParts mi g).map (fun p => p.1 ++ p.2)

/-- `Optimizer.calculate_penalty` -/
def objective (mi : ModelItems) (gs : List Group) : Option Vec :=
  (gs.mapM (groupPenalty mi)).map List.flatten

/-! ### driver -/
open Glotaran.Proto

structure DState where
  mi : ModelItems := {}
  groups : List Group := []
  deriving Inhabited

def parseEB : Tree → Option EB
  | .atom "inf" => some .pinf
  | .atom "-inf" => some .ninf
  | t => t.rat?.map .fin

def parseInterval : Tree → Option Interval
  | .list [a, b] => do some ⟨← parseEB a, ← parseEB b⟩
  | _ => none

def parseIntervals : Tree → Option (List Interval) := Tree.listOf? parseInterval

def parseBody : Tree → Option Body
  | .list [.atom "d2", m] => m.ratss?.map .d2
  | .list [.atom "d3", ms] => (Tree.listOf? Tree.ratss? ms).map .d3
  | _ => none

def parseMc : Tree → Option McOut
  | .list [labels, body, scale] => do
      some ⟨⟨← labels.strs?, ← parseBody body⟩, ← Tree.optOf? Tree.rat? scale⟩
  | _ => none

def showMat (m : Mat) : String := showList (m.map showRats)

def showProblem (p : IndexProblem) : String :=
  showList [showRat p.x, showStrs p.fullLabels, showStrs p.reduced.labels, showMat p.reduced.m, showRats p.data]

def modLast {α} (l : List α) (f : α → α) : List α :=
  match l.reverse with
  | [] => []
  | x :: xs => (f x :: xs).reverse

def parseMethodStrict : Tree → Option Method
  | .atom "nearest" => some .nearest
  | .atom "backward" => some .backward
  | .atom "forward" => some .forward
  | _ => none

/-- the alignment tables on dataset numbers: aligned axis, and per aligned point the member
    dataset numbers and their local indices -/
def showAlignTables (aligned : List (List Rat)) : String :=
  let axis := alignedAxisOf aligned
  let mem := axis.map (memberIdx aligned)
  "ok axis=" ++ showRats axis
    ++ " ds=" ++ showList (mem.map (fun ms => showNats (ms.map (·.1))))
    ++ " idx=" ++ showList (mem.map (fun ms => showNats (ms.map (·.2))))

/-- stateless alignment ops (same protocol as the C09 driver, used by C09's three-way correspondence):
    `align x [target] tol method` → the aligned value;
    `axes tol method [[axis],…]` → `ok [[aligned],…]` / `err AlignDataset`;
    `aligntables tol method [[axis],…]` → `ok axis=… ds=… idx=…` / `err AlignDataset` -/
def alignOps (ts : List Tree) : Option String :=
  match ts with
  | [.atom "align", x, tgt, tol, m] =>
    match x.rat?, tgt.rats?, tol.rat?, parseMethodStrict m with
    | some x, some tgt, some tol, some m => some (showRat (alignIndex x tgt tol m))
    | _, _, _, _ => some "bad-op"
  | [.atom "axes", tol, m, axes] =>
    match tol.rat?, parseMethodStrict m, axes.ratss? with
    | some tol, some m, some axes =>
      match alignAxes axes tol m with
      | none => some "err AlignDataset"
      | some al => some ("ok " ++ showList (al.map showRats))
    | _, _, _ => some "bad-op"
  | [.atom "aligntables", tol, m, axes] =>
    match tol.rat?, parseMethodStrict m, axes.ratss? with
    | some tol, some m, some axes =>
      match alignAxes axes tol m with
      | none => some "err AlignDataset"
      | some al => some (showAlignTables al)
    | _, _, _ => some "bad-op"
  | _ => none

def driverStep (s : DState) (ts : List Tree) : DState × String :=
  -- stateless layout ops (`layout …`, `linkable …`, GlotaranModel/C02Layout.lean)
  match Layout.layoutOps ts with
  | some ans => (s, ans)
  | none =>
  match alignOps ts with
  | some ans => (s, ans)
  | none =>
  match ts with
  | [.atom "reset"] => ({}, "ok")
  | [.atom "constraint", kind, target, iv] =>
    match kind.raw?, target.str?, Tree.optOf? parseIntervals iv with
    | some k, some t, some i =>
      ({ s with mi := { s.mi with constraints := s.mi.constraints ++ [⟨k == "only", t, i⟩] } }, "ok")
    | _, _, _ => (s, "bad-op")
  | [.atom "relation", src, tgt, p, iv] =>
    match src.str?, tgt.str?, p.rat?, Tree.optOf? parseIntervals iv with
    | some a, some b, some q, some i =>
      ({ s with mi := { s.mi with relations := s.mi.relations ++ [⟨a, b, q, i⟩] } }, "ok")
    | _, _, _, _ => (s, "bad-op")
  | [.atom "penalty", src, sivs, tgt, tivs, p, w] =>
    match src.str?, parseIntervals sivs, tgt.str?, parseIntervals tivs, p.rat?, w.rat? with
    | some a, some si, some b, some ti, some q, some ww =>
      ({ s with mi := { s.mi with penalties := s.mi.penalties ++ [⟨a, si, b, ti, q, ww⟩] } }, "ok")
    | _, _, _, _, _, _ => (s, "bad-op")
  | [.atom "group", linked, solver, tol, method] =>
    match linked.bool?, solver.raw?, tol.rat?, method.raw? with
    | some l, some sv, some t, some m =>
      let sv' := if sv == "nnls" then Solver.nnls else Solver.vp
      let m' := if m == "forward" then Method.forward else if m == "backward" then Method.backward else Method.nearest
      ({ s with groups := s.groups ++ [⟨l, sv', t, m', []⟩] }, "ok")
    | _, _, _, _ => (s, "bad-op")
  | [.atom "dataset", label, axis, data, weight, scale, mcs, gmcs] =>
    match label.str?, axis.rats?, data.ratss?, Tree.optOf? Tree.ratss? weight,
          Tree.optOf? Tree.rat? scale, Tree.listOf? parseMc mcs, Tree.listOf? parseMc gmcs with
    | some l, some ax, some d, some w, some sc, some ms, some gs =>
      if s.groups.isEmpty then (s, "bad-op") else
      ({ s with groups := modLast s.groups (fun g => { g with datasets := g.datasets ++ [⟨l, ax, d, w, sc, ms, gs⟩] }) }, "ok")
    | _, _, _, _, _, _, _ => (s, "bad-op")
  | [.atom "objective"] =>
    match objective s.mi s.groups with
    | some v => (s, "pen " ++ showRats v)
    | none => (s, "err unsolvable")
  | [.atom "parts"] =>
    -- per group: length of the residual part and the penalty entries
    match s.groups.mapM (groupPenaltyParts s.mi) with
    | some ps => (s, "parts " ++ showList (ps.map (fun p => showList [toString p.1.length, showRats p.2])))
    | none => (s, "err unsolvable")
  | [.atom "inputs"] =>
    -- solver inputs per group (linked / unlinked without global model)
    let out := s.groups.map (fun g =>
      if g.linked then
        match linkedProblems s.mi g with
        | some (_, ps) => showList (ps.map showProblem)
        | none => "align-error"
      else
        showList (g.datasets.map (fun d =>
          if !d.gmcs.isEmpty then
            match fullModelProblem d with
            | some (a, y) => showList ["full", showMat a, showRats y]
            | none => "none"
          else match unlinkedProblems s.mi d with
            | some ps => showList (ps.map showProblem)
            | none => "none")))
    (s, "inputs " ++ showList out)
  | _ => (s, "bad-op")

end Glotaran.C02
