/-
C11 — the (hand-written) run-time vocabulary of the function-level translator
(harness/props/_c11_gen.py → lean/GlotaranModel/Generated/C11Fns.lean).

The translator transcribes the Python functions of parameter.py / parameters.py / parameter_history.py
statement by statement into Lean definitions over the same types as the hand-written model
(`Ext α` = a double, `Parameter α`, `List (Parameter α)` = the insertion-ordered dict of a
`Parameters` object).  What a *Python construct* means is fixed here, once:
  * a dict keyed by label: membership, look-up, in-place mutation of the stored object;
  * a raised exception: class name + the label-valued arguments;
  * `np.asarray` of a list of floats: the list;
  * `Untranslatable`: what the translator emits for source outside its subset — a definition of
    this type in place of the function, so that the file still compiles and every
    `generated_eq_model_*` theorem about that function stops compiling.
-/
import GlotaranModel.C11
namespace Glotaran.C11.Py

variable {α : Type}

/-- emitted in place of a function the translator cannot translate (with the reason) -/
structure Untranslatable where
  reason : String
  deriving Repr

/-- a raised exception: class name and the arguments the translator keeps (labels; an f-string
    message is kept as the marker `<f-string>`) -/
structure Exc where
  cls : String
  args : List String
  deriving Repr, DecidableEq, Inhabited

/-- `label in self._parameters` -/
def has (ps : List (Parameter α)) (l : String) : Bool := ps.any (fun q => q.label = l)

/-- `self._parameters[label]` (`none` = KeyError) -/
def lookup (ps : List (Parameter α)) (l : String) : Option (Parameter α) :=
  ps.find? (fun q => q.label = l)

/-- `self._parameters[label].<mutating method>(…)`: the object stored under the key is replaced by
    its mutated self, position and every other entry unchanged -/
def update (ps : List (Parameter α)) (l : String) (f : Parameter α → Parameter α) :
    List (Parameter α) :=
  ps.map (fun q => if q.label = l then f q else q)

/-- truthiness of a `str | None`: `None` and the empty string are falsy -/
def truthy : Option String → Bool
  | some s => s != ""
  | none => false

/-- `np.asarray(list_of_floats)` -/
def asarray (xs : List (Ext α)) : List (Ext α) := xs

/-- a Python `list[...]` / 1-d array indexed with a Python `int` (negative = from the end);
    `none` = IndexError -/
def index {β : Type} (xs : List β) (i : Int) : Option β :=
  if 0 ≤ i then xs[i.toNat]? else
    if (-i).toNat ≤ xs.length then xs[xs.length - (-i).toNat]? else none

/-- `xs[1:]` -/
def from1 {β : Type} (xs : List β) : List β := xs.drop 1

end Glotaran.C11.Py
