/-
C04 — decay matrices are the solution of the compartmental rate equations
(glotaran/builtin/megacomplexes/decay/{k_matrix,util,initial_concentration,decay_megacomplex,
decay_parallel_megacomplex,decay_sequential_megacomplex}.py, no IRF).

The model is written once, over an abstract number type `α` that has the operations the code
applies to doubles (`0 1 + - * / neg`, a cast from `Nat`, decidable equality for the `== 0`
tests).  It is executed by the driver at `α := Rat` (exact rationals; every double is one) and the
theorems instantiate the *same* definitions at `ℝ` (or any field).  Matrices are index functions
`Nat → Nat → α` (entry `i j`, only indices `< n` are ever read); the driver tabulates them.

External calls are parameters (`Ext`): `scipy.linalg.eig` (eigenvalues, eigenvectors) and
`scipy.linalg.solve`.  `np.exp` is never evaluated: a concentration is the term
`Σ_l A[l,c]·exp((−rate_l)·t)` printed as `(coefficient, exponent)` pairs with exact rational entries.
-/
import GlotaranModel.Proto
import GlotaranModel.LinAlg
namespace Glotaran.C04

variable {α : Type} [Zero α] [One α] [Add α] [Sub α] [Mul α] [Div α] [Neg α] [NatCast α]
  [DecidableEq α]

/-- Python exceptions / numeric failures the modelled code can end in -/
inductive Err where
  | valueError      -- `list.index` of an absent label
  | indexError      -- boolean mask of the wrong length, `rates[i]` out of range, `compartments[-1]` of []
  | nonFinite       -- a division by zero in doubles (nan/inf result); outside the property's domain
  | noKMatrix       -- `get_k_matrix()` of an empty list is `None`
  deriving Repr, DecidableEq

/-! ## the K-matrix dictionary (`KMatrix.matrix`: insertion ordered, keys `(to, from)`) -/

abbrev Key := String × String
abbrev KDict (α : Type) := List (Key × α)

/-- `d[k] = v`: replace in place, or append -/
def dictSet (d : KDict α) (k : Key) (v : α) : KDict α :=
  match d with
  | [] => [(k, v)]
  | e :: rest => if e.1 = k then (e.1, v) :: rest else e :: dictSet rest k v

/-- `KMatrix.combine`: copy of `a`, every entry of `b` assigned on top -/
def combine (a b : KDict α) : KDict α := b.foldl (fun acc e => dictSet acc e.1 e.2) a

/-- `DecayMegacomplex.get_k_matrix`: fold of `combine` over the megacomplex's K-matrices -/
def combineAll : List (KDict α) → Except Err (KDict α)
  | [] => .error .noKMatrix
  | d :: ds => .ok (ds.foldl combine d)

/-- label of the combined matrix: `f"{self.label}+{k_matrix.label}"` folded -/
def combineLabels : List String → String
  | [] => ""
  | l :: ls => ls.foldl (fun acc x => acc ++ "+" ++ x) l

def addIfNew (l : List String) (x : String) : List String := if l.contains x then l else l ++ [x]

/-- `KMatrix.involved_compartments` -/
def involved (m : KDict α) : List String :=
  m.foldl (fun acc e => addIfNew (addIfNew acc e.1.1) e.1.2) []

/-- a dictionary entry after `compartments.index(...)` -/
structure Entry (α : Type) where
  to : Nat
  frm : Nat
  val : α
  deriving Repr

/-- `compartments.index(to)`, `compartments.index(from)` for every entry (ValueError if absent) -/
def resolve (comps : List String) (m : KDict α) : Except Err (List (Entry α)) :=
  m.mapM (fun e =>
    match comps.idxOf? e.1.1, comps.idxOf? e.1.2 with
    | some i, some j => .ok ⟨i, j, e.2⟩
    | _, _ => .error .valueError)

/-- `KMatrix.reduced`: `array[i, j] = value` in dictionary order (entry `i j`) -/
def reducedAt (es : List (Entry α)) (i j : Nat) : α :=
  es.foldl (fun acc e => if e.to = i ∧ e.frm = j then e.val else acc) 0

/-- one iteration of the loop of `KMatrix.full` seen from cell `(i, j)` -/
def fullStep (i j : Nat) (acc : α) (e : Entry α) : α :=
  if e.to = e.frm then
    (if i = e.to ∧ j = e.frm then acc - e.val else acc)
  else
    let acc1 := if i = e.to ∧ j = e.frm then acc + e.val else acc
    if i = e.frm ∧ j = e.frm then acc1 - e.val else acc1

/-- `KMatrix.full`: off-diagonal entry `+= k`, the donor's diagonal `-= k`; diagonal entry `-= k` -/
def fullAt (es : List (Entry α)) (i j : Nat) : α := es.foldl (fullStep i j) 0

def table (n : Nat) (f : Nat → Nat → α) : List (List α) :=
  (List.range n).map (fun i => (List.range n).map (fun j => f i j))

/-! ## `KMatrix.is_sequential` (after fix D4) -/

/-- `np.nonzero(matrix[:, c])[0].size` -/
def countNonzeroCol (n : Nat) (red : Nat → Nat → α) (c : Nat) : Nat :=
  ((List.range n).filter (fun r => red r c ≠ 0)).length

/-- `initial_concentration[0] == 1 and not np.any(initial_concentration[1:] != 0)` (size ≥ 1) -/
def isE0 : List α → Bool
  | [] => false
  | x :: rest => decide (x = 1) && rest.all (fun y => decide (y = 0))

/-- every column has exactly one non-zero entry and it sits on the sub-diagonal
    (on the diagonal for the last column): `matrix[min(i + 1, size - 1), i] != 0` -/
def isSequential (n : Nat) (red : Nat → Nat → α) (j : List α) : Bool :=
  isE0 j && (List.range n).all (fun i =>
    decide (countNonzeroCol n red i = 1) && decide (red (min (i + 1) (n - 1)) i ≠ 0))

/-! ## the two A-matrix formulas and the rates -/

/-- `KMatrix.a_matrix_sequential`, entry `[i, j]`; `r m = full[m, m]` (the diagonal, i.e. `−k_m`) -/
def aSeqAt (r : Nat → α) (i j : Nat) : α :=
  if j = 0 then (if i = 0 then 1 else 0)
  else if i > j then 0
  else ((List.range j).map r).prod /
       (((List.range (j + 1)).filter (fun m => m ≠ i)).map (fun m => r m - r i)).prod

/-- some denominator of `a_matrix_sequential` is zero (two equal rates): the doubles are inf/nan -/
def aSeqDegenerate (n : Nat) (r : Nat → α) : Bool :=
  (List.range n).any (fun j => j ≠ 0 && (List.range (j + 1)).any (fun i =>
    decide ((((List.range (j + 1)).filter (fun m => m ≠ i)).map (fun m => r m - r i)).prod = 0)))

/-- `-np.diag(self.full(compartments))` -/
def ratesSeq (n : Nat) (es : List (Entry α)) : List α :=
  (List.range n).map (fun l => - fullAt es l l)

/-- `a_matrix_general`: `(eigenvectors @ diag(gamma)).T`, entry `[l, c]` -/
def aGeneralAt (V : Nat → Nat → α) (g : Nat → α) (l c : Nat) : α := V c l * g l

/-- the LAPACK calls -/
structure Ext (α : Type) where
  /-- `eig(full.T, left=True, right=False)`, real parts: eigenvalues, eigenvector matrix `V[i, l]` -/
  eig : (Nat → Nat → α) → List α × (Nat → Nat → α)
  /-- `scipy.linalg.solve(V, j)` -/
  solve : (Nat → Nat → α) → List α → Nat → α

def listFn (xs : List α) (i : Nat) : α := xs.getD i 0

/-- `KMatrix.rates` -/
def rates (ext : Ext α) (n : Nat) (es : List (Entry α)) (j : List α) : List α :=
  if isSequential n (reducedAt es) j then ratesSeq n es
  else (ext.eig (fullAt es)).1.map (fun x => - x)

def aGeneral (ext : Ext α) (es : List (Entry α)) (j : List α) : Nat → Nat → α :=
  let ev := ext.eig (fullAt es)
  aGeneralAt ev.2 (ext.solve ev.2 j)

def aSeq (es : List (Entry α)) : Nat → Nat → α := aSeqAt (fun m => fullAt es m m)

/-- `KMatrix.a_matrix` -/
def aMatrix (ext : Ext α) (n : Nat) (es : List (Entry α)) (j : List α) : Nat → Nat → α :=
  if isSequential n (reducedAt es) j then aSeq es else aGeneral ext es j

/-! ## initial concentration -/

structure InitConc (α : Type) where
  comps : List String
  params : List α
  excl : List String
  deriving Repr

/-- numpy boolean-mask indexing `xs[mask]` (lengths must agree) -/
def pick (mask : List Bool) (xs : List α) : Except Err (List α) :=
  if mask.length ≠ xs.length then .error .indexError
  else .ok (((xs.zip mask).filter (fun p => p.2)).map (fun p => p.1))

/-- `InitialConcentration.normalized` -/
def normalized (ic : InitConc α) : Except Err (List α) :=
  let idx := ic.comps.map (fun c => !ic.excl.contains c)
  if idx.length ≠ ic.params.length then .error .indexError else
  let s : α := (((ic.params.zip idx).filter (fun p => p.2)).map (fun p => p.1)).sum
  if s = 0 ∧ idx.any id = true then .error .nonFinite else
  .ok ((ic.params.zip idx).map (fun p => if p.2 then p.1 / s else p.1))

/-! ## the three megacomplexes -/

/-- `DecayMegacomplex.get_compartments` -/
def decayCompartments (ic : InitConc α) (k : KDict α) : List String :=
  ic.comps.filter (fun c => (involved k).contains c)

/-- `DecayMegacomplex.get_initial_concentration` -/
def decayJ (ic : InitConc α) (k : KDict α) (norm : Bool) : Except Err (List α) := do
  let comps := decayCompartments ic k
  let idx := ic.comps.map (fun c => comps.contains c)
  let v ← if norm then normalized ic else pure ic.params
  pick idx v

/-- `DecayParallelMegacomplex.get_k_matrix`:
    `{(compartments[i], compartments[i]): rates[i] for i in range(len(compartments))}` -/
def parDict (comps : List String) (rs : List α) : Except Err (KDict α) :=
  if rs.length < comps.length then .error .indexError
  else .ok ((List.range comps.length).foldl
    (fun acc i => dictSet acc (comps.getD i "", comps.getD i "") (rs.getD i 0)) [])

/-- `DecayParallelMegacomplex.get_initial_concentration` -/
def parJ (n : Nat) (norm : Bool) : List α :=
  List.replicate n (if norm then 1 / (n : α) else 1)

/-- `DecaySequentialMegacomplex.get_k_matrix`:
    `{(compartments[i + 1], compartments[i]): rates[i] for i in range(len(compartments) - 1)}`, then
    `matrix[compartments[-1], compartments[-1]] = rates[-1]` -/
def seqDict (comps : List String) (rs : List α) : Except Err (KDict α) :=
  match comps.getLast?, rs.getLast? with
  | some cl, some rl =>
    if rs.length < comps.length - 1 then .error .indexError else
    let d0 := (List.range (comps.length - 1)).foldl
      (fun acc i => dictSet acc (comps.getD (i + 1) "", comps.getD i "") (rs.getD i 0)) ([] : KDict α)
    .ok (dictSet d0 (cl, cl) rl)
  | _, _ => .error .indexError

/-- `DecaySequentialMegacomplex.get_initial_concentration` -/
def seqJ (n : Nat) : Except Err (List α) :=
  if n = 0 then .error .indexError else .ok (1 :: List.replicate (n - 1) 0)

inductive Kind where
  | decay | par | seq
  deriving Repr, DecidableEq

/-- what `calculate_matrix` / `retrieve_decay_associated_data` first collect -/
structure Parts (α : Type) where
  comps : List String
  j : List α
  jraw : List α
  dict : KDict α
  es : List (Entry α)

def Parts.n (p : Parts α) : Nat := p.comps.length

def decayParts (ic : InitConc α) (ks : List (KDict α)) : Except Err (Parts α) := do
  let k ← combineAll ks
  let comps := decayCompartments ic k
  let j ← decayJ ic k true
  let es ← resolve comps k
  let jraw ← decayJ ic k false
  pure ⟨comps, j, jraw, k, es⟩

def parParts (comps : List String) (rs : List α) : Except Err (Parts α) := do
  let k ← parDict comps rs
  let es ← resolve comps k
  pure ⟨comps, parJ comps.length true, parJ comps.length false, k, es⟩

def seqParts (comps : List String) (rs : List α) : Except Err (Parts α) := do
  let j ← seqJ comps.length
  let k ← seqDict comps rs
  let es ← resolve comps k
  pure ⟨comps, j, j, k, es⟩

/-- `k_matrix.rates(compartments, initial_concentration)` (all three megacomplexes) -/
def Parts.ratesOf (ext : Ext α) (p : Parts α) : List α := rates ext p.n p.es p.j

/-- `megacomplex.get_a_matrix(dataset_model)` -/
def Parts.aMatrixOf (ext : Ext α) (kind : Kind) (p : Parts α) : Nat → Nat → α :=
  match kind with
  | .decay => aMatrix ext p.n p.es p.j
  | .par => aGeneral ext p.es p.j
  | .seq => aSeq p.es

/-! ## `calculate_matrix` without IRF: `exp(−rate·t)` columns times the A-matrix -/

/-- entry `[t, c]` of `matrix @ a_matrix` with `matrix[t, l] = exp(-rate_l * t)`:
    pairs `(A[l, c], (−rate_l)·t)` meaning `Σ_l coefficient · exp(exponent)` -/
def concTerm (rs : List α) (A : Nat → Nat → α) (t : α) (c : Nat) : List (α × α) :=
  (List.range rs.length).map (fun l => (A l c, (- listFn rs l) * t))

/-! ## `retrieve_decay_associated_data` -/

/-- `species_associated @ a_matrix.T`, entry `[g, l]` -/
def dasAt (nc : Nat) (sas : Nat → Nat → α) (A : Nat → Nat → α) (g l : Nat) : α :=
  ((List.range nc).map (fun c => sas g c * A l c)).sum

/-- `1 / rates` (`none` = a zero rate: `inf` with a numpy warning) -/
def lifetimes (rs : List α) : List (Option α) := rs.map (fun r => if r = 0 then none else some (1 / r))

/-- names of the variables and coordinates written for megacomplex `label` -/
def resultNames (label globalDim : String) : List String :=
  let name := if globalDim = "pixel" then "images" else "spectra"
  [s!"decay_associated_{name}_{label}", s!"a_matrix_{label}", s!"k_matrix_{label}",
   s!"k_matrix_reduced_{label}", s!"component_{label}", s!"rate_{label}", s!"lifetime_{label}",
   s!"species_{label}", s!"initial_concentration_{label}", s!"to_species_{label}",
   s!"from_species_{label}"]

/-! ## several decay megacomplexes in one dataset model (`finalize_data`, `combine_megacomplex_matrices`) -/

/-- what one decay megacomplex contributes: its compartments (clp labels), rates and A-matrix -/
structure Mega (α : Type) where
  comps : List String
  rs : List α
  A : Nat → Nat → α

/-- `finalize_data`: `all_species`, the compartments of all decay megacomplexes of the dataset model,
    first occurrence first (`if species not in all_species: all_species.append(species)`) -/
def allSpecies (compss : List (List String)) : List String :=
  compss.foldl (fun acc cs => cs.foldl addIfNew acc) []

/-- `array.sel(species=labels)` / `matrix.sel(clp_label=labels)` on the last axis of a table whose
    columns are labelled `all`: column `c` of the selection is the column labelled `labels[c]` -/
def selCols (all : List String) (m : Nat → Nat → α) (labels : List String) (g c : Nat) : α :=
  m g (all.idxOf (labels.getD c ""))

/-- `dataset[species_associated_*].sel(species=species).values @ a_matrix.T` of one megacomplex when the
    species-associated table covers the species of all decay megacomplexes -/
def dasSel (all : List String) (sasAll : Nat → Nat → α) (m : Mega α) (g l : Nat) : α :=
  dasAt m.comps.length (selCols all sasAll m.comps) m.A g l

/-- column `s` of the combined matrix (`combine_megacomplex_matrices` adds the columns of equal clp
    labels), i.e. `species_concentration` of species `s`: the terms of every megacomplex that has `s` -/
def combinedTerm (ms : List (Mega α)) (t : α) (s : String) : List (α × α) :=
  ms.flatMap (fun m => if m.comps.contains s then concTerm m.rs m.A t (m.comps.idxOf s) else [])

/-! ## certificates for the external calls (what the theorems assume about `Ext`) -/

def matMulAt (n : Nat) (A B : Nat → Nat → α) (i j : Nat) : α :=
  ((List.range n).map (fun k => A i k * B k j)).sum

def mulVecAt (n : Nat) (A : Nat → Nat → α) (v : Nat → α) (i : Nat) : α :=
  ((List.range n).map (fun k => A i k * v k)).sum

/-- `K V = V diag(λ)` entrywise -/
def eigenCert (n : Nat) (K V : Nat → Nat → α) (lam : Nat → α) : Bool :=
  (List.range n).all (fun i => (List.range n).all (fun j =>
    decide (matMulAt n K V i j = V i j * lam j)))

/-- `V g = j` entrywise -/
def solveCert (n : Nat) (V : Nat → Nat → α) (g j : Nat → α) : Bool :=
  (List.range n).all (fun i => decide (mulVecAt n V g i = j i))

/-! ## driver (α := Rat) -/
section Driver
open Glotaran.Proto

def rowsFn (rows : List (List Rat)) (i j : Nat) : Rat := (rows.getD i []).getD j 0

/-- reduced row echelon form by columns; returns the pivot rows `(pivot column, row)` -/
def rrefCols (n : Nat) (rows : List (List Rat)) : List (Nat × List Rat) :=
  let step := fun (st : List (Nat × List Rat) × List (List Rat)) (c : Nat) =>
    let done := st.1
    let rest := st.2
    match rest.find? (fun r => r.getD c 0 != 0) with
    | none => st
    | some p =>
      let rest' := rest.erase p
      let pn := LinAlg.vscale (1 / p.getD c 0) p
      let elim := fun (r : List Rat) => LinAlg.vsub r (LinAlg.vscale (r.getD c 0) pn)
      ((c, pn) :: done.map (fun d => (d.1, elim d.2)), rest'.map elim)
  ((List.range n).foldl step ([], rows)).1

/-- a non-zero vector of the null space of an `n × n` matrix with nullity one (glue: the result is
    only used after `eigenCert` has accepted it) -/
def nullVec (n : Nat) (rows : List (List Rat)) : Option (List Rat) :=
  let piv := rrefCols n rows
  let free := (List.range n).filter (fun c => !(piv.any (fun p => p.1 == c)))
  match free with
  | [f] => some ((List.range n).map (fun c =>
      if c = f then 1 else
      match piv.find? (fun p => p.1 == c) with
      | some p => - p.2.getD f 0
      | none => 0))
  | _ => none

/-- how the harness supplies the eigen-decomposition -/
inductive EigIn where
  | exact (lams : List Rat)                       -- exact eigenvalues in the implementation's order
  | given (lams : List Rat) (V : List (List Rat)) -- the implementation's doubles, as rationals
  | unused

/-- build `Ext Rat` for one K (with certificates); `none` = no certificate -/
def mkExt (n : Nat) (K : Nat → Nat → Rat) (j : List Rat) (e : EigIn) (needGeneral : Bool) :
    Option (Ext Rat) :=
  if !needGeneral then some ⟨fun _ => ([], fun _ _ => 0), fun _ _ _ => 0⟩ else
  let lv : Option (List Rat × (Nat → Nat → Rat) × Bool) :=
    match e with
    | .exact lams =>
      if lams.length ≠ n then none else
      let vs := lams.map (fun lam =>
        nullVec n (table n (fun i k => K i k - (if i = k then lam else 0))))
      if vs.any Option.isNone then none else
      let cols := vs.map (fun v => v.getD [])
      let V := fun i l => (cols.getD l []).getD i 0
      if eigenCert n K V (listFn lams) then some (lams, V, true) else none
    | .given lams V => if lams.length ≠ n then none else some (lams, rowsFn V, false)
    | .unused => none
  match lv with
  | none => none
  | some (lams, V, _) =>
    match LinAlg.solve (table n V) j with
    | none => none
    | some g =>
      if solveCert n V (listFn g) (listFn j) then some ⟨fun _ => (lams, V), fun _ _ => listFn g⟩
      else none

def parseDict (t : Tree) : Option (KDict Rat) :=
  Tree.listOf? (fun
    | .list [a, b, v] => do some ((← a.str?, ← b.str?), ← v.rat?)
    | _ => none) t

def showDict (d : KDict Rat) : String :=
  showList (d.map (fun e => showList [encodeStr e.1.1, encodeStr e.1.2, showRat e.2]))

def showRows (m : List (List Rat)) : String := showList (m.map showRats)

def showErr : Err → String
  | .valueError => "err ValueError"
  | .indexError => "err IndexError"
  | .nonFinite => "err nonfinite"
  | .noKMatrix => "err noKMatrix"

def parseEig : Tree → Option EigIn
  | .list [.atom "exact", ls] => do some (.exact (← ls.rats?))
  | .list [.atom "given", ls, v] => do some (.given (← ls.rats?) (← v.ratss?))
  | .atom "unused" => some .unused
  | _ => none

def parseKind : Tree → Option Kind
  | .atom "decay" => some .decay
  | .atom "par" => some .par
  | .atom "seq" => some .seq
  | _ => none

/-- the megacomplex description: `decay [comps] [params] [excl] [dict…]` | `par|seq [comps] [rates]` -/
def parseParts (kind : Kind) (args : List Tree) : Option (Except Err (Parts Rat)) :=
  match kind, args with
  | .decay, [c, p, x, ds] => do
    let ic : InitConc Rat := ⟨← c.strs?, ← p.rats?, ← x.strs?⟩
    some (decayParts ic (← Tree.listOf? parseDict ds))
  | .par, [c, r] => do some (parParts (← c.strs?) (← r.rats?))
  | .seq, [c, r] => do some (seqParts (← c.strs?) (← r.rats?))
  | _, _ => none

def showParts (p : Parts Rat) : String :=
  let n := p.n
  s!"ok {showStrs p.comps} {showRats p.j} {showRats p.jraw} {showDict p.dict} " ++
  s!"{showRows (table n (fullAt p.es))} {showRows (table n (reducedAt p.es))} " ++
  s!"{showBool (isSequential n (reducedAt p.es) p.j)}"

def showTerm (t : List (Rat × Rat)) : String :=
  showList (t.map (fun ce => showList [showRat ce.1, showRat ce.2]))

/-- does this megacomplex kind read the eigen-decomposition / the sequential formula? -/
def usesGeneral (kind : Kind) (isSeq : Bool) : Bool :=
  match kind with
  | .decay => !isSeq
  | .par => true
  | .seq => !isSeq

def usesSeqFormula (kind : Kind) (isSeq : Bool) : Bool :=
  match kind with
  | .decay => isSeq
  | .par => false
  | .seq => true

/-- rates and A-matrix of one megacomplex description as `calculate_matrix` /
    `retrieve_decay_associated_data` obtain them (`degenerate` / `nocert` = no answer) -/
def calcCore (kind : Kind) (e : EigIn) (p : Parts Rat) : Except String (List Rat × (Nat → Nat → Rat)) :=
  let n := p.n
  let isSeq := isSequential n (reducedAt p.es) p.j
  if usesSeqFormula kind isSeq && aSeqDegenerate n (fun m => fullAt p.es m m) then .error "degenerate" else
  match mkExt n (fullAt p.es) p.j e (usesGeneral kind isSeq) with
  | none => .error "nocert"
  | some ext =>
    let rs := p.ratesOf ext
    if rs.length ≠ n then .error "nocert" else .ok (rs, p.aMatrixOf ext kind)

/-- one megacomplex of a `multi` line: `[kind, eig, args…]` -/
def parseMega : Tree → Option (Except String (Mega Rat))
  | .list (k :: eig :: args) => do
    let kind ← parseKind k
    let e ← parseEig eig
    match ← parseParts kind args with
    | .error err => some (.error (showErr err))
    | .ok p =>
      match calcCore kind e p with
      | .error msg => some (.error msg)
      | .ok (rs, A) => some (.ok ⟨p.comps, rs, A⟩)
  | _ => none

def driverStep (s : Unit) (ts : List Tree) : Unit × String :=
  let out : Option String :=
    match ts with
    | [.atom "involved", d] => do some s!"ok {showStrs (involved (← parseDict d))}"
    | [.atom "combine", ds, ls] => do
      match combineAll (← Tree.listOf? parseDict ds) with
      | .ok d => some s!"ok {showDict d} {encodeStr (combineLabels (← ls.strs?))}"
      | .error e => some (showErr e)
    | [.atom "matrices", c, d] => do
      let comps ← c.strs?
      match resolve comps (← parseDict d) with
      | .ok es => some s!"ok {showRows (table comps.length (fullAt es))} {showRows (table comps.length (reducedAt es))}"
      | .error e => some (showErr e)
    | [.atom "issequential", c, d, j] => do
      let comps ← c.strs?
      match resolve comps (← parseDict d) with
      | .ok es => some s!"ok {showBool (isSequential comps.length (reducedAt es) (← j.rats?))}"
      | .error e => some (showErr e)
    | [.atom "normalized", c, p, x] => do
      match normalized (⟨← c.strs?, ← p.rats?, ← x.strs?⟩ : InitConc Rat) with
      | .ok v => some s!"ok {showRats v}"
      | .error e => some (showErr e)
    | [.atom "aseq", r] => do
      let rs ← r.rats?
      if aSeqDegenerate rs.length (listFn rs) then some "degenerate" else
      some s!"ok {showRows (table rs.length (aSeqAt (listFn rs)))}"
    | .atom "parts" :: k :: args => do
      match ← parseParts (← parseKind k) args with
      | .ok p => some (showParts p)
      | .error e => some (showErr e)
    | .atom "calc" :: k :: eig :: times :: args => do
      let kind ← parseKind k
      let e ← parseEig eig
      let times ← times.rats?
      match ← parseParts kind args with
      | .error e => some (showErr e)
      | .ok p =>
        let n := p.n
        match calcCore kind e p with
        | .error msg => some msg
        | .ok (rs, A) =>
          let terms := times.map (fun t => (List.range n).map (fun c => showTerm (concTerm rs A t c)))
          let lts := (lifetimes rs).map (showOpt showRat)
          some s!"ok {showStrs p.comps} {showRats rs} {showRows (table n A)} {showList lts} {showList (terms.map showList)}"
    | .atom "multi" :: times :: megas => do
      let times ← times.rats?
      let parsed ← megas.mapM parseMega
      match parsed.mapM id with
      | .error msg => some msg
      | .ok ms =>
        let all := allSpecies (ms.map (fun m => m.comps))
        let terms := times.map (fun t => all.map (fun sp => showTerm (combinedTerm ms t sp)))
        some s!"ok {showStrs all} {showList (terms.map showList)}"
    | [.atom "allspecies", cs] => do
      some s!"ok {showStrs (allSpecies (← Tree.listOf? Tree.strs? cs))}"
    | [.atom "dassel", all, sasT, c, a] => do
      let all ← all.strs?
      let sas ← sasT.ratss?
      let comps ← c.strs?
      let A ← a.ratss?
      let m : Mega Rat := ⟨comps, [], rowsFn A⟩
      some s!"ok {showRows (sas.zipIdx.map (fun gi => (List.range A.length).map (fun l => dasSel all (rowsFn sas) m gi.2 l)))}"
    | [.atom "das", a, sasT, nc] => do
      let A ← a.ratss?
      let sas ← sasT.ratss?
      let nc ← nc.nat?
      some s!"ok {showRows (sas.zipIdx.map (fun gi => (List.range A.length).map (fun l => dasAt nc (rowsFn sas) (rowsFn A) gi.2 l)))}"
    | [.atom "names", l, g] => do some s!"ok {showStrs (resultNames (← l.str?) (← g.str?))}"
    | _ => none
  (s, out.getD "bad-op")

end Driver

end Glotaran.C04
