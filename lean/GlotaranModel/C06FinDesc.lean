/-
C06 — vocabulary of the function-level translator of the `finalize_data` functions of the builtin megacomplexes
(harness/props/_c06_fin.py writes lean/GlotaranModel/Generated/C06Fin.lean on every run).

The translator executes a `finalize_data` function symbolically (pure `ast`, nothing is imported): `dataset.matrix`,
`dataset.global_matrix`, `dataset.clp` and result variables read back from the dataset are *tracked arrays* with named
dimensions; `.sel(<dim>=…)` with an f-string / a label list, `.values`, element-wise numpy arithmetic, `np.unwrap`
(the axis is resolved against the tracked dimensions), loops `for i, label in enumerate(self.labels)` with stores
`arr[:, i] = …`, species accumulation loops, `xr.DataArray(…, dims=…)`, `@ a_matrix.T` and inlined helper functions are
understood.  Every write `dataset[...] = …` / `dataset.coords[...] = …` whose value derives from a tracked array (or that
is a label coordinate) becomes one `Row`.  Anything that derives from a tracked array in a way the translator does not
understand (positional subscripts, boolean masks, `np.isin`, slices of `.values` …) becomes `.untranslatable "<reason>"`;
the interpretation of such a table is `none`, so `generated_finalize_eq_model_*` fails to build.
-/
import GlotaranModel.C06Desc
namespace Glotaran.C06.Fin
open Glotaran.C06

/-- a list of labels as the source builds it -/
inductive Labels where
  | attr (path : String)                                          -- an attribute / zero-argument call: `self.labels`
  | range1 (path : String)                                        -- `range(1, <path> + 1)` / `np.arange(1, <path> + 1)`
  | firstSeen (outer : String) (cls : Option String) (inner : String)
      -- acc = []; for m in <outer> [if isinstance(m, cls)]: for x in m.<inner>: if x not in acc: acc.append(x)
  | untranslatable (reason : String)
  deriving Repr, DecidableEq, Inhabited

/-- the tracked array a selection reads -/
inductive Src where
  | matrix | globalMatrix | clp
  | resultVar (name : List LPart)                                 -- `dataset[f"…"]` written earlier by the same function
  deriving Repr, DecidableEq, Inhabited

/-- the axis `np.unwrap` runs along, resolved against the dimensions of its argument -/
inductive Axis where
  | series      -- the global axis: along the series of ONE label
  | labels      -- across the labels of the label dimension
  | model       -- the model axis
  | unknown
  deriving Repr, DecidableEq, Inhabited

/-- the value reported under the label `x` (`.var`) of the label dimension, element-wise over the other dimensions -/
inductive Cell where
  | sel (a : Src) (dim : String) (label : List LPart)             -- a.sel({dim: f"…{x}…"})
  | mul (a b : Cell)
  | add (a b : Cell)
  | sqrt (a : Cell)
  | hypot (a b : Cell)
  | atan2 (a b : Cell)
  | unwrap (axis : Axis) (a : Cell)
  | untranslatable (reason : String)
  deriving Repr, DecidableEq, Inhabited

/-- a string-valued local of the function -/
inductive Scalar where
  | parts (p : List LPart)
  | ifUnique (cls : String) (outer : String) (thenP elseP : List LPart)
      -- thenP if len([m for m in <outer> if isinstance(m, cls)]) < 2 else elseP
  | ifEq (lhs : List LPart) (value : String) (thenP elseP : List LPart)
  | untranslatable (reason : String)
  deriving Repr, DecidableEq, Inhabited

inductive Row where
  | coord (name : List LPart) (labels : Labels)                   -- dataset.coords[name] = <label list>
  | coordOn (name : List LPart) (dim : List LPart) (path : String) -- dataset.coords[name] = (dim, <attribute>)
  | var (name : List LPart) (dims : List (List LPart)) (label : Option (List LPart × Labels)) (rank3 : Option Bool) (cell : Cell)
      -- dataset[name] = (dims, value): the label dimension `label.1` carries the labels `label.2`; entry for label x = `cell`;
      -- `rank3 = some b`: the statement sits in the branch `len(dataset.matrix.shape) == 3` is b
  | lincomb (name : List LPart) (dims : List (List LPart)) (a : Src) (selDim : String) (species : Labels)
      (weights : String) (transposed : Bool)
      -- dataset[name] = DataArray(a.sel({selDim: species}).values @ <weights>[.T], dims=dims)
  | guard (dim : List LPart)                                      -- `if <dim> in dataset.coords: return`
  | external (fn : String)                                        -- call of a helper that reads no tracked array
  | untranslatable (reason : String)
  deriving Repr, DecidableEq, Inhabited

structure Step where
  scope : Option (String × String)      -- `for <var> in <outer>:` the statement sits in (a loop over megacomplexes)
  row : Row
  deriving Repr, DecidableEq, Inhabited

structure Table where
  scalars : List (String × Scalar)
  steps : List Step
  deriving Repr, DecidableEq, Inhabited

end Glotaran.C06.Fin
