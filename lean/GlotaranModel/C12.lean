/-
C12 — expression parameters (glotaran/parameter/parameters.py, parameter.py).

A `Parameters` object is the list of its `Parameter`s in declaration (dict) order.  A value is
a float: `some q` (finite, exact rational) or `none` (NaN — the default of a parameter declared
without a number).  Expressions are ASTs; the `$label` rewriting of the code
(`PARAMETER_EXPRESSION_REGEX`, `set_transformed_expression`) is modelled in `C12Regex.lean`
(`rewrite`, `labelsOf`); asteval's parser is *not* modelled: the harness parses the expression text
itself and sends the intended AST, so a rewriting that mangles a label shows up as a disagreement
(the labels the harness reads are compared with `labels` of the model and with the real regex).  Functions other than `+ - * /` are uninterpreted (`Funs`, a parameter of
every definition); the driver interprets `abs/min/max` exactly and takes every other function
value (`exp`, `log`, `sqrt`, …) from a table supplied by the harness.

`update` follows `Parameters.update_parameter_expression` **after the fix of D3**: passes in
declaration order over the expression parameters are repeated until a pass changes nothing, at
most one pass per expression parameter.  (Before the fix it was a single pass: `passOnce`.)
-/
import GlotaranModel.Proto
import GlotaranModel.C12Regex
namespace Glotaran.C12

inductive Expr where
  | lit (q : Rat)
  | ref (label : String)
  | neg (a : Expr)
  | add (a b : Expr)
  | sub (a b : Expr)
  | mul (a b : Expr)
  | div (a b : Expr)
  | call1 (f : String) (a : Expr)
  | call2 (f : String) (a b : Expr)
  deriving Repr, Inhabited, DecidableEq

/-- a Python float: `none` is NaN -/
abbrev Val := Option Rat

structure Param where
  label : String
  value : Val
  expr : Option Expr := none
  vary : Bool := true
  nonNeg : Bool := false
  deriving Repr, Inhabited, DecidableEq

/-- interpretation of function symbols; `none` = the call raises -/
structure Funs where
  f1 : String → Val → Option Val
  f2 : String → Val → Val → Option Val

inductive EvalErr where
  | unknownLabel (l : String)          -- ParameterNotFoundException inside asteval
  | divZero                            -- ZeroDivisionError (Python floats)
  | call (f : String) (args : List Val) -- the function call raised / is not available
  deriving Repr, DecidableEq

inductive Err where
  | lengthMismatch                     -- ValueError of set_from_label_and_value_arrays
  | notFound (l : String)              -- ParameterNotFoundException
  | expr (label : String) (why : EvalErr) -- ValueError "Expression … of parameter 'label' …"
  | fn (f : String) (args : List Val)  -- np.exp / np.log of the non-negative transformation
  deriving Repr, DecidableEq

/-- result of a state-changing call: on failure the state the object is left in is kept -/
abbrev Res (α : Type) := Except (Err × List Param) α

/-! ### evaluation -/

/-- `parameters.get(l).value`; `none` = no such parameter -/
def valueOf : List Param → String → Option Val
  | [], _ => none
  | p :: rest, l => if p.label = l then some p.value else valueOf rest l

def find : List Param → String → Option Param
  | [], _ => none
  | p :: rest, l => if p.label = l then some p else find rest l

/-- float arithmetic with NaN propagation (exact on the rationals otherwise) -/
def arith (op : Rat → Rat → Rat) : Val → Val → Val
  | some a, some b => some (op a b)
  | _, _ => none

def Expr.refs : Expr → List String
  | .lit _ => []
  | .ref l => [l]
  | .neg a => a.refs
  | .add a b | .sub a b | .mul a b | .div a b => a.refs ++ b.refs
  | .call1 _ a => a.refs
  | .call2 _ a b => a.refs ++ b.refs

def eval (F : Funs) (env : List Param) : Expr → Except EvalErr Val
  | .lit q => .ok (some q)
  | .ref l =>
    match valueOf env l with
    | some v => .ok v
    | none => .error (.unknownLabel l)
  | .neg a => do let x ← eval F env a; pure (x.map (fun q => -q))
  | .add a b => do let x ← eval F env a; let y ← eval F env b; pure (arith (· + ·) x y)
  | .sub a b => do let x ← eval F env a; let y ← eval F env b; pure (arith (· - ·) x y)
  | .mul a b => do let x ← eval F env a; let y ← eval F env b; pure (arith (· * ·) x y)
  | .div a b => do
      let x ← eval F env a
      let y ← eval F env b
      if y = some 0 then .error .divZero else pure (arith (· / ·) x y)
  | .call1 f a => do
      let x ← eval F env a
      match F.f1 f x with
      | some v => pure v
      | none => .error (.call f [x])
  | .call2 f a b => do
      let x ← eval F env a
      let y ← eval F env b
      match F.f2 f x y with
      | some v => pure v
      | none => .error (.call f [x, y])

/-! ### update_parameter_expression -/

/-- `parameter.value = v` on the parameter labelled `l` -/
def setValue (env : List Param) (l : String) (v : Val) : List Param :=
  env.map (fun p => if p.label = l then { p with value := v } else p)

/-- Python `new != old` on floats (NaN differs from everything) -/
def valNe : Val → Option Val → Bool
  | some a, some (some b) => a != b
  | _, _ => true

/-- one pass: the parameters `todo` in order, each expression evaluated on the *current*
    values `env` and stored at once; the flag records whether any stored value differed -/
def passAux (F : Funs) : List Param → List Param → Bool → Res (List Param × Bool)
  | [], env, ch => .ok (env, ch)
  | p :: rest, env, ch =>
    match p.expr with
    | none => passAux F rest env ch
    | some e =>
      match eval F env e with
      | .error why => .error (.expr p.label why, env)
      | .ok v => passAux F rest (setValue env p.label v) (ch || valNe v (valueOf env p.label))

def pass (F : Funs) (env : List Param) : Res (List Param × Bool) := passAux F env env false

/-- repeat passes while something changed, at most `n` of them -/
def loop (F : Funs) : Nat → List Param → Res (List Param)
  | 0, env => .ok env
  | n + 1, env =>
    match pass F env with
    | .error e => .error e
    | .ok (env', changed) => if changed then loop F n env' else .ok env'

def exprCount (ps : List Param) : Nat := (ps.filter (fun p => p.expr.isSome)).length

/-- `Parameters.update_parameter_expression` (fixed code) -/
def update (F : Funs) (ps : List Param) : Res (List Param) := loop F (exprCount ps) ps

/-- the code before the fix of D3: a single pass -/
def passOnce (F : Funs) (ps : List Param) : Res (List Param) :=
  match pass F ps with
  | .error e => .error e
  | .ok (env, _) => .ok env

/-- `k` passes, whatever they report (the loop of `update` is `passes` for the right `k`) -/
def passes (F : Funs) : Nat → List Param → Res (List Param)
  | 0, env => .ok env
  | k + 1, env =>
    match pass F env with
    | .error e => .error e
    | .ok (env', _) => passes F k env'

/-! ### the callers -/

/-- `set_transformed_expression`: a parameter with an expression does not vary -/
def normalize (p : Param) : Param := if p.expr.isSome then { p with vary := false } else p

/-- `parameters[label] = parameter` -/
def dictInsert (d : List Param) (p : Param) : List Param :=
  if d.any (fun q => q.label = p.label) then d.map (fun q => if q.label = p.label then p else q)
  else d ++ [p]

def ofList (items : List Param) : List Param :=
  items.foldl (fun d p => dictInsert d (normalize p)) []

/-- `Parameters.__init__` behind from_list / from_dict / from_parameter_dict_list / from_dataframe -/
def construct (F : Funs) (items : List Param) : Res (List Param) := update F (ofList items)

/-- `Parameters.copy` : every parameter is re-created, then `__init__` -/
def copy (F : Funs) (ps : List Param) : Res (List Param) := construct F ps

/-- `Parameter.set_value_from_optimization` -/
def fromOptimization (F : Funs) (p : Param) (v : Val) : Option Val :=
  if p.nonNeg then F.f1 "exp" v else some v

def setAll (F : Funs) : List Param → List (String × Val) → Res (List Param)
  | env, [] => .ok env
  | env, (l, v) :: rest =>
    match find env l with
    | none => .error (.notFound l, env)
    | some p =>
      match fromOptimization F p v with
      | none => .error (.fn "exp" [v], env)
      | some v' => setAll F (setValue env l v') rest

/-- `Parameters.set_from_label_and_value_arrays` -/
def setFromArrays (F : Funs) (ps : List Param) (labels : List String) (values : List Val) :
    Res (List Param) :=
  if labels.length ≠ values.length then .error (.lengthMismatch, ps)
  else
    match setAll F ps (labels.zip values) with
    | .error e => .error e
    | .ok ps' => update F ps'

/-- the double `1 + 1e-10` -/
def onePlusEps : Rat := 562949953477607 / 562949953421312

/-- argument of `np.log` in `_log_value`: exactly 1 is nudged to `1 + 1e-10` -/
def logArg : Val → Val
  | none => none
  | some q => some (if q = 1 then onePlusEps else q)

/-- `_log_value` (NaN is returned as it is) -/
def logValue (F : Funs) : Val → Option Val
  | none => some none
  | some q => F.f1 "log" (logArg (some q))

def collect (F : Funs) (excl : Bool) : List Param → List Param → Res (List (String × Val))
  | _, [] => .ok []
  | env, p :: rest =>
    if !excl || p.vary then
      match (if p.nonNeg then logValue F p.value else some p.value) with
      | none => .error (.fn "log" [logArg p.value], env)
      | some v =>
        match collect F excl env rest with
        | .error e => .error e
        | .ok out => .ok ((p.label, v) :: out)
    else collect F excl env rest

/-- `Parameters.get_label_value_and_bounds_arrays` (labels and values; bounds: C11) -/
def arrays (F : Funs) (ps : List Param) (excl : Bool) : Res (List Param × List (String × Val)) :=
  match update F ps with
  | .error e => .error e
  | .ok ps' =>
    match collect F excl ps' ps' with
    | .error e => .error e
    | .ok out => .ok (ps', out)

/-! ### driver -/
open Glotaran.Proto

structure DState where
  ps : List Param := []
  table : List (String × List Val × Val) := []

def pyLt : Val → Val → Bool
  | some a, some b => a < b
  | _, _ => false

def lookupTable (t : List (String × List Val × Val)) (f : String) (args : List Val) : Option Val :=
  match t with
  | [] => none
  | (g, a, v) :: rest => if g = f ∧ a = args then some v else lookupTable rest f args

/-- `abs` is numpy's, `min`/`max` are Python's two-argument builtins; everything else comes from
    the harness-supplied table (a miss is an explicit `call` error, never a default) -/
def driverFuns (t : List (String × List Val × Val)) : Funs where
  f1 := fun f x =>
    if f = "abs" then some (x.map (fun q => if q < 0 then -q else q))
    else lookupTable t f [x]
  f2 := fun f x y =>
    if f = "min" then some (if pyLt y x then y else x)
    else if f = "max" then some (if pyLt x y then y else x)
    else lookupTable t f [x, y]

def showVal : Val → String
  | none => "nan"
  | some q => showRat q

def parseVal? : Tree → Option Val
  | .atom "nan" => some none
  | t => t.rat?.map some

def showVals (vs : List Val) : String := showList (vs.map showVal)

partial def parseExpr? : Tree → Option Expr
  | .list [.atom "lit", q] => do some (.lit (← q.rat?))
  | .list [.atom "ref", l] => do some (.ref (← l.str?))
  | .list [.atom "neg", a] => do some (.neg (← parseExpr? a))
  | .list [.atom "add", a, b] => do some (.add (← parseExpr? a) (← parseExpr? b))
  | .list [.atom "sub", a, b] => do some (.sub (← parseExpr? a) (← parseExpr? b))
  | .list [.atom "mul", a, b] => do some (.mul (← parseExpr? a) (← parseExpr? b))
  | .list [.atom "div", a, b] => do some (.div (← parseExpr? a) (← parseExpr? b))
  | .list [.atom "call1", f, a] => do some (.call1 (← f.str?) (← parseExpr? a))
  | .list [.atom "call2", f, a, b] => do some (.call2 (← f.str?) (← parseExpr? a) (← parseExpr? b))
  | _ => none

def parseParam? : Tree → Option Param
  | .list [l, v, e, vary, nn] => do
      some { label := ← l.str?, value := ← parseVal? v, expr := ← e.optOf? parseExpr?,
             vary := ← vary.bool?, nonNeg := ← nn.bool? }
  | _ => none

def showState (ps : List Param) : String :=
  showList (ps.map (fun p => showList [encodeStr p.label, showVal p.value, showBool p.vary]))

def showEvalErr : EvalErr → String
  | .unknownLabel l => s!"unknown {encodeStr l}"
  | .divZero => "divzero"
  | .call f args => s!"call {encodeStr f} {showVals args}"

def showErr : Err → String
  | .lengthMismatch => "err length"
  | .notFound l => s!"err notfound {encodeStr l}"
  | .expr l why => s!"err expr {encodeStr l} {showEvalErr why}"
  | .fn f args => s!"err fn {encodeStr f} {showVals args}"

/-- protocol
    `fun f [args] v`      add a function value to the table
    `new [param,…]`       construct (state := the new object, or empty when construction raises)
    `set [labels] [vals]` set_from_label_and_value_arrays
    `update`              update_parameter_expression
    `once`                the single pass of the unfixed code (regression witness only)
    `copy`                state of `copy()`; the object itself is untouched
    `arrays T|F`          get_label_value_and_bounds_arrays(exclude_non_vary)
    `setraw l v`          `parameters.get(l).value = v` (no update)
    `show`                current state
    `passes k`            k unconditional passes (what the loop amounts to: `update_terminates`)
    `scan [texts]`        per text `[rewrite, [labels], [quoted literals of the rewritten text]]`
    `tok [code points]`   membership in the character class of the pattern, `T|F` each
    `subst text [[label,replacement],…]`  `sub` with a function of the label (Parameter.markdown); a label
                          without an entry is replaced by `?label?`
    a state is printed as `[[label,value,vary],…]` -/
def driverStep (s : DState) (ts : List Tree) : DState × String :=
  let F := driverFuns s.table
  let fin (r : Res (List Param)) (keepOnErr : Bool) : DState × String :=
    match r with
    | .ok ps => ({ s with ps := ps }, s!"ok {showState ps}")
    | .error (e, left) => ({ s with ps := if keepOnErr then left else [] }, showErr e)
  match ts with
  | [.atom "fun", f, args, v] =>
    match f.str?, args.listOf? parseVal?, parseVal? v with
    | some f, some args, some v => ({ s with table := (f, args, v) :: s.table }, "fun")
    | _, _, _ => (s, "bad-op")
  | [.atom "new", items] =>
    match items.listOf? parseParam? with
    | some items => fin (construct F items) false
    | none => (s, "bad-op")
  | [.atom "set", ls, vs] =>
    match ls.strs?, vs.listOf? parseVal? with
    | some ls, some vs => fin (setFromArrays F s.ps ls vs) true
    | _, _ => (s, "bad-op")
  | [.atom "update"] => fin (update F s.ps) true
  | [.atom "once"] => fin (passOnce F s.ps) true
  | [.atom "copy"] =>
    match copy F s.ps with
    | .ok ps => (s, s!"ok {showState ps}")
    | .error (e, _) => (s, showErr e)
  | [.atom "arrays", b] =>
    match b.bool? with
    | some excl =>
      match arrays F s.ps excl with
      | .ok (ps, out) =>
        ({ s with ps := ps },
         s!"ok {showStrs (out.map (·.1))} {showVals (out.map (·.2))} {showState ps}")
      | .error (e, left) => ({ s with ps := left }, showErr e)
    | none => (s, "bad-op")
  | [.atom "setraw", l, v] =>
    match l.str?, parseVal? v with
    | some l, some v =>
      match find s.ps l with
      | some _ => let ps := setValue s.ps l v; ({ s with ps := ps }, s!"ok {showState ps}")
      | none => (s, showErr (.notFound l))
    | _, _ => (s, "bad-op")
  | [.atom "show"] => (s, s!"ok {showState s.ps}")
  | [.atom "passes", k] =>
    match k.nat? with
    | some k => fin (passes F k s.ps) true
    | none => (s, "bad-op")
  | [.atom "scan", ts] =>
    match ts.strs? with
    | some ts =>
      (s, showList (ts.map (fun t =>
        let r := rewriteL t.toList
        showList [encodeStr (String.ofList r), showStrs (labelStrings t), showStrs ((quoted r).map String.ofList)])))
    | none => (s, "bad-op")
  | [.atom "subst", t, tab] =>
    match t.str?, tab.listOf? (fun e => match e with
        | .list [l, r] => do some ((← l.str?).toList, (← r.str?).toList)
        | _ => none) with
    | some t, some tab =>
      let f := fun (l : List Char) =>
        match tab.find? (fun e => e.1 == l) with
        | some e => e.2
        | none => '?' :: l ++ ['?']
      (s, s!"ok {encodeStr (String.ofList (substL f t.toList))}")
    | _, _ => (s, "bad-op")
  | [.atom "tok", ns] =>
    match ns.nats? with
    | some ns => (s, showList (ns.map (fun n => showBool (isTokN n))))
    | none => (s, "bad-op")
  | _ => (s, "bad-op")

end Glotaran.C12
