/-
C15 — types of the *statement tables* that `harness/props/c15.py` (`generate`) regenerates from the
source text of `glotaran/optimization/optimizer.py` (Python `ast`) on every run, and that the state
machine of GlotaranModel/C15.lean interprets.  A table lists the effectful statements of one method
in source order; pure bookkeeping (dictionary stores of numbers, numpy arithmetic) is left out.  A
statement with an effect the extractor does not know becomes `unknown src`, which the machine
turns into an internal error — so the theorems of Props/C15.lean, which are proved about the
machine *instantiated with the regenerated tables*, stop compiling when the source is reordered
or grows a new effect.
-/
namespace Glotaran.C15

/-- which `Parameters` object a statement reads its arrays from.  Reading the arrays
    (`get_label_value_and_bounds_arrays`, also inside `ParameterHistory.append`) runs
    `update_parameter_expression()` on that object *in place*; on a `.copy()` the refresh is lost -/
inductive ParamRef where
  | own          -- `self._parameters`
  | ownCopy      -- `self._parameters.copy()`
  | scheme       -- `scheme.parameters` / `self._scheme.parameters` (the caller's object)
  | schemeCopy   -- `….parameters.copy()`
  deriving Repr, DecidableEq

/-- `Optimizer.__init__` -/
inductive InitStep where
  | checkMissingData        -- `if missing_datasets := […]: raise MissingDatasetsError`
  | checkParametersNone     -- `if scheme.parameters is None: raise ParameterNotInitializedError`
  | copyParameters          -- `self._parameters = scheme.parameters.copy()`
  | checkMethod             -- `if … not in SUPPORTED_METHODS: raise UnsupportedMethodError`
  | createTee               -- `self._tee = TeeContext()` (remembers the current `sys.stdout`)
  | createGroups            -- `[OptimizationGroup(scheme, group) for …]`
  | appendHistory (src : ParamRef)   -- `self._parameter_history.append(<src>)`
  | unknown (src : String)
  deriving Repr, DecidableEq

/-- `Optimizer.calculate_penalty` -/
inductive PenaltyStep where
  | evaluate                         -- `for group in …: group.calculate(self._parameters)`
  | appendHistory (src : ParamRef)   -- `self._parameter_history.append(<src>, iteration)`
  | unknown (src : String)
  deriving Repr, DecidableEq

/-- `Optimizer.objective_function` -/
inductive ObjectiveStep where
  | setFree              -- `self._parameters.set_from_label_and_value_arrays(free_labels, x)`
  | calculatePenalty     -- `return self.calculate_penalty()`
  | unknown (src : String)
  deriving Repr, DecidableEq

/-- body of the `try:` in `Optimizer.optimize` -/
inductive TryStep where
  | leastSquares            -- `self._optimization_result = least_squares(self.objective_function, …)`
  | setReasonFromResult     -- `self._termination_reason = self._optimization_result.message`
  | unknown (src : String)
  deriving Repr, DecidableEq

/-- body of `except Exception as e:` in `Optimizer.optimize` -/
inductive HandlerStep where
  | reraiseIfRaise          -- `if self._raise: raise e`
  | warn                    -- `warn(f"Optimization failed:\n\n{e}")`
  | setReasonFromException  -- `self._termination_reason = str(e)`
  | unknown (src : String)
  deriving Repr, DecidableEq

/-- `Optimizer.optimize`: `<start vector>`; `with self._tee: try: … except Exception as e: …` -/
structure OptimizeTable where
  /-- the object whose arrays give the free labels / start vector / bounds -/
  startVector : ParamRef
  /-- the `try` statement is the body of `with self._tee:` -/
  teeWrapsTry : Bool
  tryBody : List TryStep
  handler : List HandlerStep
  deriving Repr, DecidableEq

/-- condition under which a statement of `create_result` runs -/
inductive Guard where
  | always
  | ifSuccess       -- inside `if success:`
  | ifNotSuccess    -- inside `if not success:` / `elif not success:`
  deriving Repr, DecidableEq

/-- `Optimizer.create_result` -/
inductive CrStep where
  | readSuccess             -- `success = self._optimization_result is not None`
  | checkInitial            -- `if self._parameter_history.number_of_records == 1: raise InitialParameterError()`
  | restore (back : Nat)    -- `self._parameters.set_from_history(self._parameter_history, -back)`
  | bindHistory             -- `"parameter_history": self._parameter_history` (a reference)
  | readReason              -- `"termination_reason": self._termination_reason` (a string: read now)
  | readNfev                -- `"number_of_function_evaluations": result.nfev if success else number_of_records` (read now)
  | setFromResult           -- `self._parameters.set_from_label_and_value_arrays(free_labels, result.x)`
  | covariance              -- `self.calculate_covariance_matrix_and_standard_errors(…)` (numpy SVD)
  | calculatePenalty        -- `full_penalty = self.calculate_penalty()`
  | readAdditionalPenalty   -- `[group.get_additional_penalties() for group in …]`
  | bindParameters          -- `result_args["optimized_parameters"] = self._parameters` (a reference)
  | finalCalculate          -- `for group in …: group.calculate(self._parameters)`
  | createResultData        -- `… group.create_result_data()` in the same loop
  | construct               -- `return Result(**result_args)`
  | unknown (src : String)
  deriving Repr, DecidableEq

structure GStep where
  guard : Guard
  step : CrStep
  deriving Repr, DecidableEq

end Glotaran.C15
