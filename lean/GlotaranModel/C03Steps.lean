/-
C03 — result assembly as *tables regenerated from the source text*, and their interpreter.

The vocabulary below is what the translator (harness/props/_c03_steps.py, pure `ast`) writes into
`GlotaranModel/Generated/C03Steps.lean` for

  glotaran/optimization/estimation_provider.py : EstimationProviderUnlinked.get_result   → `UnlinkedTable`
                                                 EstimationProviderLinked.get_result     → `LinkedTable`
  glotaran/optimization/optimization_group.py  : OptimizationGroup.create_result_data,
                                                 OptimizationGroup.add_weight_to_result_data → `List Stmt` each
  glotaran/optimization/optimizer.py           : Optimizer.create_result (the loop over groups) → `CreateResultTable`

i.e. which variable is written under which name, with which dims and coordinates, from which container, in
which order.  The interpreter gives every entry its meaning over the operations of the hand-written model
(`ofColumns`, `chunk`, `divMat`, `subMat`, `retrieveClps`, …); Props/C03.lean proves the interpretation of the
regenerated tables equal to `unlinkedResult` / `linkedResultsOwn` / `resultsOwn`.

Whatever the translator cannot express is an `untranslatable` node, on which the interpreter answers `none`
(stuck) — the equality theorems then do not build.

Array values.  `NV.phys r c rows` is a 2-D numpy array of shape (r, c) given by its rows; `.T` is
`ofColumns` (entry (i, j) ↦ (j, i)).  A labelled array (`Labelled`) is rows + dimension names; the residual of
a result dataset is read in (model × global) layout whatever the order of the names (xarray aligns by name).
In `create_result_data` an `xr.DataArray` over (model, global) is `DV.arr o m`: `m` is its content in
(model × global) layout and `o` the stored order of the dims; a bare numpy array is `DV.raw m t` (physical
layout `m` when `t = false`, its transpose when `t = true`); arithmetic between two labelled arrays goes by
dimension name, between a labelled and a bare array by position.
-/
import GlotaranModel.C03
import GlotaranModel.C03Sort
namespace Glotaran.C03.Steps
open Glotaran.LinAlg Glotaran.C02 Glotaran.C03

/-! ### vocabulary -/

inductive Dim where
  | model | global | clpLabel | globalClpLabel
  | untranslatable (why : String)
  deriving Repr, DecidableEq

inductive Coord where
  | modelAxis | globalAxis | clpLabels | globalClpLabels
  | untranslatable (why : String)
  deriving Repr, DecidableEq

inductive SizeE where
  /-- `global_axis.size` -/
  | globalSize
  /-- `model_axis.size` -/
  | modelSize
  /-- `len(clp_labels)` of the dataset's matrix container -/
  | nClpLabels
  /-- `len(global_clp_labels)` of the dataset's global matrix container -/
  | nGlobalClpLabels
  | untranslatable (why : String)
  deriving Repr, DecidableEq

/-- numpy-level expressions of `get_result` -/
inductive AE where
  /-- `self._residuals[label]` -/
  | ownResiduals
  /-- `self._clps[label]` -/
  | ownClps
  /-- linked: a list filled in the loop over the aligned axis (after the re-ordering statements) -/
  | parts (name : String)
  /-- `np.array(e)` -/
  | npArray (e : AE)
  /-- `e.reshape(rows, cols)` -/
  | reshape (e : AE) (rows cols : SizeE)
  /-- `e.T` -/
  | T (e : AE)
  | untranslatable (why : String)
  deriving Repr

/-- `xr.DataArray(value, coords=…, dims=…)` -/
structure ArrayOut where
  value : AE
  dims : List Dim
  coords : List (Dim × Coord)
  deriving Repr

/-- `EstimationProviderUnlinked.get_result`: what is stored under `residuals[label]` / `clps[label]`, with and
    without a global model (`has_dataset_model_global_model(dataset_model)`) -/
structure UnlinkedTable where
  fullResidual : ArrayOut
  fullClp : ArrayOut
  residual : ArrayOut
  clp : ArrayOut
  deriving Repr

/-- integers collected per aligned index -/
inductive KeyE where
  /-- `get_aligned_dataset_indices(index)[group_datasets.index(dataset_label)]`: the dataset's own global index -/
  | thisOwnIndex
  | untranslatable (why : String)
  deriving Repr

/-- offsets into the stacked residual of an aligned index -/
inductive OffE where
  /-- `sum(get_model_axis(label).size for label in group_datasets[:group_datasets.index(dataset_label)])` -/
  | sumModelSizesBefore
  /-- `e + get_model_axis(dataset_label).size` -/
  | plusOwnModelSize (e : OffE)
  | untranslatable (why : String)
  deriving Repr

/-- vectors collected per aligned index -/
inductive VecE where
  /-- `[self._clps[index][aligned_full_clp_labels[index].index(label)] for label in clp_labels]` with
      `clp_labels` the labels of the dataset's own matrix container, as a DataArray over `clp_label` -/
  | clpsByLabel
  /-- `self._residuals[index][start:stop]` -/
  | residualSlice (start stop : OffE)
  | untranslatable (why : String)
  deriving Repr

inductive Reorder where
  /-- `name = [name[i] for i in np.argsort(keys)]` -/
  | byArgsort (keys : String)
  | untranslatable (why : String)
  deriving Repr

/-- `xr.concat(parts, dim=dim)` followed by `.coords[dim] = coord` -/
structure ConcatOut where
  parts : String
  dim : Dim
  coord : Coord
  deriving Repr

/-- `EstimationProviderLinked.get_result`, per dataset -/
structure LinkedTable where
  /-- the loop body starts with `if dataset_label not in group_datasets: continue` -/
  skipNonMembers : Bool
  keyLists : List (String × KeyE)
  vecLists : List (String × VecE)
  reorder : List (String × Reorder)
  clps : ConcatOut
  residuals : ArrayOut
  deriving Repr

/-- expressions over the result dataset in `create_result_data` / `add_weight_to_result_data` -/
inductive DE where
  /-- `result_dataset["name"]` / `result_dataset.name` -/
  | dsVar (name : String)
  /-- `residuals[label]`, `clps[label]`, `matrices[label]`, `global_matrices[label]` -/
  | fromResult (dict : String)
  /-- the local `weight` = `self._data_provider.get_weight(dataset_label)` -/
  | weight
  | T (e : DE)
  | div (a b : DE)
  | sub (a b : DE)
  | mul (a b : DE)
  /-- `(result_dataset.data.dims, e)` -/
  | withDataDims (e : DE)
  /-- the value of a local re-bound under `if result_dataset.data.dims[0] != get_model_dimension(label)` -/
  | ifDim0NotModel (thenE elseE : DE)
  /-- `1 if dataset_model.scale is None else dataset_model.scale.value` -/
  | scaleOr1
  /-- a side-effect free expression whose value the C03 model does not look at (statistics attributes, C13) -/
  | opaque
  | untranslatable (why : String)
  deriving Repr

inductive Guard where
  /-- `if "name" not in result_dataset:` -/
  | varMissing (name : String)
  /-- `if label in <dict>:` -/
  | inResult (dict : String)
  /-- `if self._add_svd:` -/
  | addSvd
  /-- `if "name" in result_dataset:` -/
  | varPresent (name : String)
  | untranslatable (why : String)
  deriving Repr

inductive Act where
  /-- `result_dataset["name"] = e` -/
  | setVar (name : String) (e : DE)
  /-- `result_dataset.attrs["name"] = e` -/
  | setAttr (name : String) (e : DE)
  /-- `if weight is None: return` -/
  | returnIfWeightNone
  /-- `self.add_weight_to_result_data(label, result_dataset)` -/
  | callAddWeight
  /-- `self.add_svd_data(name, result_dataset, …)`: adds `name_left_singular_vectors` … only -/
  | addSvdData (name : String)
  /-- `finalize_dataset_model(dataset_model, result_dataset)`: megacomplex specific extra variables -/
  | finalize
  | untranslatable (why : String)
  deriving Repr

structure Stmt where
  guards : List Guard
  act : Act
  deriving Repr

/-- `Optimizer.create_result`: the loop that fills `result_args["data"]` -/
structure CreateResultTable where
  /-- `for group in self._optimization_groups:` -/
  overGroupsInOrder : Bool
  /-- `group.calculate(self._parameters)` precedes `create_result_data` inside the loop, with the optimizer's
      current parameters object -/
  calculatesWithCurrentParameters : Bool
  /-- `result_args["data"].update(group.create_result_data())` -/
  updatesDataWithGroupResult : Bool
  deriving Repr, DecidableEq

/-! ### interpreter: estimation providers -/

/-- order of the dims of an array over the model and the global dimension -/
inductive Orient where
  | mg | gm
  deriving Repr, DecidableEq


inductive NV where
  /-- Python list of 1-D arrays, all of length `width` -/
  | list (width : Nat) (vs : List Vec)
  | flat (v : Vec)
  | phys (r c : Nat) (rows : List Vec)
  deriving Repr

structure EstCtx where
  nModel : Nat
  nGlobal : Nat
  clpLabels : List String
  globalClpLabels : List String
  residuals : NV
  clps : NV
  parts : List (String × List Vec) := []
  deriving Repr

def evalSize (c : EstCtx) : SizeE → Option Nat
  | .globalSize => some c.nGlobal
  | .modelSize => some c.nModel
  | .nClpLabels => some c.clpLabels.length
  | .nGlobalClpLabels => some c.globalClpLabels.length
  | .untranslatable _ => none

def lookupS {α} (l : List (String × α)) (x : String) : Option α :=
  match l with
  | [] => none
  | (k, v) :: rest => if k == x then some v else lookupS rest x

def evalAE (c : EstCtx) : AE → Option NV
  | .ownResiduals => some c.residuals
  | .ownClps => some c.clps
  | .parts n => (lookupS c.parts n).map (NV.list c.nModel)
  | .npArray e =>
    match evalAE c e with
    | some (.list w vs) => some (.phys vs.length w vs)
    | some (.flat v) => some (.flat v)
    | some (.phys r k rows) => some (.phys r k rows)
    | none => none
  | .reshape e r k =>
    match evalAE c e, evalSize c r, evalSize c k with
    | some (.flat v), some r, some k => some (.phys r k (chunk k r v))
    | _, _, _ => none
  | .T e =>
    match evalAE c e with
    | some (.phys r k rows) => some (.phys k r (ofColumns k rows))
    | _ => none
  | .untranslatable _ => none

structure Labelled where
  dims : List Dim
  rows : List Vec
  deriving Repr

def expectedCoord : Dim → Coord
  | .model => .modelAxis
  | .global => .globalAxis
  | .clpLabel => .clpLabels
  | .globalClpLabel => .globalClpLabels
  | .untranslatable w => .untranslatable w

def lookupD (l : List (Dim × Coord)) (x : Dim) : Option Coord :=
  match l with
  | [] => none
  | (k, v) :: rest => if k = x then some v else lookupD rest x

/-- every dimension carries the coordinate it is named after (the dataset's own axes / label lists) -/
def coordsOK (o : ArrayOut) : Bool :=
  o.dims.all (fun d => match d with
    | .untranslatable _ => false
    | _ => decide (lookupD o.coords d = some (expectedCoord d)))

def evalOut (c : EstCtx) (o : ArrayOut) : Option Labelled :=
  if coordsOK o then
    match evalAE c o.value with
    | some (.phys _ _ rows) => some ⟨o.dims, rows⟩
    | some (.list _ vs) => some ⟨o.dims, vs⟩
    | _ => none
  else none

/-- a labelled residual: the order of its dims and its content in (model × global) layout -/
def residualOf (nModel : Nat) (l : Labelled) : Option (Orient × Mat) :=
  if l.dims = [.model, .global] then some (.mg, l.rows)
  else if l.dims = [.global, .model] then some (.gm, ofColumns nModel l.rows)
  else none

/-- a labelled clp table read as one row per `rowDim` entry -/
def clpsOf (rowDim : Dim) (l : Labelled) : Option (List Vec) :=
  if l.dims = [rowDim, .clpLabel] then some l.rows else none

/-- what `get_result` hands to `create_result_data` for one dataset -/
structure EstOut where
  clpLabels : List String
  clps : List Vec
  /-- order of the dims of the residual DataArray (arithmetic with a bare numpy array goes by position) -/
  residualOrient : Orient
  residual : Mat
  deriving Repr

def unlinkedOut (t : UnlinkedTable) (full : Bool) (c : EstCtx) : Option EstOut :=
  if full then
    match (evalOut c t.fullResidual).bind (residualOf c.nModel), (evalOut c t.fullClp).bind (clpsOf .globalClpLabel) with
    | some r, some k => some ⟨c.clpLabels, k, r.1, r.2⟩
    | _, _ => none
  else
    match (evalOut c t.residual).bind (residualOf c.nModel), (evalOut c t.clp).bind (clpsOf .global) with
    | some r, some k => some ⟨c.clpLabels, k, r.1, r.2⟩
    | _, _ => none

/-! ### interpreter: the linked provider -/

/-- the state `EstimationProviderLinked.get_result` reads, for one member dataset `dk` of the group -/
structure LinkCtx where
  mi : ModelItems
  da : List (Dataset × List Rat)
  axis : List Rat
  sols : List (IndexProblem × (Vec × Vec))
  dk : Dataset × List Rat

def ownLabels (d : Dataset) : List String :=
  match datasetMatrix d.mcs with | some lm => lm.labels | none => []

def evalKey (c : LinkCtx) (vs : Rat × IndexProblem × (Vec × Vec)) : KeyE → Option Nat
  | .thisOwnIndex => some (c.dk.2.idxOf vs.1)
  | .untranslatable _ => none

def evalOff (c : LinkCtx) (v : Rat) : OffE → Option Nat
  | .sumModelSizesBefore =>
    some ((((c.da.takeWhile (fun e => e.1.label != c.dk.1.label)).filter (fun e => e.2.contains v)).map
      (fun e => e.1.nModel)).foldl (· + ·) 0)
  | .plusOwnModelSize e => (evalOff c v e).map (· + c.dk.1.nModel)
  | .untranslatable _ => none

def evalVec (c : LinkCtx) (vs : Rat × IndexProblem × (Vec × Vec)) : VecE → Option Vec
  | .clpsByLabel =>
    let p := vs.2.1
    let full := retrieveClps c.mi p.fullLabels p.reduced.labels vs.2.2.1 p.x
    some ((ownLabels c.dk.1).map (fun l => match p.fullLabels.idxOf? l with | some j => full.getD j 0 | none => 0))
  | .residualSlice a b =>
    match evalOff c vs.1 a, evalOff c vs.1 b with
    | some s, some e => some ((vs.2.2.2.drop s).take (e - s))
    | _, _ => none
  | .untranslatable _ => none

def applyReorder (keys : List (String × List Nat)) (env : List (String × List Vec)) :
    List (String × Reorder) → Option (List (String × List Vec))
  | [] => some env
  | (name, .byArgsort k) :: rest =>
    match lookupS keys k, lookupS env name with
    | some ks, some xs => applyReorder keys ((name, pickOrder (argsort ks) xs) :: env) rest
    | _, _ => none
  | (_, .untranslatable _) :: _ => none

/-- `[f x for x in l]` where every `f x` may be stuck -/
def mapOpt {α β} (f : α → Option β) : List α → Option (List β)
  | [] => some []
  | a :: l =>
    match f a, mapOpt f l with
    | some b, some bs => some (b :: bs)
    | _, _ => none

def collectKeys (c : LinkCtx) (hits : List (Rat × IndexProblem × (Vec × Vec))) :
    List (String × KeyE) → Option (List (String × List Nat))
  | [] => some []
  | (n, e) :: rest =>
    match mapOpt (fun vs => evalKey c vs e) hits, collectKeys c hits rest with
    | some l, some r => some ((n, l) :: r)
    | _, _ => none

def collectVecs (c : LinkCtx) (hits : List (Rat × IndexProblem × (Vec × Vec))) :
    List (String × VecE) → Option (List (String × List Vec))
  | [] => some []
  | (n, e) :: rest =>
    match mapOpt (fun vs => evalVec c vs e) hits, collectVecs c hits rest with
    | some l, some r => some ((n, l) :: r)
    | _, _ => none

def linkedOut (t : LinkedTable) (c : LinkCtx) : Option EstOut :=
  if !t.skipNonMembers then none else
  let hits := (c.axis.zip c.sols).filter (fun vs => c.dk.2.contains vs.1)
  match collectKeys c hits t.keyLists, collectVecs c hits t.vecLists with
  | some keys, some env =>
    match applyReorder keys env t.reorder with
    | none => none
    | some env =>
      let ec : EstCtx := { nModel := c.dk.1.nModel, nGlobal := c.dk.1.nGlobal, clpLabels := ownLabels c.dk.1,
                           globalClpLabels := [], residuals := .flat [], clps := .flat [], parts := env }
      match lookupS env t.clps.parts, (evalOut ec t.residuals).bind (residualOf ec.nModel) with
      | some cl, some r =>
        if t.clps.dim = .global ∧ t.clps.coord = .globalAxis then some ⟨ownLabels c.dk.1, cl, r.1, r.2⟩ else none
      | _, _ => none
  | _, _ => none

/-! ### interpreter: `create_result_data` / `add_weight_to_result_data` -/

inductive DV where
  /-- DataArray over (model, global): content in (model × global) layout, stored order of the dims -/
  | arr (o : Orient) (m : Mat)
  /-- numpy array: physical layout `m` (`t = false`) or the transpose of `m` (`t = true`) -/
  | raw (m : Mat) (t : Bool)
  /-- `(dims, array)` -/
  | tagged (o : Orient) (m : Mat) (t : Bool)
  /-- the clp table handed over by the estimation provider -/
  | clpTable (labels : List String) (rows : List Vec)
  /-- matrices of the matrix provider (their content is checked by `matrixAt`, not here) -/
  | other
  | num (q : Rat)
  deriving Repr

/-- transpose of a list-of-rows matrix -/
def tr (m : Mat) : Mat := ofColumns (m.headD []).length m

structure DsState where
  stored : Orient                       -- `result_dataset.data.dims`: (model, global) or (global, model)
  d : Dataset
  est : EstOut
  vars : List (String × DV)
  attrs : List (String × DV) := []
  returned : Bool := false

def binop (f : Mat → Mat → Mat) (a b : DV) : Option DV :=
  match a, b with
  | .arr o x, .arr _ y => some (.arr o (f x y))
  | .arr o x, .raw y t => some (.arr o (if (o == .gm) == t then f x y else f x (tr y)))
  | .raw x t, .arr o y => some (.arr o (if (o == .gm) == t then f x y else f (tr x) y))
  | _, _ => none

def mulMat (a b : Mat) : Mat := List.zipWith (fun r s => List.zipWith (· * ·) r s) a b

def evalDE (s : DsState) : DE → Option DV
  | .dsVar n => lookupS s.vars n
  | .fromResult "residuals" => some (.arr s.est.residualOrient s.est.residual)
  | .fromResult "clps" => some (.clpTable s.est.clpLabels s.est.clps)
  | .fromResult "matrices" => some .other
  | .fromResult "global_matrices" => some .other
  | .fromResult _ => none
  | .weight => s.d.weight.map (fun w => .raw w false)
  | .T e =>
    match evalDE s e with
    | some (.raw m t) => some (.raw m (!t))
    | _ => none
  | .div a b => match evalDE s a, evalDE s b with | some x, some y => binop divMat x y | _, _ => none
  | .sub a b => match evalDE s a, evalDE s b with | some x, some y => binop subMat x y | _, _ => none
  | .mul a b => match evalDE s a, evalDE s b with | some x, some y => binop mulMat x y | _, _ => none
  | .withDataDims e =>
    match evalDE s e with
    | some (.raw m t) => some (.tagged s.stored m t)
    | _ => none
  | .ifDim0NotModel a b => if s.stored = .gm then evalDE s a else evalDE s b
  | .scaleOr1 => some (.num (s.d.scale.getD 1))
  | .opaque => some .other
  | .untranslatable _ => none

def guardHolds (s : DsState) : Guard → Option Bool
  | .varMissing n => some (lookupS s.vars n).isNone
  | .varPresent n => some (lookupS s.vars n).isSome
  | .inResult "global_matrices" => some (!s.d.gmcs.isEmpty)
  | .inResult _ => none
  | .addSvd => some false          -- `add_svd` writes only variables of other names (prepare_dataset; not modelled)
  | .untranslatable _ => none

def guardsHold (s : DsState) : List Guard → Option Bool
  | [] => some true
  | g :: gs => match guardHolds s g with
    | some true => guardsHold s gs
    | some false => some false
    | none => none

def setV (s : DsState) (n : String) (v : DV) : DsState := { s with vars := (n, v) :: s.vars }

/-- one statement; `addWeight` is the body of `add_weight_to_result_data` (run by `callAddWeight`) -/
def stepAct (addWeight : DsState → Option DsState) (s : DsState) : Act → Option DsState
  | .setVar n e =>
    match evalDE s e with
    | some (.arr o m) => some (setV s n (.arr o m))
    | some (.tagged o m t) => some (setV s n (.arr o (if (o == .gm) == t then m else tr m)))
    | some (.clpTable l r) => some (setV s n (.clpTable l r))
    | some .other => some (setV s n .other)
    | _ => none                      -- a bare numpy array cannot be stored without dims
  | .setAttr n e =>
    match evalDE s e with
    | some v => some { s with attrs := (n, v) :: s.attrs }
    | none => none
  | .returnIfWeightNone => some (if s.d.weight.isNone then { s with returned := true } else s)
  | .callAddWeight => (addWeight { s with returned := false }).map (fun s' => { s' with returned := false })
  | .addSvdData _ => some s
  | .finalize => some s
  | .untranslatable _ => none

def runStmts (addWeight : DsState → Option DsState) : List Stmt → DsState → Option DsState
  | [], s => some s
  | st :: rest, s =>
    if s.returned then some s else
    match guardsHold s st.guards with
    | none => none
    | some false => runStmts addWeight rest s
    | some true =>
      match stepAct addWeight s st.act with
      | none => none
      | some s' => runStmts addWeight rest s'

/-- the assembled result dataset read back: the fields of `DsResult`, the reported weight variable and the
    `dataset_scale` attribute -/
structure Assembled where
  result : DsResult
  weightVar : Option Mat
  scaleAttr : Option Rat
  deriving Repr

def matOf : Option DV → Option Mat
  | some (.arr _ m) => some m
  | _ => none

def readBack (s : DsState) : Option Assembled :=
  match lookupS s.vars "clp", matOf (lookupS s.vars "residual"), matOf (lookupS s.vars "fitted_data") with
  | some (.clpTable labels rows), some res, some fit =>
    let wres := matOf (lookupS s.vars "weighted_residual")
    some ⟨⟨s.d.label, labels, rows, res, wres, fit⟩, matOf (lookupS s.vars "weight"),
          match lookupS s.attrs "dataset_scale" with | some (.num q) => some q | _ => none⟩
  | _, _, _ => none

/-- `create_result_data` for one dataset: `result_datasets[label] = data.copy()` (plus the dataset's own
    `weight` variable when `ownWeightVar`), then the statements of the loop body -/
def assemble (create addW : List Stmt) (stored : Orient) (ownWeightVar : Bool) (d : Dataset) (est : EstOut) :
    Option Assembled :=
  let vars0 : List (String × DV) :=
    if ownWeightVar then
      match d.weight with
      | some w => [("weight", .arr stored w), ("data", .arr stored d.data)]
      | none => [("data", .arr stored d.data)]
    else [("data", .arr stored d.data)]
  let s0 : DsState := { stored := stored, d := d, est := est, vars := vars0 }
  -- `add_weight_to_result_data` does not call itself
  (runStmts (runStmts (fun _ => none) addW) create s0).bind readBack

/-! ### the whole path, per dataset and per group -/

structure Tables where
  unlinked : UnlinkedTable
  linked : LinkedTable
  create : List Stmt
  addWeight : List Stmt
  createResult : CreateResultTable

/-- the containers `EstimationProviderUnlinked` holds after `estimate()` for one dataset -/
def unlinkedCtx (mi : ModelItems) (s : Solver) (d : Dataset) : Option (Bool × EstCtx) :=
  if !d.gmcs.isEmpty then
    match fullModelProblem d, datasetMatrix d.mcs, datasetMatrix d.gmcs with
    | some (a, y), some lm, some gm =>
      (solveLS s a y).map (fun cr =>
        (true, { nModel := d.nModel, nGlobal := d.nGlobal, clpLabels := lm.labels, globalClpLabels := gm.labels,
                 residuals := .flat cr.2, clps := .flat cr.1 }))
    | _, _, _ => none
  else
    match unlinkedProblems mi d with
    | none => none
    | some ps =>
      (ps.mapM (fun p => (solveLS s p.reduced.m p.data).map (fun cr => (p, cr)))).map (fun sols =>
        let labels := ownLabels d
        (false, { nModel := d.nModel, nGlobal := d.nGlobal, clpLabels := labels, globalClpLabels := [],
                  residuals := .list d.nModel (sols.map (fun pc => pc.2.2)),
                  clps := .list labels.length
                    (sols.map (fun pc => retrieveClps mi pc.1.fullLabels pc.1.reduced.labels pc.2.1 pc.1.x)) }))

def genUnlinked (t : Tables) (stored : Orient) (ownW : Bool) (mi : ModelItems) (s : Solver) (d : Dataset) :
    Option Assembled :=
  match unlinkedCtx mi s d with
  | none => none
  | some (full, c) => (unlinkedOut t.unlinked full c).bind (assemble t.create t.addWeight stored ownW d)

def genLinkedOne (t : Tables) (stored : Orient) (ownW : Bool) (c : LinkCtx) : Option Assembled :=
  (linkedOut t.linked c).bind (assemble t.create t.addWeight stored ownW c.dk.1)

/-- a linked group: every dataset may be stored in its own dimension order (`stored d.label`) -/
def genLinked (t : Tables) (stored : String → Orient) (ownW : String → Bool) (mi : ModelItems) (g : Group) :
    Option (List Assembled) :=
  match alignAxes (g.datasets.map (·.globalAxis)) g.tol g.method, linkedProblems mi g with
  | some aligned, some (axis, ps) =>
    match ps.mapM (fun p => (solveLS g.solver p.reduced.m p.data).map (fun cr => (p, cr))) with
    | none => none
    | some sols =>
      mapOpt (fun dk =>
        genLinkedOne t (stored dk.1.label) (ownW dk.1.label) ⟨mi, g.datasets.zip aligned, axis, sols, dk⟩) (g.datasets.zip aligned)
  | _, _ => none

def genGroup (t : Tables) (stored : String → Orient) (ownW : String → Bool) (mi : ModelItems) (g : Group) :
    Option (List Assembled) :=
  if g.linked then genLinked t stored ownW mi g
  else mapOpt (fun d => genUnlinked t (stored d.label) (ownW d.label) mi g.solver d) g.datasets

/-- `Optimizer.create_result`: `for group in groups: group.calculate(parameters); data.update(group.create_result_data())` -/
def genResults (t : Tables) (stored : String → Orient) (ownW : String → Bool) (mi : ModelItems) (gs : List Group) :
    Option (List Assembled) :=
  if t.createResult = ⟨true, true, true⟩ then (mapOpt (genGroup t stored ownW mi) gs).map List.flatten else none

end Glotaran.C03.Steps
