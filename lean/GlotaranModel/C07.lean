/-
C07 — oscillation, artifact and spectral basis functions obey their definitions
(glotaran/builtin/megacomplexes/damped_oscillation/damped_oscillation_megacomplex.py,
 pfid/pfid_megacomplex.py, coherent_artifact/coherent_artifact_megacomplex.py,
 spectral/shape.py, spectral/spectral_megacomplex.py, decay/irf.py; after fixes D5, D6, D7).

The code computes in doubles and calls `exp`, `log`, `erf`, complex `exp`.  The model is written
once over an abstract number type `α` with exactly the operations the code applies (`RNum α` for
the real-valued code, `CNum α` adds `1j`, `.real`, `.imag` for the oscillation kernels): *which* operation is applied to *which* operand — rate, frequency, time,
centre, width, shift, scale, branch, window, column, global index — is the model; evaluating the
elementary functions is not.  `scipy.special.erf` is an explicit parameter `erf : α → α`.
  * executable instance `α = Term` (free terms over exact rationals and the variable `t`): the
    driver prints one term per matrix column and global index; the harness evaluates it on the
    model axis with numpy/scipy doubles (and with mpmath) and compares with the real matrix;
  * theorem instances `RNum ℝ` and `CNum ℂ` (GlotaranProofs/Lemmas/C07.lean).
Every matrix column is a function of the time / spectral coordinate `t : α`.
-/
import GlotaranModel.Proto
namespace Glotaran.C07

/-- the arithmetic the modelled code performs on doubles (numpy applies the same operation names to
    real and to complex operands; so does this interface) -/
class RNum (α : Type) where
  ofRat : Rat → α
  add : α → α → α
  sub : α → α → α
  mul : α → α → α
  div : α → α → α
  neg : α → α
  abs : α → α
  exp : α → α
  log : α → α
  /-- `x ** n`, `np.square`, `np.power(x, n)` -/
  pow : α → Nat → α
  /-- `np.mod` -/
  fmod : α → α → α
  /-- `np.sqrt(2)` -/
  sqrt2 : α
  /-- `np.pi` -/
  pi : α
  /-- `np.log(2)` -/
  ln2 : α
  /-- `c if a < b else d` (numpy masks / `np.where`) -/
  ifLt : α → α → α → α → α
  /-- `c if a == b else d` -/
  ifEq : α → α → α → α → α

/-- … plus what the oscillation kernels need from complex doubles -/
class CNum (α : Type) extends RNum α where
  /-- `1j` -/
  I : α
  /-- `.real` -/
  re : α → α
  /-- `.imag` -/
  im : α → α

open RNum CNum

/-- left-to-right sum starting from `init` (`matrix += …` in a loop, `np.sum` of a short array) -/
def sumFrom {α : Type} [RNum α] (init : α) (xs : List α) : α := xs.foldl add init

/-- the only algebraic laws the comparison of translated source with the model relies on: `+` and `*`
    of the number type commute (true of ℝ, of ℂ and of IEEE doubles; not of the free terms) -/
class CommNum (α : Type) [RNum α] : Prop where
  add_comm : ∀ a b : α, RNum.add a b = RNum.add b a
  mul_comm : ∀ a b : α, RNum.mul a b = RNum.mul b a

/-! ## errors the modelled code raises -/

inductive Err where
  | irfLength          -- ModelError: len(centers) != len(widths) and none of them is 1
  | scaleLength        -- ModelError: len(scales) != number of Gaussians (fix D24, /repo 4bdb9de)
  | noShift (i : Nat)  -- ModelError: no shift parameter for index i
  | noDispersionCenter -- ModelError: dispersion coefficients without dispersion center
  | noIndex            -- TypeError: index-dependent quantity asked for without a global index
  | axisTooShort       -- ValueError: argmin of an empty sequence (model axis with < 2 points)
  | noIrf              -- ModelError / ValueError: megacomplex needs a Gaussian IRF
  | order              -- ModelError: coherent artifact order outside [1, 3]
  | zipStrict          -- ValueError: zip(strict=True) on centres / widths / scales of unequal length
  | unsupported        -- configuration outside the model (PFID with a non-negative rate)
  deriving Repr, DecidableEq, Inhabited

def Err.show : Err → String
  | .irfLength => "irfLength"
  | .scaleLength => "scaleLength"
  | .noShift i => s!"noShift:{i}"
  | .noDispersionCenter => "noDispersionCenter"
  | .noIndex => "noIndex"
  | .axisTooShort => "axisTooShort"
  | .noIrf => "noIrf"
  | .order => "order"
  | .zipStrict => "zipStrict"
  | .unsupported => "unsupported"

/-! ## `decay/irf.py` — `IrfMultiGaussian.parameter`, `IrfSpectralMultiGaussian.parameter` -/

/-- the IRF item (multi-gaussian / gaussian and their spectral variants) with filled parameters -/
structure Irf (α : Type) where
  centers : List α
  widths : List α
  scales : Option (List α) := none
  shifts : Option (List α) := none
  /-- `IrfSpectralMultiGaussian` (or `IrfSpectralGaussian`) -/
  spectral : Bool := false
  dispCenter : Option α := none
  centerDisp : List α := []
  widthDisp : List α := []
  /-- `model_dispersion_with_wavenumber` -/
  wavenumber : Bool := false
  deriving Repr, Inhabited

/-- what `irf.parameter(global_index, global_axis)` returns (backsweep is not used by C07's code) -/
structure IrfPar (α : Type) where
  centers : List α
  widths : List α
  scales : List α
  shift : α
  deriving Repr, Inhabited

section real
variable {α : Type} [RNum α]

/-- the broadcasting of one centre to many widths or one width to many centres -/
def broadcast (cs ws : List α) : Except Err (List α × List α) :=
  if cs.length = ws.length then .ok (cs, ws)
  else if min cs.length ws.length ≠ 1 then .error .irfLength
  else
    match cs, ws with
    | [c], _ => .ok (ws.map (fun _ => c), ws)
    | _, [w] => .ok (cs, cs.map (fun _ => w))
    | _, _ => .error .irfLength

/-- `IrfMultiGaussian.is_index_dependent` / `IrfSpectralMultiGaussian.is_index_dependent` -/
def Irf.indexDependent (irf : Irf α) : Bool :=
  irf.shifts.isSome || (irf.spectral && irf.dispCenter.isSome)

/-- `IrfMultiGaussian.parameter` -/
def Irf.baseParameter (irf : Irf α) (idx : Option Nat) : Except Err (IrfPar α) :=
  match broadcast irf.centers irf.widths with
  | .error e => .error e
  | .ok (cs, ws) =>
    let scales : List α := irf.scales.getD (cs.map (fun _ => ofRat 1))
    match decide (scales.length = cs.length), irf.shifts with
    | false, _ => .error .scaleLength
    | true, none => .ok ⟨cs, ws, scales, ofRat 0⟩
    | true, some sh =>
      match idx with
      | none => .error .noIndex
      | some i =>
        match sh[i]? with
        | some s => .ok ⟨cs, ws, scales, s⟩
        | none => .error (.noShift i)

/-- `dist`: `(index - dispersion_center) / 100` or `1e3 / index - 1e3 / dispersion_center` -/
def dispDist (wavenumber : Bool) (x d : α) : α :=
  if wavenumber then sub (div (ofRat 1000) x) (div (ofRat 1000) d)
  else div (sub x d) (ofRat 100)

/-- the loop `for i, disp in enumerate(coefficients): value += disp * np.power(dist, i + 1)` -/
def addDispersion (coeffs : List α) (dist : α) (v : α) : α :=
  (coeffs.zipIdx).foldl (fun acc ci => add acc (mul ci.1 (pow dist (ci.2 + 1)))) v

/-- `IrfSpectralMultiGaussian.parameter` (and `IrfMultiGaussian.parameter` when not spectral) -/
def Irf.parameter (irf : Irf α) (idx : Option Nat) (axis : List α) : Except Err (IrfPar α) :=
  match irf.baseParameter idx with
  | .error e => .error e
  | .ok p =>
    if !irf.spectral then .ok p
    else
      match irf.dispCenter with
      | none =>
        if irf.centerDisp.length ≠ 0 || irf.widthDisp.length ≠ 0 then .error .noDispersionCenter
        else .ok p
      | some d =>
        match idx.bind (fun i => axis[i]?) with
        | none => .error .noIndex
        | some x =>
          let dist := dispDist irf.wavenumber x d
          .ok ⟨p.centers.map (addDispersion irf.centerDisp dist),
               p.widths.map (addDispersion irf.widthDisp dist), p.scales, p.shift⟩

/-- the position of a Gaussian of the IRF on the model axis as the **decay** megacomplexes use it
    (`decay/util.py`: `centers - shift`) and as `retrieve_irf` reports it (`irf_shift`) -/
def decayEffectiveCentre (c shift : α) : α := sub c shift

/-- `zip(centers, widths, scales)` -/
def zip3 : List α → List α → List α → List (α × α × α)
  | c :: cs, w :: ws, s :: ss => (c, w, s) :: zip3 cs ws ss
  | _, _, _ => []

/-- run `f` for every global index `0 … n-1`, stop at the first error (the code's `for` loop) -/
def forIndices {β : Type} (n : Nat) (f : Nat → Except Err β) : Except Err (List β) :=
  (List.range n).mapM f

/-- a megacomplex matrix: index independent (`flat`, 2-d) or one slice per global index (3-d);
    every column is given at the symbolic coordinate `t` -/
inductive Matrix (α : Type) where
  | flat (cols : List α)
  | indexed (slices : List (List α))
  deriving Repr, Inhabited

/-! ## frequency conversion of the damped oscillation -/

/-- `np.array(self.frequencies) * 0.03 * 2 * np.pi`: wavenumber (cm⁻¹) → angular frequency (rad/ps) -/
def angular (ν : α) : α := mul (mul (mul ν (ofRat (3/100))) (ofRat 2)) pi

/-- `np.abs(model_axis[1:] - model_axis[:-1])` -/
def deltas : List α → List α
  | a :: b :: rest => abs (sub b a) :: deltas (b :: rest)
  | _ => []

/-- `delta[np.argmin(delta)]` -/
def minOf : List α → Option α
  | [] => none
  | d :: ds => some (ds.foldl (fun m x => ifLt x m x m) d)

/-- `delta_min`; `none` = ValueError (fewer than two axis points) -/
def deltaMin (axis : List α) : Option α := minOf (deltas axis)

/-- `frequency_max = 1 / (2 * 0.03 * delta_min)` -/
def frequencyMax (dmin : α) : α := div (ofRat 1) (mul (mul (ofRat 2) (ofRat (3/100))) dmin)

/-- `frequencies[frequencies >= frequency_max] = np.mod(…, frequency_max)` (note N1) -/
def wrap (ω fmax : α) : α := ifLt ω fmax ω (fmod ω fmax)

/-- the angular frequency `calculate_matrix` hands to the kernels -/
def oscFrequency (dmin ν : α) : α := wrap (angular ν) (frequencyMax dmin)

/-- initial fill of the damped oscillation matrix (`np.zeros`, after fix D6) -/
def oscFill : α := ofRat 0

/-- `shifted_axis = model_axis - (center - shift)` (after fix D7) -/
def shiftedTime (t c shift : α) : α := sub t (sub c shift)

/-- `spectral_axis_inverted` / `spectral_axis_scale` applied to a value `v`:
    `scale / v` if inverted, `v * scale` if `scale != 1`, else `v` -/
def axisConvert (inverted : Bool) (scale : α) (v : α) : α :=
  if inverted then div scale v else ifEq scale (ofRat 1) v (mul v scale)

/-- `frequency_diff = (global_axis_value - frequencies) * 0.03 * 2 * np.pi` -/
def pfidFrequency (x ν : α) : α := mul (mul (mul (sub x ν) (ofRat (3/100))) (ofRat 2)) pi

/-! ## coherent artifact -/

/-- `matrix[:, 0] = np.exp(-1 * (axis - center) ** 2 / (2 * width**2))` -/
def artifactGauss (c w t : α) : α :=
  exp (div (mul (ofRat (-1)) (pow (sub t c) 2)) (mul (ofRat 2) (pow w 2)))

/-- `matrix[:, 1] = matrix[:, 0] * (center - axis) / width**2` -/
def artifactFirst (c w t : α) : α :=
  div (mul (artifactGauss c w t) (sub c t)) (pow w 2)

/-- `matrix[:, 2] = matrix[:, 0] * (center**2 - width**2 - 2 * center * axis + axis**2) / width**4` -/
def artifactSecond (c w t : α) : α :=
  div (mul (artifactGauss c w t)
        (add (sub (sub (pow c 2) (pow w 2)) (mul (mul (ofRat 2) c) t)) (pow t 2)))
      (pow w 4)

/-- `_calculate_coherent_artifact_matrix_on_index` -/
def artifactColumns (order : Nat) (c w t : α) : List α :=
  [artifactGauss c w t] ++ (if order > 1 then [artifactFirst c w t] else []) ++
    (if order > 2 then [artifactSecond c w t] else [])

/-- the stores of `_calculate_coherent_artifact_matrix_on_index` in program order:
    (column, `some k` = executed only `if order > k`, value) -/
def artifactStoreTable (c w t : α) : List (Nat × Option Nat × α) :=
  [(0, none, artifactGauss c w t), (1, some 1, artifactFirst c w t), (2, some 2, artifactSecond c w t)]

/-- the values of the stores that are executed for a given `order`, in program order -/
def executedStores (order : Nat) (stores : List (Nat × Option Nat × α)) : List (Nat × α) :=
  stores.filterMap (fun s =>
    match s.2.1 with
    | none => some (s.1, s.2.2)
    | some k => if order > k then some (s.1, s.2.2) else none)

/-- `get_irf_parameter`: `center[0] - shift`, own width or `width[0]`;
    an empty centre / width list is an IndexError (`noIrf` here) -/
def artifactIrfParameter (irf : Irf α) (ownWidth : Option α) (idx : Option Nat) (axis : List α) :
    Except Err (α × α) :=
  match irf.parameter idx axis with
  | .error e => .error e
  | .ok p =>
    match p.centers, ownWidth, p.widths with
    | c :: _, some w, _ => .ok (sub c p.shift, w)
    | c :: _, none, w :: _ => .ok (sub c p.shift, w)
    | _, _, _ => .error .noIrf

/-- `compartments()` -/
def artifactLabels (label : String) (order : Nat) : List String :=
  (List.range order).map (fun i => s!"coherent_artifact_{i + 1}_{label}")

/-- `CoherentArtifactMegacomplex.calculate_matrix` -/
def artifactMatrix (label : String) (order : Nat) (ownWidth : Option α) (irf : Option (Irf α))
    (globalAxis : List α) (t : α) : Except Err (List String × Matrix α) :=
  if order < 1 || order > 3 then .error .order
  else
    match irf with
    | none => .error .noIrf
    | some irf =>
      if irf.indexDependent then
        match forIndices globalAxis.length (fun i =>
            (artifactIrfParameter irf ownWidth (some i) globalAxis).map
              (fun cw => artifactColumns order cw.1 cw.2 t)) with
        | .error e => .error e
        | .ok slices => .ok (artifactLabels label order, .indexed slices)
      else
        match artifactIrfParameter irf ownWidth none globalAxis with
        | .error e => .error e
        | .ok cw => .ok (artifactLabels label order, .flat (artifactColumns order cw.1 cw.2 t))

/-! ## spectral shapes -/

/-- `np.exp(-np.log(2) * np.square(2 * (axis - location) / width))`, times the amplitude if given -/
def gaussianShape (amp : Option α) (x0 Δ x : α) : α :=
  let s := exp (mul (neg ln2) (pow (div (mul (ofRat 2) (sub x x0)) Δ) 2))
  match amp with
  | some a => mul s a
  | none => s

/-- `log_args = 1 + (2 * skewness * (axis - location) / width)` -/
def skewedTheta (x0 Δ b x : α) : α :=
  add (ofRat 1) (div (mul (mul (ofRat 2) b) (sub x x0)) Δ)

/-- the skewed branch: zero where `log_args <= 0`,
    `exp(-log(2) * square(log(log_args) / skewness))` elsewhere, times the amplitude if given -/
def skewedFormula (amp : Option α) (x0 Δ b x : α) : α :=
  let θ := skewedTheta x0 Δ b x
  let s := ifLt (ofRat 0) θ (exp (mul (neg ln2) (pow (div (log θ) b) 2))) (ofRat 0)
  match amp with
  | some a => mul s a
  | none => s

/-- `SpectralShapeSkewedGaussian.calculate`: `np.allclose(skewness, 0)` (|b| ≤ 1e-8) switches to the
    plain Gaussian -/
def skewedShape (amp : Option α) (x0 Δ b x : α) : α :=
  ifLt (ofRat (1/100000000)) (abs b) (skewedFormula amp x0 Δ b x) (gaussianShape amp x0 Δ x)

inductive Shape (α : Type) where
  | gaussian (amp : Option α) (x0 Δ : α)
  | skewed (amp : Option α) (x0 Δ b : α)
  | one
  | zero
  deriving Repr, Inhabited

def Shape.calculate : Shape α → α → α
  | .gaussian a x0 Δ, x => gaussianShape a x0 Δ x
  | .skewed a x0 Δ b, x => skewedShape a x0 Δ b x
  | .one, _ => ofRat 1
  | .zero, _ => ofRat 0

/-- `SpectralMegacomplex.calculate_matrix`: compartments in dict order, every shape evaluated on
    the converted axis (`matrix[:, i] += shape.calculate(model_axis)` on zeros) -/
def spectralMatrix (inverted : Bool) (scale : α) (shapes : List (String × Shape α)) (x : α) :
    List String × Matrix α :=
  (shapes.map (·.1),
   .flat (shapes.map (fun s => add (ofRat 0) (s.2.calculate (axisConvert inverted scale x)))))

/-- the rows of the spectral matrix on a concrete model axis (any order of the points): row `i` is the
    column list at `axis[i]` -/
def spectralMatrixOnAxis (inverted : Bool) (scale : α) (shapes : List (String × Shape α)) (axis : List α) :
    List (List α) :=
  axis.map (fun x => shapes.map (fun s => add (ofRat 0) (s.2.calculate (axisConvert inverted scale x))))

/-- first column carrying label `lab` (`clp_labels.index(label)`) -/
def columnOf (m : List String × List α) (lab : String) : Option α := (m.1.zip m.2).lookup lab

/-- `MatrixProvider.combine_megacomplex_matrices` for two index-independent matrices at one axis point: labels of the
    left, then the new labels of the right; every column starts from zero and adds the left and the right column of its
    label (several spectral megacomplexes of one dataset may give a shape to the same compartment: the shapes add up) -/
def combineFlat (l r : List String × List α) : List String × List α :=
  let labels := l.1 ++ r.1.filter (fun c => !l.1.contains c)
  (labels, labels.map (fun lab =>
    let z : α := match columnOf l lab with
      | some v => add (ofRat 0) v
      | none => ofRat 0
    match columnOf r lab with
    | some v => add z v
    | none => z))

/-- `calculate_dataset_matrix` of a dataset whose megacomplexes are all spectral: the first matrix as it is, every
    further one combined from the left -/
def spectralDatasetMatrix (inverted : Bool) (scale : α) (megas : List (List (String × Shape α))) (x : α) :
    List String × List α :=
  let ms : List (List String × List α) := megas.map (fun sh =>
    (sh.map (·.1), sh.map (fun s => add (ofRat 0) (s.2.calculate (axisConvert inverted scale x)))))
  match ms with
  | [] => ([], [])
  | m :: rest => rest.foldl combineFlat m

end real

/-! ## damped oscillation and PFID kernels (complex doubles) -/
section complex
variable {α : Type} [CNum α]

/-- `np.exp(-rate * axis - 1j * frequency * axis)` -/
def oscNoIrf (γ ω t : α) : α := exp (sub (mul (neg γ) t) (mul (mul I ω) t))

/-- `a * b` of `calculate_damped_oscillation_matrix_gaussian_irf` for one oscillation, one Gaussian,
    at shifted time `t'`, without the index windows:
    `exp((-1 * t' + 0.5 * dk) * k) * (1 + erf((t' - dk) / ±sqwidth))`, `k = γ + 1j*ω`, `dk = k * w**2`;
    `flip` = the sign flip of `sqwidth` used for negative rates -/
def irfKernel (erf : α → α) (flip : Bool) (γ ω w t' : α) : α :=
  let k : α := add γ (mul I ω)
  let dk : α := mul k (pow w 2)
  let sqw : α := mul sqrt2 w
  let a : α := exp (mul (add (mul (ofRat (-1)) t') (mul (ofRat (1/2)) dk)) k)
  let b : α := add (ofRat 1) (erf (div (sub t' dk) (if flip then neg sqw else sqw)))
  mul a b

/-- one oscillation × one Gaussian of the IRF: windows (`shifted < 5σ` for negative rates,
    `shifted > -5σ` otherwise), zero outside, `* scale` -/
def oscIrfGauss (erf : α → α) (γ ω : α) (shift : α) (cws : α × α × α) (t : α) : α :=
  let t' := shiftedTime t cws.1 shift
  ifLt γ (ofRat 0)
    (ifLt t' (mul (ofRat 5) cws.2.1) (mul (irfKernel erf true γ ω cws.2.1 t') cws.2.2) (ofRat 0))
    (ifLt (mul (ofRat (-5)) cws.2.1) t' (mul (irfKernel erf false γ ω cws.2.1 t') cws.2.2) (ofRat 0))

/-- `calculate_damped_oscillation_matrix_gaussian_irf_on_index`, one oscillation: the complex
    contributions of the Gaussians (`zip` truncates to the shortest of centres/widths/scales) -/
def oscIrfParts (erf : α → α) (p : IrfPar α) (γ ω t : α) : List α :=
  (zip3 p.centers p.widths p.scales).map (fun cws => oscIrfGauss erf γ ω p.shift cws t)

/-- `(fill + Σ_g part_g.real) / np.sum(scales)` (cos column) -/
def oscIrfCos (erf : α → α) (p : IrfPar α) (γ ω t : α) : α :=
  div (sumFrom oscFill ((oscIrfParts erf p γ ω t).map re)) (sumFrom (ofRat 0) p.scales)

/-- … and the imaginary parts (sin column) -/
def oscIrfSin (erf : α → α) (p : IrfPar α) (γ ω t : α) : α :=
  div (sumFrom oscFill ((oscIrfParts erf p γ ω t).map im)) (sumFrom (ofRat 0) p.scales)

/-- one oscillation: label, frequency parameter (cm⁻¹), rate parameter -/
structure Osc (α : Type) where
  label : String
  ν : α
  γ : α
  deriving Repr, Inhabited

/-- `clp_label`: all `_cos` labels, then all `_sin` labels -/
def oscLabels (oscs : List (Osc α)) : List String :=
  oscs.map (fun o => o.label ++ "_cos") ++ oscs.map (fun o => o.label ++ "_sin")

/-- the columns of the no-IRF kernel (after fix D5): real parts first, imaginary parts second -/
def oscNoIrfColumns (dmin : α) (oscs : List (Osc α)) (t : α) : List α :=
  oscs.map (fun o => re (oscNoIrf o.γ (oscFrequency dmin o.ν) t)) ++
  oscs.map (fun o => im (oscNoIrf o.γ (oscFrequency dmin o.ν) t))

/-- the columns with a Gaussian IRF at the IRF parameters `p` of one global index -/
def oscIrfColumns (erf : α → α) (dmin : α) (p : IrfPar α) (oscs : List (Osc α)) (t : α) : List α :=
  oscs.map (fun o => oscIrfCos erf p o.γ (oscFrequency dmin o.ν) t) ++
  oscs.map (fun o => oscIrfSin erf p o.γ (oscFrequency dmin o.ν) t)

/-- `DampedOscillationMegacomplex.calculate_matrix` -/
def oscMatrix (erf : α → α) (oscs : List (Osc α)) (irf : Option (Irf α)) (globalAxis modelAxis : List α)
    (t : α) : Except Err (List String × Matrix α) :=
  match deltaMin modelAxis with
  | none => .error .axisTooShort
  | some dmin =>
    match irf with
    | none => .ok (oscLabels oscs, .flat (oscNoIrfColumns dmin oscs t))
    | some irf =>
      if irf.indexDependent then
        match forIndices globalAxis.length (fun i =>
            (irf.parameter (some i) globalAxis).map (fun p => oscIrfColumns erf dmin p oscs t)) with
        | .error e => .error e
        | .ok slices => .ok (oscLabels oscs, .indexed slices)
      else
        match irf.parameter none globalAxis with
        | .error e => .error e
        | .ok p => .ok (oscLabels oscs, .flat (oscIrfColumns erf dmin p oscs t))

/-- PFID, one oscillation × one Gaussian: only the negative-rate (anti-causal) branch exists,
    with a leading minus: `osc = -(a * b) * scale` -/
def pfidGauss (erf : α → α) (γ ω : α) (shift : α) (cws : α × α × α) (t : α) : α :=
  let t' := shiftedTime t cws.1 shift
  ifLt t' (mul (ofRat 5) cws.2.1) (mul (neg (irfKernel erf true γ ω cws.2.1 t')) cws.2.2) (ofRat 0)

def pfidParts (erf : α → α) (p : IrfPar α) (γ ω t : α) : List α :=
  (zip3 p.centers p.widths p.scales).map (fun cws => pfidGauss erf γ ω p.shift cws t)

def pfidCos (erf : α → α) (p : IrfPar α) (γ ω t : α) : α :=
  div (sumFrom (ofRat 0) ((pfidParts erf p γ ω t).map re)) (sumFrom (ofRat 0) p.scales)

def pfidSin (erf : α → α) (p : IrfPar α) (γ ω t : α) : α :=
  div (sumFrom (ofRat 0) ((pfidParts erf p γ ω t).map im)) (sumFrom (ofRat 0) p.scales)

/-- columns of one global index with axis value `x` -/
def pfidColumns (erf : α → α) (inverted : Bool) (scale : α) (p : IrfPar α) (x : α)
    (oscs : List (Osc α)) (t : α) : List α :=
  oscs.map (fun o => pfidCos erf p o.γ (pfidFrequency x (axisConvert inverted scale o.ν)) t) ++
  oscs.map (fun o => pfidSin erf p o.γ (pfidFrequency x (axisConvert inverted scale o.ν)) t)

/-- `PFIDMegacomplex.calculate_matrix`: always one slice per global index; `zip(strict=True)`.
    `allNegative` is the fact that every rate is negative (the only configuration the kernel
    supports; anything else is `unsupported`). -/
def pfidMatrix (erf : α → α) (allNegative : Bool) (inverted : Bool) (scale : α) (oscs : List (Osc α))
    (irf : Option (Irf α)) (globalAxis : List α) (t : α) : Except Err (List String × Matrix α) :=
  match irf with
  | none => .error .noIrf
  | some irf =>
    match forIndices globalAxis.length (fun i =>
        match irf.parameter (some i) globalAxis, globalAxis[i]? with
        | .error e, _ => .error e
        | .ok _, none => .error .noIndex
        | .ok p, some x =>
          if p.centers.length ≠ p.widths.length || p.widths.length ≠ p.scales.length then
            .error .zipStrict
          else if !allNegative then .error .unsupported
          else .ok (pfidColumns erf inverted scale p x oscs t)) with
    | .error e => .error e
    | .ok slices => .ok (oscLabels oscs, .indexed slices)

end complex

/-! ## executable instance: free terms over exact rationals and the coordinate variable -/

inductive Term where
  | q (r : Rat)
  | t                       -- the model-axis coordinate
  | const (name : String)   -- sqrt2, pi, ln2, I
  | un (op : String) (a : Term)
  | bin (op : String) (a b : Term)
  | powN (a : Term) (n : Nat)
  | ite (op : String) (a b c d : Term)
  deriving Repr, Inhabited

/-- exact value of a term built from rationals with `+ - * / neg abs pow` only -/
def Term.rat? : Term → Option Rat
  | .q r => some r
  | .un "neg" a => a.rat?.map (fun x => -x)
  | .un "abs" a => a.rat?.map (fun x => if x < 0 then -x else x)
  | .bin "add" a b => do some ((← a.rat?) + (← b.rat?))
  | .bin "sub" a b => do some ((← a.rat?) - (← b.rat?))
  | .bin "mul" a b => do some ((← a.rat?) * (← b.rat?))
  | .bin "div" a b => do
    let y ← b.rat?
    if y = 0 then none else some ((← a.rat?) / y)
  | .powN a n => a.rat?.map (fun x => x ^ n)
  | _ => none

/-- the number is a double (or an integer): its denominator is a power of two.  Decimal literals of
    the source (`1e-8`, `0.03`) are *not* — the code sees their nearest double, so comparisons
    against them are left to the harness -/
def isDyadic (r : Rat) : Bool := r.den.isPowerOfTwo

/-- a comparison whose operands are exact rationals is decided here (it keeps the printed terms
    small: `delta_min`, the sign of a rate, `scale != 1`); anything involving the coordinate `t`,
    `π`, `√2` stays symbolic and is decided by the harness in doubles -/
def Term.mkIte (op : String) (a b c d : Term) : Term :=
  match a.rat?, b.rat? with
  | some x, some y =>
    if !(isDyadic x && isDyadic y) then .ite op a b c d
    else if op == "iflt" then (if x < y then c else d)
    else if op == "ifeq" then (if x = y then c else d)
    else .ite op a b c d
  | _, _ => .ite op a b c d

instance : CNum Term where
  ofRat := .q
  add := .bin "add"
  sub := .bin "sub"
  mul := .bin "mul"
  div := .bin "div"
  neg := .un "neg"
  abs := .un "abs"
  exp := .un "exp"
  log := .un "log"
  pow := .powN
  fmod := .bin "fmod"
  sqrt2 := .const "sqrt2"
  pi := .const "pi"
  ln2 := .const "ln2"
  ifLt := Term.mkIte "iflt"
  ifEq := Term.mkIte "ifeq"
  I := .const "I"
  re := .un "re"
  im := .un "im"

/-! ## driver -/
open Glotaran.Proto

def showTerm : Term → String
  | .q r => showRat r
  | .t => "t"
  | .const n => n
  | .un op a => s!"[{op},{showTerm a}]"
  | .bin op a b => s!"[{op},{showTerm a},{showTerm b}]"
  | .powN a n => s!"[pow,{showTerm a},{n}]"
  | .ite op a b c d => s!"[{op},{showTerm a},{showTerm b},{showTerm c},{showTerm d}]"

def showTerms (xs : List Term) : String := showList (xs.map showTerm)

def showMatrix : Matrix Term → String
  | .flat cols => s!"flat {showTerms cols}"
  | .indexed slices => s!"indexed {showList (slices.map showTerms)}"

def showResult : Except Err (List String × Matrix Term) → String
  | .error e => s!"err {e.show}"
  | .ok (labels, m) => s!"ok {showStrs labels} {showMatrix m}"

def termOf (t : Tree) : Option Term := t.rat?.map Term.q
def termsOf (t : Tree) : Option (List Term) := Tree.listOf? termOf t

/-- `[centers,widths,scales|none,shifts|none,spectral,dispCenter|none,centerDisp,widthDisp,wavenumber]` or `none` -/
def parseIrf : Tree → Option (Option (Irf Term))
  | .atom "none" => some none
  | .list [cs, ws, sc, sh, sp, dc, cd, wd, wn] => do
    some (some { centers := ← termsOf cs, widths := ← termsOf ws,
                 scales := ← Tree.optOf? termsOf sc, shifts := ← Tree.optOf? termsOf sh,
                 spectral := ← sp.bool?, dispCenter := ← Tree.optOf? termOf dc,
                 centerDisp := ← termsOf cd, widthDisp := ← termsOf wd, wavenumber := ← wn.bool? })
  | _ => none

/-- `[[label,ν,γ],…]` -/
def parseOscs (t : Tree) : Option (List (Osc Term)) :=
  Tree.listOf? (fun
    | .list [l, ν, γ] => do some { label := ← l.str?, ν := ← termOf ν, γ := ← termOf γ }
    | _ => none) t

def parseShape : Tree → Option (String × Shape Term)
  | .list [l, .atom "gaussian", a, x0, w] => do
    some (← l.str?, .gaussian (← Tree.optOf? termOf a) (← termOf x0) (← termOf w))
  | .list [l, .atom "skewed", a, x0, w, b] => do
    some (← l.str?, .skewed (← Tree.optOf? termOf a) (← termOf x0) (← termOf w) (← termOf b))
  | .list [l, .atom "one"] => do some (← l.str?, .one)
  | .list [l, .atom "zero"] => do some (← l.str?, .zero)
  | _ => none

/-- the error function of the executable instance is the symbol `erf` -/
def termErf : Term → Term := .un "erf"

/-- every rate is a negative rational (decided on the exact input) -/
def allNegative (oscs : List (Osc Term)) : Bool :=
  oscs.all (fun o => match o.γ with | .q r => decide (r < 0) | _ => false)

/-- stateless protocol, one megacomplex evaluation per line -/
def driverStep (s : Unit) (ts : List Tree) : Unit × String :=
  let out : Option String :=
    match ts with
    | [.atom "osc", oscs, irf, gax, max] => do
      some (showResult (oscMatrix termErf (← parseOscs oscs) (← parseIrf irf) (← termsOf gax)
        (← termsOf max) Term.t))
    | [.atom "pfid", inv, sc, oscs, irf, gax] => do
      let oscs ← parseOscs oscs
      some (showResult (pfidMatrix termErf (allNegative oscs) (← inv.bool?) (← termOf sc) oscs
        (← parseIrf irf) (← termsOf gax) Term.t))
    | [.atom "artifact", label, order, width, irf, gax] => do
      some (showResult (artifactMatrix (← label.str?) (← order.nat?) (← Tree.optOf? termOf width)
        (← parseIrf irf) (← termsOf gax) Term.t))
    | [.atom "spectral", inv, sc, shapes] => do
      let r := spectralMatrix (← inv.bool?) (← termOf sc) (← Tree.listOf? parseShape shapes) Term.t
      some (showResult (.ok r))
    | [.atom "spectralds", inv, sc, megas] => do
      let r := spectralDatasetMatrix (← inv.bool?) (← termOf sc)
        (← Tree.listOf? (Tree.listOf? parseShape) megas) Term.t
      some (showResult (.ok (r.1, .flat r.2)))
    | [.atom "irfpar", irf, idx, gax] => do
      match ← parseIrf irf with
      | none => none
      | some irf =>
        match irf.parameter (← Tree.optOf? Tree.nat? idx) (← termsOf gax) with
        | .error e => some s!"err {e.show}"
        | .ok p => some s!"ok {showTerms p.centers} {showTerms p.widths} {showTerms p.scales} {showTerm p.shift} {showBool irf.indexDependent}"
    | _ => none
  (s, out.getD "bad-op")

end Glotaran.C07
