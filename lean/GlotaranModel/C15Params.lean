/-
C15 — the state machine of GlotaranModel/C15.lean instantiated with C11's parameter model
(GlotaranModel/C11.lean): the *values* that travel through `optimize()`.

  * the optimiser's vector `x` and a history record are lists of doubles in optimiser space
    (`C11.toOpt`: a non-negative parameter is stored as `log value`);
  * `objective_function` sets the free parameters from `x`
    (`C11.setFromArrays … free_labels x`: `exp` for non-negative parameters, then the expression update);
  * `ParameterHistory.append` stores the optimiser-space values of **all** parameters (fixed and
    expression parameters too) of the refreshed parameter set (`rowOf`);
  * `Parameters.set_from_history(history, -2)` hands **all** labels and the record to
    `set_from_label_and_value_arrays`: every parameter — free, fixed or defined by an expression —
    is assigned `fromOpt` of its stored value, then the expressions are updated (`fromRow`).

`log`/`exp` are symbolic: the driver (`runp`) runs the machine over C11's term algebra and prints
the terms; the harness evaluates them with doubles and compares with the real `Result`.
-/
import GlotaranModel.C15
import GlotaranModel.C11
namespace Glotaran.C15

open Glotaran.C11 (Parameter Ext Num Eval Term)

/-- a `Parameters` object: its parameters in declaration order -/
abbrev PSet (α : Type) := List (Parameter α)
/-- an optimiser vector / a history record (without the iteration column) -/
abbrev Vec (α : Type) := List (Ext α)

variable {α : Type}

/-- what `ParameterHistory.append` stores for a refreshed parameter set: the `values` array of
    `get_label_value_and_bounds_arrays()` (all parameters, optimiser space) -/
def rowOf [Num α] (ps : PSet α) : Vec α := (C11.arraysLoop false ps ⟨[], [], [], []⟩).values

/-- `self._free_parameter_labels` -/
def freeLabels [Num α] (ev : Eval α) (ps0 : PSet α) : List String := (C11.arrays ev true ps0).labels

/-- the parameter operations of `optimizer.py` in C11's model -/
def paramOps [Num α] (ev : Eval α) (free : List String) : ParamOps (Vec α) (Vec α) (PSet α) :=
  { setFree := fun ps x => (C11.setFromArrays ev ps free x).1,
    refresh := C11.updateExpr ev,
    copy := C11.updateExpr ev,
    row := rowOf,
    -- `history.parameter_labels[1:]` are the labels of the parameter set itself (C11
    -- `history_row_is_all_parameters`; `fromRow_eq_setFromHistory` in the proofs)
    fromRow := fun ps r => (C11.setFromArrays ev ps (ps.map (·.label)) r).1 }

/-- the run of `optimize()` on a scheme whose parameters are `ps0` (free labels computed from them) -/
def optimizeP [Num α] (ev : Eval α) (s : Scheme (PSet α)) (out : Handle) (verbose raiseException : Bool)
    (sch : Schedule (Vec α)) : World (PSet α) × Outcome (Vec α) (PSet α) :=
  optimizeSM (paramOps ev (freeLabels ev (s.parameters.getD []))) (World.fresh s out) verbose raiseException sch

/-! ### driver -/
open Glotaran.Proto

def showPSetValues (ps : PSet Term) : String :=
  showList (ps.map (fun p => showList [encodeStr p.label, C11.showExt p.value]))

def showOutcomeP : Outcome (Vec Term) (PSet Term) → String
  | .exception e => s!"exc {showErr e}"
  | .result r =>
    s!"result {showBool r.success} {encodeStr r.terminationReason} {showPSetValues r.optimizedParameters} " ++
    s!"{showOpt toString r.restoredRecord} {r.numberOfFunctionEvaluations} " ++
    s!"{showList (r.parameterHistory.map C11.showExts)} " ++
    s!"{showOpt showPSetValues r.penaltyOf} {showOpt showPSetValues r.dataOf}"

/-- everything of the caller's scheme but the parameter values (those are terms: the harness evaluates
    `schemeparams=` and compares the doubles) -/
def sameSchemeShape (a b : Scheme (PSet Term)) : Bool :=
  a.missingData == b.missingData && a.method == b.method && decide (a.groups = b.groups) &&
  (a.parameters.map (fun ps => C11.showParams (ps.map (fun p => { p with value := .nan })))) ==
    (b.parameters.map (fun ps => C11.showParams (ps.map (fun p => { p with value := .nan }))))

/-- expressions the term evaluator follows faithfully: every reference is to a parameter that is not
    itself defined by an expression (so that one pass of the update is the fixed point) -/
def refsPlain (ps : PSet Term) : C11.Ast → Bool
  | .ref l => ps.any (fun p => p.label = l && p.expr.isNone)
  | .const _ => true
  | .add a b => refsPlain ps a && refsPlain ps b
  | .mul a b => refsPlain ps a && refsPlain ps b

def modelled (table : List (String × C11.Ast)) (ps : PSet Term) : Bool :=
  ps.all (fun p => match p.expr with
    | none => true
    | some s => match table.find? (fun e => e.1 = s) with
      | some (_, a) => refsPlain ps a
      | none => false)

def finiteVec (x : Vec Term) : Bool := x.all (fun e => match e with | .fin _ => true | _ => false)

/-- `runp <stdout id> <verbose> <raise> <missing data> <none|parameters> <expression table> <method> <groups>
         <calls> <finish> <penalty fault> <final fault> <covariance fault> <result data fault>`
    — vectors are lists of exact rationals -/
def driverStepParams (ts : List Tree) : Option String :=
  match ts with
  | [.atom "runp", out, vb, rs, md, ps, tab, meth, gs, calls, fin, pf, ff, cf, df] => do
    let ps ← Tree.optOf? C11.parseParams ps
    let table ← C11.parseTable tab
    let s : Scheme (PSet Term) := { missingData := ← md.strs?, parameters := ps, method := ← meth.str?,
                                    groups := ← gs.listOf? parseGroup }
    let sch ← parseScheduleWith (Tree.listOf? C11.parseExt) calls fin pf ff cf df
    let out ← out.nat?
    let vb ← vb.bool?
    let rs ← rs.bool?
    let finite := sch.calls.all (fun c => finiteVec c.x) &&
      (match sch.finish with | .returns r => finiteVec r.x | .raises _ => true)
    if !(modelled table (ps.getD [])) || !finite then some "unmodelled" else
    let res := optimizeP (C11.evOf table) s (.user out) vb rs sch
    some s!"{showOutcomeP res.2} | evals={res.1.evaluations} stdout={showHandle res.1.stdout} warnings={showStrs res.1.warnings} scheme={showBool (sameSchemeShape res.1.scheme s)} schemeparams={showOpt showPSetValues res.1.scheme.parameters} nok={res.1.evaluatedOK.length}"
  | _ => none

def driverStep (u : Unit) (ts : List Tree) : Unit × String :=
  match driverStepPlain ts with
  | some a => (u, a)
  | none => (u, (driverStepParams ts).getD "bad-op")

end Glotaran.C15
