/-
C03 — result datasets (OptimizationGroup.create_result_data, EstimationProvider*.get_result,
add_weight_to_result_data) on top of the C02 model: per dataset the clps on the dataset's own
labels and global axis, the residual / weighted residual / fitted data in (model × global) layout.
-/
import GlotaranModel.C02
namespace Glotaran.C03
open Glotaran.LinAlg Glotaran.C02

structure DsResult where
  label : String
  clpLabels : List String
  clps : List Vec               -- per global index of the dataset (full model: one row per global clp label)
  residual : Mat                -- model × global, un-weighted (weighted residual / weight)
  weighted : Option Mat         -- weighted residual when a weight exists
  fitted : Mat                  -- data − residual
  deriving Repr, Inhabited

/-- columns (one per global index) → model × global matrix -/
def ofColumns (nModel : Nat) (cols : List Vec) : Mat :=
  (List.range nModel).map (fun m => cols.map (fun c => c.getD m 0))

def divMat (a w : Mat) : Mat := List.zipWith (fun r s => List.zipWith (· / ·) r s) a w
def subMat (a b : Mat) : Mat := List.zipWith (fun r s => List.zipWith (· - ·) r s) a b

/-- `add_weight_to_result_data` + `fitted_data = data − residual` -/
def finish (d : Dataset) (labels : List String) (clps : List Vec) (wres : Mat) : DsResult :=
  match d.weight with
  | some w =>
    let res := divMat wres w
    ⟨d.label, labels, clps, res, some wres, subMat d.data res⟩
  | none => ⟨d.label, labels, clps, wres, none, subMat d.data wres⟩

/-- the `matrix` variable of a result dataset at global index `i`: slice `i` of the dataset's combined
    megacomplex matrix — not scaled by the dataset scale, not reduced, not weighted -/
def matrixAt (lm : LMat) (nGlobal i : Nat) : Mat := ((slices lm nGlobal).getD i default).m

def chunk (n : Nat) : Nat → Vec → List Vec
  | 0, _ => []
  | k + 1, v => v.take n :: chunk n k (v.drop n)

def unlinkedResult (mi : ModelItems) (s : Solver) (d : Dataset) : Option DsResult :=
  if !d.gmcs.isEmpty then
    match fullModelProblem d, datasetMatrix d.mcs, datasetMatrix d.gmcs with
    | some (a, y), some lm, some gm =>
      (solveLS s a y).map (fun cr =>
        -- the flattened residual is global-major: entry g·nModel + m
        let cols := chunk d.nModel d.nGlobal cr.2
        -- clps: one row per global clp label
        let rows := chunk lm.labels.length gm.labels.length cr.1
        finish d lm.labels rows (ofColumns d.nModel cols))
    | _, _, _ => none
  else
    match unlinkedProblems mi d with
    | none => none
    | some ps =>
      (ps.mapM (fun p => (solveLS s p.reduced.m p.data).map (fun cr => (p, cr)))).map (fun sols =>
        let clps := sols.map (fun pc => retrieveClps mi pc.1.fullLabels pc.1.reduced.labels pc.2.1 pc.1.x)
        let labels := match datasetMatrix d.mcs with | some lm => lm.labels | none => []
        finish d labels clps (ofColumns d.nModel (sols.map (fun pc => pc.2.2))))

/-- linked group: un-stack the residual of every aligned index and pick the clps by label.
    LEGACY layout (the code before fix D27): a dataset's columns in aligned-axis order.  Equal to
    `linkedResultsOwn` when the dataset's aligned axis is ascending; kept because C13's lemmas are stated
    about it — the C03 driver and the C03 theorems use `linkedResultsOwn`. -/
def linkedResults (mi : ModelItems) (g : Group) : Option (List DsResult) :=
  match alignAxes (g.datasets.map (·.globalAxis)) g.tol g.method, linkedProblems mi g with
  | some aligned, some (axis, ps) =>
    match ps.mapM (fun p => (solveLS g.solver p.reduced.m p.data).map (fun cr => (p, cr))) with
    | none => none
    | some sols =>
      let da := g.datasets.zip aligned
      some (da.map (fun (dk : Dataset × List Rat) =>
        let d := dk.1
        let own := match datasetMatrix d.mcs with | some lm => lm.labels | none => []
        -- (aligned value, solution) pairs where this dataset is a member, in aligned-axis order
        let hits := (axis.zip sols).filter (fun vs => dk.2.contains vs.1)
        let parts := hits.map (fun vs =>
          let v := vs.1; let p := vs.2.1; let cr := vs.2.2
          let full := retrieveClps mi p.fullLabels p.reduced.labels cr.1 p.x
          let clp := own.map (fun l => match p.fullLabels.idxOf? l with | some j => full.getD j 0 | none => 0)
          -- offset of this dataset's block in the stacked residual
          let before := (da.takeWhile (fun e => e.1.label != d.label)).filter (fun e => e.2.contains v)
          let start := (before.map (fun e => e.1.nModel)).foldl (· + ·) 0
          (clp, (cr.2.drop start).take d.nModel))
        finish d own (parts.map (·.1)) (ofColumns d.nModel (parts.map (·.2)))))
  | _, _ => none

def groupResults (mi : ModelItems) (g : Group) : Option (List DsResult) :=
  if g.linked then linkedResults mi g else g.datasets.mapM (unlinkedResult mi g.solver)

def results (mi : ModelItems) (gs : List Group) : Option (List DsResult) :=
  (gs.mapM (groupResults mi)).map List.flatten

/-! ### the layout of the repaired code (fix D27): every dataset on its own global index order -/

/-- the result of one member dataset `dk = (dataset, its aligned axis)` of a linked group: for every global
    index of the dataset, in the dataset's own order, the clps (picked by label) and the dataset's block of
    the stacked residual of the aligned index it was aligned to -/
def linkedOneOwn (mi : ModelItems) (da : List (Dataset × List Rat)) (axis : List Rat)
    (sols : List (IndexProblem × (Vec × Vec))) (dk : Dataset × List Rat) : DsResult :=
  let d := dk.1
  let own := match datasetMatrix d.mcs with | some lm => lm.labels | none => []
  -- per global index of this dataset (in the dataset's own order): the aligned value it was aligned
  -- to and the solution of that aligned index
  let hits := dk.2.filterMap (fun v => (axis.zip sols).find? (fun vs => vs.1 == v))
  let parts := hits.map (fun vs =>
    let v := vs.1; let p := vs.2.1; let cr := vs.2.2
    let full := retrieveClps mi p.fullLabels p.reduced.labels cr.1 p.x
    let clp := own.map (fun l => match p.fullLabels.idxOf? l with | some j => full.getD j 0 | none => 0)
    -- offset of this dataset's block in the stacked residual
    let before := (da.takeWhile (fun e => e.1.label != d.label)).filter (fun e => e.2.contains v)
    let start := (before.map (fun e => e.1.nModel)).foldl (· + ·) 0
    (clp, (cr.2.drop start).take d.nModel))
  finish d own (parts.map (·.1)) (ofColumns d.nModel (parts.map (·.2)))

/-- `EstimationProviderLinked.get_result` + `create_result_data` for a linked group -/
def linkedResultsOwn (mi : ModelItems) (g : Group) : Option (List DsResult) :=
  match alignAxes (g.datasets.map (·.globalAxis)) g.tol g.method, linkedProblems mi g with
  | some aligned, some (axis, ps) =>
    match ps.mapM (fun p => (solveLS g.solver p.reduced.m p.data).map (fun cr => (p, cr))) with
    | none => none
    | some sols => some ((g.datasets.zip aligned).map (linkedOneOwn mi (g.datasets.zip aligned) axis sols))
  | _, _ => none

def groupResultsOwn (mi : ModelItems) (g : Group) : Option (List DsResult) :=
  if g.linked then linkedResultsOwn mi g else g.datasets.mapM (unlinkedResult mi g.solver)

def resultsOwn (mi : ModelItems) (gs : List Group) : Option (List DsResult) :=
  (gs.mapM (groupResultsOwn mi)).map List.flatten

/-! ### driver: same description lines as C02, then `results` -/
open Glotaran.Proto

def showRes (r : DsResult) : String :=
  showList [encodeStr r.label, showStrs r.clpLabels, showList (r.clps.map showRats), C02.showMat r.residual,
            (match r.weighted with | some w => C02.showMat w | none => "none"), C02.showMat r.fitted]

/-- the `matrix` (one slice per global index, `matrixAt`) and `global_matrix` variables of a result dataset -/
def showMatrices (d : Dataset) : String :=
  match datasetMatrix d.mcs with
  | none => showList [encodeStr d.label, "none", "none", "none"]
  | some lm =>
    showList [encodeStr d.label, showStrs lm.labels,
      showList ((List.range d.nGlobal).map (fun i => C02.showMat (matrixAt lm d.nGlobal i))),
      (match datasetMatrix d.gmcs with
       | some gm => showList [showStrs gm.labels, (match gm.body with | .d2 g => C02.showMat g | .d3 _ => "none")]
       | none => "none")]

def driverStep (s : C02.DState) (ts : List Tree) : C02.DState × String :=
  match ts with
  | [.atom "matrices"] => (s, "mat " ++ showList ((s.groups.flatMap (·.datasets)).map showMatrices))
  | [.atom "results"] =>
    match resultsOwn s.mi s.groups with
    | some rs => (s, "res " ++ showList (rs.map showRes))
    | none => (s, "err unsolvable")
  | _ => C02.driverStep s ts

end Glotaran.C03
