/-
C12 — the (hand-written) run-time vocabulary of the function-level translator
(harness/props/_c12_fns.py → lean/GlotaranModel/Generated/C12Fns.lean).

The translator transcribes `Parameters.update_parameter_expression`, `Parameters.__init__`,
`Parameters.copy`, `Parameters.all`, `Parameter.copy` and `set_transformed_expression` statement by
statement into Lean definitions over the *Python-level* objects defined here:

  * `Py.Parameter` — a `Parameter` object with the attributes the code reads and writes: the
    expression **text**, the transformed text, the bounds; `Py.Dict` — the insertion-ordered dict
    `Parameters._parameters` (keys = labels);
  * `Parameter.abs` / `absAll` — the abstraction to the model's `Param` / `List Param`: the model's
    `expr` is asteval's reading (`Parser`, not modelled: a parameter of every definition) of the
    transformed text of a parameter whose `expression` is not `None`; bounds are forgotten (the model
    has none — that the code never looks at them is what `generated_update_eq_model` shows);
  * what a *Python construct* means (a reference into the dict, `isinstance`, `!=`, `float`, a raised
    `ValueError`, `re.sub` with a template, `attrs.evolve`, a dict comprehension) is fixed here, once;
  * `Untranslatable`: what the translator emits for source outside its subset — a definition of this
    type in place of the function, so that the file still compiles and every `generated_*_eq_model`
    theorem about that function stops compiling.
-/
import GlotaranModel.C12
namespace Glotaran.C12.Py

/-- emitted in place of a function the translator cannot translate (with the reason) -/
structure Untranslatable where
  reason : String
  deriving Repr

/-- a bound: `none` = infinite (`-inf` as a minimum, `+inf` as a maximum) -/
abbrev Bound := Option Rat

/-- a `Parameter` object as the Python code sees it -/
structure Parameter where
  label : String
  value : Val
  expression : Option String := none
  transformed_expression : Option String := none
  minimum : Bound := none
  maximum : Bound := none
  non_negative : Bool := false
  vary : Bool := true
  deriving Repr, DecidableEq, Inhabited

/-- `Parameters._parameters`: insertion-ordered, keyed by label -/
abbrev Dict := List Parameter

/-- asteval's reading of a transformed expression text (`none`: the evaluator is called with
    `None`) — not modelled, a parameter -/
structure Parser where
  parse : Option String → Expr

/-- the model's view of a parameter: it *is* an expression parameter iff `expression is not None`
    (the test of `update_parameter_expression`), what is evaluated is the transformed text -/
def Parameter.abs (P : Parser) (p : Parameter) : Param :=
  { label := p.label, value := p.value, vary := p.vary, nonNeg := p.non_negative,
    expr := p.expression.map (fun _ => P.parse p.transformed_expression) }

def absAll (P : Parser) (d : Dict) : List Param := d.map (Parameter.abs P)

/-- result of a method that mutates `self`: on an exception the state reached so far is kept -/
abbrev Res (α : Type) := Except (Err × Dict) α

def absRes (P : Parser) : Res Dict → C12.Res (List Param)
  | .ok d => .ok (absAll P d)
  | .error (e, d) => .error (e, absAll P d)

/-- what `asteval.Interpreter.__call__` hands back: a number, or `None` after printing the error
    (asteval does not raise; `why` is the model's diagnosis) -/
abbrev PyVal := Except EvalErr Val

/-- the identifier the replacement template starts with (`parameters` in `parameters.get('…').value`) -/
def templateRoot : String :=
  String.ofList (Generated.templatePrefix.takeWhile (fun c => c.isAlphanum || c == '_'))

/-- `self._evaluator(text)` where the interpreter was made with the symbols `symbols` bound to
    `self`: the lookups of the transformed text resolve in this very object iff the template's root
    identifier is one of the symbols -/
def evaluator (F : Funs) (P : Parser) (symbols : List String) (self : Dict) (text : Option String) : PyVal :=
  if symbols.contains templateRoot then eval F (absAll P self) (P.parse text)
  else .error (.unknownLabel templateRoot)

/-- the kinds of number asteval yields for a numeric expression (Python int, float, numpy integer —
    defect C12-numpy-integer-result) -/
def numericKinds : List String := ["int", "float", "np.integer"]

/-- `isinstance(value, classes)`: `None` is none of them; a number passes iff every numeric kind is
    admitted -/
def isinstance (v : PyVal) (classes : List String) : Bool :=
  match v with
  | .ok _ => numericKinds.all (fun k => classes.contains k)
  | .error _ => false

/-- `ref.value` read through a reference into the dict (the object stored under the label *now*) -/
def getValue (self : Dict) (ref : Parameter) : Option Val :=
  (self.find? (fun q => q.label = ref.label)).map (·.value)

/-- `ref.value = v` through a reference into the dict -/
def setValue (self : Dict) (ref : Parameter) (v : Val) : Dict :=
  self.map (fun q => if q.label = ref.label then { q with value := v } else q)

/-- Python `a != b` of an evaluator result and an attribute value -/
def ne : PyVal → Option Val → Bool
  | .ok v, o => valNe v o
  | .error _, _ => true

/-- `np.isclose(a, b)` with the default tolerances (rtol 1e-5, atol 1e-8; NaN is close to nothing) -/
def isclose : PyVal → Option Val → Bool
  | .ok (some a), some (some b) =>
    decide ((if a - b < 0 then b - a else a - b) ≤ 1 / 100000000 + 1 / 100000 * (if b < 0 then -b else b))
  | _, _ => false

/-- `float(value)`; behind the `isinstance` guard the value is a number (`float(None)` raises
    TypeError — unreachable there) -/
def float : PyVal → Val
  | .ok v => v
  | .error _ => none

/-- `raise ValueError(f"Expression … of parameter '{label}' evaluates to non numeric value '{value}'.")` -/
def nonNumeric (label : String) (v : PyVal) : Err :=
  match v with
  | .error why => .expr label why
  | .ok x => .expr label (.call "isinstance" [x])

/-- truthiness of a `str | None` -/
def truthy : Option String → Bool
  | some s => s != ""
  | none => false

/-- expansion of a replacement template with one group reference `\g<name>`: text in front of and
    behind the reference (`none`: no reference / another backslash — not the modelled shape) -/
def splitTemplateAux (name : List Char) : List Char → List Char → Option (List Char × List Char)
  | [], _ => none
  | c :: r, acc =>
    if c = '\\' then
      (let ref := ['g', '<'] ++ name ++ ['>']
       if ref.isPrefixOf r ∧ !(r.drop ref.length).contains '\\' then some (acc.reverse, r.drop ref.length) else none)
    else splitTemplateAux name r (c :: acc)

def splitTemplate (name : String) (template : String) : Option (List Char × List Char) :=
  splitTemplateAux name.toList template.toList []

/-- `REGEX.sub(template, text)` for the expression pattern (matching: `C12Regex.scan`); the group of
    the pattern is `group` -/
def reSub (group : String) (template : String) (text : Option String) : Option String :=
  match text, splitTemplate group template with
  | some s, some (pre, post) => some (String.ofList (substL (fun l => pre ++ l ++ post) s.toList))
  | _, _ => none

/-- `attrs.evolve(self)`: a new object from the `init=True` attributes of `self` — attributes with
    `init=False` (the transformed text) start from their default — after which the validators run
    (only the one of `expression` changes the object) -/
def evolve (validator : Parameter → Unit → Option String → Parameter) (self : Parameter) : Parameter :=
  validator { self with transformed_expression := none } () self.expression

/-- `d[k] = v` -/
def dictSet (d : Dict) (k : String) (v : Parameter) : Dict :=
  if d.any (fun q => q.label = k) then d.map (fun q => if q.label = k then v else q) else d ++ [v]

/-- `{k: v for …}` from the generated (key, value) pairs, in order -/
def dictOf (kvs : List (String × Parameter)) : Dict :=
  kvs.foldl (fun d kv => dictSet d kv.1 kv.2) []

/-- `self._parameters.items()` -/
def items (d : Dict) : List (String × Parameter) := d.map (fun p => (p.label, p))

/-- `self._parameters.values()` -/
def values (d : Dict) : List Parameter := d

end Glotaran.C12.Py
