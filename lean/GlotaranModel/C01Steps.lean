/-
C01 — the two kernels as *programs*: a small statement language for what the source text of
  glotaran/optimization/variable_projection.py : residual_variable_projection
  glotaran/optimization/nnls.py                : residual_nnls
says (which LAPACK routine / scipy function is called with which operands and flags, which slice is
zeroed, what is returned in which order, the normalisation steps and their axis arguments), and an
interpreter of that language over the operations of the hand-written model (`GlotaranModel/C01.lean`).
The programs themselves are regenerated from the source on every run
(`GlotaranModel/Generated/C01Steps.lean`, written by harness/props/c01.py); the theorems
`generated_vp_eq_model` / `generated_nnls_eq_model` (Props/C01.lean) prove the interpreter on the
regenerated programs equal to `residualVP` / `residualNNLS`.

Anything the translator cannot express becomes an `untranslatable` node, on which the interpreter is
`stuck` — the equality theorems then do not build.
-/
import GlotaranModel.Proto
import GlotaranModel.LinAlg
import GlotaranModel.C01
namespace Glotaran.C01.Steps
open Glotaran.LinAlg

/-- integer-valued expressions: shapes and loop bounds -/
inductive SizeE where
  | lit (k : Nat)
  /-- a local variable bound to an integer (`n = matrix.shape[1]`) -/
  | var (name : String)
  /-- `name.shape[axis]` -/
  | shape (name : String) (axis : Nat)
  | max (a b : SizeE)
  | untranslatable (why : String)
  deriving Repr

/-- array-valued expressions -/
inductive Expr where
  | var (name : String)
  /-- a float literal (`0.0`, `1.0`) -/
  | num (q : Rat)
  /-- `np.abs(e)` -/
  | abs (e : Expr)
  /-- `np.max(e, axis=…, initial=…)` -/
  | amax (e : Expr) (axis : Option Nat) (initial : Option Rat)
  | div (a b : Expr)
  | mul (a b : Expr)
  | sub (a b : Expr)
  | add (a b : Expr)
  /-- `np.dot(a, b)` / `a @ b` -/
  | matvec (a b : Expr)
  /-- `np.zeros(n)` -/
  | zerosN (n : SizeE)
  /-- `np.array(e)` (a copy) -/
  | copy (e : Expr)
  /-- `e[:n]` -/
  | upto (e : Expr) (n : SizeE)
  /-- `e[n:]` -/
  | fromN (e : Expr) (n : SizeE)
  | untranslatable (why : String)
  deriving Repr

inductive Stmt where
  /-- `name = e` -/
  | assign (name : String) (e : Expr)
  /-- `name = <integer expression>` -/
  | assignSize (name : String) (e : SizeE)
  /-- `name *= e` -/
  | augMul (name : String) (e : Expr)
  /-- `name /= e` -/
  | augDiv (name : String) (e : Expr)
  /-- `if name == 0: name = e` -/
  | ifEqZeroAssign (name : String) (e : Expr)
  /-- `name[name == 0] = e` -/
  | maskedEqZeroAssign (name : String) (e : Expr)
  /-- `for i in range(lo, hi): name[i] = 0`  (also `name[lo:hi] = 0`) -/
  | zeroRange (name : String) (lo hi : SizeE)
  /-- `qr, tau, _, _ = lapack.dgeqrf(a)` -/
  | dgeqrf (qr tau : String) (a : Expr)
  /-- `out, _, _ = lapack.dormqr(side, trans, qr, tau, c, lwork, overwrite_c=…)` -/
  | dormqr (out : String) (side trans : String) (qr tau c : Expr) (lwork : SizeE) (overwriteC : Bool)
  /-- `out, _ = lapack.dtrtrs(a, b, lower=…, trans=…, unitdiag=…)` -/
  | dtrtrs (out : String) (a b : Expr) (lower trans unitdiag : Nat)
  /-- `out, _ = scipy.optimize.nnls(a, b)` -/
  | nnls (out : String) (a b : Expr)
  /-- `if <integer expression> == 0: return es` -/
  | returnIfZero (cond : SizeE) (es : List Expr)
  /-- `return es` -/
  | ret (es : List Expr)
  | untranslatable (why : String)
  deriving Repr

/-- a function: its parameter names (bound to the arguments in this order) and its body -/
structure Program where
  params : List String
  body : List Stmt
  deriving Repr

/-! ### values, environments -/

inductive Val where
  | num (q : Rat)
  | vec (v : Vec)
  | mat (m : Mat)
  | size (n : Nat)
  deriving Repr, DecidableEq

abbrev Env := List (String × Val)

def lookup (env : Env) (x : String) : Option Val :=
  match env with
  | [] => none
  | (k, v) :: rest => if k == x then some v else lookup rest x

def bind (env : Env) (x : String) (v : Val) : Env := (x, v) :: env

/-- the external routines -/
structure Ext where
  dgeqrf : Mat → Mat × Vec
  nnls : Mat → Vec → Option Vec

inductive Outcome where
  | ok (vals : List Val)
  /-- the external solver raised and the function lets it propagate -/
  | raised
  /-- the interpreter has no meaning for the program (type error, unmodelled flag, untranslatable node,
      falling off the end without `return`) -/
  | stuck (why : String)
  deriving Repr, DecidableEq

/-! ### expressions -/

def evalSize (env : Env) : SizeE → Option Nat
  | .lit k => some k
  | .var x => match lookup env x with | some (.size n) => some n | _ => none
  | .shape x axis =>
    match lookup env x, axis with
    | some (.mat m), 0 => some m.length
    | some (.mat m), 1 => some (ncols m)
    | some (.vec v), 0 => some v.length
    | _, _ => none
  | .max a b => match evalSize env a, evalSize env b with
    | some x, some y => some (Nat.max x y)
    | _, _ => none
  | .untranslatable _ => none

/-- `|x|` -/
def absQ (x : Rat) : Rat := if x < 0 then -x else x

/-- `np.max(v, initial=i)`; without `initial` numpy raises on an empty array -/
def amaxVec (v : Vec) : Option Rat → Option Rat
  | some i => some (v.foldl max i)
  | none => match v with | [] => none | x :: xs => some (xs.foldl max x)

def sequence : List (Option Rat) → Option Vec
  | [] => some []
  | none :: _ => none
  | some x :: rest => match sequence rest with | some xs => some (x :: xs) | none => none

/-- numpy broadcasting of an elementwise binary operation (scalars, vectors, matrices; a vector against a
    matrix runs along the last axis, i.e. over the columns) -/
def binop (f : Rat → Rat → Rat) : Val → Val → Option Val
  | .num a, .num b => some (.num (f a b))
  | .vec a, .num b => some (.vec (a.map (fun x => f x b)))
  | .num a, .vec b => some (.vec (b.map (fun x => f a x)))
  | .vec a, .vec b => some (.vec (List.zipWith f a b))
  | .mat a, .num b => some (.mat (a.map (fun r => r.map (fun x => f x b))))
  | .num a, .mat b => some (.mat (b.map (fun r => r.map (fun x => f a x))))
  | .mat a, .vec b => some (.mat (a.map (fun r => List.zipWith f r b)))
  | .vec a, .mat b => some (.mat (b.map (fun r => List.zipWith f a r)))
  | .mat a, .mat b => some (.mat (List.zipWith (fun r s => List.zipWith f r s) a b))
  | _, _ => none

def eval (env : Env) : Expr → Option Val
  | .var x => lookup env x
  | .num q => some (.num q)
  | .abs e =>
    match eval env e with
    | some (.num q) => some (.num (absQ q))
    | some (.vec v) => some (.vec (v.map absQ))
    | some (.mat m) => some (.mat (m.map (fun r => r.map absQ)))
    | _ => none
  | .amax e axis initial =>
    match eval env e, axis with
    | some (.vec v), none => (amaxVec v initial).map .num
    | some (.vec v), some 0 => (amaxVec v initial).map .num
    | some (.mat m), none => (amaxVec m.flatten initial).map .num
    | some (.mat m), some 0 => (sequence ((List.range (ncols m)).map (fun j => amaxVec (col m j) initial))).map .vec
    | some (.mat m), some 1 => (sequence (m.map (fun r => amaxVec r initial))).map .vec
    | _, _ => none
  | .div a b => match eval env a, eval env b with
    | some x, some y => binop (· / ·) x y | _, _ => none
  | .mul a b => match eval env a, eval env b with
    | some x, some y => binop (· * ·) x y | _, _ => none
  | .sub a b => match eval env a, eval env b with
    | some x, some y => binop (· - ·) x y | _, _ => none
  | .add a b => match eval env a, eval env b with
    | some x, some y => binop (· + ·) x y | _, _ => none
  | .matvec a b => match eval env a, eval env b with
    | some (.mat m), some (.vec v) => some (.vec (mulVec m v))
    | some (.vec u), some (.vec v) => some (.num (dot u v))
    | _, _ => none
  | .zerosN n => (evalSize env n).map (fun k => .vec (zeros k))
  | .copy e => eval env e
  | .upto e n => match eval env e, evalSize env n with
    | some (.vec v), some k => some (.vec (v.take k))
    | some (.mat m), some k => some (.mat (m.take k))
    | _, _ => none
  | .fromN e n => match eval env e, evalSize env n with
    | some (.vec v), some k => some (.vec (v.drop k))
    | some (.mat m), some k => some (.mat (m.drop k))
    | _, _ => none
  | .untranslatable _ => none

def evalAll (env : Env) : List Expr → Option (List Val)
  | [] => some []
  | e :: es => match eval env e, evalAll env es with
    | some v, some vs => some (v :: vs)
    | _, _ => none

/-- `v[lo:hi] = 0` -/
def zeroRange (lo hi : Nat) (v : Vec) : Vec :=
  v.take lo ++ zeros (min hi v.length - lo) ++ v.drop (max lo hi)

/-! ### statements -/

def exec (ext : Ext) : List Stmt → Env → Outcome
  | [], _ => .stuck "no return"
  | .assign x e :: rest, env =>
    match eval env e with
    | some v => exec ext rest (bind env x v)
    | none => .stuck ("assign " ++ x)
  | .assignSize x e :: rest, env =>
    match evalSize env e with
    | some n => exec ext rest (bind env x (.size n))
    | none => .stuck ("assignSize " ++ x)
  | .augMul x e :: rest, env =>
    match lookup env x, eval env e with
    | some a, some b =>
      match binop (· * ·) a b with
      | some v => exec ext rest (bind env x v)
      | none => .stuck ("augMul " ++ x)
    | _, _ => .stuck ("augMul " ++ x)
  | .augDiv x e :: rest, env =>
    match lookup env x, eval env e with
    | some a, some b =>
      match binop (· / ·) a b with
      | some v => exec ext rest (bind env x v)
      | none => .stuck ("augDiv " ++ x)
    | _, _ => .stuck ("augDiv " ++ x)
  | .ifEqZeroAssign x e :: rest, env =>
    match lookup env x, eval env e with
    | some (.num s), some (.num q) => exec ext rest (bind env x (.num (if s == 0 then q else s)))
    | _, _ => .stuck ("ifEqZeroAssign " ++ x)
  | .maskedEqZeroAssign x e :: rest, env =>
    match lookup env x, eval env e with
    | some (.vec v), some (.num q) => exec ext rest (bind env x (.vec (v.map (fun s => if s == 0 then q else s))))
    | _, _ => .stuck ("maskedEqZeroAssign " ++ x)
  | .zeroRange x lo hi :: rest, env =>
    match lookup env x, evalSize env lo, evalSize env hi with
    | some (.vec v), some l, some h => exec ext rest (bind env x (.vec (zeroRange l h v)))
    | _, _, _ => .stuck ("zeroRange " ++ x)
  | .dgeqrf qr tau a :: rest, env =>
    match eval env a with
    | some (.mat m) => exec ext rest (bind (bind env qr (.mat (ext.dgeqrf m).1)) tau (.vec (ext.dgeqrf m).2))
    | _ => .stuck "dgeqrf"
  | .dormqr out side trans qr tau c lwork overwriteC :: rest, env =>
    match eval env qr, eval env tau, eval env c, evalSize env lwork with
    | some (.mat q), some (.vec t), some (.vec x), some lw =>
      -- LAPACK: side 'L' applies Q / Qᵀ from the left to the m × 1 array `c`; lwork ≥ max(1, 1)
      if side == "L" && 1 ≤ lw then
        let r := if trans == "T" then some (applyQT (reflectors q t) x)
                 else if trans == "N" then some (applyQ (reflectors q t) x) else none
        match r with
        | some r =>
          let env' := bind env out (.vec r)
          -- overwrite_c = 1: the result is also written into the array passed as `c`
          match overwriteC, c with
          | true, .var cx => exec ext rest (bind env' cx (.vec r))
          | true, _ => exec ext rest env'
          | false, _ => exec ext rest env'
        | none => .stuck "dormqr trans"
      else .stuck "dormqr side/lwork"
    | _, _, _, _ => .stuck "dormqr operands"
  | .dtrtrs out a b lower trans unitdiag :: rest, env =>
    match eval env a, eval env b with
    | some (.mat u), some (.vec x) =>
      -- the order of the system is the number of columns of `a`
      if lower == 0 && trans == 0 && unitdiag == 0 then exec ext rest (bind env out (.vec (trtrs u (ncols u) x)))
      else .stuck "dtrtrs flags"
    | _, _ => .stuck "dtrtrs operands"
  | .nnls out a b :: rest, env =>
    match eval env a, eval env b with
    | some (.mat m), some (.vec y) =>
      match ext.nnls m y with
      | some x => exec ext rest (bind env out (.vec x))
      | none => .raised
    | _, _ => .stuck "nnls operands"
  | .returnIfZero cond es :: rest, env =>
    match evalSize env cond with
    | some 0 => match evalAll env es with | some vs => .ok vs | none => .stuck "return"
    | some _ => exec ext rest env
    | none => .stuck "returnIfZero"
  | .ret es :: _, env =>
    match evalAll env es with | some vs => .ok vs | none => .stuck "return"
  | .untranslatable why :: _, _ => .stuck ("untranslatable: " ++ why)

/-- call the function on positional arguments -/
def run (ext : Ext) (p : Program) (args : List Val) : Outcome :=
  if p.params.length == args.length then exec ext p.body (List.zip p.params args).reverse
  else .stuck "arity"

/-! ### the observable form of the two kernels -/

/-- `residual_variable_projection` as the generated program says it -/
def runVP (p : Program) (dgeqrf : Mat → Mat × Vec) (matrix : Mat) (data : Vec) : Outcome :=
  run { dgeqrf := dgeqrf, nnls := fun _ _ => none } p [.mat matrix, .vec data]

/-- `residual_nnls` as the generated program says it -/
def runNNLS (p : Program) (nnls : Mat → Vec → Option Vec) (matrix : Mat) (data : Vec) : Outcome :=
  run { dgeqrf := fun m => (m, []), nnls := nnls } p [.mat matrix, .vec data]

/-- the outcome as the pair the kernels return -/
def asPair : Outcome → Option (Vec × Vec)
  | .ok [.vec c, .vec r] => some (c, r)
  | _ => none

end Glotaran.C01.Steps
