/-
C06 — labelled outputs follow their labels.

Executable model of
  * the by-label view of `MatrixProvider.combine_megacomplex_matrices` / `calculate_dataset_matrix`
    (`combine`, `datasetMatrix` are the definitions of GlotaranModel.C02; here: `entry`, shapes, factors),
  * the clp-label lists and the column fill orders of every builtin megacomplex, exactly as coded
    (damped oscillation: labels `[*_cos…, *_sin…]`; the no-IRF kernel writes column `idx` and
    `idx + rates.size` (after fix D5; before it wrote `idx`, `idx + 1` with `idx += 2` — kept as
    `fillNoIrfOld` for the regression witness); the Gaussian-IRF kernel and PFID concatenate
    `[real…, imag…]`; spectral: dict order; baseline / coherent artifact / clp guide: generated labels),
  * the bookkeeping of the decay megacomplexes: `KMatrix.involved_compartments`, `combine`, `reduced`,
    `full`, `is_sequential`, `InitialConcentration.normalized`, `DecayMegacomplex.get_compartments`,
    `get_initial_concentration`, the K-matrices / initial concentrations of decay-parallel and
    decay-sequential,
  * selection of result variables by label (`matrix.sel(clp_label=…)`, first-seen species list).

A column is described by a *descriptor* (`Col`): which basis function with which of the declared
parameters.  The harness evaluates descriptors by an independent single-column computation.
-/
import GlotaranModel.Proto
import GlotaranModel.C02
import GlotaranModel.C06Desc
import GlotaranModel.Generated.C06
namespace Glotaran.C06
open Glotaran.LinAlg Glotaran.C02

/-! ### by-label view of labelled matrices -/

/-- the column stored under label `l` at global index `i` (a 2-D body ignores `i`) -/
def bodyColAt (labels : List String) (b : Body) (l : String) (i : Nat) : Option Vec :=
  match b with
  | .d2 m => colOf labels m l
  | .d3 ms => (ms[i]?).bind (fun m => colOf labels m l)

/-- entry (row `r`) of the column under label `l` at index `i`; a label that is absent contributes 0 -/
def entry (lm : LMat) (l : String) (i r : Nat) : Rat :=
  ((bodyColAt lm.labels lm.body l i).getD []).getD r 0

/-- `nRows` model-axis points; a 3-D body has `nIdx` slices -/
def Shaped (b : Body) (nRows nIdx : Nat) : Prop :=
  match b with
  | .d2 m => m.length = nRows
  | .d3 ms => ms.length = nIdx ∧ ∀ m ∈ ms, m.length = nRows

/-- the factor `calculate_dataset_matrix` multiplies a megacomplex matrix with -/
def factor (o : McOut) : Rat := o.scale.getD 1

/-- the 2-D matrix of a labelled matrix at index `i` (`reduce_matrix`'s `matrix[i, :, :]`) -/
def sliceMat (lm : LMat) (i : Nat) : Mat :=
  match lm.body with
  | .d2 m => m
  | .d3 ms => ms.getD i []

def sliceAt (lm : LMat) (i : Nat) : LMat := ⟨lm.labels, .d2 (sliceMat lm i)⟩

/-! ### selection by label (`DataArray.sel(clp_label=[…]).values`, `clp.sel(clp_label=…)`) -/

/-- positions of the wanted labels; `none` = KeyError -/
def positions (labels wanted : List String) : Option (List Nat) := wanted.mapM (fun l => labels.idxOf? l)

/-- `matrix.sel(clp_label=wanted).values` for a 2-D matrix -/
def selectCols (labels : List String) (m : Mat) (wanted : List String) : Option Mat :=
  (positions labels wanted).map (fun ps => m.map (fun row => ps.map (fun j => row.getD j 0)))

/-- `clp.sel(clp_label=wanted)` for one clp vector -/
def selectVec (labels : List String) (c : Vec) (wanted : List String) : Option Vec :=
  (positions labels wanted).map (fun ps => ps.map (fun j => c.getD j 0))

/-- total version used for re-ordering by a permuted label list -/
def reorderCols (labels : List String) (m : Mat) (wanted : List String) : Mat :=
  m.map (fun row => wanted.map (fun l => row.getD (labels.idxOf l) 0))

def reorderVec (labels : List String) (c : Vec) (wanted : List String) : Vec :=
  wanted.map (fun l => c.getD (labels.idxOf l) 0)

/-- the loop `if species not in all_species: all_species.append(species)` -/
def firstSeen (xs : List String) : List String :=
  xs.foldl (fun acc x => if acc.contains x then acc else acc ++ [x]) []

/-- `finalize_data`: species of all decay megacomplexes of a dataset, first seen first -/
def allSpecies (perMc : List (List String)) : List String := firstSeen perMc.flatten

/-! ### column descriptors and label tables of the builtin megacomplexes -/

inductive Col where
  | init                              -- never written by the kernel: the initial fill of the matrix
  | oscCos (freq rate : Rat)          -- real part of the damped oscillation with these parameters
  | oscSin (freq rate : Rat)          -- imaginary part
  | pfidCos (freq rate : Rat)
  | pfidSin (freq rate : Rat)
  | shape (name : String)             -- spectral shape item `name` evaluated on the model axis
  | ones                              -- baseline
  | artifact (order : Nat)            -- Gaussian (1), first (2), second (3) derivative form
  | guide                             -- 1 × 1 matrix of the clp guide
  | species (name : String)           -- concentration of compartment `name` of this megacomplex
  deriving Repr, DecidableEq, Inhabited

structure Table where
  labels : List String
  cols : List Col
  deriving Repr, DecidableEq, Inhabited

/-- descriptor stored under a label (first occurrence, like `list.index`) -/
def Table.colOf (t : Table) (l : String) : Option Col :=
  match t.labels.idxOf? l with
  | some j => t.cols[j]?
  | none => none

/-- `[f"{label}_cos" for label in labels] + [f"{label}_sin" for label in labels]` -/
def oscLabels (labels : List String) : List String :=
  labels.map (· ++ "_cos") ++ labels.map (· ++ "_sin")

/-- `calculate_damped_oscillation_matrix_no_irf` (after D5): for the k-th pair, column `idx` ← real,
    column `idx + rates.size` ← imaginary, `idx += 1` -/
def fillNoIrf (n : Nat) : List (Rat × Rat) → Nat → List Col → List Col
  | [], _, acc => acc
  | (f, r) :: rest, idx, acc =>
    fillNoIrf n rest (idx + 1) ((acc.set idx (.oscCos f r)).set (idx + n) (.oscSin f r))

/-- the kernel as it was before D5: column `idx` ← real, `idx + 1` ← imaginary, `idx += 2` -/
def fillNoIrfOld : List (Rat × Rat) → Nat → List Col → List Col
  | [], _, acc => acc
  | (f, r) :: rest, idx, acc =>
    fillNoIrfOld rest (idx + 2) ((acc.set idx (.oscCos f r)).set (idx + 1) (.oscSin f r))

inductive Kernel where | noIrf | irf | pfid | noIrfOld
  deriving Repr, DecidableEq, Inhabited

/-- column descriptors in matrix order as the kernels produce them.
    `zip(frequencies, rates)` (no IRF) pairs position-wise; the IRF kernels compute
    `k = rates + 1j * frequencies` (same pairing) and `np.concatenate((osc.real, osc.imag), axis=1)` -/
def oscCols (k : Kernel) (nLabels : Nat) (freqs rates : List Rat) : List Col :=
  let pairs := freqs.zip rates
  match k with
  | .noIrf => fillNoIrf rates.length pairs 0 (List.replicate (2 * nLabels) .init)
  | .noIrfOld => fillNoIrfOld pairs 0 (List.replicate (2 * nLabels) .init)
  | .irf => pairs.map (fun p => .oscCos p.1 p.2) ++ pairs.map (fun p => .oscSin p.1 p.2)
  | .pfid => pairs.map (fun p => .pfidCos p.1 p.2) ++ pairs.map (fun p => .pfidSin p.1 p.2)

/-- `DampedOscillationMegacomplex.calculate_matrix` / `PFIDMegacomplex.calculate_matrix` (bookkeeping) -/
def oscTable (k : Kernel) (labels : List String) (freqs rates : List Rat) : Table :=
  ⟨oscLabels labels, oscCols k labels.length freqs rates⟩

/-- `SpectralMegacomplex.calculate_matrix`: the dict `shape` as an association list (keys are unique) -/
def spectralTable (shape : List (String × String)) : Table :=
  ⟨shape.map (·.1), shape.map (fun p => .shape p.2)⟩

def baselineTable (datasetLabel : String) : Table := ⟨[datasetLabel ++ "_baseline"], [.ones]⟩

def artifactLabel (mcLabel : String) (i : Nat) : String :=
  "coherent_artifact_" ++ toString i ++ "_" ++ mcLabel

/-- `CoherentArtifactMegacomplex`: `none` = ModelError (order outside [1, 3]) -/
def artifactTable (order : Nat) (mcLabel : String) : Option Table :=
  if 1 ≤ order ∧ order ≤ 3 then
    some ⟨(List.range order).map (fun i => artifactLabel mcLabel (i + 1)),
          (List.range order).map (fun i => .artifact (i + 1))⟩
  else none

def guideTable (target : String) : Table := ⟨[target], [.guide]⟩

def speciesTable (comps : List String) : Table := ⟨comps, comps.map .species⟩

/-! ### from a label table to the megacomplex matrix, and to the dataset matrix -/

/-- the matrix of a megacomplex: its table with every descriptor evaluated (`ev i c` = the column
    of descriptor `c` at global index `i`, `n` model-axis points); `dep` = the megacomplex returns a
    per-index (3-D) matrix -/
def tableMatrix (ev : Nat → Col → Vec) (n nIdx : Nat) (dep : Bool) (t : Table) : LMat :=
  if dep then ⟨t.labels, .d3 ((List.range nIdx).map (fun i => fromCols n (t.cols.map (ev i))))⟩
  else ⟨t.labels, .d2 (fromCols n (t.cols.map (ev 0)))⟩

structure McDecl where
  table : Table
  dep : Bool
  scale : Option Rat
  ev : Nat → Col → Vec

/-- `calculate_dataset_matrix` of a dataset whose megacomplexes are given by their tables -/
def tablesDataset (n nIdx : Nat) (mcs : List McDecl) : Option LMat :=
  datasetMatrix (mcs.map (fun d => ⟨tableMatrix d.ev n nIdx d.dep d.table, d.scale⟩))

/-! ### decay megacomplexes: K-matrix and initial concentration bookkeeping -/

structure KEntry where
  to : String
  frm : String
  rate : Rat
  deriving Repr, DecidableEq, Inhabited

/-- a K-matrix item: the dict `{(to, from): parameter}` in declaration order -/
abbrev KMat := List KEntry

def KEntry.sameKey (a b : KEntry) : Bool := a.to == b.to && a.frm == b.frm

/-- dict semantics of building `{…}` from a sequence of items: a repeated key keeps its first
    position and takes the last value -/
def dictOf (es : List KEntry) : KMat :=
  es.foldl (fun acc e =>
    if acc.any (·.sameKey e) then acc.map (fun a => if a.sameKey e then e else a) else acc ++ [e]) []

/-- `KMatrix.combine`: entries of `self`, overwritten / extended by those of `other` -/
def kcombine (a b : KMat) : KMat := dictOf (a ++ b)

/-- `DecayMegacomplex.get_k_matrix` -/
def getKMatrix : List KMat → Option KMat
  | [] => none
  | k :: rest => some (rest.foldl kcombine k)

/-- `KMatrix.involved_compartments` -/
def involved (k : KMat) : List String :=
  k.foldl (fun acc e =>
    let acc := if acc.contains e.to then acc else acc ++ [e.to]
    if acc.contains e.frm then acc else acc ++ [e.frm]) []

structure IC where
  compartments : List String
  parameters : List Rat
  exclude : List String
  deriving Repr, Inhabited

/-- `DecayMegacomplex.get_compartments` -/
def getCompartments (ic : IC) (k : KMat) : List String :=
  ic.compartments.filter (fun c => (involved k).contains c)

/-- `np.sum(normalized[idx])` with `idx = [c not in exclude_from_normalize for c in compartments]` -/
def normSum (ic : IC) : Rat :=
  ((ic.parameters.zip (ic.compartments.map (fun c => !ic.exclude.contains c))).filter (·.2)).foldl
    (fun a p => a + p.1) 0

/-- `InitialConcentration.normalized`: `normalized[idx] /= np.sum(normalized[idx])` -/
def normalized (ic : IC) : Vec :=
  List.zipWith (fun p k => if k then p / normSum ic else p) ic.parameters
    (ic.compartments.map (fun c => !ic.exclude.contains c))

/-- `DecayMegacomplex.get_initial_concentration` -/
def getInitialConcentration (ic : IC) (k : KMat) (norm : Bool) : Vec :=
  let comps := getCompartments ic k
  let idx := ic.compartments.map (fun c => comps.contains c)
  let v := if norm then normalized ic else ic.parameters
  pickMask idx v

def matSet (m : Mat) (i j : Nat) (f : Rat → Rat) : Mat :=
  m.mapIdx (fun ri r => if ri = i then r.mapIdx (fun cj x => if cj = j then f x else x) else r)

def zeroMat (n : Nat) : Mat := List.replicate n (List.replicate n 0)

/-- `KMatrix.reduced(compartments)`; `none` = ValueError of `list.index` -/
def kreduced (comps : List String) (k : KMat) : Option Mat :=
  k.foldl (fun acc e =>
    match acc, comps.idxOf? e.to, comps.idxOf? e.frm with
    | some m, some i, some j => some (matSet m i j (fun _ => e.rate))
    | _, _, _ => none) (some (zeroMat comps.length))

/-- `KMatrix.full(compartments)` -/
def kfull (comps : List String) (k : KMat) : Option Mat :=
  k.foldl (fun acc e =>
    match acc, comps.idxOf? e.to, comps.idxOf? e.frm with
    | some m, some i, some j =>
      if i = j then some (matSet m i j (· - e.rate))
      else some (matSet (matSet m i j (· + e.rate)) j j (· - e.rate))
    | _, _, _ => none) (some (zeroMat comps.length))

def nonzeroCount (v : Vec) : Nat := (v.filter (· != 0)).length

/-- `KMatrix.is_sequential` — exactly the code's test (after fix D4, commit ceea826: the initial concentration has to be
    exactly (1, 0, …, 0) and the single non-zero entry of every column of the reduced matrix has to sit on the
    sub-diagonal, on the diagonal for the last column) -/
def isSequential (comps : List String) (j : Vec) (k : KMat) : Option Bool :=
  if j.isEmpty || j.headD 0 != 1 || j.tail.any (· != 0) then some false
  else (kreduced comps k).map (fun m =>
    let n := comps.length
    (List.range n).all (fun i =>
      nonzeroCount (col m i) == 1 && (m.getD (min (i + 1) (n - 1)) []).getD i 0 != 0))

/-- `DecayParallelMegacomplex.get_k_matrix` (a dict comprehension) -/
def parallelK (comps : List String) (rates : List Rat) : KMat :=
  dictOf ((comps.zip rates).map (fun p => ⟨p.1, p.1, p.2⟩))

def parallelJ (comps : List String) : Vec :=
  List.replicate comps.length (1 / (comps.length : Rat))

/-- `DecaySequentialMegacomplex.get_k_matrix`: `(c[i+1], c[i]) : rates[i]`, then `(c[-1], c[-1]) := rates[-1]` -/
def sequentialK (comps : List String) (rates : List Rat) : KMat :=
  let n := comps.length
  let chain := (List.range (n - 1)).map (fun i => (⟨comps.getD (i + 1) "", comps.getD i "", rates.getD i 0⟩ : KEntry))
  dictOf (chain ++ [⟨comps.getLastD "", comps.getLastD "", rates.getLastD 0⟩])

def sequentialJ (comps : List String) : Vec :=
  (List.range comps.length).map (fun i => if i = 0 then 1 else 0)

/-- everything the decay path derives from the declaration before any numerics -/
structure DecayBook where
  comps : List String
  j : Vec                 -- normalised, masked
  jraw : Vec              -- not normalised, masked
  involved : List String
  kmat : KMat
  full : Option Mat
  reduced : Option Mat
  sequential : Option Bool
  deriving Repr, Inhabited

def decayBook (ic : IC) (ks : List KMat) : Option DecayBook :=
  (getKMatrix ks).map (fun k =>
    let comps := getCompartments ic k
    let j := getInitialConcentration ic k true
    ⟨comps, j, getInitialConcentration ic k false, involved k, k, kfull comps k, kreduced comps k,
     isSequential comps j k⟩)

def parallelBook (comps : List String) (rates : List Rat) : DecayBook :=
  let k := parallelK comps rates
  let j := parallelJ comps
  ⟨comps, j, List.replicate comps.length 1, involved k, k, kfull comps k, kreduced comps k, isSequential comps j k⟩

def sequentialBook (comps : List String) (rates : List Rat) : DecayBook :=
  let k := sequentialK comps rates
  let j := sequentialJ comps
  ⟨comps, j, j, involved k, k, kfull comps k, kreduced comps k, isSequential comps j k⟩

/-! ### the tables as the *regenerated* descriptors (Generated/C06.lean) define them -/

/-- the part of the complex oscillation a store writes -/
def partCol (pfid : Bool) (p : Part) (f r : Rat) : Option Col :=
  match p, pfid with
  | .real, false => some (.oscCos f r)
  | .imag, false => some (.oscSin f r)
  | .real, true => some (.pfidCos f r)
  | .imag, true => some (.pfidSin f r)
  | .value, _ => none

/-- the column a store addresses: `idx` the running index, `n` = `rates.size` -/
def IdxExpr.evalAt (n idx : Nat) : IdxExpr → Option Nat
  | .idx => some idx
  | .idxPlus k => some (idx + k)
  | .idxPlusSize arr => if arr = "rates" then some (idx + n) else none
  | .const k => some k
  | .loopVar => none

/-- one pass of the loop body: the stores in source order -/
def applyStores (stores : List Store) (n idx : Nat) (f r : Rat) (acc : List Col) : Option (List Col) :=
  stores.foldlM (fun a s =>
    match s.pos.evalAt n idx, partCol false s.part f r, s.guard with
    | some j, some c, none => some (a.set j c)
    | _, _, _ => none) acc

/-- `idx = 0; for frequency, rate in zip(frequencies, rates): <stores>; idx += step` -/
def fillLoop (stores : List Store) (step n : Nat) : List (Rat × Rat) → Nat → List Col → Option (List Col)
  | [], _, acc => some acc
  | (f, r) :: rest, idx, acc =>
    match applyStores stores n idx f r acc with
    | some acc' => fillLoop stores step n rest (idx + step) acc'
    | none => none

/-- column descriptors of an oscillation kernel described by `fd` -/
def genOscCols (fd : FillDesc) (pfid : Bool) (nLabels : Nat) (freqs rates : List Rat) : Option (List Col) :=
  match fd with
  | .zipLoop vars arrays stores step =>
    if vars = ["frequency", "rate"] ∧ arrays = ["frequencies", "rates"] ∧ pfid = false then
      fillLoop stores step rates.length (freqs.zip rates) 0 (List.replicate (2 * nLabels) .init)
    else none
  | .concat parts =>
    (parts.mapM (fun p => (freqs.zip rates).mapM (fun q => partCol pfid p q.1 q.2))).map List.flatten
  | _ => none

def oscEnv (labels : List String) : LEnv := { lists := [("self.labels", labels)] }

def genOscTable (le : LabelExpr) (fd : FillDesc) (pfid : Bool) (labels : List String) (freqs rates : List Rat) :
    Option Table :=
  match le.eval (oscEnv labels), genOscCols fd pfid labels.length freqs rates with
  | some ls, some cs => some ⟨ls, cs⟩
  | _, _ => none

/-- the regenerated table of the kernel `k` (`noIrfOld` has no source any more) -/
def genOscTableFor (k : Kernel) (labels : List String) (freqs rates : List Rat) : Option Table :=
  match k with
  | .noIrf => genOscTable Generated.dampedOscillationLabels Generated.dampedOscillationNoIrfFill false labels freqs rates
  | .irf => genOscTable Generated.dampedOscillationLabels Generated.dampedOscillationIrfFill false labels freqs rates
  | .pfid => genOscTable Generated.pfidLabels Generated.pfidFill true labels freqs rates
  | .noIrfOld => none

def genSpectralCols (fd : FillDesc) (shape : List (String × String)) : Option (List Col) :=
  match fd with
  | .enumerate path ⟨.loopVar, .value, none⟩ => if path = "self.shape" then some (shape.map (fun p => .shape p.2)) else none
  | _ => none

def genSpectralTable (le : LabelExpr) (fd : FillDesc) (shape : List (String × String)) : Option Table :=
  match le.eval { lists := [("self.shape", shape.map (·.1))] }, genSpectralCols fd shape with
  | some ls, some cs => some ⟨ls, cs⟩
  | _, _ => none

/-- coherent artifact: position `c` holds the (1-based) number of the store that writes column `c`; a store whose
    guard `order > g` fails is skipped, a store outside the matrix is an IndexError -/
def genArtifactCols (fd : FillDesc) (order : Nat) : Option (List Col) :=
  match fd with
  | .direct stores =>
    stores.zipIdx.foldlM (fun acc sk =>
      match sk.1.pos, sk.1.part with
      | .const c, .value =>
        let active := match sk.1.guard with
          | none => some true
          | some (name, g) => if name = "order" then some (decide (g < order)) else none
        match active with
        | some true => if c < acc.length then some (acc.set c (.artifact (sk.2 + 1))) else none
        | some false => some acc
        | none => none
      | _, _ => none) (List.replicate order .init)
  | _ => none

def genArtifactTable (le : LabelExpr) (fd : FillDesc) (order : Nat) (mcLabel : String) : Option Table :=
  if 1 ≤ order ∧ order ≤ 3 then
    match le.eval { scalars := [("self.label", mcLabel)], nats := [("self.order", order)] }, genArtifactCols fd order with
    | some ls, some cs => some ⟨ls, cs⟩
    | _, _ => none
  else none

/-- one-column megacomplexes (`np.ones((n, 1))`): the label list has to have exactly one element -/
def genOneColumnTable (le : LabelExpr) (env : LEnv) (c : Col) : Option Table :=
  match le.eval env with
  | some [l] => some ⟨[l], [c]⟩
  | _ => none

def genBaselineTable (le : LabelExpr) (datasetLabel : String) : Option Table :=
  genOneColumnTable le { scalars := [("dataset_model.label", datasetLabel)] } .ones

def genGuideTable (le : LabelExpr) (target : String) : Option Table :=
  genOneColumnTable le { scalars := [("self.target", target)] } .guide

/-- the compartments a decay megacomplex returns as labels -/
def genDecayLabels (le : LabelExpr) (ic : IC) (k : KMat) : Option (List String) :=
  le.eval { lists := [("dataset_model.initial_concentration.compartments", ic.compartments),
                      ("self.get_k_matrix().involved_compartments()", involved k)] }

def genCompartmentLabels (le : LabelExpr) (comps : List String) : Option (List String) :=
  le.eval { lists := [("self.compartments", comps)] }

/-! ### full models (global megacomplexes): columns and clps by label pair -/

/-- re-ordering by label for any label type; for `String` labels these are `reorderCols` / `reorderVec` -/
def reorderColsBy {α} [BEq α] (labels : List α) (m : Mat) (wanted : List α) : Mat :=
  m.map (fun row => wanted.map (fun l => row.getD (labels.idxOf l) 0))

def reorderVecBy {α} [BEq α] (labels : List α) (c : Vec) (wanted : List α) : Vec :=
  wanted.map (fun l => c.getD (labels.idxOf l) 0)

/-- `np.kron(global_matrix, matrix)`: column `j * nClp + l` of the full matrix belongs to the pair
    (global clp label `j`, clp label `l`) -/
def fullLabels (gl ml : List String) : List (String × String) :=
  gl.flatMap (fun g => ml.map (fun l => (g, l)))

/-- `clp.sel(global_clp_label=g, clp_label=l)` on `np.array(clps).reshape((len(gl), len(ml)))` with the
    coordinates `global_clp_label = gl`, `clp_label = ml`; `none` = KeyError -/
def fullClpAt (gl ml : List String) (c : Vec) (g l : String) : Option Rat :=
  match gl.idxOf? g, ml.idxOf? l with
  | some j, some k => some (c.getD (j * ml.length + k) 0)
  | _, _ => none

/-- everything the full-model path of one dataset produces: global labels / matrix, model labels / matrix,
    the matrix and data handed to the solver, the solver's clps and residual -/
structure FullOut where
  gl : List String
  g : Body
  ml : List String
  m : Body
  a : Mat
  y : Vec
  sol : Option (Vec × Vec)

def fullOut (d : Dataset) : Option FullOut :=
  match datasetMatrix d.mcs, datasetMatrix d.gmcs, fullModelProblem d with
  | some lm, some gm, some (a, y) => some ⟨gm.labels, gm.body, lm.labels, lm.body, a, y, solveLS .vp a y⟩
  | _, _, _ => none

/-! ### driver -/
open Glotaran.Proto

def parseLMat : Tree → Option LMat
  | .list [labels, body] => do some ⟨← labels.strs?, ← parseBody body⟩
  | _ => none

def showBody : Body → String
  | .d2 m => showList ["d2", showMat m]
  | .d3 ms => showList ["d3", showList (ms.map showMat)]

def showLMat (lm : LMat) : String := showStrs lm.labels ++ " " ++ showBody lm.body

def showCol : Col → String
  | .init => "[init]"
  | .oscCos f r => showList ["cos", showRat f, showRat r]
  | .oscSin f r => showList ["sin", showRat f, showRat r]
  | .pfidCos f r => showList ["pcos", showRat f, showRat r]
  | .pfidSin f r => showList ["psin", showRat f, showRat r]
  | .shape n => showList ["shape", encodeStr n]
  | .ones => "[ones]"
  | .artifact k => showList ["art", toString k]
  | .guide => "[guide]"
  | .species n => showList ["species", encodeStr n]

def showTable (t : Table) : String := "table " ++ showStrs t.labels ++ " " ++ showList (t.cols.map showCol)

def parseKernel : Tree → Option Kernel
  | .atom "noirf" => some .noIrf
  | .atom "irf" => some .irf
  | .atom "pfid" => some .pfid
  | .atom "noirf-old" => some .noIrfOld
  | _ => none

def parseKEntry : Tree → Option KEntry
  | .list [t, f, r] => do some ⟨← t.str?, ← f.str?, ← r.rat?⟩
  | _ => none

def parsePair : Tree → Option (String × String)
  | .list [a, b] => do some (← a.str?, ← b.str?)
  | _ => none

def showOptMat : Option Mat → String
  | some m => showMat m
  | none => "valueerror"

def showKMat (k : KMat) : String :=
  showList (k.map (fun e => showList [encodeStr e.to, encodeStr e.frm, showRat e.rate]))

def showBook (b : DecayBook) : String :=
  "book " ++ showStrs b.comps ++ " " ++ showRats b.j ++ " " ++ showRats b.jraw ++ " " ++ showStrs b.involved ++ " " ++
    showKMat b.kmat ++ " " ++ showOptMat b.full ++ " " ++ showOptMat b.reduced ++ " " ++
    (match b.sequential with | some s => showBool s | none => "valueerror")

/-- the label table a table-producing operation denotes (`none`: not such an operation / error) -/
def tableOfOp (ts : List Tree) : Option Table :=
  match ts with
  | [.atom "osc", k, labels, freqs, rates] => do
      some (oscTable (← parseKernel k) (← labels.strs?) (← freqs.rats?) (← rates.rats?))
  | [.atom "spectral", shape] => (Tree.listOf? parsePair shape).map spectralTable
  | [.atom "baseline", ds] => ds.str?.map baselineTable
  | [.atom "artifact", order, label] => do artifactTable (← order.nat?) (← label.str?)
  | [.atom "guide", target] => target.str?.map guideTable
  | [.atom "decay", comps, params, excl, ks] => do
      let k ← Tree.listOf? (Tree.listOf? parseKEntry) ks
      let b ← decayBook ⟨← comps.strs?, ← params.rats?, ← excl.strs?⟩ (k.map dictOf)
      some (speciesTable b.comps)
  | [.atom "parallel", comps, rates] => do
      some (speciesTable (parallelBook (← comps.strs?) (← rates.rats?)).comps)
  | [.atom "sequential", comps, rates] => do
      some (speciesTable (sequentialBook (← comps.strs?) (← rates.rats?)).comps)
  | _ => none

/-- the same operations answered from the regenerated descriptors; `none` = the descriptors do not evaluate -/
def genTableOfOp (ts : List Tree) : Option Table :=
  match ts with
  | [.atom "osc", k, labels, freqs, rates] => do
      genOscTableFor (← parseKernel k) (← labels.strs?) (← freqs.rats?) (← rates.rats?)
  | [.atom "spectral", shape] => do
      genSpectralTable Generated.spectralLabels Generated.spectralFill (← Tree.listOf? parsePair shape)
  | [.atom "baseline", ds] => do genBaselineTable Generated.baselineLabels (← ds.str?)
  | [.atom "artifact", order, label] => do
      genArtifactTable Generated.coherentArtifactLabels Generated.coherentArtifactFill (← order.nat?) (← label.str?)
  | [.atom "guide", target] => do genGuideTable Generated.clpGuideLabels (← target.str?)
  | [.atom "decay", comps, params, excl, ks] => do
      let k ← Tree.listOf? (Tree.listOf? parseKEntry) ks
      let ic : IC := ⟨← comps.strs?, ← params.rats?, ← excl.strs?⟩
      let km ← getKMatrix (k.map dictOf)
      (genDecayLabels Generated.decayLabels ic km).map speciesTable
  | [.atom "parallel", comps, _] => do
      (genCompartmentLabels Generated.decayParallelLabels (← comps.strs?)).map speciesTable
  | [.atom "sequential", comps, _] => do
      (genCompartmentLabels Generated.decaySequentialLabels (← comps.strs?)).map speciesTable
  | _ => none

/-- evaluation of descriptors from an environment keyed by the printed descriptor -/
def evalCol (env : List (String × List Vec)) (i : Nat) (c : Col) : Vec :=
  match env.lookup (showCol c) with
  | some cols => cols.getD i []
  | none => []

def parseEnv (t : Tree) : Option (List (String × List Vec)) :=
  Tree.listOf? (fun e => match e with
    | .list [k, cols] => do some (showTreeRaw k, ← Tree.listOf? Tree.rats? cols)
    | _ => none) t
where
  showTreeRaw : Tree → String
    | .atom a => a
    | .list xs => "[" ++ ",".intercalate (xs.map showTreeRaw) ++ "]"

def parseMcDecl : Tree → Option McDecl
  | .list [dep, scale, .list op, env] => do
      let t ← tableOfOp op
      let e ← parseEnv env
      some ⟨t, ← dep.bool?, ← Tree.optOf? Tree.rat? scale, evalCol e⟩
  | _ => none

def showFullOut (o : FullOut) : String :=
  "full " ++ showStrs o.gl ++ " " ++ showBody o.g ++ " " ++ showStrs o.ml ++ " " ++ showBody o.m ++ " " ++
    showMat o.a ++ " " ++ showRats o.y ++ " " ++
    (match o.sol with
     | some (c, r) =>
       -- the reported `clp` (global_clp_label × clp_label) read with `fullClpAt`, pair by pair
       showList [showRats c, showRats r, showList (o.gl.map (fun g => showList (o.ml.map (fun l =>
         match fullClpAt o.gl o.ml c g l with | some x => showRat x | none => "keyerror"))))]
     | none => "unsolvable")

def driverStep (s : Unit) (ts : List Tree) : Unit × String :=
  match ts with
  | .atom "gen" :: rest =>
    match tableOfOp rest, genTableOfOp rest with
    | _, some t => (s, showTable t)
    | some _, none => (s, "none")                       -- a valid operation the regenerated descriptors do not answer
    | none, none => (s, if (rest.head?.bind Tree.raw?) == some "artifact" then "modelerror" else "bad-op")
  | [.atom "fullmodel", axis, data, weight, mcs, gmcs] =>
    match axis.rats?, data.ratss?, Tree.optOf? Tree.ratss? weight, Tree.listOf? parseMc mcs, Tree.listOf? parseMc gmcs with
    | some ax, some dt, some w, some ms, some gs =>
      match fullOut ⟨"d", ax, dt, w, none, ms, gs⟩ with
      | some o => (s, showFullOut o)
      | none => (s, "none")
    | _, _, _, _, _ => (s, "bad-op")
  | [.atom "fullclp", gl, ml, c, g, l] =>
    match gl.strs?, ml.strs?, c.rats?, g.str?, l.str? with
    | some gl, some ml, some c, some g, some l =>
      match fullClpAt gl ml c g l with
      | some x => (s, "rat " ++ showRat x)
      | none => (s, "keyerror")
    | _, _, _, _, _ => (s, "bad-op")
  | [.atom "fullreorder", gl, ml, gl', ml', a, c] =>
    match gl.strs?, ml.strs?, gl'.strs?, ml'.strs?, a.ratss?, c.rats? with
    | some gl, some ml, some gl', some ml', some a, some c =>
      (s, "re " ++ showMat (reorderColsBy (fullLabels gl ml) a (fullLabels gl' ml')) ++ " " ++
        showRats (reorderVecBy (fullLabels gl ml) c (fullLabels gl' ml')))
    | _, _, _, _, _, _ => (s, "bad-op")
  | [.atom "tabledataset", n, nIdx, mcs] =>
    match n.nat?, nIdx.nat?, Tree.listOf? parseMcDecl mcs with
    | some n, some k, some ds =>
      match tablesDataset n k ds with
      | some lm => (s, "lm " ++ showLMat lm)
      | none => (s, "none")
    | _, _, _ => (s, "bad-op")
  | [.atom "combine", a, b] =>
    match parseLMat a, parseLMat b with
    | some x, some y => (s, "lm " ++ showLMat (combine x y))
    | _, _ => (s, "bad-op")
  | [.atom "dsmatrix", mcs] =>
    match Tree.listOf? parseMc mcs with
    | some ms =>
      match datasetMatrix ms with
      | some lm => (s, "lm " ++ showLMat lm)
      | none => (s, "none")
    | none => (s, "bad-op")
  | [.atom "slice", a, i] =>
    match parseLMat a, i.nat? with
    | some x, some k => (s, "lm " ++ showLMat (sliceAt x k))
    | _, _ => (s, "bad-op")
  | [.atom "entry", a, l, i, r] =>
    match parseLMat a, l.str?, i.nat?, r.nat? with
    | some x, some l, some i, some r => (s, "rat " ++ showRat (entry x l i r))
    | _, _, _, _ => (s, "bad-op")
  | [.atom "osc", k, labels, freqs, rates] =>
    match parseKernel k, labels.strs?, freqs.rats?, rates.rats? with
    | some k, some ls, some fs, some rs => (s, showTable (oscTable k ls fs rs))
    | _, _, _, _ => (s, "bad-op")
  | [.atom "spectral", shape] =>
    match Tree.listOf? parsePair shape with
    | some sh => (s, showTable (spectralTable sh))
    | none => (s, "bad-op")
  | [.atom "baseline", ds] =>
    match ds.str? with
    | some d => (s, showTable (baselineTable d))
    | none => (s, "bad-op")
  | [.atom "artifact", order, label] =>
    match order.nat?, label.str? with
    | some o, some l =>
      match artifactTable o l with
      | some t => (s, showTable t)
      | none => (s, "modelerror")
    | _, _ => (s, "bad-op")
  | [.atom "guide", target] =>
    match target.str? with
    | some t => (s, showTable (guideTable t))
    | none => (s, "bad-op")
  | [.atom "decay", comps, params, excl, ks] =>
    match comps.strs?, params.rats?, excl.strs?, Tree.listOf? (Tree.listOf? parseKEntry) ks with
    | some c, some p, some e, some k =>
      match decayBook ⟨c, p, e⟩ (k.map dictOf) with
      | some b => (s, showBook b)
      | none => (s, "no-kmatrix")
    | _, _, _, _ => (s, "bad-op")
  | [.atom "parallel", comps, rates] =>
    match comps.strs?, rates.rats? with
    | some c, some r => (s, showBook (parallelBook c r))
    | _, _ => (s, "bad-op")
  | [.atom "sequential", comps, rates] =>
    match comps.strs?, rates.rats? with
    | some c, some r => (s, showBook (sequentialBook c r))
    | _, _ => (s, "bad-op")
  | [.atom "select", labels, m, wanted] =>
    match labels.strs?, m.ratss?, wanted.strs? with
    | some ls, some mm, some w =>
      match selectCols ls mm w with
      | some r => (s, "mat " ++ showMat r)
      | none => (s, "keyerror")
    | _, _, _ => (s, "bad-op")
  | [.atom "selectvec", labels, c, wanted] =>
    match labels.strs?, c.rats?, wanted.strs? with
    | some ls, some cc, some w =>
      match selectVec ls cc w with
      | some r => (s, "vec " ++ showRats r)
      | none => (s, "keyerror")
    | _, _, _ => (s, "bad-op")
  | [.atom "unionlabels", per] =>
    match Tree.listOf? Tree.strs? per with
    | some p => (s, "strs " ++ showStrs (unionLabels p))
    | none => (s, "bad-op")
  | [.atom "allspecies", per] =>
    match Tree.listOf? Tree.strs? per with
    | some p => (s, "strs " ++ showStrs (allSpecies p))
    | none => (s, "bad-op")
  | _ => (s, "bad-op")

end Glotaran.C06
