/-
C19 — plugin registry (glotaran/plugin_system/base_registry.py).

Model of `add_plugin_to_registry`, `add_instantiated_plugin_to_registry`, `set_plugin`,
`get_plugin_from_registry`, `registered_plugins` on a registry dict.  A Python dict is an
association list with unique keys (insertion replaces); `registered_plugins` sorts, so the
insertion order is unobservable.  A plugin is (module, name, uid): `uid` stands for object
identity, `module ++ "." ++ name` is `full_plugin_name`.
-/
import GlotaranModel.Proto
namespace Glotaran.C19

structure Plugin where
  module : String
  name : String
  uid : Nat
  deriving Repr, DecidableEq, Inhabited

/-- `full_plugin_name(plugin)` = f"{module}.{name}" -/
def Plugin.fullName (p : Plugin) : String := p.module ++ "." ++ p.name

abbrev Registry := List (String × Plugin)

def hasDot (s : String) : Bool := s.toList.contains '.'

def lookup (r : Registry) (k : String) : Option Plugin :=
  match r with
  | [] => none
  | (k', p) :: rest => if k' = k then some p else lookup rest k

/-- `registry[k] = p` as a Python dict does it: an existing key keeps its position and gets the new
    value, a new key goes to the end (iteration = insertion order) -/
def insert (r : Registry) (k : String) (p : Plugin) : Registry :=
  match r with
  | [] => [(k, p)]
  | (k', q) :: rest => if k' = k then (k, p) :: rest else (k', q) :: insert rest k p

/-- `registry.keys()`: the keys in insertion order -/
def keys (r : Registry) : List String := r.map (·.1)

/-- key under which `add` always stores the plugin: f"{full_plugin_name(plugin)}{_id}" -/
def fullKey (p : Plugin) (id : String) : String :=
  if id.isEmpty then p.fullName else p.fullName ++ "_" ++ id

inductive Op where
  | add (key : String) (p : Plugin) (id : String)
  | addInst (keys : List String) (module name : String) (uidBase : Nat)
  | setPlugin (key full : String)
  | get (key : String)
  | registered (full : Bool)
  deriving Repr, DecidableEq

inductive Out where
  | ok (warned : Bool)                 -- add: whether PluginOverwriteWarning was issued
  | oks (warned : List Bool)           -- addInst: one flag per processed key
  | errDotted                          -- ValueError: '.' in short name
  | errDottedAfter (warned : List Bool) -- addInst aborted at a dotted key after some keys
  | errUnknownFull (known : List String) -- set_plugin: not a registered full name (dotted keys, insertion order)
  | found (p : Plugin)
  | notFound
  | names (ns : List String)
  | done
  deriving Repr, DecidableEq

/-- one `add_plugin_to_registry` call; `none` = ValueError (registry untouched) -/
def addOne (r : Registry) (key : String) (p : Plugin) (id : String) : Option (Registry × Bool) :=
  if hasDot key then none
  else
    match lookup r key with
    | some old =>
      -- key taken: the newcomer goes under its full name, the short name is kept
      let warned := decide (old.fullName ≠ p.fullName)
      some (insert (insert r (fullKey p id) p) p.fullName p, warned)
    | none =>
      some (insert (insert r (fullKey p id) p) key p, false)

def addInstLoop (r : Registry) (module name : String) :
    List String → Nat → List Bool → Registry × Out
  | [], _, acc => (r, .oks acc.reverse)
  | k :: ks, uid, acc =>
    match addOne r k ⟨module, name, uid⟩ k with
    | none => (r, if acc.isEmpty then .errDotted else .errDottedAfter acc.reverse)
    | some (r', w) => addInstLoop r' module name ks (uid + 1) (w :: acc)

def sortedKeys (r : Registry) (full : Bool) : List String :=
  let ks := r.map (·.1)
  let ks := if full then ks else ks.filter (fun k => !hasDot k)
  ks.mergeSort (fun a b => decide (a ≤ b))

def step (r : Registry) : Op → Registry × Out
  | .add key p id =>
    match addOne r key p id with
    | none => (r, .errDotted)
    | some (r', w) => (r', .ok w)
  | .addInst keys m n u => addInstLoop r m n keys u []
  | .setPlugin key full =>
    if hasDot key then (r, .errDotted)
    -- the message lists `filter(lambda n: "." in n, registry.keys())`: dotted keys in insertion order
    else if !hasDot full then (r, .errUnknownFull ((keys r).filter hasDot))
    else match lookup r full with
      | none => (r, .errUnknownFull ((keys r).filter hasDot))
      | some p => (insert r key p, .done)
  | .get key =>
    match lookup r key with
    | some p => (r, .found p)
    | none => (r, .notFound)
  | .registered full => (r, .names (sortedKeys r full))

def run (r : Registry) (ops : List Op) : Registry := ops.foldl (fun s op => (step s op).1) r

/-! ### the dotted keys a history writes (used by `every_plugin_reachable_iff`)

`add_plugin_to_registry` stores the plugin under `fullKey` always and, when the short name is
already taken, under its plain full name as well (the name the overwrite warning tells the user
to pass to `set_*_plugin`).  `set_plugin` writes a short name only (it refuses dotted ones). -/

/-- dict writes to dotted keys of one accepted `add_plugin_to_registry` call, in execution order -/
def addOneWrites (r : Registry) (key : String) (p : Plugin) (id : String) : List (String × Plugin) :=
  if hasDot key then []
  else
    match lookup r key with
    | some _ => [(fullKey p id, p), (p.fullName, p)]
    | none => [(fullKey p id, p)]

def addInstWrites (r : Registry) (module name : String) : List String → Nat → List (String × Plugin)
  | [], _ => []
  | k :: ks, uid =>
    match addOne r k ⟨module, name, uid⟩ k with
    | none => []
    | some (r', _) => addOneWrites r k ⟨module, name, uid⟩ k ++ addInstWrites r' module name ks (uid + 1)

def stepWrites (r : Registry) : Op → List (String × Plugin)
  | .add key p id => addOneWrites r key p id
  | .addInst keys m n u => addInstWrites r m n keys u
  | _ => []

/-- all writes to dotted keys during a history, oldest first -/
def runWrites (r : Registry) : List Op → List (String × Plugin)
  | [] => []
  | op :: ops => stepWrites r op ++ runWrites (step r op).1 ops

/-- the registrations `add_instantiated_plugin_to_registry` performs before it stops at a dotted key -/
def acceptedInst (module name : String) : List String → Nat → List (Plugin × String)
  | [], _ => []
  | k :: ks, uid => if hasDot k then [] else (⟨module, name, uid⟩, k) :: acceptedInst module name ks (uid + 1)

/-- the accepted registrations of one operation: (plugin, instance identifier) -/
def acceptedOf : Op → List (Plugin × String)
  | .add key p id => if hasDot key then [] else [(p, id)]
  | .addInst keys m n u => acceptedInst m n keys u
  | _ => []

def accepted (ops : List Op) : List (Plugin × String) := ops.flatMap acceptedOf

/-! ### the three registries and the public wrappers (table regenerated from the source)

`__PluginRegistry` holds three dicts; `megacomplex_registration.py`, `data_io_registration.py`
and `project_io_registration.py` wrap the functions of `base_registry.py` around one of them.
`Generated/C19.lean` lists, for every module-level function that touches `__PluginRegistry`, which
base function it calls with which arguments (`Accessor`), and for every `load_*` / `save_*`
convenience function the expression it hands to `get_project_io` / `get_data_io` and what it does
with the object it gets back (`ConvFn`).  `callAccessor` / `dispatch` interpret those rows. -/

structure Registries where
  megacomplex : Registry := []
  dataIo : Registry := []
  projectIo : Registry := []
  deriving Repr

/-- `__PluginRegistry.<attr>` -/
def Registries.get (rs : Registries) (attr : String) : Option Registry :=
  if attr = "megacomplex" then some rs.megacomplex
  else if attr = "data_io" then some rs.dataIo
  else if attr = "project_io" then some rs.projectIo
  else none

def Registries.set (rs : Registries) (attr : String) (r : Registry) : Registries :=
  if attr = "megacomplex" then { rs with megacomplex := r }
  else if attr = "data_io" then { rs with dataIo := r }
  else if attr = "project_io" then { rs with projectIo := r }
  else rs

/-- argument values of the public functions -/
inductive Val where
  | none_
  | str (s : String)
  | strs (l : List String)
  | bool (b : Bool)
  | cls (module name : String) (uid : Nat)   -- a plugin class (uid: object identity / first instance)
  | obj                                      -- anything else (model, dataset, …)
  deriving Repr, DecidableEq

/-- Python truthiness -/
def Val.truthy : Val → Bool
  | .none_ => false
  | .str s => decide (s ≠ "")
  | .strs l => !l.isEmpty
  | .bool b => b
  | .cls _ _ _ => true
  | .obj => true

/-- how an optional keyword is given at a call site -/
inductive FlagArg where
  | absent
  | lit (b : Bool)
  | other (src : String)
  deriving Repr, DecidableEq

/-- an argument expression of a wrapper's call of a `base_registry` function -/
inductive WArg where
  | param (name : String)
  | registry (attr : String)                      -- `__PluginRegistry.<attr>`
  | none_
  | str (s : String)
  | bool (b : Bool)
  | message (knownFn : String) (full : FlagArg)   -- f-string that formats `knownFn(full_names=…)`
  | other (src : String)
  deriving Repr, DecidableEq

/-- a module-level function that touches `__PluginRegistry` -/
structure Accessor where
  name : String
  module : String
  params : List String                 -- parameters in order (decorator: outer then inner)
  defaults : List (String × WArg)
  shape : String                       -- "return" | "expr" | "decorator" | "other"
  base : String                        -- the function of base_registry.py it calls (exactly one)
  args : List (String × WArg)          -- keyword → argument (positional ones named by the base signature)
  deriving Repr, DecidableEq

/-- the expression handed to `get_project_io` / `get_data_io` -/
inductive FmtExpr where
  | param (name : String)
  | none_
  | str (s : String)
  | or (a b : FmtExpr)
  | infer (path : FmtExpr) (needsToExist allowFolder : FlagArg)   -- `infer_file_format(path, …)`
  | other (src : String)
  deriving Repr, DecidableEq

/-- one occurrence of the variable the io object is bound to -/
inductive IoUse where
  | method (name : String)      -- `io.<name>(…)`
  | other (what : String)       -- anything else
  deriving Repr, DecidableEq

/-- a `load_*` / `save_*` convenience function -/
structure ConvFn where
  name : String
  module : String
  params : List String          -- positional-or-keyword parameters in order
  getter : String               -- accessor whose result is bound to the io variable ("" if none)
  registryCalls : Nat           -- calls of accessors / base_registry functions in the whole body
  fmtExpr : FmtExpr
  ioUses : List IoUse
  deriving Repr, DecidableEq

inductive InferErr where
  | noFile          -- ValueError "There is no file …"
  | noExtension     -- ValueError "Cannot determine format of file …"
  deriving Repr, DecidableEq

/-- `os.path.splitext(path)[1]` without its leading dot; `none` when `splitext` finds no extension
    (no dot in the last path component, or only dots in front of the last dot) -/
def extOf (path : String) : Option String :=
  let base := (path.toList.reverse.takeWhile (· ≠ '/'))      -- last component, reversed
  let extRev := base.takeWhile (· ≠ '.')
  match base.dropWhile (· ≠ '.') with
  | [] => none
  | _ :: preRev => if preRev.any (· ≠ '.') then some (String.ofList extRev.reverse) else none

/-- `infer_file_format(path, needs_to_exist=…, allow_folder=…)`; `isFile` = `os.path.isfile(path)` -/
def inferFileFormat (path : String) (isFile needsToExist allowFolder : Bool) : Except InferErr String :=
  if !isFile && needsToExist && !allowFolder then .error .noFile
  else
    match extOf path with
    | some e => .ok (if e = "yml" then "yaml" else e)
    | none => if allowFolder then .ok "yaml" else .error .noExtension

inductive ApiOut where
  | base (o : Out)                                  -- outcome of the base_registry function
  | bool (b : Bool)
  | unknown (key : String) (known : List String)    -- ValueError of `get_*`, with the names its message lists
  | inferError (e : InferErr)                       -- ValueError of `infer_file_format`
  | called (methods : List String) (p : Plugin)     -- methods invoked on the resolved plugin, in order
  | notModelled (why : String)
  deriving Repr, DecidableEq

def envLookup (env : List (String × Val)) (n : String) : Option Val :=
  match env with
  | [] => none
  | (k, v) :: rest => if k = n then some v else envLookup rest n

def argLookup (args : List (String × WArg)) (kw : String) : Option WArg :=
  match args with
  | [] => none
  | (k, v) :: rest => if k = kw then some v else argLookup rest kw

/-- bind positional arguments to parameters, fill the rest from literal defaults -/
def bindParams (defaults : List (String × WArg)) : List String → List Val → Option (List (String × Val))
  | [], [] => some []
  | [], _ :: _ => none
  | p :: ps, v :: vs => (bindParams defaults ps vs).map ((p, v) :: ·)
  | p :: ps, [] =>
    match argLookup defaults p with
    | some (.bool b) => (bindParams defaults ps []).map ((p, .bool b) :: ·)
    | some (.str s) => (bindParams defaults ps []).map ((p, .str s) :: ·)
    | some .none_ => (bindParams defaults ps []).map ((p, .none_) :: ·)
    | _ => none

def evalW (env : List (String × Val)) : WArg → Option Val
  | .param n => envLookup env n
  | .none_ => some .none_
  | .str s => some (.str s)
  | .bool b => some (.bool b)
  | _ => none

def evalKw (a : Accessor) (env : List (String × Val)) (kw : String) : Option Val :=
  (argLookup a.args kw).bind (evalW env)

def Accessor.registryAttr (a : Accessor) : Option String :=
  match argLookup a.args "plugin_registry" with
  | some (.registry attr) => some attr
  | _ => none

def findAccessor (accs : List Accessor) (name : String) : Option Accessor :=
  accs.find? (fun a => a.name = name)

/-- the list a `known_*` function returns when called as `knownFn(full_names=flag)` -/
def evalKnown (accs : List Accessor) (rs : Registries) (knownFn : String) (flag : FlagArg) : Option (List String) :=
  match findAccessor accs knownFn with
  | none => none
  | some k =>
    if k.base ≠ "registered_plugins" ∨ k.shape ≠ "return" then none
    else
      let actual : Option (List Val) := match flag with
        | .absent => some []
        | .lit b => if k.params = ["full_names"] then some [.bool b] else none
        | .other _ => none
      match actual.bind (bindParams k.defaults k.params), k.registryAttr.bind rs.get with
      | some env, some r =>
        match evalKw k env "full_names" with
        | some (.bool full) => some (sortedKeys r full)
        | _ => none
      | _, _ => none

def keysOfVal : Val → Option (List String)
  | .str s => some [s]
  | .strs l => some l
  | _ => none

/-- call of one public registry function with positional arguments -/
def callAccessor (accs : List Accessor) (a : Accessor) (rs : Registries) (args : List Val) :
    Registries × ApiOut :=
  match bindParams a.defaults a.params args, a.registryAttr with
  | some env, some attr =>
    match rs.get attr with
    | none => (rs, .notModelled "unknown registry")
    | some r =>
      if a.base = "add_plugin_to_registry" then
        let id : Option String := match argLookup a.args "instance_identifier" with
          | none => some ""
          | some w => match evalW env w with
            | some (.str s) => some s
            | _ => none
        match evalKw a env "plugin_register_key", evalKw a env "plugin", id with
        | some (.str key), some (.cls m n uid), some id =>
          let res := step r (.add key ⟨m, n, uid⟩ id)
          (rs.set attr res.1, .base res.2)
        | _, _, _ => (rs, .notModelled "arguments")
      else if a.base = "add_instantiated_plugin_to_registry" then
        match (evalKw a env "plugin_register_keys").bind keysOfVal, evalKw a env "plugin_class" with
        | some keys, some (.cls m n uid) =>
          let res := step r (.addInst keys m n uid)
          (rs.set attr res.1, .base res.2)
        | _, _ => (rs, .notModelled "arguments")
      else if a.base = "set_plugin" then
        match evalKw a env "plugin_register_key", evalKw a env "full_plugin_name" with
        | some (.str key), some (.str full) =>
          let res := step r (.setPlugin key full)
          (rs.set attr res.1, .base res.2)
        | _, _ => (rs, .notModelled "arguments")
      else if a.shape ≠ "return" then (rs, .notModelled "result dropped")
      else if a.base = "get_plugin_from_registry" then
        match evalKw a env "plugin_register_key", argLookup a.args "not_found_error_message" with
        | some (.str key), some (.message knownFn flag) =>
          match (step r (.get key)).2 with
          | .notFound =>
            match evalKnown accs rs knownFn flag with
            | some known => (rs, .unknown key known)
            | none => (rs, .notModelled "error message")
          | o => (rs, .base o)
        | _, _ => (rs, .notModelled "arguments")
      else if a.base = "is_registered_plugin" then
        match evalKw a env "plugin_register_key" with
        | some (.str key) => (rs, .bool (lookup r key).isSome)
        | _ => (rs, .notModelled "arguments")
      else if a.base = "registered_plugins" then
        match evalKw a env "full_names" with
        | some (.bool full) => (rs, .base (step r (.registered full)).2)
        | _ => (rs, .notModelled "arguments")
      else (rs, .notModelled "base function")
  | _, _ => (rs, .notModelled "signature")

/-- call of a public registry function by name -/
def callApi (accs : List Accessor) (name : String) (rs : Registries) (args : List Val) : Registries × ApiOut :=
  match findAccessor accs name with
  | some a => callAccessor accs a rs args
  | none => (rs, .notModelled "no such function")

def flagValue (dflt : Bool) : FlagArg → Option Bool
  | .absent => some dflt
  | .lit b => some b
  | .other _ => none

/-- value of the expression handed to the getter; `isFile` = `os.path.isfile`; `dN`, `dF` are the
    defaults of `needs_to_exist` / `allow_folder` in the signature of `infer_file_format` -/
def evalFmt (env : List (String × Val)) (isFile : String → Bool) (dN dF : Bool) : FmtExpr → Except ApiOut Val
  | .param n => match envLookup env n with
    | some v => .ok v
    | none => .error (.notModelled "unbound name")
  | .none_ => .ok .none_
  | .str s => .ok (.str s)
  | .or a b => do
    let va ← evalFmt env isFile dN dF a
    if va.truthy then .ok va else evalFmt env isFile dN dF b
  | .infer p nte af => do
    let vp ← evalFmt env isFile dN dF p
    match vp, flagValue dN nte, flagValue dF af with
    | .str path, some n, some f =>
      match inferFileFormat path (isFile path) n f with
      | .ok fmt => .ok (.str fmt)
      | .error e => .error (.inferError e)
    | _, _, _ => .error (.notModelled "infer_file_format arguments")
  | .other src => .error (.notModelled src)

def bindPositional : List String → List Val → List (String × Val)
  | p :: ps, v :: vs => (p, v) :: bindPositional ps vs
  | _, _ => []

def methodsOf : List IoUse → Option (List String)
  | [] => some []
  | .method m :: rest => (methodsOf rest).map (m :: ·)
  | .other _ :: _ => none

/-- a call `f(args…)` of a convenience function (all arguments positional; the overwrite check of
    the `save_*` functions — C18 — is assumed to pass): which methods of which plugin get called -/
def dispatch (accs : List Accessor) (inferDefaults : Bool × Bool) (f : ConvFn) (rs : Registries)
    (args : List Val) (isFile : String → Bool) : ApiOut :=
  if f.registryCalls ≠ 1 then .notModelled "registry used more than once"
  else
    match evalFmt (bindPositional f.params args) isFile inferDefaults.1 inferDefaults.2 f.fmtExpr with
    | .error e => e
    | .ok v =>
      match findAccessor accs f.getter with
      | none => .notModelled "getter"
      | some g =>
        if g.module ≠ f.module then .notModelled "getter of another module"
        else
          match (callAccessor accs g rs [v]).2 with
          | .base (.found p) =>
            match methodsOf f.ioUses with
            | some ms => .called ms p
            | none => .notModelled "io object used for something else"
          | o => o

/-! ### `supported_file_extensions_*` -/

/-- `key.endswith("_str")` -/
def endsWithStr (k : String) : Bool := "_str".toList.reverse.isPrefixOf k.toList.reverse

/-- `base_registry.supported_file_extensions(method_names, keys, get, Base)`: for every key the
    plugin `get` returns; keys ending in `_str` are skipped; the others are kept when every named
    method differs from the base class's (`implements p m`; the method names are assumed to be
    methods of the interface) -/
def supportedExtensions (keys : List String) (get : String → Option Plugin)
    (implements : Plugin → String → Bool) (methods : List String) : List String :=
  keys.filterMap (fun k =>
    match get k with
    | some p => if !endsWithStr k && methods.all (implements p) then some ("." ++ k) else none
    | none => none)

/-- a `supported_file_extensions_*` function: `yield from supported_file_extensions(<methods param>,
    <keysFn>(full_names=flag), <getFn>, <Base>)` -/
structure ExtFn where
  name : String
  module : String
  params : List String
  methodsArg : WArg
  keysFn : String
  keysFlag : FlagArg
  getFn : String
  baseClass : String
  deriving Repr, DecidableEq

def callExtFn (accs : List Accessor) (e : ExtFn) (rs : Registries) (implements : Plugin → String → Bool)
    (methods : List String) : Option (List String) :=
  match e.params, e.methodsArg with
  | [mp], .param mp' =>
    if mp ≠ mp' then none
    else
      match evalKnown accs rs e.keysFn e.keysFlag, findAccessor accs e.getFn with
      | some keys, some g =>
        some (supportedExtensions keys
          (fun k => match (callAccessor accs g rs [.str k]).2 with
            | .base (.found p) => some p
            | _ => none) implements methods)
      | _, _ => none
  | _, _ => none

/-- call of a convenience function by name -/
def dispatchByName (accs : List Accessor) (convs : List ConvFn) (inferDefaults : Bool × Bool) (name : String)
    (rs : Registries) (args : List Val) (isFile : String → Bool) : ApiOut :=
  match convs.find? (fun f => f.name = name) with
  | some f => dispatch accs inferDefaults f rs args isFile
  | none => .notModelled "no such function"

/-! ### import-time registration (`base_registry.load_plugins`, called by `glotaran/__init__.py`)

Nothing registers a plugin except the decorators `register_data_io` / `register_project_io` / `megacomplex`
running when the module that defines the plugin class is imported.  `load_plugins()` walks
`importlib.metadata.entry_points()` in the order importlib yields them and imports (`entry_point.load()`) every
entry point whose group starts with `glotaran.plugins` — glotaran's own builtin modules are entry points of
the `pyglotaran` distribution like any third-party plugin.  There is no `try`: an entry point whose import
raises ends `load_plugins()` (and `import glotaran`) with that exception; what was registered before stays. -/

/-- an entry point: its group, the registration calls importing its module makes (in order), and whether
    the import then raises -/
structure EntryPoint (α : Type) where
  group : String
  calls : List α
  fails : Bool
  deriving Repr

/-- `group.startswith("glotaran.plugins")` -/
def isPluginGroup (g : String) : Bool := "glotaran.plugins".toList.isPrefixOf g.toList

/-- the registration calls `load_plugins()` causes, in order, and whether it ends with an exception -/
def loadedCalls {α : Type} : List (EntryPoint α) → List α × Bool
  | [] => ([], false)
  | e :: es =>
    if !isPluginGroup e.group then loadedCalls es
    else if e.fails then (e.calls, true)
    else ((e.calls ++ (loadedCalls es).1), (loadedCalls es).2)

/-- `load_plugins()`; `deactivated` = `"DEACTIVATE_GTA_PLUGINS" in os.environ`.  Result: the registries, the
    outcome of every registration call, whether an exception ended the loading. -/
def loadPlugins (accs : List Accessor) (deactivated : Bool) (eps : List (EntryPoint (String × List Val)))
    (rs : Registries) : Registries × List ApiOut × Bool :=
  if deactivated then (rs, [], false)
  else
    let res := (loadedCalls eps).1.foldl
      (fun (acc : Registries × List ApiOut) c => let o := callApi accs c.1 acc.1 c.2; (o.1, acc.2 ++ [o.2])) (rs, [])
    (res.1, res.2, (loadedCalls eps).2)

/-- one decorator call site of a builtin plugin module (table regenerated from the source) -/
structure BuiltinReg where
  attr : String            -- registry: "data_io" | "project_io" | "megacomplex"
  module : String
  cls : String
  names : List String      -- the short names it registers, in order
  literal : Bool           -- the names are literals in the source (otherwise `names` is empty)
  deriving Repr, DecidableEq

/-! ### driver -/
open Glotaran.Proto

def showPlugin (p : Plugin) : String := s!"{encodeStr p.fullName}#{p.uid}"
def showBools (bs : List Bool) : String := showList (bs.map showBool)

def showOut : Out → String
  | .ok w => s!"ok {showBool w}"
  | .oks ws => s!"oks {showBools ws}"
  | .errDotted => "err dotted"
  | .errDottedAfter ws => s!"err dotted-after {showBools ws}"
  | .errUnknownFull known => s!"err unknown-full {showStrs known}"
  | .found p => s!"found {showPlugin p}"
  | .notFound => "err not-found"
  | .names ns => s!"names {showStrs ns}"
  | .done => "done"

def parseOp : List Tree → Option Op
  | [.atom "add", k, m, n, u, id] => do
      some (.add (← k.str?) ⟨← m.str?, ← n.str?, ← u.nat?⟩ (← id.str?))
  | [.atom "addinst", ks, m, n, u] => do
      some (.addInst (← ks.strs?) (← m.str?) (← n.str?) (← u.nat?))
  | [.atom "set", k, f] => do some (.setPlugin (← k.str?) (← f.str?))
  | [.atom "get", k] => do some (.get (← k.str?))
  | [.atom "registered", b] => do some (.registered (← b.bool?))
  | _ => none

def showWrites (ws : List (String × Plugin)) : String :=
  showList (ws.map (fun w => s!"[{encodeStr w.1},{showPlugin w.2}]"))

def showApiOut : ApiOut → String
  | .base o => showOut o
  | .bool b => s!"bool {showBool b}"
  | .unknown k known => s!"err unknown {encodeStr k} {showStrs known}"
  | .inferError .noFile => "err no-file"
  | .inferError .noExtension => "err no-extension"
  | .called ms p => s!"called {showStrs ms} {showPlugin p}"
  | .notModelled why => s!"not-modelled {encodeStr why}"

def parseVal : Tree → Option Val
  | .atom "n" => some .none_
  | .atom "o" => some .obj
  | .atom "T" => some (.bool true)
  | .atom "F" => some (.bool false)
  | .list [.atom "s", v] => v.str?.map .str
  | .list [.atom "l", vs] => vs.strs?.map .strs
  | .list [.atom "c", m, n, u] => do some (.cls (← m.str?) (← n.str?) (← u.nat?))
  | _ => none

structure DState where
  reg : Registry := []          -- the registry dict of the base-level protocol lines
  rs : Registries := {}         -- `__PluginRegistry` of the `api` / `dispatch` lines

/-- protocol: `reset` starts from empty registries; `add`/`addinst`/`set`/`get`/`registered` are
    `Op`s on a bare registry dict; `wtrace <op>` prints the dotted-key writes the op would make
    (state unchanged); `api <function> [values]` calls a public registry function through the
    regenerated table; `dispatch <function> [values] [paths that are files]` calls a convenience
    function; `infer <path> <isfile> <needs_to_exist> <allow_folder>`; `obs [keys]`;
    `supported <function> [methods] [[uid,[overridden methods]]…]`. -/
def driverStep (accs : List Accessor) (convs : List ConvFn) (exts : List ExtFn) (inferDefaults : Bool × Bool)
    (st : DState) (ts : List Tree) : DState × String :=
  match ts with
  | [.atom "reset"] => ({}, "reset")
  | [.atom "obs", ks] =>
    -- registered_plugins(full) / (short) and a lookup of every listed key, in one line
    match ks.strs? with
    | none => (st, "bad-op")
    | some keys =>
      let res := keys.map (fun k => match (step st.reg (.get k)).2 with
        | .found p => showPlugin p
        | _ => "-")
      (st, s!"obs {showOut (step st.reg (.registered true)).2} {showOut (step st.reg (.registered false)).2} {showList res}")
  | [.atom "supported", fn, ms, .list impl] =>
    -- impl: [[uid,[methods the plugin with that uid overrides]],…]
    match fn.str?, ms.strs?, impl.mapM (fun t => match t with
        | .list [u, l] => do some ((← u.nat?), (← l.strs?))
        | _ => none) with
    | some name, some methods, some table =>
      match exts.find? (fun e => e.name = name) with
      | none => (st, "not-modelled no-such-function")
      | some e =>
        match callExtFn accs e st.rs (fun p m => table.any (fun row => row.1 = p.uid && row.2.contains m)) methods with
        | some l => (st, s!"exts {showStrs l}")
        | none => (st, "not-modelled table-row")
    | _, _, _ => (st, "bad-op")
  | .atom "wtrace" :: rest =>
    match parseOp rest with
    | none => (st, "bad-op")
    | some op => (st, s!"writes {showWrites (stepWrites st.reg op)}")
  | [.atom "api", fn, .list vals] =>
    match fn.str?, vals.mapM parseVal with
    | some name, some args =>
      let res := callApi accs name st.rs args
      ({ st with rs := res.1 }, showApiOut res.2)
    | _, _ => (st, "bad-op")
  | [.atom "dispatch", fn, .list vals, files] =>
    match fn.str?, vals.mapM parseVal, files.strs? with
    | some name, some args, some fs =>
      (st, showApiOut (dispatchByName accs convs inferDefaults name st.rs args (fun p => fs.contains p)))
    | _, _, _ => (st, "bad-op")
  | [.atom "load", deact, .list eps] =>
    -- eps: [[group, fails, [[function, [values]]…]]…]
    match deact.bool?, eps.mapM (fun t => match t with
        | .list [g, f, .list cs] => do
          let calls ← cs.mapM (fun c => match c with
            | .list [fn, .list vals] => do some ((← fn.str?), (← vals.mapM parseVal))
            | _ => none)
          some ({ group := (← g.str?), calls := calls, fails := (← f.bool?) } : EntryPoint (String × List Val))
        | _ => none) with
    | some d, some es =>
      let res := loadPlugins accs d es st.rs
      ({ st with rs := res.1 }, s!"loaded {showBool res.2.2} {showList (res.2.1.map (fun o => encodeStr (showApiOut o)))}")
    | _, _ => (st, "bad-op")
  | [.atom "infer", p, isf, nte, af] =>
    match p.str?, isf.bool?, nte.bool?, af.bool? with
    | some path, some i, some n, some a =>
      match inferFileFormat path i n a with
      | .ok fmt => (st, s!"ok {encodeStr fmt}")
      | .error .noFile => (st, "err no-file")
      | .error .noExtension => (st, "err no-extension")
    | _, _, _, _ => (st, "bad-op")
  | _ =>
    match parseOp ts with
    | none => (st, "bad-op")
    | some op => let (r', o) := step st.reg op; ({ st with reg := r' }, showOut o)

end Glotaran.C19
