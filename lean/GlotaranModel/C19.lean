/-
C19 — plugin registry (glotaran/plugin_system/base_registry.py).

Model of `add_plugin_to_registry`, `add_instantiated_plugin_to_registry`, `set_plugin`,
`get_plugin_from_registry`, `registered_plugins` on a registry dict.  A Python dict is an
association list with unique keys (insertion replaces); `registered_plugins` sorts, so the
insertion order is unobservable.  A plugin is (module, name, uid): `uid` stands for object
identity, `module ++ "." ++ name` is `full_plugin_name`.
-/
import GlotaranModel.Proto
namespace Glotaran.C19

structure Plugin where
  module : String
  name : String
  uid : Nat
  deriving Repr, DecidableEq, Inhabited

/-- `full_plugin_name(plugin)` = f"{module}.{name}" -/
def Plugin.fullName (p : Plugin) : String := p.module ++ "." ++ p.name

abbrev Registry := List (String × Plugin)

def hasDot (s : String) : Bool := s.toList.contains '.'

def lookup (r : Registry) (k : String) : Option Plugin :=
  match r with
  | [] => none
  | (k', p) :: rest => if k' = k then some p else lookup rest k

/-- `registry[k] = p` -/
def insert (r : Registry) (k : String) (p : Plugin) : Registry :=
  (k, p) :: r.filter (fun e => e.1 ≠ k)

/-- key under which `add` always stores the plugin: f"{full_plugin_name(plugin)}{_id}" -/
def fullKey (p : Plugin) (id : String) : String :=
  if id.isEmpty then p.fullName else p.fullName ++ "_" ++ id

inductive Op where
  | add (key : String) (p : Plugin) (id : String)
  | addInst (keys : List String) (module name : String) (uidBase : Nat)
  | setPlugin (key full : String)
  | get (key : String)
  | registered (full : Bool)
  deriving Repr

inductive Out where
  | ok (warned : Bool)                 -- add: whether PluginOverwriteWarning was issued
  | oks (warned : List Bool)           -- addInst: one flag per processed key
  | errDotted                          -- ValueError: '.' in short name
  | errDottedAfter (warned : List Bool) -- addInst aborted at a dotted key after some keys
  | errUnknownFull (known : List String) -- set_plugin: not a registered full name
  | found (p : Plugin)
  | notFound
  | names (ns : List String)
  | done
  deriving Repr, DecidableEq

/-- one `add_plugin_to_registry` call; `none` = ValueError (registry untouched) -/
def addOne (r : Registry) (key : String) (p : Plugin) (id : String) : Option (Registry × Bool) :=
  if hasDot key then none
  else
    match lookup r key with
    | some old =>
      -- key taken: the newcomer goes under its full name, the short name is kept
      let warned := decide (old.fullName ≠ p.fullName)
      some (insert (insert r (fullKey p id) p) p.fullName p, warned)
    | none =>
      some (insert (insert r (fullKey p id) p) key p, false)

def addInstLoop (r : Registry) (module name : String) :
    List String → Nat → List Bool → Registry × Out
  | [], _, acc => (r, .oks acc.reverse)
  | k :: ks, uid, acc =>
    match addOne r k ⟨module, name, uid⟩ k with
    | none => (r, if acc.isEmpty then .errDotted else .errDottedAfter acc.reverse)
    | some (r', w) => addInstLoop r' module name ks (uid + 1) (w :: acc)

def sortedKeys (r : Registry) (full : Bool) : List String :=
  let ks := r.map (·.1)
  let ks := if full then ks else ks.filter (fun k => !hasDot k)
  ks.mergeSort (fun a b => decide (a ≤ b))

def step (r : Registry) : Op → Registry × Out
  | .add key p id =>
    match addOne r key p id with
    | none => (r, .errDotted)
    | some (r', w) => (r', .ok w)
  | .addInst keys m n u => addInstLoop r m n keys u []
  | .setPlugin key full =>
    if hasDot key then (r, .errDotted)
    else if !hasDot full then (r, .errUnknownFull (sortedKeys r true |>.filter hasDot))
    else match lookup r full with
      | none => (r, .errUnknownFull (sortedKeys r true |>.filter hasDot))
      | some p => (insert r key p, .done)
  | .get key =>
    match lookup r key with
    | some p => (r, .found p)
    | none => (r, .notFound)
  | .registered full => (r, .names (sortedKeys r full))

def run (r : Registry) (ops : List Op) : Registry := ops.foldl (fun s op => (step s op).1) r

/-! ### driver -/
open Glotaran.Proto

def showPlugin (p : Plugin) : String := s!"{encodeStr p.fullName}#{p.uid}"
def showBools (bs : List Bool) : String := showList (bs.map showBool)

def showOut : Out → String
  | .ok w => s!"ok {showBool w}"
  | .oks ws => s!"oks {showBools ws}"
  | .errDotted => "err dotted"
  | .errDottedAfter ws => s!"err dotted-after {showBools ws}"
  | .errUnknownFull known => s!"err unknown-full {showStrs known}"
  | .found p => s!"found {showPlugin p}"
  | .notFound => "err not-found"
  | .names ns => s!"names {showStrs ns}"
  | .done => "done"

def parseOp : List Tree → Option Op
  | [.atom "add", k, m, n, u, id] => do
      some (.add (← k.str?) ⟨← m.str?, ← n.str?, ← u.nat?⟩ (← id.str?))
  | [.atom "addinst", ks, m, n, u] => do
      some (.addInst (← ks.strs?) (← m.str?) (← n.str?) (← u.nat?))
  | [.atom "set", k, f] => do some (.setPlugin (← k.str?) (← f.str?))
  | [.atom "get", k] => do some (.get (← k.str?))
  | [.atom "registered", b] => do some (.registered (← b.bool?))
  | _ => none

/-- protocol: `reset` starts from the empty registry; every other line is an `Op`;
    after every op the driver also prints nothing else (lookups are explicit ops). -/
def driverStep (r : Registry) (ts : List Tree) : Registry × String :=
  match ts with
  | [.atom "reset"] => ([], "reset")
  | _ =>
    match parseOp ts with
    | none => (r, "bad-op")
    | some op => let (r', o) := step r op; (r', showOut o)

end Glotaran.C19
