/-
C09 — the vocabulary of the functions that `harness/props/_c09_translate.py` regenerates from the Python source of
`glotaran/optimization/data_provider.py` on every run (lean/GlotaranModel/Generated/C09Fns.lean).  Hand-written, small
and fixed: it only says what a construct of the translated subset *means* on exact rationals.

  numpy     `a - s`, `a >= s`, `a <= s`, `a > s`, `a < s` (array ∘ scalar)   ↦ `npSubScalar`, `npGeScalar`, …
            `a[mask]`                 ↦ `npMask a mask`            `np.abs(a)`   ↦ `npAbs a`
            `a.min()`, `a.argmin()`   ↦ `npMin a`, `npArgmin a` (first index of the minimum)
            `np.unique(a)`            ↦ `npUnique a` (sorted, duplicates removed)
            `np.concatenate([..])`    ↦ `List.flatten [..]`        `np.ones(n)`  ↦ `List.replicate n 1`
            `np.full(n, x)`           ↦ `List.replicate n x`       `np.arange(n)`↦ `List.range n`
  python    dict                      ↦ `Dict α` = association list in insertion order (`dictHas`, `dictGetD`, `dictSet`)
            `for … in …: body`        ↦ `List.foldl` / `enumFold` over the tuple of names the loop assigns
            a loop whose body raises  ↦ `foldlE` into `Except PyErr`;  `raise AlignDatasetError()` ↦ `Except.error .alignDataset`
            `x is None` on an optional↦ `match x with | none => … | some x => …`
  xarray    `xr.DataArray(values, dims=[…, "global"], coords={"global": c})`  ↦ `DA.mk values c` (values along "global";
                                         a 2-D array with dims (model, global) is the list of its columns)
            `xr.concat([…], dim=…)`   ↦ `xrConcat` — the outer join on "global".  TRUSTED (xarray): the joined coordinate is
                                         the sorted union of the parts' coordinates and every part contributes exactly at its
                                         own coordinate values (looked up by value, first position)
            `.isel({"global": i}).dropna(dim=…).data`  ↦ `Joined.iselDropna i`;   `.isel({"global": i}).data` ↦ `iselData i`
            `.groupby("global", squeeze=False)` ↦ `groupbyGlobal` (one sub-array per joined coordinate value, in order)
            `.sel({"global": v}).data`↦ `DA.sel v`
  source outside the subset           ↦ `untranslatable "<reason>"` (a default value: the file still compiles and the
                                         `generated_*_eq_model` theorem of that function no longer does)

The theorems `generated_*_eq_model` (GlotaranProofs/Props/C09.lean) equate the generated functions with the model
definitions of GlotaranModel/C09.lean that the driver executes and the property theorems are about.
-/
import GlotaranModel.C09
namespace Glotaran.C09

/-! ### numpy -/

/-- `a - s` -/
def npSubScalar (a : List Rat) (s : Rat) : List Rat := a.map (· - s)
/-- `a >= s` -/
def npGeScalar (a : List Rat) (s : Rat) : List Bool := a.map (fun x => decide (s ≤ x))
/-- `a <= s` -/
def npLeScalar (a : List Rat) (s : Rat) : List Bool := a.map (fun x => decide (x ≤ s))
/-- `a > s` -/
def npGtScalar (a : List Rat) (s : Rat) : List Bool := a.map (fun x => decide (s < x))
/-- `a < s` -/
def npLtScalar (a : List Rat) (s : Rat) : List Bool := a.map (fun x => decide (x < s))

/-- `a[mask]` (boolean mask of the same length) -/
def npMask {α : Type} : List α → List Bool → List α
  | x :: xs, b :: bs => if b then x :: npMask xs bs else npMask xs bs
  | _, _ => []

/-- `np.abs(a)` -/
def npAbs (a : List Rat) : List Rat := a.map absR

/-- `a.argmin()`: the first index of the minimum (0 on the empty array, where numpy raises) -/
def npArgmin : List Rat → Nat
  | [] => 0
  | x :: xs =>
    match xs with
    | [] => 0
    | _ :: _ => if x ≤ xs.getD (npArgmin xs) 0 then 0 else npArgmin xs + 1

/-- `a.min()` -/
def npMin (a : List Rat) : Rat := a.getD (npArgmin a) 0

/-- `np.unique(a)` -/
def npUnique (a : List Rat) : List Rat := unique a

/-! ### python -/

inductive PyErr where
  | alignDataset          -- AlignDatasetError
  | other (what : String)
  deriving Repr, DecidableEq, Inhabited

/-- sequencing of a computation that may raise -/
def bindE {ε β γ : Type} (x : Except ε β) (k : β → Except ε γ) : Except ε γ :=
  match x with
  | .error e => .error e
  | .ok b => k b

/-- `for x in xs: state = body state x` where the body may raise -/
def foldlE {ε β σ : Type} (xs : List β) (init : σ) (body : σ → β → Except ε σ) : Except ε σ :=
  match xs with
  | [] => .ok init
  | x :: rest => bindE (body init x) (fun s => foldlE rest s body)

/-- `for i, x in enumerate(xs): state = body i x state` -/
def enumFold {β σ : Type} (xs : List β) (init : σ) (body : Nat → β → σ → σ) : σ :=
  (xs.zipIdx).foldl (fun s xi => body xi.2 xi.1 s) init

/-- a `dict` with string keys, in insertion order -/
abbrev Dict (α : Type) := List (String × α)

/-- `k in d` -/
def dictHas {α : Type} (d : Dict α) (k : String) : Bool := d.any (fun e => e.1 == k)

/-- `d[k]` on a key that is present (the translated functions only read keys that were put in before; a missing
    key — a `KeyError` in Python — reads the given default) -/
def dictGetD {α : Type} (d : Dict α) (k : String) (dflt : α) : α :=
  match d.find? (fun e => e.1 == k) with
  | some e => e.2
  | none => dflt

/-- `d[k] = v` -/
def dictSet {α : Type} (d : Dict α) (k : String) (v : α) : Dict α :=
  if dictHas d k then d.map (fun e => if e.1 == k then (k, v) else e) else d ++ [(k, v)]

/-! ### xarray -/

/-- `xr.DataArray(vals, dims=[…, "global"], coords={"global": coord})` -/
structure DA (α : Type) where
  vals : List α
  coord : List Rat
  deriving Inhabited

/-- the value of a part at coordinate *value* `v` (label-based alignment) -/
def DA.at? {α : Type} (a : DA α) (v : Rat) : Option α := (posOf v a.coord).bind (fun j => a.vals[j]?)

/-- `.sel({"global": v}).data` -/
def DA.sel {α : Type} [Inhabited α] (a : DA α) (v : Rat) : α := (a.at? v).getD default

/-- the result of `xr.concat(parts, dim=…)`: joined "global" coordinate + the parts, re-indexed by value -/
structure Joined (α : Type) where
  coord : List Rat
  parts : List (DA α)
  fill : Option α

/-- `xr.concat(parts, dim=…)` — outer join, missing entries NaN.  TRUSTED: sorted union of the coordinates. -/
def xrConcat {α : Type} (parts : List (DA α)) : Joined α :=
  ⟨npUnique (parts.map (·.coord)).flatten, parts, none⟩

/-- `xr.concat(parts, dim=…, fill_value=fill)` -/
def xrConcatFill {α : Type} (parts : List (DA α)) (fill : α) : Joined α :=
  ⟨npUnique (parts.map (·.coord)).flatten, parts, some fill⟩

/-- `.coords["global"].data` -/
def Joined.coordData {α : Type} (J : Joined α) : List Rat := J.coord

/-- `.isel({"global": i}).dropna(dim=…).data`: the parts present at the i-th joined coordinate, in part order -/
def Joined.iselDropna {α : Type} (J : Joined α) (i : Nat) : List α :=
  J.parts.filterMap (fun a => a.at? (J.coord.getD i 0))

/-- `.isel({"global": i}).data` of a join with a fill value: one entry per part -/
def Joined.iselData {α : Type} [Inhabited α] (J : Joined α) (i : Nat) : List α :=
  J.parts.map (fun a => (a.at? (J.coord.getD i 0)).getD (J.fill.getD default))

/-- `[sub.to_numpy().flatten() for _, sub in J.groupby("global", squeeze=False)]` -/
def Joined.groupbyGlobal {α : Type} [Inhabited α] (J : Joined α) : List (List α) :=
  (List.range J.coord.length).map J.iselData

/-- what the translator emits for source it cannot translate: a default value carrying the reason -/
def untranslatable {β : Type} [Inhabited β] (_reason : String) : β := default

end Glotaran.C09
