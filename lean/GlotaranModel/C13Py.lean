/-
C13 — vocabulary of the function-level translator (harness/props/_c13_translate.py).

`Generated/C13Fns.lean` is regenerated on every run from the *source text* of
  glotaran/optimization/optimizer.py          `Optimizer.create_result`, `calculate_covariance_matrix_and_standard_errors`
  glotaran/optimization/optimization_group.py `OptimizationGroup.create_result_data` (RMSE attributes), `number_of_clps`
  glotaran/optimization/matrix_provider.py    `MatrixProviderLinked.number_of_clps`, `MatrixProviderUnlinked.number_of_clps`
Every assignment of those functions that the statistics flow through becomes one Lean definition whose body is the
Python expression written with the operations below: one definition here per Python / numpy operation the expressions
use, with the meaning numpy documents for it over exact numbers.  The inputs of a function (attributes of `self`,
results of calls into scipy / numpy.linalg / the providers) are the fields of an input record.

Types: Python `int` ↦ `Int`, Python `float` and numpy doubles ↦ `Rat` (exact), a double that went through `np.sqrt` /
`np.exp` / `np.log` ↦ the number class `α` (`SNum`), 1-D arrays ↦ `Vec`, plain 2-D data ↦ `Mat`, 2-D arrays whose
shape matters when they are empty (the masked right singular vectors) ↦ `Arr`.  True division of a Python `float` by a
Python number raises `ZeroDivisionError` on 0: `pydiv` is partial; numpy's element-wise division is total (it is only
used under the mask, where the divisor is positive).
-/
import GlotaranModel.C13
namespace Glotaran.C13.Py
open Glotaran.LinAlg

/-- what the translator emits for source it cannot translate: a definition of this type, so that the theorem that ties
    the definition to the model does not type-check (the proof obligation is open, the check runs its search) -/
structure Untranslatable where
  reason : String

def untranslatable (reason : String) : Untranslatable := ⟨reason⟩

/-! ### scalars -/

/-- `ndarray.size` of a 1-D array -/
def size (v : Vec) : Int := (v.length : Int)

/-- `len(x)` -/
def len {β : Type} (l : List β) : Int := (l.length : Int)

/-- `range(n)` (empty for a negative `n`) -/
def range (n : Int) : List Int := (List.range n.toNat).map (fun (k : Nat) => (k : Int))

/-- builtin `sum` over ints: start at 0, add from the left -/
def sumInt (l : List Int) : Int := l.foldl (· + ·) 0

/-- builtin `max` of a tuple of ints (`max(jacobian.shape)`; the tuple is never empty) -/
def maxInt (l : List Int) : Int :=
  match l with
  | [] => 0
  | a :: r => r.foldl (fun x y => if x < y then y else x) a

/-- `t[k]` of a tuple of ints -/
def idx (t : List Int) (k : Nat) : Int := t.getD k 0

/-- `float / number` in Python: `ZeroDivisionError` (= `none`) on 0 -/
def pydiv (a b : Rat) : Option Rat := if b = 0 then none else some (a / b)

/-- `np.finfo(float).eps` -/
def finfoEps : Rat := 1 / 4503599627370496

/-! ### 1-D arrays -/

/-- `v ** k` -/
def powVec (v : Vec) (k : Nat) : Vec := v.map (fun x => x ^ k)

/-- `np.sum(v)` / `v.sum()` -/
def sumVec (v : Vec) : Rat := v.sum

/-- `np.dot(a, b)` of two 1-D arrays -/
def npdot (a b : Vec) : Rat := (List.zipWith (· * ·) a b).sum

/-- `v.max(initial=x)` -/
def maxInitial (v : Vec) (x : Rat) : Rat := v.foldl (fun a b => if a < b then b else a) x

/-- `v > t` -/
def gtScalar (v : Vec) (t : Rat) : List Bool := v.map (fun s => decide (s > t))

/-- `l[mask]` (boolean mask of the same length) -/
def maskList {β : Type} (mask : List Bool) (l : List β) : List β := ((l.zip mask).filter (·.2)).map (·.1)

/-! ### plain 2-D data (result datasets) -/

/-- `a.shape` -/
def shapeMat (m : Mat) : List Int := [(m.length : Int), (ncols m : Int)]

/-- `a ** k` -/
def powMat (m : Mat) (k : Nat) : Mat := m.map (fun r => r.map (fun x => x ^ k))

/-- `a.sum()` -/
def sumMat (m : Mat) : Rat := m.flatten.sum

/-! ### 2-D arrays with a shape: `rows.length × cols`, row `i` is the function `j ↦ a[i, j]` -/

structure Arr where
  cols : Nat
  rows : List (Nat → Rat)

def zeroRow : Nat → Rat := fun _ => 0

/-- a `Mat` read as an array with `cols` columns -/
def Arr.ofMat (cols : Nat) (m : Mat) : Arr := ⟨cols, m.map (fun r j => r.getD j 0)⟩

def Arr.toMat (a : Arr) : Mat := a.rows.map (fun r => (List.range a.cols).map r)

def Arr.shape (a : Arr) : List Int := [(a.rows.length : Int), (a.cols : Int)]

/-- `a[mask]`: the rows selected by a boolean mask -/
def Arr.mask (a : Arr) (mask : List Bool) : Arr := ⟨a.cols, maskList mask a.rows⟩

/-- `a.T` -/
def Arr.T (a : Arr) : Arr := ⟨a.rows.length, (List.range a.cols).map (fun i k => (a.rows.getD k zeroRow) i)⟩

/-- `a / v` with a 1-D `v`: broadcast along the last axis -/
def Arr.divVec (a : Arr) (v : Vec) : Arr := ⟨a.cols, a.rows.map (fun r k => r k / v.getD k 0)⟩

/-- `a @ b` -/
def Arr.matmul (a b : Arr) : Arr :=
  ⟨b.cols, a.rows.map (fun r j => ((List.range a.cols).map (fun k => r k * (b.rows.getD k zeroRow) j)).sum)⟩

/-- `np.diag(a)` of a 2-D array -/
def Arr.diag (a : Arr) : Vec := (List.range (min a.rows.length a.cols)).map (fun i => (a.rows.getD i zeroRow) i)

/-! ### the number class -/
section
variable {α : Type} [SNum α]

/-- `np.sqrt` of a double that is known exactly -/
def sqrtRat (r : Rat) : α := SNum.sqrt (C11.Num.ofRat r)

/-- `np.sqrt` element-wise -/
def sqrtVec (v : Vec) : List α := v.map sqrtRat

/-- `scalar * array` -/
def scaleVec (a : α) (v : List α) : List α := v.map (fun x => C11.Num.mul a x)

end

/-! ### input records: what a translated function reads from `self`, its arguments and the calls it makes -/

/-- `Optimizer.create_result`: `γ` = type of the optimisation groups -/
structure CreateResultIn (γ : Type) where
  /-- `self._optimization_result.fun` -/
  res_fun : Vec
  /-- `self._optimization_result.x` -/
  res_x : Vec
  /-- `self._optimization_groups` -/
  groups : List γ
  /-- `group.number_of_clps` -/
  number_of_clps : γ → Int
  /-- the value `self.calculate_penalty()` returns -/
  calculate_penalty : Vec

/-- `Optimizer.calculate_covariance_matrix_and_standard_errors(jacobian, root_mean_square_error)` -/
structure CovarianceIn (α : Type) where
  /-- `jacobian.shape` -/
  jacobian_shape : List Int
  /-- `np.linalg.svd(jacobian, full_matrices=False)[1]` -/
  svd_s : Vec
  /-- `np.linalg.svd(jacobian, full_matrices=False)[2]` -/
  svd_vt : Arr
  root_mean_square_error : α

/-- one pass through the body of the standard-error loop: `parameter = self._parameters.get(label)` -/
structure StdErrIn (α : Type) where
  /-- `parameter.non_negative` -/
  non_negative : Bool
  /-- `parameter.value` (finite) -/
  value : α
  /-- `error` -/
  error : α

/-- the RMSE lines of `OptimizationGroup.create_result_data` for one result dataset -/
structure DatasetIn where
  /-- `result_dataset.residual` -/
  residual : Mat
  /-- `result_dataset.weighted_residual` if the dataset has one -/
  weighted_residual : Option Mat

/-- `MatrixProviderLinked.number_of_clps` -/
structure LinkedClpsIn where
  /-- `self._data_provider.aligned_global_axis` -/
  aligned_global_axis : Vec
  /-- `self.get_aligned_matrix_container(index).clp_labels` -/
  aligned_clp_labels : Int → List String

/-- `MatrixProviderUnlinked.number_of_clps`: `δ` = type of a `(dataset_label, dataset_model)` item -/
structure UnlinkedClpsIn (δ : Type) where
  /-- `self.group.dataset_models.items()` -/
  dataset_models : List δ
  /-- `has_dataset_model_global_model(dataset_model)` -/
  has_global_model : δ → Bool
  /-- `self.get_matrix_container(dataset_label).clp_labels` -/
  model_clp_labels : δ → List String
  /-- `self.get_global_matrix_container(dataset_label).clp_labels` -/
  global_clp_labels : δ → List String
  /-- `self._data_provider.get_global_axis(dataset_label)` -/
  global_axis : δ → Vec
  /-- `self.get_prepared_matrix_container(dataset_label, index).clp_labels` -/
  prepared_clp_labels : δ → Int → List String

end Glotaran.C13.Py
