/-
C17 — scheme.yml / result.yml: the dataclass ↔ yml mapping.

§7  yaml scalars: what ruamel (YAML 1.2, `YAML()` round-trip mode as `write_dict` / `load_dict` use it) writes for
    None / bool / int / float / str and how a plain scalar is resolved when the file is read (closed-form reading of
    the five implicit resolvers bool, float, int, null of `ruamel.yaml.resolver`, in the resolver's order; observed on
    every run by the harness against ruamel's own resolver).  No `.0` is inserted into `1e-08` (that is the YAML 1.1
    representer), and `1e-08` *is* a float for the 1.2 resolver — `load_scheme` / `load_result` do not call the
    scientific-notation sanitiser of `load_model`, they rely on this.
§8  `glotaran.project.dataclass_helpers.asdict` / `fromdict` over a field table (the tables of `Scheme` and `Result`
    are regenerated from the live classes: `Generated/C17Scheme.lean`), `YmlProjectIo.save_scheme` / `load_scheme` /
    `save_result` (the dict part) / `load_result` as the regenerated shapes say.
-/
import GlotaranModel.C17
import GlotaranModel.Generated.C17Scheme
namespace Glotaran.C17

/-! ## §7 yaml scalars -/

def isSignC (c : Char) : Bool := c == '+' || c == '-'
def isExpC (c : Char) : Bool := c == 'e' || c == 'E'
/-- `[0-9_]` -/
def digU (c : Char) : Bool := c.isDigit || c == '_'

/-- `[-+]?` -/
def dropSign : Str → Str
  | c :: cs => if isSignC c then cs else c :: cs
  | [] => []

/-- `[eE][-+]?[0-9]+` covering all of the text -/
def expAll : Str → Bool
  | e :: r => isExpC e && !(dropSign r).isEmpty && (dropSign r).all Char.isDigit
  | [] => false

/-- `[eE][-+][0-9]+` covering all of the text -/
def expSignedAll : Str → Bool
  | e :: sg :: r => isExpC e && isSignC sg && !r.isEmpty && r.all Char.isDigit
  | _ => false

def strIn (t : Str) (ws : List String) : Bool := ws.any (fun w => t == w.toList)

/-- `^(?:true|True|TRUE|false|False|FALSE)$` -/
def yBool (t : Str) : Bool := strIn t ["true", "True", "TRUE", "false", "False", "FALSE"]

/-- the 1.2 float resolver: `[-+]?[0-9][0-9_]*\.[0-9_]*([eE][-+]?[0-9]+)?` | `[-+]?[0-9][0-9_]*[eE][-+]?[0-9]+` |
    `[-+]?\.[0-9_]+([eE][-+][0-9]+)?` | `[-+]?\.(inf|Inf|INF)` | `\.(nan|NaN|NAN)` -/
def yFloat (t : Str) : Bool :=
  let u := dropSign t
  (match u with
   | c :: _ =>
     c.isDigit && (match u.dropWhile digU with
                   | '.' :: f => (f.dropWhile digU).isEmpty || expAll (f.dropWhile digU)
                   | r => expAll r)
   | [] => false)
  || (match u with
      | '.' :: f => !(f.takeWhile digU).isEmpty && ((f.dropWhile digU).isEmpty || expSignedAll (f.dropWhile digU))
      | _ => false)
  || strIn u [".inf", ".Inf", ".INF"]
  || strIn t [".nan", ".NaN", ".NAN"]

def isHexU (c : Char) : Bool :=
  c.isDigit || (decide (97 ≤ c.toNat) && decide (c.toNat ≤ 102)) || (decide (65 ≤ c.toNat) && decide (c.toNat ≤ 70)) || c == '_'

/-- the 1.2 int resolver: `[-+]?0b[0-1_]+` | `[-+]?0o?[0-7_]+` | `[-+]?[0-9_]+` | `[-+]?0x[0-9a-fA-F_]+` -/
def yInt (t : Str) : Bool :=
  let u := dropSign t
  -- the resolver looks an expression up by the first character of the text: `-`, `+`, `0`…`9` for int (so `_1` is a string)
  (match t with
   | c :: _ => isSignC c || c.isDigit
   | [] => false) &&
  ((!u.isEmpty && u.all digU)
  || (match u with
      | '0' :: 'b' :: r => !r.isEmpty && r.all (fun c => c == '0' || c == '1' || c == '_')
      | '0' :: 'o' :: r => !r.isEmpty && r.all (fun c => (decide (48 ≤ c.toNat) && decide (c.toNat ≤ 55)) || c == '_')
      | '0' :: 'x' :: r => !r.isEmpty && r.all isHexU
      | _ => false))

/-- `^(?:~|null|Null|NULL|)$` -/
def yNull (t : Str) : Bool := strIn t ["", "~", "null", "Null", "NULL"]

inductive YKind where
  | bool | float | int | null | rest
  deriving Repr, DecidableEq, Inhabited

/-- the tag of a plain scalar: the first resolver (in ruamel's order bool, float, int, null) whose expression matches;
    `rest` = a string, or one of the tags outside the five (timestamp, merge, value, yaml: never written here) -/
def yKind (t : Str) : YKind :=
  if yBool t then .bool else if yFloat t then .float else if yInt t then .int else if yNull t then .null else .rest

/-- a python value of a plain dataclass field.  `flt t`: the float that ruamel writes as `t` (`repr(x).lower()`,
    `.nan`, `.inf`, `-.inf`; evaluated by the harness); `other`: anything ruamel has no representer for (a numpy
    scalar, an array) or that the model does not evaluate -/
inductive PV where
  | none | bool (b : Bool) | int (i : Int) | flt (t : Str) | str (s : Str) | strs (l : List Str) | other (what : Str)
  deriving Repr, DecidableEq, Inhabited

def natText (n : Nat) : Str := Nat.toDigits 10 n

/-- `repr(i)` -/
def intText : Int → Str
  | .ofNat n => natText n
  | .negSucc n => '-' :: natText (n + 1)

def parseNat (s : Str) : Nat := s.foldl (fun a c => 10 * a + (c.toNat - 48)) 0

/-- `int(text)` for the decimal form (underscores removed first, as ruamel does); `none` for the 0b / 0o / 0x forms -/
def parseIntText (t : Str) : Option Int :=
  let u := (dropSign t).filter (· != '_')
  if !u.isEmpty && u.all Char.isDigit then
    some (if t.head? == some '-' then -(parseNat u : Int) else (parseNat u : Int))
  else none

/-- the text `represent_float` writes for some double: `.nan`, `.inf`, `-.inf`, or python's `repr` in lower case:
    `-?D+.D+`, `-?D+(.D+)?e[+-]D+` -/
def pyExp : Str → Bool
  | 'e' :: sg :: d => isSignC sg && !d.isEmpty && d.all Char.isDigit
  | _ => false

def pyFloatText (t : Str) : Bool :=
  strIn t [".nan", ".inf", "-.inf"] ||
  (let u := if t.head? == some '-' then t.tail else t
   !(u.takeWhile Char.isDigit).isEmpty &&
   (match u.dropWhile Char.isDigit with
    | '.' :: f => !(f.takeWhile Char.isDigit).isEmpty && ((f.dropWhile Char.isDigit).isEmpty || pyExp (f.dropWhile Char.isDigit))
    | r => pyExp r))

/-- a scalar in the file -/
inductive Tok where
  | plain (t : Str)
  | quoted (t : Str)
  deriving Repr, DecidableEq, Inhabited

/-- a string is written plain only if a plain scalar of that text is resolved as a string (and the emitter has no
    syntactic reason `ps` to quote it: blanks at the ends, indicators, line breaks …) -/
def strTok (ps : Str → Bool) (s : Str) : Tok := if yKind s == .rest && ps s then .plain s else .quoted s

/-- a value of a top-level key of scheme.yml / result.yml -/
inductive YN where
  | scalar (t : Tok)
  | seq (l : List Tok)
  | map (m : List (Str × Tok))
  deriving Repr, DecidableEq, Inhabited

/-- `yaml.dump` of a python value (`none` = RepresenterError) -/
def emitPV (ps : Str → Bool) : PV → Option YN
  | .none => some (.scalar (.plain "null".toList))
  | .bool b => some (.scalar (.plain (if b then "true".toList else "false".toList)))
  | .int i => some (.scalar (.plain (intText i)))
  | .flt t => some (.scalar (.plain t))
  | .str s => some (.scalar (strTok ps s))
  | .strs l => some (.seq (l.map (strTok ps)))
  | .other _ => none

/-- `yaml.load` of a scalar -/
def resolveTok : Tok → PV
  | .quoted s => .str s
  | .plain t =>
    match yKind t with
    | .bool => .bool (t.head? == some 't' || t.head? == some 'T')
    | .float => .flt t
    | .int => match parseIntText t with
              | some i => .int i
              | none => .other t
    | .null => .none
    | .rest => .str t

def strsOf : List PV → Option (List Str)
  | [] => some []
  | .str s :: r => (strsOf r).map (s :: ·)
  | _ :: _ => none

/-- the python value a plain field gets from its node -/
def loadNode : YN → PV
  | .scalar t => resolveTok t
  | .seq l => match strsOf (l.map resolveTok) with
              | some ss => .strs ss
              | none => .other "list".toList
  | .map _ => .other "dict".toList

/-! ## §8 `asdict` / `fromdict` over a field table -/

/-- the value of a field of a dataclass instance -/
inductive FV where
  | pv (v : PV)
  | comp (src : Option Str)            -- a file-loadable component and its `source_path`
  | comps (srcs : List (Str × Str))    -- a `DatasetMapping`: label ↦ `source_path`
  | hidden                             -- a field with `exclude_from_dict` (not persisted)
  deriving Repr, DecidableEq, Inhabited

/-- a value of the dict `asdict` returns -/
inductive DV where
  | pv (v : PV)
  | ref (r : Str)
  | refs (m : List (Str × Str))
  | obj                                -- the component itself (its `source_path` is None) / an unexpected value
  deriving Repr, DecidableEq, Inhabited

/-- one iteration of the loop of `asdict(dataclass, folder)` -/
def fieldEntry (cwd : List Str) (folder : Option Str) (f : FieldSpec) (v : FV) : List (Str × DV) :=
  match f.kind, v with
  | .excluded, _ => []
  | .plain, .pv x => [(f.name.toList, .pv x)]
  | .fileOne, .comp (some p) => [(f.name.toList, .ref (relativePosixPath cwd p folder))]
  | .fileMap, .comps m => [(f.name.toList, .refs (m.map (fun x => (x.1, relativePosixPath cwd x.2 folder))))]
  | _, _ => [(f.name.toList, .obj)]

/-- `asdict(dataclass, folder)`: fields and their values in order -/
def asdictZ (cwd : List Str) (folder : Option Str) : List FieldSpec → List FV → List (Str × DV)
  | f :: fs, v :: vs => fieldEntry cwd folder f v ++ asdictZ cwd folder fs vs
  | _, _ => []

def emitDV (ps : Str → Bool) : DV → Option YN
  | .pv x => emitPV ps x
  | .ref r => some (.scalar (strTok ps r))
  | .refs m => some (.map (m.map (fun x => (x.1, strTok ps x.2))))
  | .obj => none

/-- `write_dict(d, file_name)` (`none` = raises) -/
def emitDoc (ps : Str → Bool) : List (Str × DV) → Option (List (Str × YN))
  | [] => some []
  | (k, v) :: rest =>
    match emitDV ps v, emitDoc ps rest with
    | some y, some r => some ((k, y) :: r)
    | _, _ => none

def defaultPV : FDefault → Option PV
  | .required => none
  | .none => some .none
  | .bool b => some (.bool b)
  | .int i => some (.int i)
  | .float t => some (.flt t.toList)
  | .str s => some (.str s.toList)
  | .other => some (.other "default".toList)

def refsOf : List (Str × Tok) → Option (List (Str × Str))
  | [] => some []
  | (l, t) :: r =>
    match resolveTok t, refsOf r with
    | .str s, some rs => some ((l, s) :: rs)
    | _, _ => none

/-- what the instance built by `fromdict(cls, spec, folder)` holds in field `f` (`none` = raises): a file-loadable
    field is loaded from `folder / ref` and gets `source_path = ref`; a plain key is handed to `__init__` as parsed; a
    missing key takes the default; a key of a field `__init__` does not take is a TypeError -/
def loadField (doc : List (Str × YN)) (f : FieldSpec) : Option FV :=
  match f.kind, doc.lookup f.name.toList with
  | .fileOne, some (.scalar t) =>
    (match resolveTok t with
     | .str r => some (.comp (some r))
     | _ => none)
  | .fileOne, _ => none
  | .fileMap, some (.map m) => (refsOf m).map FV.comps
  | .fileMap, _ => none
  | .plain, some n => some (.pv (loadNode n))
  | .plain, none => (defaultPV f.default).map FV.pv
  | .excluded, none => some .hidden
  | .excluded, some n => if f.init then some (.pv (loadNode n)) else none
  | .untranslatable _, _ => none

/-- `fromdict(cls, spec, folder)`: every key must be an `__init__` argument -/
def fromdict (T : List FieldSpec) (doc : List (Str × YN)) : Option (List FV) :=
  if doc.all (fun kv => T.any (fun f => f.name.toList == kv.1 && f.init)) then T.mapM (loadField doc) else none

/-- one `if old in spec: spec[new] = spec.pop(old)` -/
def renameKey (doc : List (Str × YN)) (r : String × String) : List (Str × YN) :=
  match doc.lookup r.1.toList with
  | none => doc
  | some v =>
    let d := doc.filter (fun kv => kv.1 != r.1.toList)
    if (d.lookup r.2.toList).isSome then d.map (fun kv => if kv.1 == r.2.toList then (kv.1, v) else kv) else d ++ [(r.2.toList, v)]

/-- what the loaded instance holds for a saved one: references instead of source paths -/
def loadedFV (cwd : List Str) (folder : Option Str) (f : FieldSpec) (v : FV) : FV :=
  match f.kind, v with
  | .fileOne, .comp (some p) => .comp (some (relativePosixPath cwd p folder))
  | .fileMap, .comps m => .comps (m.map (fun x => (x.1, relativePosixPath cwd x.2 folder)))
  | .excluded, _ => .hidden
  | _, v => v

def loadedZ (cwd : List Str) (folder : Option Str) : List FieldSpec → List FV → List FV
  | f :: fs, v :: vs => loadedFV cwd folder f v :: loadedZ cwd folder fs vs
  | _, _ => []

/-- the values the declared type of a field admits (what `optimize` / the user put there) -/
def pvOfTy : FTy → PV → Bool
  | .bool, .bool _ => true
  | .int, .int _ => true
  | .float, .flt t => pyFloatText t
  | .str, .str _ => true
  | .enum alts, .str s => strIn s alts
  | .opt _, .none => true
  | .opt t, v => pvOfTy t v
  | .listStr, .strs _ => true
  | _, _ => false

def fvConforms (f : FieldSpec) (v : FV) : Bool :=
  match f.kind, v with
  | .plain, .pv x => pvOfTy f.ty x
  | .fileOne, .comp (some _) => true
  | .fileMap, .comps _ => true
  | .excluded, .hidden => true
  | _, _ => false

def conformsZ : List FieldSpec → List FV → Bool
  | f :: fs, v :: vs => fvConforms f v && conformsZ fs vs
  | [], [] => true
  | _, _ => false

def FTy.yamlType : FTy → Bool
  | .bool | .int | .float | .str | .listStr | .enum _ => true
  | .opt t => t.yamlType
  | _ => false

/-- a field `asdict` / `fromdict` can carry: a plain field of a yaml type, a file-loadable field `__init__` takes, or an excluded one -/
def FieldSpec.ok (f : FieldSpec) : Bool :=
  match f.kind with
  | .plain => f.ty.yamlType && f.init
  | .fileOne | .fileMap => f.init
  | .excluded => true
  | .untranslatable _ => false

def namesNodup : List String → Bool
  | [] => true
  | n :: ns => !ns.contains n && namesNodup ns

def tableOK (T : List FieldSpec) : Bool := T.all FieldSpec.ok && namesNodup (T.map (·.name))

/-- the folder argument: `Path(file_name).parent` -/
def parentFolder (file : Str) : Str := (parsePath file).parent.asPosix

/-- `YmlProjectIo.save_scheme(scheme, file_name)`: the document written (`none` = raises / shape not understood) -/
def saveSchemeDoc (ps : Str → Bool) (cwd : List Str) (file : Str) (vs : List FV) : Option (List (Str × YN)) :=
  match Generated.schemeSaveShape with
  | .asdictParentFolder => emitDoc ps (asdictZ cwd (some (parentFolder file)) Generated.schemeFields vs)
  | _ => none

/-- `YmlProjectIo.load_scheme(file_name)` on a parsed document -/
def loadSchemeDoc (doc : List (Str × YN)) : Option (List FV) :=
  match Generated.schemeLoadShape with
  | .fromdictParentFolder cls => if cls == "Scheme" then fromdict Generated.schemeFields doc else none
  | _ => none

/-- replace the `source_path` of the component in field `name` -/
def setSrc (name : String) (src : Str) : List FieldSpec → List FV → List FV
  | f :: fs, v :: vs => (if f.name == name then .comp (some src) else v) :: setSrc name src fs vs
  | _, vs => vs

/-- the dict part of `YmlProjectIo.save_result`: `asdict(result, folder)`, then `scheme` is the reference of the copy
    written to `<folder>/scheme.yml` and `initial_parameters` the reference of `result.scheme.parameters`
    (`relative_posix_path(x.source_path, result_folder)`, i.e. what `asdict` writes for a component saved there) -/
def saveResultDoc (ps : Str → Bool) (cwd : List Str) (folder : Str) (schemeCopySrc schemeParamsSrc : Str) (vs : List FV) :
    Option (List (Str × YN)) :=
  match Generated.saveResultOverrides with
  | some ["scheme", "initial_parameters"] =>
    emitDoc ps (asdictZ cwd (some folder) Generated.resultFields
      (setSrc "initial_parameters" schemeParamsSrc Generated.resultFields (setSrc "scheme" schemeCopySrc Generated.resultFields vs)))
  | _ => none

/-- `YmlProjectIo.load_result` on the parsed result.yml -/
def loadResultDoc (doc : List (Str × YN)) : Option (List FV) :=
  match Generated.resultLoadShape with
  | .fromdictParentFolder cls =>
    if cls == "Result" then fromdict Generated.resultFields (Generated.loadResultRenames.foldl renameKey doc) else none
  | _ => none

/-! ## driver (glue) -/
open Glotaran.Proto

def showKind : YKind → String
  | .bool => "bool" | .float => "float" | .int => "int" | .null => "null" | .rest => "rest"

def showPV : PV → String
  | .none => "none"
  | .bool b => s!"[b,{showBool b}]"
  | .int i => s!"[i,{i}]"
  | .flt t => s!"[f,{encS t}]"
  | .str s => s!"[s,{encS s}]"
  | .strs l => s!"[l,{showStrL l}]"
  | .other w => s!"[o,{encS w}]"

def parsePV? : Tree → Option PV
  | .atom "none" => some .none
  | .list [.atom "b", b] => do some (.bool (← b.bool?))
  | .list [.atom "i", i] => do some (.int (← i.int?))
  | .list [.atom "f", t] => do some (.flt (← Tree.chars? t))
  | .list [.atom "s", t] => do some (.str (← Tree.chars? t))
  | .list [.atom "l", l] => do some (.strs (← parseStrL? l))
  | .list [.atom "o", t] => do some (.other (← Tree.chars? t))
  | _ => none

def showTok : Tok → String
  | .plain t => s!"[p,{encS t}]"
  | .quoted t => s!"[q,{encS t}]"

def parseTok? : Tree → Option Tok
  | .list [.atom "p", t] => do some (.plain (← Tree.chars? t))
  | .list [.atom "q", t] => do some (.quoted (← Tree.chars? t))
  | _ => none

def showYN : YN → String
  | .scalar t => showTok t
  | .seq l => s!"[seq,{showList (l.map showTok)}]"
  | .map m => s!"[map,{showList (m.map (fun x => s!"[{encS x.1},{showTok x.2}]"))}]"

def parseFV? : Tree → Option FV
  | .atom "hidden" => some .hidden
  | .list [.atom "c", s] => do some (.comp (← Tree.optOf? Tree.chars? s))
  | .list [.atom "cs", m] => do some (.comps (← parsePairs? m))
  | .list [.atom "v", v] => do some (.pv (← parsePV? v))
  | _ => none

def showFV : FV → String
  | .hidden => "hidden"
  | .comp none => "[c,none]"
  | .comp (some s) => s!"[c,{encS s}]"
  | .comps m => s!"[cs,{showPairs m}]"
  | .pv v => s!"[v,{showPV v}]"

def showDoc (d : List (Str × YN)) : String := showList (d.map (fun x => s!"[{encS x.1},{showYN x.2}]"))

def showODoc : Option (List (Str × YN)) → String
  | none => "raises"
  | some d => showDoc d

def showOFVs : Option (List FV) → String
  | none => "raises"
  | some vs => showList (vs.map showFV)

/-- the emitter's syntactic reasons for quoting are not modelled: the driver writes every string that resolves as a
    string plain (the harness compares modulo the quoting style of such strings) -/
def psAll : Str → Bool := fun _ => true

def driverStep2 (u : Unit) (ts : List Tree) : Unit × String :=
  let ans : Option String :=
    match ts with
    | [.atom "ykind", t] => do some (showKind (yKind (← Tree.chars? t)))
    | [.atom "pyfloat", t] => do some (showBool (pyFloatText (← Tree.chars? t)))
    | [.atom "emitpv", v] => do
        some (match emitPV psAll (← parsePV? v) with
              | some y => showYN y
              | none => "raises")
    | [.atom "resolve", t] => do some (showPV (resolveTok (← parseTok? t)))
    | [.atom "fields", which] => do
        let T ← (match which with
                 | .atom "scheme" => some Generated.schemeFields
                 | .atom "result" => some Generated.resultFields
                 | _ => none)
        some (showList (T.map (fun f => encodeStr f.name)))
    | [.atom "savescheme2", cwd, file, vs] => do
        some (showODoc (saveSchemeDoc psAll (← parseStrL? cwd) (← Tree.chars? file) (← Tree.listOf? parseFV? vs)))
    | [.atom "schemert", cwd, file, vs] => do
        some (showOFVs ((saveSchemeDoc psAll (← parseStrL? cwd) (← Tree.chars? file) (← Tree.listOf? parseFV? vs)).bind loadSchemeDoc))
    | [.atom "saveresult2", cwd, folder, sc, sp, vs] => do
        some (showODoc (saveResultDoc psAll (← parseStrL? cwd) (← Tree.chars? folder) (← Tree.chars? sc) (← Tree.chars? sp)
                          (← Tree.listOf? parseFV? vs)))
    | [.atom "resultrt", cwd, folder, sc, sp, vs] => do
        some (showOFVs ((saveResultDoc psAll (← parseStrL? cwd) (← Tree.chars? folder) (← Tree.chars? sc) (← Tree.chars? sp)
                          (← Tree.listOf? parseFV? vs)).bind loadResultDoc))
    | _ => none
  match ans with
  | some a => ((), a)
  | none => driverStep u ts

end Glotaran.C17
