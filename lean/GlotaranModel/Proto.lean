/-
Line protocol shared by every property driver (DESIGN §5.1).

One operation per line; a line is a blank-separated sequence of *trees*
  tree := atom | '[' (tree (',' tree)*)? ']'
Atoms never contain blanks, commas or brackets: strings are percent-encoded by the harness
(`~` is the empty string), rationals are `p/q` or `p`, extended rationals add `inf`/`-inf`,
`none` is the absent value.  Nothing in this file is used inside a theorem; it is glue.
-/
namespace Glotaran.Proto

inductive Tree where
  | atom : String → Tree
  | list : List Tree → Tree
  deriving Repr, Inhabited, BEq

private def isDelim (c : Char) : Bool := c == ' ' || c == ',' || c == '[' || c == ']'

mutual
  /-- parse one tree from the front of the character list -/
  partial def parseTree : List Char → Option (Tree × List Char)
    | '[' :: rest => parseItems rest []
    | cs =>
      let a := cs.takeWhile (fun c => !isDelim c)
      let rest := cs.dropWhile (fun c => !isDelim c)
      if a.isEmpty then none else some (Tree.atom (String.ofList a), rest)
  /-- parse `item (',' item)* ']'` or `']'` -/
  partial def parseItems : List Char → List Tree → Option (Tree × List Char)
    | ']' :: rest, acc => some (Tree.list acc.reverse, rest)
    | cs, acc =>
      match parseTree cs with
      | none => none
      | some (t, ',' :: rest) => parseItems rest (t :: acc)
      | some (t, ']' :: rest) => some (Tree.list (t :: acc).reverse, rest)
      | some _ => none
end

partial def parseLineAux : List Char → List Tree → Option (List Tree)
  | [], acc => some acc.reverse
  | ' ' :: rest, acc => parseLineAux rest acc
  | '\n' :: rest, acc => parseLineAux rest acc
  | '\r' :: rest, acc => parseLineAux rest acc
  | cs, acc =>
    match parseTree cs with
    | some (t, rest) => parseLineAux rest (t :: acc)
    | none => none

def parseLine (s : String) : Option (List Tree) :=
  parseLineAux (s.toList.filter (fun c => c != '\n' && c != '\r')) []

/-! ### atoms -/

private def hexVal (c : Char) : Option Nat :=
  if '0' ≤ c ∧ c ≤ '9' then some (c.toNat - '0'.toNat)
  else if 'a' ≤ c ∧ c ≤ 'f' then some (c.toNat - 'a'.toNat + 10)
  else if 'A' ≤ c ∧ c ≤ 'F' then some (c.toNat - 'A'.toNat + 10)
  else none

private partial def decodeBytes : List Char → ByteArray → ByteArray
  | [], acc => acc
  | '%' :: a :: b :: rest, acc =>
    match hexVal a, hexVal b with
    | some x, some y => decodeBytes rest (acc.push (UInt8.ofNat (16 * x + y)))
    | _, _ => decodeBytes rest acc
  | c :: rest, acc => decodeBytes rest ((String.singleton c).toUTF8.foldl (fun a b => a.push b) acc)

/-- percent-decoding (`~` alone is the empty string) -/
def decodeStr (s : String) : String :=
  if s == "~" then "" else
  match String.fromUTF8? (decodeBytes s.toList ByteArray.empty) with
  | some r => r
  | none => s

private def hexDigit (n : Nat) : Char :=
  if n < 10 then Char.ofNat ('0'.toNat + n) else Char.ofNat ('A'.toNat + (n - 10))

private def safeChar (c : Char) : Bool :=
  c.isAlphanum || c == '_' || c == '.' || c == '-'

def encodeStr (s : String) : String :=
  if s.isEmpty then "~" else
  s.toList.foldl (fun acc c =>
    if safeChar c then acc.push c
    else (String.singleton c).toUTF8.foldl
      (fun a b => ((a.push '%').push (hexDigit (b.toNat / 16))).push (hexDigit (b.toNat % 16))) acc) ""

def parseRat? (s : String) : Option Rat :=
  match s.splitOn "/" with
  | [a] => a.toInt?.map (fun i => (i : Rat))
  | [a, b] => do
      let n ← a.toInt?
      let d ← b.toNat?
      if d = 0 then none else some ((n : Rat) / (d : Rat))
  | _ => none

def showRat (r : Rat) : String :=
  if r.den = 1 then toString r.num else s!"{r.num}/{r.den}"

def showList (xs : List String) : String := "[" ++ ",".intercalate xs ++ "]"
def showRats (xs : List Rat) : String := showList (xs.map showRat)
def showNats (xs : List Nat) : String := showList (xs.map toString)
def showStrs (xs : List String) : String := showList (xs.map encodeStr)
def showBool (b : Bool) : String := if b then "T" else "F"

/-! ### tree accessors (all `Option`; a malformed line is answered `bad-op`) -/

def Tree.str? : Tree → Option String
  | .atom a => some (decodeStr a)
  | _ => none
def Tree.raw? : Tree → Option String
  | .atom a => some a
  | _ => none
def Tree.rat? : Tree → Option Rat
  | .atom a => parseRat? a
  | _ => none
def Tree.nat? : Tree → Option Nat
  | .atom a => a.toNat?
  | _ => none
def Tree.int? : Tree → Option Int
  | .atom a => a.toInt?
  | _ => none
def Tree.bool? : Tree → Option Bool
  | .atom "T" => some true
  | .atom "F" => some false
  | _ => none
def Tree.items? : Tree → Option (List Tree)
  | .list xs => some xs
  | _ => none
def Tree.listOf? {α} (f : Tree → Option α) : Tree → Option (List α)
  | .list xs => xs.mapM f
  | _ => none
def Tree.optOf? {α} (f : Tree → Option α) : Tree → Option (Option α)
  | .atom "none" => some none
  | t => (f t).map some

def Tree.rats? := Tree.listOf? Tree.rat?
def Tree.nats? := Tree.listOf? Tree.nat?
def Tree.strs? := Tree.listOf? Tree.str?
def Tree.ratss? := Tree.listOf? Tree.rats?

def showOpt {α} (f : α → String) : Option α → String
  | none => "none"
  | some a => f a

/-- Generic stdin/stdout loop for a stateful driver: `step` answers one parsed line. -/
partial def runLoop {σ} (step : σ → List Tree → σ × String) (init : σ) : IO Unit := do
  let stdin ← IO.getStdin
  let stdout ← IO.getStdout
  let rec loop (s : σ) : IO Unit := do
    let line ← stdin.getLine
    if line.isEmpty then return ()
    match parseLine line with
    | none => stdout.putStrLn "bad-line"; loop s
    | some [] => loop s
    | some ts =>
      let (s', out) := step s ts
      stdout.putStrLn out
      loop s'
  loop init
  stdout.flush

end Glotaran.Proto
