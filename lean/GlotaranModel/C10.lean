/-
C10 (part 2) — the objective as a state machine over the mutable containers of the optimisation objects.

Modelled code (as it is after fix D25): glotaran/optimization/optimizer.py (`Optimizer.__init__`, `optimize`,
`objective_function`, `calculate_penalty`, `create_result`), optimization_group.py (`OptimizationGroup.__init__`,
`calculate`, `get_full_penalty`, `add_svd_data`), matrix_provider.py (`calculate_dataset_matrices`,
`calculate_global_matrices`, `calculate_prepared_matrices`, `calculate_full_matrices`, `calculate_aligned_matrices`),
estimation_provider.py (`EstimationProviderUnlinked.estimate / calculate_estimation / calculate_full_model_estimation /
get_full_penalty`, `EstimationProviderLinked.estimate / get_full_penalty`), model/dataset_group.py
(`DatasetGroup.set_parameters`), io/prepare_dataset.py (`add_svd_to_dataset`: which variables it adds).

What is abstract.  The *numbers* are not modelled here (C02–C07 do that): a value is an element of an arbitrary type
`V`, and every computation of the code is an application `fn name args` of an arbitrary interpretation
`fn : String → List V → V` to the values it READS FROM THE CONTAINERS.  What is modelled exactly is the data flow:
which container every sub-step reads, which one it overwrites, clears or appends to, in code order — an evaluation
is a list of such micro-steps (`Instr`), and an exception may interrupt it after any of them, leaving the containers
as they are at that moment (Python does not roll back).

The parameter object (`Parameters`: values, expressions, the non-negative transformation) is a parameter of the
machine (`ParamOps`); GlotaranProofs instantiates it with the model of C12.
-/
import GlotaranModel.Proto
import GlotaranModel.C10Kernels
namespace Glotaran.C10

/-! ### containers -/

/-- the mutable containers an evaluation reads and writes (`g` = index of the optimisation group) -/
inductive Loc where
  | params                                  -- value of `Optimizer._parameters` (mutated in place by every `set`)
  | callerParams                            -- value of the caller's `scheme.parameters`
  | groupParams (g : Nat)                   -- `DatasetGroup.parameters`
  | datasetModel (g : Nat) (d : String)     -- `DatasetGroup.dataset_models[d]`  (filled copy)
  | matrix (g : Nat) (d : String)           -- `MatrixProvider._matrix_containers[d]`
  | globalMatrix (g : Nat) (d : String)     -- `MatrixProvider._global_matrix_containers[d]`
  | prepared (g : Nat) (d : String)         -- `MatrixProviderUnlinked._prepared_matrix_container[d]`
  | fullMatrix (g : Nat) (d : String)       -- `MatrixProviderUnlinked._full_matrices[d]`
  | clps (g : Nat) (d : String)             -- `EstimationProviderUnlinked._clps[d]`
  | residuals (g : Nat) (d : String)        -- `EstimationProviderUnlinked._residuals[d]`
  | alignedLabels (g : Nat) (i : Nat)       -- `MatrixProviderLinked._aligned_full_clp_labels[i]`
  | alignedMatrix (g : Nat) (i : Nat)       -- `MatrixProviderLinked._aligned_matrices[i]`
  | lclps (g : Nat) (i : Nat)               -- `EstimationProviderLinked._clps[i]`
  | lresiduals (g : Nat) (i : Nat)          -- `EstimationProviderLinked._residuals[i]`
  | clpPenalty (g : Nat)                    -- `EstimationProvider._clp_penalty`
  | groupPenalty (g : Nat)                  -- value returned by `group.get_full_penalty()`
  | out                                     -- value returned by `calculate_penalty`
  | history                                 -- rows of `Optimizer._parameter_history` (grows on purpose)
  deriving DecidableEq, Repr, Inhabited

/-- what a container holds: a list of values (a scalar container: one element; empty or unset: `[]`), or a
    REFERENCE to a parameter object — `view f src` is `f` of whatever `src` holds at the moment it is read
    (`DatasetGroup.parameters` is the very object `Optimizer._parameters`, and filled model items hold its `Parameter`
    objects: a later `set_from_label_and_value_arrays` shows through) -/
inductive Slot (V : Type) where
  | vals (vs : List V)
  | view (f : String) (src : Loc)
  deriving Repr

/-- the store is an association list with at most one entry per container -/
abbrev Store (V : Type) := List (Loc × Slot V)

def Store.find {V : Type} (s : Store V) (l : Loc) : Option (Slot V) :=
  (s.find? (fun c => c.1 == l)).map (·.2)

/-- the values stored in a container itself (a reference: none) -/
def Store.raw {V : Type} (s : Store V) (l : Loc) : List V :=
  match s.find l with
  | some (.vals vs) => vs
  | _ => []

/-- what reading a container gives -/
def Store.get {V : Type} (fn : String → List V → V) (s : Store V) (l : Loc) : List V :=
  match s.find l with
  | some (.vals vs) => vs
  | some (.view f src) => [fn f (s.raw src)]
  | none => []

def Store.put {V : Type} (s : Store V) (l : Loc) (c : Slot V) : Store V :=
  (l, c) :: s.filter (fun c => !(c.1 == l))

def Store.set {V : Type} (s : Store V) (l : Loc) (v : List V) : Store V := s.put l (.vals v)

def Store.empty {V : Type} : Store V := []

/-- the parameter objects model items can refer to -/
def paramSources : List Loc := [.params, .callerParams]

inductive CallKind where
  | matrix      -- `megacomplex.calculate_matrix`
  | residual    -- `EstimationProvider.calculate_residual`
  deriving DecidableEq, Repr, Inhabited

/-- one micro-step -/
inductive Instr where
  /-- `dst = f(reads…)` : the container is overwritten -/
  | assign (dst : Loc) (f : String) (reads : List Loc)
  /-- `dst.clear()` -/
  | clear (dst : Loc)
  /-- `dst.append(f(reads…))` / `dst += f(reads…)` : the container keeps what it holds -/
  | append (dst : Loc) (f : String) (reads : List Loc)
  /-- like `append`, for a container that is meant to grow over evaluations (the parameter history) -/
  | log (dst : Loc) (f : String) (reads : List Loc)
  /-- `dst` becomes a reference: reading it gives `f` of what `src` holds then -/
  | alias (dst : Loc) (f : String) (src : Loc)
  /-- `n` external calls of kind `k` happen here, before the next micro-step (no effect on the containers;
      used to place a fault "at the n-th call") -/
  | mark (k : CallKind) (n : Nat)
  deriving DecidableEq, Repr, Inhabited

def gather {V : Type} (fn : String → List V → V) (s : Store V) (reads : List Loc) : List V :=
  reads.flatMap (s.get fn)

def step {V : Type} (fn : String → List V → V) (s : Store V) : Instr → Store V
  | .assign d f rs => s.set d [fn f (gather fn s rs)]
  | .clear d => s.set d []
  | .append d f rs => s.set d (s.get fn d ++ [fn f (gather fn s rs)])
  | .log d f rs => s.set d (s.get fn d ++ [fn f (gather fn s rs)])
  | .alias d f src => s.put d (.view f src)
  | .mark _ _ => s

def exec {V : Type} (fn : String → List V → V) (s : Store V) (prog : List Instr) : Store V :=
  prog.foldl (step fn) s

/-- "every container is overwritten before it is read": with the containers `D` known to be defined,
    no micro-step reads (or appends to) a container outside `D` ∪ {containers overwritten earlier in `prog`};
    references are taken to defined parameter objects only, and no micro-step overwrites a parameter object -/
def wellDefined : List Loc → List Instr → Bool
  | _, [] => true
  | D, .assign d _ rs :: p => decide (d ∉ paramSources) && rs.all (· ∈ D) && wellDefined (d :: D) p
  | D, .clear d :: p => decide (d ∉ paramSources) && wellDefined (d :: D) p
  | D, .append d _ rs :: p => decide (d ∉ paramSources) && decide (d ∈ D) && rs.all (· ∈ D) && wellDefined D p
  | D, .log d _ rs :: p => decide (d ∉ paramSources) && rs.all (· ∈ D) && wellDefined D p
  | D, .alias d _ src :: p =>
      decide (d ∉ paramSources) && decide (src ∈ paramSources) && decide (src ∈ D) && wellDefined (d :: D) p
  | D, .mark _ _ :: p => wellDefined D p

/-- the containers a program overwrites -/
def defs : List Instr → List Loc
  | [] => []
  | .assign d _ _ :: p => d :: defs p
  | .clear d :: p => d :: defs p
  | .alias d _ _ :: p => d :: defs p
  | _ :: p => defs p

/-! ### the structure of a scheme, as far as the control flow of an evaluation depends on it -/

structure DatasetSpec where
  label : String
  /-- size of the global axis (number of `calculate_residual` calls of an unlinked dataset) -/
  nGlobal : Nat
  /-- megacomplexes (`calculate_matrix` calls per dataset matrix) -/
  nMc : Nat
  /-- global megacomplexes; `> 0` ⇔ `has_dataset_model_global_model` -/
  nGmc : Nat
  /-- the data provider holds a weight for the dataset -/
  weighted : Bool
  deriving DecidableEq, Repr, Inhabited

def DatasetSpec.full (d : DatasetSpec) : Bool := d.nGmc != 0

structure GroupSpec where
  linked : Bool
  datasets : List DatasetSpec
  /-- linked groups: for every point of the aligned global axis the labels of the datasets present there -/
  aligned : List (List String)
  deriving DecidableEq, Repr, Inhabited

abbrev Spec := List GroupSpec

/-! ### the programs (code order) -/

/-- `DatasetGroup.set_parameters(parameters)`: `self.parameters` IS the object passed in, and `fill_item` puts its
    `Parameter` objects into the copies of the dataset models -/
def setParametersFrom (src : Loc) (g : Nat) (gs : GroupSpec) : List Instr :=
  .alias (.groupParams g) "parameters" src ::
  gs.datasets.map (fun d => .alias (.datasetModel g d.label) "fill_item" src)

def setParameters (g : Nat) (gs : GroupSpec) : List Instr := setParametersFrom .params g gs

/-- `MatrixProvider.calculate_dataset_matrices` -/
def datasetMatrices (g : Nat) (gs : GroupSpec) : List Instr :=
  gs.datasets.flatMap (fun d =>
    [.mark .matrix d.nMc, .assign (.matrix g d.label) "calculate_dataset_matrix" [.datasetModel g d.label]])

/-- `MatrixProviderUnlinked.calculate_global_matrices` -/
def globalMatrices (g : Nat) (gs : GroupSpec) : List Instr :=
  gs.datasets.flatMap (fun d =>
    if d.full then
      [.mark .matrix d.nGmc,
       .assign (.globalMatrix g d.label) "calculate_dataset_matrix[global_matrix=True]" [.datasetModel g d.label]]
    else [])

/-- `MatrixProviderUnlinked.calculate_prepared_matrices` -/
def preparedMatrices (g : Nat) (gs : GroupSpec) : List Instr :=
  gs.datasets.flatMap (fun d =>
    if d.full then []
    else
      .assign (.prepared g d.label) "reduce_matrix" [.matrix g d.label, .datasetModel g d.label, .groupParams g] ::
      (if d.weighted then [.assign (.prepared g d.label) "create_weighted_matrix" [.prepared g d.label]] else []))

/-- `MatrixProviderUnlinked.calculate_full_matrices` -/
def fullMatrices (g : Nat) (gs : GroupSpec) : List Instr :=
  gs.datasets.flatMap (fun d =>
    if d.full then [.assign (.fullMatrix g d.label) "apply_weight|concatenate|kron" [.globalMatrix g d.label, .matrix g d.label]] else [])

/-- one pass of the loop over the global axis in `calculate_estimation` -/
def estimationIndex (g : Nat) (d : DatasetSpec) : List Instr :=
  [.mark .residual 1,
   .append (.clps g d.label) "retrieve_clps" [.prepared g d.label, .matrix g d.label, .groupParams g],
   .append (.residuals g d.label) "calculate_residual#1" [.prepared g d.label]]

/-- `EstimationProviderUnlinked.calculate_full_model_estimation` / `calculate_estimation` -/
def estimateDataset (g : Nat) (d : DatasetSpec) : List Instr :=
  if d.full then
    [.mark .residual 1,
     .assign (.clps g d.label) "calculate_residual#0" [.fullMatrix g d.label],
     .assign (.residuals g d.label) "calculate_residual#1" [.fullMatrix g d.label]]
  else
    [.clear (.clps g d.label), .clear (.residuals g d.label)] ++
    (List.range d.nGlobal).flatMap (fun _ => estimationIndex g d) ++
    [.append (.clpPenalty g) "calculate_clp_penalties" [.groupParams g, .matrix g d.label, .clps g d.label]]

/-- `EstimationProviderUnlinked.estimate` -/
def estimateUnlinked (g : Nat) (gs : GroupSpec) : List Instr :=
  .clear (.clpPenalty g) :: gs.datasets.flatMap (estimateDataset g)

/-- `MatrixProviderLinked.calculate_aligned_matrices` (`align_full_clp_labels` reads every dataset matrix) -/
def alignedMatrices (g : Nat) (gs : GroupSpec) : List Instr :=
  (List.zipIdx gs.aligned).flatMap (fun (ds, i) =>
    [.assign (.alignedLabels g i) "align_full_clp_labels" (gs.datasets.map (fun d => Loc.matrix g d.label)),
     .assign (.alignedMatrix g i) "create_weighted_matrix|reduce_matrix"
        (ds.map (Loc.matrix g) ++ ds.map (Loc.datasetModel g) ++ [.groupParams g])])

/-- `EstimationProviderLinked.estimate` -/
def estimateLinked (g : Nat) (gs : GroupSpec) : List Instr :=
  (List.range gs.aligned.length).flatMap (fun i =>
    [.mark .residual 1,
     .assign (.lclps g i) "retrieve_clps" [.alignedMatrix g i, .alignedLabels g i, .groupParams g],
     .assign (.lresiduals g i) "calculate_residual#1" [.alignedMatrix g i]]) ++
  [.assign (.clpPenalty g) "calculate_clp_penalties"
     (.groupParams g :: ((List.range gs.aligned.length).map (Loc.alignedLabels g) ++
        (List.range gs.aligned.length).map (Loc.lclps g)))]

/-- `OptimizationGroup.calculate(parameters)` -/
def groupCalculate (g : Nat) (gs : GroupSpec) : List Instr :=
  setParameters g gs ++ datasetMatrices g gs ++
  (if gs.linked then alignedMatrices g gs ++ estimateLinked g gs
   else globalMatrices g gs ++ preparedMatrices g gs ++ fullMatrices g gs ++ estimateUnlinked g gs)

/-- `group.get_full_penalty()` -/
def groupPenalty (g : Nat) (gs : GroupSpec) : Instr :=
  if gs.linked then
    .assign (.groupPenalty g) "get_full_penalty" ((List.range gs.aligned.length).map (Loc.lresiduals g) ++ [.clpPenalty g])
  else
    .assign (.groupPenalty g) "get_full_penalty" (gs.datasets.map (fun d => Loc.residuals g d.label) ++ [.clpPenalty g])

/-- the sweep `for group in self._optimization_groups: group.calculate(self._parameters)` -/
def sweep (spec : Spec) : List Instr := (List.zipIdx spec).flatMap (fun (gs, g) => groupCalculate g gs)

/-- the rest of `calculate_penalty` after the sweep: the history row, the penalties of the groups, their
    concatenation -/
def collect (spec : Spec) : List Instr :=
  [.log .history "_parameters" [.params]] ++
  (List.zipIdx spec).map (fun (gs, g) => groupPenalty g gs) ++
  [.assign .out "concatenate" ((List.range spec.length).map Loc.groupPenalty)]

/-- the micro-steps of `Optimizer.calculate_penalty` -/
def calculatePenalty (spec : Spec) : List Instr := sweep spec ++ collect spec

/-! ### faults -/

inductive Fault where
  | none
  /-- the evaluation is interrupted after `n` micro-steps -/
  | step (n : Nat)
  /-- the `n`-th (1-based) `calculate_matrix` call of the evaluation raises -/
  | matrixCall (n : Nat)
  /-- the `n`-th (1-based) `calculate_residual` call of the evaluation raises -/
  | residualCall (n : Nat)
  deriving DecidableEq, Repr, Inhabited

/-- number of micro-steps before the mark that contains the `n`-th call of kind `k` (`none`: fewer calls) -/
def stepOfCall (k : CallKind) : Nat → List Instr → Option Nat
  | _, [] => none
  | n, .mark k' c :: p =>
    if k' = k then
      if n ≤ c then some 0 else (stepOfCall k (n - c) p).map (· + 1)
    else (stepOfCall k n p).map (· + 1)
  | n, _ :: p => (stepOfCall k n p).map (· + 1)

/-- number of micro-steps performed before the exception (`none`: the program runs to its end) -/
def stopIndex (prog : List Instr) : Fault → Option Nat
  | .none => none
  | .step n => if n < prog.length then some n else none
  | .matrixCall n => if n = 0 then none else stepOfCall .matrix n prog
  | .residualCall n => if n = 0 then none else stepOfCall .residual n prog

/-! ### the optimiser -/

/-- the `Parameters` object, abstractly: `set` = `set_from_label_and_value_arrays(free labels, x)` (values, then the
    expression refresh; `.error` carries the state the object is left in), `val` = what the model items see of it -/
structure ParamOps (P X V : Type) where
  set : P → X → Except P P
  /-- `update_parameter_expression()` as run by `get_label_value_and_bounds_arrays()` when the history row is read
      (in place; it can raise when the object was left inconsistent by a failed `set`) -/
  refresh : P → Except P P
  val : P → V

/-- a dataset of the caller: the `data` variable (values + coordinates) and the names of all variables -/
structure CallerData (D : Type) where
  label : String
  data : D
  vars : List String
  deriving Repr

/-- the caller's scheme -/
structure Caller (P M D : Type) where
  parameters : P
  model : M
  data : List (CallerData D)
  addSvd : Bool

/-- the `Optimizer` object together with the caller's objects it holds references to -/
structure Machine (P M D V : Type) where
  caller : Caller P M D
  /-- `Optimizer._parameters` -/
  params : P
  store : Store V

/-- variables `add_svd_to_dataset(dataset, name=…)` adds -/
def svdVars (name : String) : List String :=
  [name ++ "_left_singular_vectors", name ++ "_singular_values", name ++ "_right_singular_vectors"]

/-- `add_svd_to_dataset`: only if `<name>_singular_values` is not there yet -/
def addSvd {D : Type} (name : String) (d : CallerData D) : CallerData D :=
  if (name ++ "_singular_values") ∈ d.vars then d else { d with vars := d.vars ++ svdVars name }

/-- containers after `OptimizationGroup.__init__` for every group: `set_parameters(scheme.parameters)` — the
    CALLER's object -/
def initProgram (spec : Spec) : List Instr :=
  (List.zipIdx spec).flatMap (fun (gs, g) => setParametersFrom .callerParams g gs)

/-- `Optimizer.__init__` (`copy` = `scheme.parameters.copy()`): every group fills its dataset models with the
    caller's parameters and, with `add_svd`, adds the SVD of `data` to EVERY dataset of the caller (once per group);
    the first history row is taken from the private copy (fix D25) -/
def Machine.init {P X M D V : Type} (ops : ParamOps P X V) (fn : String → List V → V) (spec : Spec)
    (copy : P → P) (c : Caller P M D) : Machine P M D V :=
  let p := copy c.parameters
  let s0 : Store V := (Store.empty.set .callerParams [ops.val c.parameters]).set .params [ops.val p]
  let s1 := exec fn s0 (initProgram spec)
  let s2 := exec fn s1 [.log .history "_parameters" [.params]]
  let data := if c.addSvd && !spec.isEmpty then c.data.map (addSvd "data") else c.data
  { caller := { c with data := data }, params := p, store := s2 }

inductive Op (X : Type) where
  /-- `objective_function(x)`, possibly interrupted -/
  | eval (x : X) (f : Fault)
  /-- `calculate_penalty()` at the current parameters, possibly interrupted -/
  | penalty (f : Fault)
  deriving Repr

/-- what an operation returns: the penalty vector, or an exception -/
inductive Outcome (V : Type) where
  | value (v : List V)
  | raised
  | setFailed       -- `set_from_label_and_value_arrays` raised (an expression could not be evaluated)
  | refreshFailed   -- the expression refresh of `ParameterHistory.append` raised
  deriving Repr, DecidableEq

/-- `calculate_penalty()`: the sweep over the groups; then the history row is read from the private parameters, which
    refreshes their expressions in place (and may raise); then the penalties are collected.  A fault is placed in the
    micro-steps of `calculatePenalty spec` = sweep ++ collect. -/
def Machine.penalty {P X M D V : Type} (ops : ParamOps P X V) (fn : String → List V → V) (spec : Spec)
    (m : Machine P M D V) (f : Fault) : Machine P M D V × Outcome V :=
  let n1 := (sweep spec).length
  let stop := stopIndex (calculatePenalty spec) f
  let inSweep : Option Nat := match stop with
    | some n => if n < n1 then some n else none
    | none => none
  match inSweep with
  | some n => ({ m with store := exec fn m.store ((sweep spec).take n) }, .raised)
  | none =>
    let s1 := exec fn m.store (sweep spec)
    match ops.refresh m.params with
    | .error p' => ({ m with params := p', store := s1.set .params [ops.val p'] }, .refreshFailed)
    | .ok p' =>
      let s2 := s1.set .params [ops.val p']
      match stop with
      | some n => ({ m with params := p', store := exec fn s2 ((collect spec).take (n - n1)) }, .raised)
      | none =>
        let s3 := exec fn s2 (collect spec)
        ({ m with params := p', store := s3 }, .value (s3.get fn .out))

def Machine.eval {P X M D V : Type} (ops : ParamOps P X V) (fn : String → List V → V) (spec : Spec)
    (m : Machine P M D V) (x : X) (f : Fault) : Machine P M D V × Outcome V :=
  match ops.set m.params x with
  | .error p' => ({ m with params := p', store := m.store.set .params [ops.val p'] }, .setFailed)
  | .ok p' => Machine.penalty ops fn spec { m with params := p', store := m.store.set .params [ops.val p'] } f

def Machine.step {P X M D V : Type} (ops : ParamOps P X V) (fn : String → List V → V) (spec : Spec)
    (m : Machine P M D V) : Op X → Machine P M D V × Outcome V
  | .eval x f => m.eval ops fn spec x f
  | .penalty f => m.penalty ops fn spec f

/-- a history of operations; the outcomes are dropped -/
def Machine.run {P X M D V : Type} (ops : ParamOps P X V) (fn : String → List V → V) (spec : Spec)
    (m : Machine P M D V) (h : List (Op X)) : Machine P M D V :=
  h.foldl (fun m o => (m.step ops fn spec o).1) m

/-! ### `optimize(scheme)` -/

/-- `scipy.optimize.least_squares` as a deterministic strategy: from the evaluations made so far (vector, penalty)
    the next trial vector (`none`: stop), and at the stop the vector it returns as `OptimizeResult.x` (`none`: it
    raises instead of returning) -/
structure Strategy (X V : Type) where
  next : List (X × List V) → Option X
  result : List (X × List V) → Option X

structure Result (P V : Type) where
  /-- `least_squares` returned -/
  success : Bool
  optimized : P
  /-- the penalty of `create_result`'s own `calculate_penalty()` (the cost) -/
  penalty : Outcome V
  history : List V
  /-- the variables of the result datasets -/
  dataVars : List (String × List String)

/-- the optimiser's loop: at most `fuel` objective calls; an exception of the objective propagates out of it -/
def lsqLoop {P X M D V : Type} (ops : ParamOps P X V) (fn : String → List V → V) (spec : Spec)
    (strat : Strategy X V) : Nat → Machine P M D V → List (X × List V) → Machine P M D V × Option X
  | 0, m, seen => (m, strat.result seen)
  | fuel + 1, m, seen =>
    match strat.next seen with
    | none => (m, strat.result seen)
    | some x =>
      match m.eval ops fn spec x .none with
      | (m', .value v) => lsqLoop ops fn spec strat fuel m' (seen ++ [(x, v)])
      | (m', _) => (m', none)

/-- `create_result` on the success path first sets the private parameters to `OptimizeResult.x` -/
def Machine.setResult {P X M D V : Type} (ops : ParamOps P X V) (m : Machine P M D V) : Option X → Machine P M D V × Bool
  | none => (m, true)     -- failure path (`set_from_history(-2)`, see C15): the parameters are left as they are here
  | some x =>
    match ops.set m.params x with
    | .ok p' => ({ m with params := p', store := m.store.set .params [ops.val p'] }, true)
    | .error p' => ({ m with params := p', store := m.store.set .params [ops.val p'] }, false)

/-- `optimize(scheme)`: `Optimizer(scheme)`, `optimize()`, `create_result()` — set the result vector, the final
    `calculate_penalty()`, one more sweep `group.calculate` for the result datasets, which are copies of the caller's
    datasets to which residual SVDs are added when `add_svd` -/
def optimizeRun {P X M D V : Type} (ops : ParamOps P X V) (fn : String → List V → V) (spec : Spec) (copy : P → P)
    (strat : Strategy X V) (fuel : Nat) (c : Caller P M D) : Caller P M D × Machine P M D V × Result P V :=
  let m0 : Machine P M D V := Machine.init ops fn spec copy c
  let (m1, res) := lsqLoop ops fn spec strat fuel m0 []
  let (m2, setOk) := m1.setResult ops res
  let (m3, pen) := if setOk then m2.penalty ops fn spec .none else (m2, Outcome.setFailed)
  let m4 : Machine P M D V :=
    match pen with
    | .value _ => { m3 with store := exec fn m3.store (sweep spec) }
    | _ => m3
  let vars := m4.caller.data.map (fun d =>
    (d.label, (if m4.caller.addSvd then (addSvd "residual" d).vars else d.vars) ++ ["residual", "matrix", "clp", "fitted_data"]))
  (m4.caller, m4,
   { success := res.isSome, optimized := m4.params, penalty := pen, history := m4.store.get fn .history, dataVars := vars })

/-! ### outputs: which objects handed out are live references into containers -/

/-- the objects an `Optimizer` hands out -/
inductive OutField where
  | penalty                                   -- the array `objective_function` / `calculate_penalty` returns
  | optimizedParameters                       -- `Result.optimized_parameters`
  | parameterHistory                          -- `Result.parameter_history`
  | initialParameters                         -- `Result.initial_parameters`
  | additionalPenalty (g : Nat)               -- `Result.additional_penalty[g]`
  | dataMatrix (g : Nat) (d : String)         -- `Result.data[d].matrix`
  | dataGlobalMatrix (g : Nat) (d : String)   -- `Result.data[d].global_matrix`
  | dataClp (g : Nat) (d : String)            -- `Result.data[d].clp`
  | dataResidual (g : Nat) (d : String)       -- `Result.data[d].residual` (and what is computed from it)
  | jacobian                                  -- `Result.jacobian` (from `least_squares`)
  | covariance                                -- `Result.covariance_matrix`
  deriving DecidableEq, Repr, Inhabited

inductive Origin where
  | copy                 -- a fresh object
  | live (l : Loc)       -- the very object (or a view of the array) that container `l` holds at hand-out
  deriving DecidableEq, Repr, Inhabited

/-- `calculate_penalty` (np.concatenate), `create_result`, `create_result_data`, `Matrix/EstimationProvider.get_result` as
    written: what is wrapped without a copy -/
def provenance (spec : Spec) : OutField → Origin
  | .penalty => .copy
  | .optimizedParameters => .live .params
  | .parameterHistory => .live .history
  | .initialParameters => .live .callerParams
  | .additionalPenalty g =>
    -- taken BEFORE the last `group.calculate` of `create_result`: a linked provider re-assigns `_clp_penalty` there, so the
    -- list handed out is one no container holds any more; an unlinked provider clears and refills the same list
    match spec[g]? with
    | some gs => if gs.linked then .copy else .live (.clpPenalty g)
    | none => .copy
  | .dataMatrix g d => .live (.matrix g d)
  | .dataGlobalMatrix g d => .live (.globalMatrix g d)
  | .dataClp _ _ => .copy
  | .dataResidual _ _ => .copy
  | .jacobian => .copy
  | .covariance => .copy

/-- containers whose OBJECT a program updates in place (`clear`, `append`, `+=`); an `assign` puts a NEW object into the
    container and leaves the one it held as it was -/
def inPlace : List Instr → List Loc
  | [] => []
  | .clear d :: p => d :: inPlace p
  | .append d _ _ :: p => d :: inPlace p
  | .log d _ _ :: p => d :: inPlace p
  | _ :: p => inPlace p

/-- … by one `objective_function` call: the private parameters are set in place, then `calculate_penalty` runs -/
def evalInPlace (spec : Spec) : List Loc := .params :: inPlace (calculatePenalty spec)

/-- the output is a live reference to an object that a later evaluation on the same `Optimizer` changes -/
def aliased (spec : Spec) (f : OutField) : Bool :=
  match provenance spec f with
  | .copy => false
  | .live l => decide (l ∈ evalInPlace spec)

/-! ### driver: values are provenance sets (which parameter vectors a value was computed from) -/
open Glotaran.Proto

def insertSorted (n : Nat) : List Nat → List Nat
  | [] => [n]
  | m :: rest => if n < m then n :: m :: rest else if n = m then m :: rest else m :: insertSorted n rest

def unionProv (a b : List Nat) : List Nat := a.foldl (fun acc n => insertSorted n acc) b

/-- a value = the sorted set of parameter-vector ids it depends on -/
abbrev Prov := List Nat

def provFn : String → List Prov → Prov := fun _ args => args.foldl unionProv []

/-- driver parameters: the id of the vector the object currently holds; a failed `set` leaves a mixture of the old
    and the new vector behind (encoded as id `1000000 + new`) -/
structure DParams where
  cur : Prov
  /-- does the next expression refresh raise (observed on the real code; only possible after a failed `set`) -/
  refreshFails : Bool := false
  deriving Repr

/-- driver `X`: (vector id, does `set_from_label_and_value_arrays` raise for it — observed on the real code) -/
def driverOps : ParamOps DParams (Nat × Bool) Prov where
  set := fun p x => if x.2 then .error ⟨unionProv p.cur [x.1], false⟩ else .ok ⟨[x.1], false⟩
  refresh := fun p => if p.refreshFails then .error p else .ok p
  val := fun p => p.cur

abbrev DMachine := Machine DParams Unit Unit Prov

structure DState where
  spec : Spec := []
  m : Option DMachine := none

def parseDataset : Tree → Option DatasetSpec
  | .list [l, ng, nm, ngm, w] => do
      some { label := ← l.str?, nGlobal := ← ng.nat?, nMc := ← nm.nat?, nGmc := ← ngm.nat?, weighted := ← w.bool? }
  | _ => none

def parseGroup : Tree → Option GroupSpec
  | .list [lk, ds, al] => do
      some { linked := ← lk.bool?, datasets := ← ds.listOf? parseDataset, aligned := ← al.listOf? Tree.strs? }
  | _ => none

def parseFault : Tree → Option Fault
  | .atom "none" => some .none
  | .list [.atom "s", n] => n.nat?.map .step
  | .list [.atom "m", n] => n.nat?.map .matrixCall
  | .list [.atom "r", n] => n.nat?.map .residualCall
  | _ => none

def showProv (p : Prov) : String := showNats p
def showCell (c : List Prov) : String := showList (c.map showProv)

def showLoc : Loc → String
  | .params => "params"
  | .callerParams => "caller"
  | .groupParams g => s!"gp:{g}"
  | .datasetModel g d => s!"dm:{g}:{encodeStr d}"
  | .matrix g d => s!"mat:{g}:{encodeStr d}"
  | .globalMatrix g d => s!"gmat:{g}:{encodeStr d}"
  | .prepared g d => s!"prep:{g}:{encodeStr d}"
  | .fullMatrix g d => s!"full:{g}:{encodeStr d}"
  | .clps g d => s!"clps:{g}:{encodeStr d}"
  | .residuals g d => s!"res:{g}:{encodeStr d}"
  | .alignedLabels g i => s!"alab:{g}:{i}"
  | .alignedMatrix g i => s!"amat:{g}:{i}"
  | .lclps g i => s!"lclps:{g}:{i}"
  | .lresiduals g i => s!"lres:{g}:{i}"
  | .clpPenalty g => s!"pen:{g}"
  | .groupPenalty g => s!"gpen:{g}"
  | .out => "out"
  | .history => "hist"

/-- the containers of a scheme, in a fixed order (those of the real objects that the harness can inspect) -/
def stateLocs (spec : Spec) : List Loc :=
  [.params, .history] ++
  (List.zipIdx spec).flatMap (fun (gs, g) =>
    [Loc.groupParams g, .clpPenalty g] ++
    gs.datasets.flatMap (fun d => [Loc.datasetModel g d.label, .matrix g d.label]) ++
    (if gs.linked then
      (List.range gs.aligned.length).flatMap (fun i => [Loc.alignedLabels g i, .alignedMatrix g i, .lclps g i, .lresiduals g i])
     else
      gs.datasets.flatMap (fun d =>
        (if d.full then [Loc.globalMatrix g d.label, .fullMatrix g d.label] else [Loc.prepared g d.label]) ++
        [.clps g d.label, .residuals g d.label])))

def showState (spec : Spec) (m : DMachine) : String :=
  " ".intercalate ((stateLocs spec).map (fun l => s!"{showLoc l}={showCell (m.store.get provFn l)}"))

def showOutcome : Outcome Prov → String
  | .value v => s!"value {showCell v}"
  | .raised => "raised"
  | .setFailed => "set-failed"
  | .refreshFailed => "refresh-failed"

/-- the outputs of a scheme, under the names the harness uses -/
def outFields (spec : Spec) : List (String × OutField) :=
  [("penalty", .penalty), ("optimized_parameters", .optimizedParameters), ("parameter_history", .parameterHistory),
   ("initial_parameters", .initialParameters), ("jacobian", .jacobian), ("covariance_matrix", .covariance)] ++
  (List.zipIdx spec).flatMap (fun (gs, g) =>
    (s!"additional_penalty:{g}", OutField.additionalPenalty g) ::
    gs.datasets.flatMap (fun d =>
      [(s!"matrix:{encodeStr d.label}", OutField.dataMatrix g d.label), (s!"clp:{encodeStr d.label}", .dataClp g d.label),
       (s!"residual:{encodeStr d.label}", .dataResidual g d.label)] ++
      (if d.full then [(s!"global_matrix:{encodeStr d.label}", OutField.dataGlobalMatrix g d.label)] else [])))

/-- protocol
    `spec <groups>`                      groups = [[linked, [[label, nGlobal, nMc, nGmc, weighted]…], [[labels]…]]…]
    `init <id>`                          `Optimizer(scheme)`; the scheme's parameter vector gets the id
    `eval <id> <set raises T/F> <fault>` `objective_function(x_id)`
    `pen <fault> <refresh raises T/F>`   `calculate_penalty()`
    `optimize <id> <[trial ids]> <result id|none>`   `optimize(scheme)` for the observed behaviour of least_squares
    `steps`                              number of micro-steps, matrix calls, residual calls of one evaluation
    `outputs`                            per output of the scheme: `<name>=<live reference T/F><aliased T/F>`
    `kernels`                            the race-freedom verdict per kernel of the regenerated table
   every answer: `<outcome> | <containers>` -/
def driverStep (table : List Kernel) (st : DState) (ts : List Tree) : DState × String :=
  match ts with
  | [.atom "spec", gs] =>
    match gs.listOf? parseGroup with
    | some spec => ({ spec := spec, m := none }, s!"ok {spec.length}")
    | none => (st, "bad-op")
  | [.atom "init", vid] =>
    match vid.nat? with
    | some i =>
      let c : Caller DParams Unit Unit := { parameters := ⟨[i], false⟩, model := (), data := [], addSvd := false }
      let m : DMachine := Machine.init driverOps provFn st.spec (fun p => p) c
      ({ st with m := some m }, s!"ok | {showState st.spec m}")
    | none => (st, "bad-op")
  | [.atom "eval", id, bad, f] =>
    match st.m, id.nat?, bad.bool?, parseFault f with
    | some m, some i, some b, some flt =>
      let (m', o) := m.eval driverOps provFn st.spec (i, b) flt
      ({ st with m := some m' }, s!"{showOutcome o} | {showState st.spec m'}")
    | _, _, _, _ => (st, "bad-op")
  | [.atom "pen", f, rf] =>
    match st.m, parseFault f, rf.bool? with
    | some m, some flt, some b =>
      let (m', o) := ({ m with params := { m.params with refreshFails := b } } : DMachine).penalty driverOps provFn st.spec flt
      ({ st with m := some m' }, s!"{showOutcome o} | {showState st.spec m'}")
    | _, _, _ => (st, "bad-op")
  | [.atom "optimize", vid, trials, res] =>
    -- `optimize(scheme)` with the optimiser replaced by the observed sequence of trial vectors and result vector
    match vid.nat?, trials.nats?, res.optOf? Tree.nat? with
    | some i, some ts, some r =>
      let c : Caller DParams Unit Unit := { parameters := ⟨[i], false⟩, model := (), data := [], addSvd := false }
      let strat : Strategy (Nat × Bool) Prov :=
        { next := fun seen => (ts[seen.length]?).map (fun t => (t, false)), result := fun _ => r.map (fun t => (t, false)) }
      let (_, m, out) := optimizeRun driverOps provFn st.spec (fun p => p) strat (ts.length + 1) c
      (st, s!"{showBool out.success} {showProv out.optimized.cur} {showOutcome out.penalty} | {showState st.spec m}")
    | _, _, _ => (st, "bad-op")
  | [.atom "steps"] =>
    let prog := calculatePenalty st.spec
    let cnt (k : CallKind) := prog.foldl (fun acc i => match i with | .mark k' c => if k' = k then acc + c else acc | _ => acc) 0
    (st, s!"{prog.length} {cnt .matrix} {cnt .residual} {showBool (wellDefined [.params] prog)}")
  | [.atom "outputs"] =>
    (st, " ".intercalate ((outFields st.spec).map (fun p =>
      s!"{p.1}={showBool (decide (provenance st.spec p.2 ≠ .copy))}{showBool (aliased st.spec p.2)}")))
  | [.atom "kernels"] =>
    (st, showList (table.map (fun k =>
      showList [encodeStr k.name, showBool k.parallel, showBool (hasParallelLoop table k), showBool (raceFree table k)])))
  | _ => (st, "bad-op")

end Glotaran.C10
