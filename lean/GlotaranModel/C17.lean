/-
C17 — models, schemes, datasets and results survive persistence.

The glotaran layer of persistence, as executable definitions (everything that goes through
ruamel / netCDF4 / pandas / numpy text IO is a *transport* and only observed by the harness):

§1  key and label text:   `save_model`'s tuple-key rendering  f"({k[0]}, {k[1]})"  and the three regular
    expressions of glotaran/utils/regex.py that the loader uses (`tuple_word` with `re.match`,
    `word` with `findall`, `number_scientific` with `re.match`): the patterns, how they are applied and the
    f-string are regenerated from the source (`Generated/C17.lean`) and run by the regex machine of `C17Regex.lean`.
§2  specification trees:  `YmlProjectIo.save_model` (tuple keys → strings, fixed depth), the yaml
    transport (python tuples come back as lists, everything else unchanged — assumption, sampled),
    `sanitize_dict_keys` (in-place mutation + returned `d_new`), `sanity_scientific_notation_conversion`.
§3  interval fields:      `IntervalItem.applies` on python values (tuple / list / list of those).
§4  paths:                `pathlib` normal form, `Path.resolve` without symlinks, `os.path.relpath`,
    `relative_posix_path`, `Path(folder) / ref`.
§5  source_path state:    which `source_path` every component of a `Result` carries, how
    `save_result` (yml plugin + folder plugin) updates them and what `result.yml` / `scheme.yml` refer to.
§6  explicit ascii files: `ExplicitFile.write / read / dataset` on an abstract table (orientation).

Strings are `List Char` (`Str`) so that the theorems do not depend on the representation of `String`.
-/
import GlotaranModel.Proto
import GlotaranModel.Generated.C17
namespace Glotaran.C17

/-! ## §1 key and label text

The three regular expressions and the key template are the *generated* constants (`Generated/C17.lean`,
regenerated from glotaran/utils/regex.py, sanitize.py and yml.py on every run), interpreted by the regex machine
of `C17Regex.lean` the way the code applies them.  Their closed forms (`tupleWordMatchDet`, `wordRunsAux`,
`sciRestDet`, `renderPair` in GlotaranProofs/Lemmas/C17Regex.lean) are *theorems* about these definitions
(`generated_*_eq_model`), so an edit of a pattern re-opens them. -/

/-- `rp.tuple_word.match(s)` -/
def tupleWordMatch (s : Str) : Bool := Regex.useTest Generated.tupleWordUse Generated.tupleWord s

/-- `rp.word.findall(s)` -/
def wordFindall (s : Str) : List Str := Regex.useFindall Generated.wordUse Generated.word s

/-- `rp.number_scientific` applied the way `convert_scientific_to_float` applies it (`Generated.numberScientificUse`:
    `fullmatch` since fixes/C17/C17-scientific-fullmatch.patch, `match` before): what follows the match (`none` = no match) -/
def sciRest (s : Str) : Option Str := Regex.useRest Generated.numberScientificUse Generated.numberScientific s

def sciMatch (s : Str) : Bool := (sciRest s).isSome

/-- `f"({k[0]}, {k[1]})"`: the closed form of the generated key template for two labels -/
def renderPair (a b : Str) : Str := '(' :: (a ++ (',' :: ' ' :: (b ++ [')'])))

/-! ## §2 specification trees -/

/-- a dict key: a string or a tuple of strings -/
inductive Key where
  | s (k : Str)
  | t (ks : List Str)
  deriving Repr, DecidableEq, Inhabited

mutual
  /-- python value as it appears in `Model.as_dict()` / in a parsed yaml file.
      `atom` = None / bool / int / float as opaque text (never inspected by the code modelled here) -/
  inductive Y where
    | atom (a : Str)
    | str (s : Str)
    | seq (xs : YL)      -- list
    | tup (xs : YL)      -- tuple
    | map (kvs : KV)     -- dict (insertion ordered)
    | sci (s : Str)      -- float(s): result of `convert_scientific_to_float` (evaluated by the harness)
  inductive YL where
    | nil
    | cons (y : Y) (ys : YL)
  inductive KV where
    | nil
    | cons (k : Key) (v : Y) (rest : KV)
end

mutual
  def Y.beq : Y → Y → Bool
    | .atom a, .atom b => a == b
    | .str a, .str b => a == b
    | .seq a, .seq b => YL.beq a b
    | .tup a, .tup b => YL.beq a b
    | .map a, .map b => KV.beq a b
    | .sci a, .sci b => a == b
    | _, _ => false
  def YL.beq : YL → YL → Bool
    | .nil, .nil => true
    | .cons a as, .cons b bs => Y.beq a b && YL.beq as bs
    | _, _ => false
  def KV.beq : KV → KV → Bool
    | .nil, .nil => true
    | .cons k v r, .cons k' v' r' => decide (k = k') && Y.beq v v' && KV.beq r r'
    | _, _ => false
end

def KV.isEmpty : KV → Bool
  | .nil => true
  | _ => false

/-- `d[k] = v` on an insertion-ordered dict: replace in place if present, append otherwise -/
def KV.insert : KV → Key → Y → KV
  | .nil, k, v => .cons k v .nil
  | .cons k' v' rest, k, v => if k' = k then .cons k' v rest else .cons k' v' (KV.insert rest k v)

def KV.hasTupleKey : KV → Bool
  | .nil => false
  | .cons (.t _) _ _ => true
  | .cons (.s _) _ rest => rest.hasTupleKey

/-- what `k[i]` is for a key: the elements of a tuple, the characters of a string (as Python indexes them) -/
def keyElems : Key → List Str
  | .t ks => ks
  | .s k => k.map ([·])

/-- the generated f-string of `save_model` (`f"({k[0]}, {k[1]})"`) for one key of a dict that has a tuple key
    (`none` = IndexError) -/
def renderKey (k : Key) : Option Str := Regex.renderWith Generated.renderTemplate (keyElems k)

/-- `{f"{k}": v for k, v in zip(keys, prop.values())}` -/
def renderKeys : KV → KV → Option KV
  | .nil, acc => some acc
  | .cons k v rest, acc =>
    match renderKey k with
    | none => none
    | some ks => renderKeys rest (acc.insert (.s ks) v)

/-- one property of an item: a dict with at least one tuple key gets all its keys rendered -/
def saveProp : Y → Option Y
  | .map kvs => if kvs.hasTupleKey then (renderKeys kvs .nil).map Y.map else some (.map kvs)
  | y => some y

/-- `for prop_name, prop in item.items(): …` (`none` = AttributeError: the item is not a dict) -/
def savePropsKV : KV → Option KV
  | .nil => some .nil
  | .cons k v rest =>
    match saveProp v, savePropsKV rest with
    | some v', some rest' => some (.cons k v' rest')
    | _, _ => none

def saveItem : Y → Option Y
  | .map kvs => (savePropsKV kvs).map Y.map
  | _ => none

def saveItemsYL : YL → Option YL
  | .nil => some .nil
  | .cons y ys =>
    match saveItem y, saveItemsYL ys with
    | some y', some ys' => some (.cons y' ys')
    | _, _ => none

def saveItemsKV : KV → Option KV
  | .nil => some .nil
  | .cons k v rest =>
    match saveItem v, saveItemsKV rest with
    | some v', some rest' => some (.cons k v' rest')
    | _, _ => none

/-- one top-level value of `model.as_dict()`: a list of items, a dict label → item, or anything else (skipped) -/
def saveColl : Y → Option Y
  | .seq xs => (saveItemsYL xs).map Y.seq
  | .map kvs => (saveItemsKV kvs).map Y.map
  | y => some y

def saveCollsKV : KV → Option KV
  | .nil => some .nil
  | .cons k v rest =>
    match saveColl v, saveCollsKV rest with
    | some v', some rest' => some (.cons k v' rest')
    | _, _ => none

/-- the dict `YmlProjectIo.save_model` hands to `write_dict` -/
def saveModel : Y → Option Y
  | .map kvs => (saveCollsKV kvs).map Y.map
  | _ => none

mutual
  /-- yaml transport: a python tuple is written as a sequence and read back as a list; everything else
      is assumed to come back unchanged (sampled by the harness on every run) -/
  def yamlT : Y → Y
    | .tup xs => .seq (yamlTL xs)
    | .seq xs => .seq (yamlTL xs)
    | .map kvs => .map (yamlTKV kvs)
    | y => y
  def yamlTL : YL → YL
    | .nil => .nil
    | .cons y ys => .cons (yamlT y) (yamlTL ys)
  def yamlTKV : KV → KV
    | .nil => .nil
    | .cons k v rest => .cons k (yamlT v) (yamlTKV rest)
end

/-- `isinstance(k, str) and rp.tuple_word.match(k)` -/
def Key.tupleLike : Key → Bool
  | .s k => tupleWordMatch k
  | .t _ => false

/-- `tuple(map(str, rp.word.findall(k)))` -/
def Key.sanitized : Key → Key
  | .s k => .t (wordFindall k)
  | k => k

/-- `sanitize_dict_keys(d)` for a dict: the returned `d_new` (values are *not* visited);
    `acc` is `d_new` so far -/
def newOfAcc : KV → KV → KV
  | .nil, acc => acc
  | .cons k v rest, acc => if k.tupleLike then newOfAcc rest (acc.insert k.sanitized v) else newOfAcc rest acc

def newOfKV (kvs : KV) : KV := newOfAcc kvs .nil

mutual
  /-- `sanitize_dict_keys(d)`: the object `d` after the call (it is mutated in place; the returned
      `d_new` replaces `d` only inside its parent container) -/
  def sanKeys : Y → Y
    | .map kvs => .map (sanKeysKV kvs)
    | .seq xs => .seq (sanKeysL xs)
    | y => y
  /-- entry `v` of a container after `if new_v := sanitize_dict_keys(v): d[k] = new_v` -/
  def sanEntry : Y → Y
    | .map kvs => if (newOfKV kvs).isEmpty then .map (sanKeysKV kvs) else .map (newOfKV kvs)
    | .seq xs => .seq (sanKeysL xs)
    | y => y
  def sanKeysL : YL → YL
    | .nil => .nil
    | .cons y ys => .cons (sanEntry y) (sanKeysL ys)
  def sanKeysKV : KV → KV
    | .nil => .nil
    | .cons k v rest =>
      if k.tupleLike then .cons k v (sanKeysKV rest) else .cons k (sanEntry v) (sanKeysKV rest)
end

mutual
  /-- `sanity_scientific_notation_conversion` applied to a value held in a container:
      a string matching `number_scientific` becomes `float(s)` (`none` = float() raises ValueError,
      modelled as "the match does not cover the whole string" — unreachable when the pattern is applied with
      `fullmatch`: `sciConv_str_total`, `scientific_conversion_total`) -/
  def sciConv : Y → Option Y
    | .str s =>
      match sciRest s with
      | none => some (.str s)
      | some [] => some (.sci s)
      | some _ => none
    | .seq xs => (sciConvL xs).map Y.seq
    | .map kvs => (sciConvKV kvs).map Y.map
    | y => some y
  def sciConvL : YL → Option YL
    | .nil => some .nil
    | .cons y ys =>
      match sciConv y, sciConvL ys with
      | some y', some ys' => some (.cons y' ys')
      | _, _ => none
  def sciConvKV : KV → Option KV
    | .nil => some .nil
    | .cons k v rest =>
      match sciConv v, sciConvKV rest with
      | some v', some rest' => some (.cons k v' rest')
      | _, _ => none
end

/-- `sanitize_yaml(spec)` as `load_model` calls it (keys yes, values no) on the parsed file -/
def loadSpec : Y → Option Y
  | .map kvs => sciConv (sanKeys (.map kvs))
  | _ => none

/-- save_model → file → the dict `load_model` hands to the model class -/
def roundTrip (m : Y) : Option Y := (saveModel m).bind (fun s => loadSpec (yamlT s))

/-! ## §3 interval fields (`glotaran/model/interval_item.py`) -/

/-- a float incl. ±inf -/
inductive EB where
  | ninf | fin (q : Rat) | pinf
  deriving Repr, DecidableEq, Inhabited

def EB.le : EB → EB → Bool
  | .ninf, _ => true
  | _, .pinf => true
  | .fin a, .fin b => a ≤ b
  | .pinf, _ => false
  | _, .ninf => false

def EB.lt (a b : EB) : Bool := !(EB.le b a)

/-- an element of the `interval` attribute -/
inductive IvElem where
  | num (x : EB)
  | tup (xs : List EB)
  | lst (xs : List EB)
  deriving Repr, DecidableEq, Inhabited

/-- the `interval` attribute as a python value -/
inductive IvField where
  | none
  | tup (xs : List IvElem)
  | lst (xs : List IvElem)
  deriving Repr, DecidableEq, Inhabited

/-- the nested function `applies(interval)`: `interval[0]`, `interval[1]` (`none` = TypeError / IndexError) -/
def containsBounds (xs : List EB) (index : Rat) : Option Bool :=
  match xs with
  | lo :: hi :: _ =>
    let (l, u) := if EB.lt hi lo then (hi, lo) else (lo, hi)
    some (EB.le l (.fin index) && EB.le (.fin index) u)
  | _ => Option.none

def elemApplies (e : IvElem) (index : Rat) : Option Bool :=
  match e with
  | .num _ => Option.none          -- 'float' object is not subscriptable
  | .tup xs => containsBounds xs index
  | .lst xs => containsBounds xs index

/-- `any(applies(i) for i in intervals)` with Python's short circuit: an error is only reached
    if no earlier element was true -/
def anyApplies : List IvElem → Rat → Option Bool
  | [], _ => some false
  | e :: es, index =>
    match elemApplies e index with
    | Option.none => Option.none
    | some true => some true
    | some false => anyApplies es index

/-- is the first element a number (`not isinstance(intervals[0], (tuple, list))`) -/
def firstIsNum : List IvElem → Bool
  | .num _ :: _ => true
  | _ => false

def numsOf : List IvElem → Option (List EB)
  | [] => some []
  | .num x :: es => (numsOf es).map (x :: ·)
  | _ :: _ => Option.none

/-- a sequence whose first element is a number, read as one interval: `interval[0]`, `interval[1]` must
    be numbers that compare with the index (later elements are never looked at) -/
def singleApplies (xs : List IvElem) (index : Rat) : Option Bool :=
  match xs with
  | .num lo :: .num hi :: _ => containsBounds [lo, hi] index
  | _ => Option.none

/-- `IntervalItem.applies(index)` (code after the D14 repair) -/
def applies (f : IvField) (index : Option Rat) : Option Bool :=
  match f, index with
  | .none, _ => some true
  | _, Option.none => some true
  | .tup xs, some i => if firstIsNum xs then singleApplies xs i else anyApplies xs i
  | .lst xs, some i => if firstIsNum xs then singleApplies xs i else anyApplies xs i

/-- `IntervalItem.applies(index)` as it was before the repair: only a *tuple* is one interval -/
def appliesOld (f : IvField) (index : Option Rat) : Option Bool :=
  match f, index with
  | .none, _ => some true
  | _, Option.none => some true
  | .tup xs, some i => singleApplies xs i
  | .lst xs, some i => anyApplies xs i

def IvElem.toYaml : IvElem → IvElem
  | .tup xs => .lst xs
  | e => e

/-- what the attribute looks like after `save_model` → `load_model` (tuples are lists) -/
def IvField.toYaml : IvField → IvField
  | .none => .none
  | .tup xs => .lst (xs.map IvElem.toYaml)
  | .lst xs => .lst (xs.map IvElem.toYaml)

/-! ## §4 paths -/

/-- `pathlib.PurePosixPath` in normal form: no empty and no "." components (".." is kept) -/
structure PPath where
  abs : Bool
  parts : List Str
  deriving Repr, DecidableEq, Inhabited

def splitSlash : Str → Str → List Str
  | [], cur => [cur.reverse]
  | c :: cs, cur => if c == '/' then cur.reverse :: splitSlash cs [] else splitSlash cs (c :: cur)

def isDot (p : Str) : Bool := p == ['.']
def isDotDot (p : Str) : Bool := p == ['.', '.']

/-- `Path(s)` (a leading "//" is not modelled) -/
def parsePath (s : Str) : PPath :=
  { abs := s.head? == some '/', parts := (splitSlash s []).filter (fun p => !p.isEmpty && !isDot p) }

def joinSlash : List Str → Str
  | [] => []
  | [p] => p
  | p :: ps => p ++ ('/' :: joinSlash ps)

/-- `Path.as_posix()` -/
def PPath.asPosix (p : PPath) : Str :=
  if p.abs then '/' :: joinSlash p.parts
  else if p.parts.isEmpty then ['.'] else joinSlash p.parts

/-- collapse ".." lexically on an absolute path (`os.path.normpath`; `Path.resolve` without symlinks);
    `acc` is the reversed result so far; ".." at the root stays at the root -/
def normAbsAux : List Str → List Str → List Str
  | [], acc => acc.reverse
  | p :: ps, acc => if isDotDot p then normAbsAux ps acc.tail else normAbsAux ps (p :: acc)

def normAbs (parts : List Str) : List Str := normAbsAux parts []

/-- `Path.resolve()` / `os.path.abspath`: absolute components; `cwd` = components of `os.getcwd()` -/
def resolveP (cwd : List Str) (p : PPath) : List Str :=
  if p.abs then normAbs p.parts else normAbs (cwd ++ p.parts)

def commonPrefixLen : List Str → List Str → Nat
  | a :: as, b :: bs => if a = b then commonPrefixLen as bs + 1 else 0
  | _, _ => 0

/-- `os.path.relpath(path, start)` (both given as paths; result as a relative path) -/
def relpath (cwd : List Str) (path start : PPath) : PPath :=
  let pl := resolveP cwd path
  let sl := resolveP cwd start
  let i := commonPrefixLen sl pl
  { abs := false, parts := List.replicate (sl.length - i) ['.', '.'] ++ pl.drop i }

/-- `b in a.parents` for resolved paths: `b` is a proper prefix of `a` -/
def isProperPrefix : List Str → List Str → Bool
  | [], _ :: _ => true
  | b :: bs, a :: as => b = a && isProperPrefix bs as
  | _, _ => false

/-- `glotaran.utils.io.relative_posix_path(source_path, base_path)` -/
def relativePosixPath (cwd : List Str) (source : Str) (base : Option Str) : Str :=
  let src := parsePath source
  match base with
  | none => src.asPosix
  | some b =>
    let bp := parsePath b
    if src.abs || isProperPrefix (resolveP cwd bp) (resolveP cwd src) then
      (relpath cwd src bp).asPosix
    else src.asPosix

/-- `Path(folder) / ref` -/
def joinP (folder ref : PPath) : PPath :=
  if ref.abs then ref else { abs := folder.abs, parts := folder.parts ++ ref.parts }

/-- `Path.parent` -/
def PPath.parent (p : PPath) : PPath := { p with parts := p.parts.dropLast }

/-- `Path.suffix` of the last component: from the last '.', unless that is the first or the last character -/
def suffixOf (name : Str) : Str :=
  let r := name.reverse
  let ext := (r.takeWhile (· != '.')).reverse
  let stem := (r.dropWhile (· != '.')).drop 1
  if !r.contains '.' || ext.isEmpty || stem.isEmpty then [] else '.' :: ext

def PPath.suffix (p : PPath) : Str :=
  match p.parts.getLast? with
  | some n => suffixOf n
  | none => []

/-! ## §5 `source_path` state of a result and `save_result` -/

/-- the `source_path` attribute of every component of a `Result` -/
structure Srcs where
  scheme : Str            -- result.scheme.source_path
  model : Str             -- result.scheme.model.source_path  (`none` is not modelled: a model always gets one when saved)
  params : Str            -- result.scheme.parameters.source_path
  initParams : Str        -- result.initial_parameters.source_path
  initShared : Bool       -- result.initial_parameters is result.scheme.parameters (true for `optimize`, false after `load_result`)
  optParams : Str
  paramHist : Str
  optHist : Str
  data : List (Str × Str) -- result.data: label → dataset.attrs["source_path"]
  deriving Repr, DecidableEq, Inhabited

structure SaveOut where
  srcs : Srcs                       -- state after saving
  files : List (Str × Str)          -- (path as passed to the writer, what was written), in writing order
  resultRefs : List (Str × Str)     -- result.yml: field (or data:<label>) ↦ reference
  schemeRefs : List (Str × Str)     -- scheme.yml: field ↦ reference
  deriving Repr, DecidableEq, Inhabited

def strOf (s : String) : Str := s.toList

/-- `result_folder / name` as the posix string the writers receive -/
def inFolder (folder : PPath) (name : Str) : Str := (joinP folder (parsePath name)).asPosix

/-- `YmlProjectIo.save_result` + `FolderProjectIo.save_result` (after the repairs: the `scheme` and
    `initial_parameters` references are those of the files just written; filtered data updates `source_path`):
    `filtered` = `saving_options.data_filter is not None`, `report` = `saving_options.report`,
    `pfmt` / `dfmt` = `parameter_format` / `data_format` -/
def saveResult (cwd : List Str) (resultPath : Str) (report filtered : Bool) (pfmt dfmt : Str) (s : Srcs) : SaveOut :=
  let rp := parsePath resultPath
  let rf := if rp.suffix == strOf ".yml" || rp.suffix == strOf ".yaml" then rp else joinP rp (parsePath (strOf "result.yml"))
  let folder := rf.parent
  let fo := folder.asPosix
  -- folder plugin
  let f0 := if report then [(inFolder folder (strOf "result.md"), strOf "report")] else []
  let pInit := inFolder folder (strOf "initial_parameters." ++ pfmt)
  let pOpt := inFolder folder (strOf "optimized_parameters." ++ pfmt)
  let pPh := inFolder folder (strOf "parameter_history.csv")
  let pOh := inFolder folder (strOf "optimization_history.csv")
  let dataPaths := s.data.map (fun (l, _) => (l, inFolder folder (l ++ ('.' :: dfmt))))
  let f1 := f0 ++ [(pInit, strOf "initial_parameters"), (pOpt, strOf "optimized_parameters"),
                   (pPh, strOf "parameter_history"), (pOh, strOf "optimization_history")]
            ++ dataPaths.map (fun (l, p) => (p, strOf (if filtered then "data-filtered:" else "data:") ++ l))
  -- yml plugin
  let pModel := inFolder folder (strOf "model.yml")
  let pScheme := inFolder folder (strOf "scheme.yml")
  let s' : Srcs := { s with model := pModel, params := pInit,
                            initParams := if s.initShared then pInit else s.initParams,
                            optParams := pOpt, paramHist := pPh, optHist := pOh, data := dataPaths }
  let rel := fun (p : Str) => relativePosixPath cwd p (some fo)
  let schemeRefs := [(strOf "model", rel s'.model), (strOf "parameters", rel s'.params)]
                    ++ s'.data.map (fun (l, p) => (strOf "data:" ++ l, rel p))
  let resultRefs := [(strOf "scheme", rel pScheme), (strOf "initial_parameters", rel s'.params),
                     (strOf "optimized_parameters", rel s'.optParams), (strOf "parameter_history", rel s'.paramHist),
                     (strOf "optimization_history", rel s'.optHist)]
                    ++ s'.data.map (fun (l, p) => (strOf "data:" ++ l, rel p))
  { srcs := s',
    files := f1 ++ [(pModel, strOf "model"), (pScheme, strOf "scheme"), (rf.asPosix, strOf "result")],
    resultRefs := resultRefs, schemeRefs := schemeRefs }

/-- `load_result(path)`: the `source_path` state of the loaded `Result` (`fromdict` + `file_loader`):
    every file-loadable component gets the *reference text* as its `source_path`
    (`target_obj.source_path = str(source_path)`), datasets get the path they were read from
    (`load_dataset` sets `Path(folder / ref).as_posix()`); `initial_parameters` and `scheme.parameters`
    are two objects.  `resultRefs` / `schemeRefs` are the references found in the two files. -/
def loadResultSrcs (resultPath : Str) (resultRefs schemeRefs : List (Str × Str)) : Srcs :=
  let rp := parsePath resultPath
  let rf := if rp.suffix == strOf ".yml" || rp.suffix == strOf ".yaml" then rp else joinP rp (parsePath (strOf "result.yml"))
  let folder := rf.parent
  let get := fun (refs : List (Str × Str)) (f : String) => ((refs.find? (fun x => x.1 == strOf f)).map (·.2)).getD []
  let dataOf := fun (refs : List (Str × Str)) (fo : PPath) =>
    refs.filterMap (fun x => if (strOf "data:").isPrefixOf x.1 then
      some (x.1.drop 5, (joinP fo (parsePath x.2)).asPosix) else none)
  { scheme := get resultRefs "scheme", model := get schemeRefs "model", params := get schemeRefs "parameters",
    initParams := get resultRefs "initial_parameters", initShared := false,
    optParams := get resultRefs "optimized_parameters", paramHist := get resultRefs "parameter_history",
    optHist := get resultRefs "optimization_history", data := dataOf resultRefs folder }

/-- `save_scheme(scheme, path)` for a scheme whose components carry the given source paths:
    the references written to the scheme file (`asdict(scheme, folder=Path(path).parent)`) -/
def saveSchemeRefs (cwd : List Str) (schemePath : Str) (model params : Str) (data : List (Str × Str)) : List (Str × Str) :=
  let fo := (parsePath schemePath).parent.asPosix
  let rel := fun (p : Str) => relativePosixPath cwd p (some fo)
  [(strOf "model", rel model), (strOf "parameters", rel params)] ++ data.map (fun (l, p) => (strOf "data:" ++ l, rel p))

/-- the file a reference of `<folder>/x.yml` is loaded from: `Path(folder) / ref`, resolved -/
def refTarget (cwd : List Str) (folder : Str) (ref : Str) : List Str :=
  resolveP cwd (joinP (parsePath folder) (parsePath ref))

/-! ## §6 explicit ascii files (`wavelength_time_explicit_file.py`), orientation only -/

section Ascii
variable {α : Type}

/-- column `j` of a list of rows -/
def colOf (m : List (List α)) (j : Nat) : List α := m.filterMap (fun r => r[j]?)

/-- `m.T` for a matrix with `n` columns -/
def transposeN (m : List (List α)) (n : Nat) : List (List α) := (List.range n).map (colOf m)

inductive Fmt where
  | timeExplicit | wavelengthExplicit
  deriving Repr, DecidableEq, Inhabited

/-- a `DataArray` with dims ("time","spectral") (`timeFirst`) or ("spectral","time") -/
structure DA (α : Type) where
  timeFirst : Bool
  times : List α
  spectral : List α
  values : List (List α)
  deriving Repr

/-- what is in the file after the comment lines: format line, explicit axis, rows (first cell = secondary axis) -/
structure AsciiFile (α : Type) where
  fmt : Fmt
  header : List α
  rows : List (List α)
  deriving Repr

/-- `dataset.transpose("time", "spectral").values` -/
def DA.timeSpectral (d : DA α) : List (List α) :=
  if d.timeFirst then d.values else transposeN d.values d.times.length

/-- `ExplicitFile.__init__(dataset=…)` + `write`: `rnd` is the number format applied by `np.savetxt`
    to every cell of the rows (the header axis is written with `repr`) -/
def asciiWrite (fmt : Fmt) (d : DA α) (rnd : α → α) : AsciiFile α :=
  let nT := d.times.length
  let nS := d.spectral.length
  let obs := transposeN d.timeSpectral nS            -- self._observations = values.T   (spectral × time)
  match fmt with
  | .wavelengthExplicit =>
    -- np.vstack((times.T, observations)).T
    { fmt := fmt, header := d.spectral, rows := (transposeN (d.times :: obs) nT).map (·.map rnd) }
  | .timeExplicit =>
    -- np.vstack((spectral.T, observations.T)).T
    { fmt := fmt, header := d.times, rows := (transposeN (d.spectral :: transposeN obs nT) nS).map (·.map rnd) }

/-- `read` + `dataset(prepare=False)`: (time axis, spectral axis, data as time × spectral) -/
def asciiRead (f : AsciiFile α) : List α × List α × List (List α) :=
  let secondary := f.rows.filterMap (·.head?)
  let obs := f.rows.map (·.tail)
  match f.fmt with
  | .timeExplicit => (f.header, secondary, transposeN obs f.header.length)
  | .wavelengthExplicit => (secondary, f.header, obs)

end Ascii

/-! ## driver (glue, nothing below is used in a theorem) -/
open Glotaran.Proto

def encS (s : Str) : String := encodeStr (String.ofList s)
def Tree.chars? (t : Tree) : Option Str := t.str?.map String.toList

def showKey : Key → String
  | .s k => s!"[s,{encS k}]"
  | .t ks => s!"[t,{showList (ks.map encS)}]"

mutual
  partial def showY : Y → String
    | .atom a => s!"[a,{encS a}]"
    | .str a => s!"[s,{encS a}]"
    | .sci a => s!"[f,{encS a}]"
    | .seq xs => s!"[l,{showList (showYL xs)}]"
    | .tup xs => s!"[t,{showList (showYL xs)}]"
    | .map kvs => s!"[m,{showList (showKVs kvs)}]"
  partial def showYL : YL → List String
    | .nil => []
    | .cons y ys => showY y :: showYL ys
  partial def showKVs : KV → List String
    | .nil => []
    | .cons k v rest => s!"[{showKey k},{showY v}]" :: showKVs rest
end

def parseKey? : Tree → Option Key
  | .list [.atom "s", k] => do some (.s (← Tree.chars? k))
  | .list [.atom "t", .list ks] => do some (.t (← ks.mapM Tree.chars?))
  | _ => none

mutual
  partial def parseY? : Tree → Option Y
    | .list [.atom "a", a] => do some (.atom (← Tree.chars? a))
    | .list [.atom "s", a] => do some (.str (← Tree.chars? a))
    | .list [.atom "f", a] => do some (.sci (← Tree.chars? a))
    | .list [.atom "l", .list xs] => do some (.seq (← parseYL? xs))
    | .list [.atom "t", .list xs] => do some (.tup (← parseYL? xs))
    | .list [.atom "m", .list kvs] => do some (.map (← parseKVs? kvs))
    | _ => none
  partial def parseYL? : List Tree → Option YL
    | [] => some .nil
    | t :: ts => do some (.cons (← parseY? t) (← parseYL? ts))
  partial def parseKVs? : List Tree → Option KV
    | [] => some .nil
    | .list [k, v] :: ts => do some (.cons (← parseKey? k) (← parseY? v) (← parseKVs? ts))
    | _ => none
end

def showOY : Option Y → String
  | none => "none"
  | some y => showY y

def parseEB? : Tree → Option EB
  | .atom "inf" => some .pinf
  | .atom "-inf" => some .ninf
  | t => t.rat?.map EB.fin

def showEB : EB → String
  | .pinf => "inf"
  | .ninf => "-inf"
  | .fin q => showRat q

def parseIvElem? : Tree → Option IvElem
  | .list [.atom "n", x] => do some (.num (← parseEB? x))
  | .list [.atom "t", .list xs] => do some (.tup (← xs.mapM parseEB?))
  | .list [.atom "l", .list xs] => do some (.lst (← xs.mapM parseEB?))
  | _ => none

def parseIvField? : Tree → Option IvField
  | .atom "none" => some .none
  | .list [.atom "t", .list xs] => do some (.tup (← xs.mapM parseIvElem?))
  | .list [.atom "l", .list xs] => do some (.lst (← xs.mapM parseIvElem?))
  | _ => none

def showIvElem : IvElem → String
  | .num x => s!"[n,{showEB x}]"
  | .tup xs => s!"[t,{showList (xs.map showEB)}]"
  | .lst xs => s!"[l,{showList (xs.map showEB)}]"

def showIvField : IvField → String
  | .none => "none"
  | .tup xs => s!"[t,{showList (xs.map showIvElem)}]"
  | .lst xs => s!"[l,{showList (xs.map showIvElem)}]"

def showOB : Option Bool → String
  | none => "err"
  | some b => showBool b

def showStrL (xs : List Str) : String := showList (xs.map encS)
def showPairs (xs : List (Str × Str)) : String := showList (xs.map (fun (a, b) => s!"[{encS a},{encS b}]"))

def parsePairs? : Tree → Option (List (Str × Str))
  | .list xs => xs.mapM (fun t => match t with
      | .list [a, b] => do some ((← Tree.chars? a), (← Tree.chars? b))
      | _ => none)
  | _ => none

def parseStrL? (t : Tree) : Option (List Str) := Tree.listOf? Tree.chars? t

def parseSrcs? : Tree → Option Srcs
  | .list [sc, mo, pa, ip, sh, op, ph, oh, da] => do
    some { scheme := ← Tree.chars? sc, model := ← Tree.chars? mo, params := ← Tree.chars? pa,
           initParams := ← Tree.chars? ip, initShared := ← sh.bool?, optParams := ← Tree.chars? op,
           paramHist := ← Tree.chars? ph, optHist := ← Tree.chars? oh, data := ← parsePairs? da }
  | _ => none

def showSrcs (s : Srcs) : String :=
  showList [encS s.scheme, encS s.model, encS s.params, encS s.initParams, showBool s.initShared,
            encS s.optParams, encS s.paramHist, encS s.optHist, showPairs s.data]

def parseFmt? : Tree → Option Fmt
  | .atom "time" => some .timeExplicit
  | .atom "wavelength" => some .wavelengthExplicit
  | _ => none

def showMat (m : List (List Rat)) : String := showList (m.map showRats)

def driverStep (_ : Unit) (ts : List Tree) : Unit × String :=
  let ans : Option String :=
    match ts with
    | [.atom "twm", s] => do some (showBool (tupleWordMatch (← Tree.chars? s)))
    | [.atom "words", s] => do some (showStrL (wordFindall (← Tree.chars? s)))
    | [.atom "render", a, b] => do
        some (match renderKey (.t [← Tree.chars? a, ← Tree.chars? b]) with
              | some r => encS r
              | none => "none")
    | [.atom "renderkey", k] => do
        some (match renderKey (← parseKey? k) with
              | some r => encS r
              | none => "none")
    | [.atom "sci", s] => do
        some (match sciRest (← Tree.chars? s) with
              | none => "none"
              | some r => s!"rest {encS r}")
    | [.atom "sankey", s] => do
        let k := Key.s (← Tree.chars? s)
        some (if k.tupleLike then showKey k.sanitized else showKey k)
    | [.atom "save", t] => do some (showOY (saveModel (← parseY? t)))
    | [.atom "yaml", t] => do some (showY (yamlT (← parseY? t)))
    | [.atom "saveyaml", t] => do some (showOY ((saveModel (← parseY? t)).map yamlT))
    | [.atom "load", t] => do some (showOY (loadSpec (← parseY? t)))
    | [.atom "rt", t] => do some (showOY (roundTrip (← parseY? t)))
    | [.atom "applies", f, i] => do
        some (showOB (applies (← parseIvField? f) (← Tree.optOf? Tree.rat? i)))
    | [.atom "appliesold", f, i] => do
        some (showOB (appliesOld (← parseIvField? f) (← Tree.optOf? Tree.rat? i)))
    | [.atom "ivyaml", f] => do some (showIvField (← parseIvField? f).toYaml)
    | [.atom "parse", s] => do
        let p := parsePath (← Tree.chars? s)
        some s!"{showBool p.abs} {showStrL p.parts} {encS p.asPosix} {encS p.suffix} {encS p.parent.asPosix}"
    | [.atom "resolve", cwd, s] => do
        some (showStrL (resolveP (← parseStrL? cwd) (parsePath (← Tree.chars? s))))
    | [.atom "join", f, r] => do
        some (encS (joinP (parsePath (← Tree.chars? f)) (parsePath (← Tree.chars? r))).asPosix)
    | [.atom "relpp", cwd, src, base] => do
        some (encS (relativePosixPath (← parseStrL? cwd) (← Tree.chars? src) (← Tree.optOf? Tree.chars? base)))
    | [.atom "reftarget", cwd, folder, ref] => do
        some (showStrL (refTarget (← parseStrL? cwd) (← Tree.chars? folder) (← Tree.chars? ref)))
    | [.atom "saveresult", cwd, path, report, filtered, pfmt, dfmt, srcs] => do
        let o := saveResult (← parseStrL? cwd) (← Tree.chars? path) (← report.bool?) (← filtered.bool?)
                   (← Tree.chars? pfmt) (← Tree.chars? dfmt) (← parseSrcs? srcs)
        some s!"{showSrcs o.srcs} {showPairs o.files} {showPairs o.resultRefs} {showPairs o.schemeRefs}"
    | [.atom "loadsrcs", path, rrefs, srefs] => do
        some (showSrcs (loadResultSrcs (← Tree.chars? path) (← parsePairs? rrefs) (← parsePairs? srefs)))
    | [.atom "savescheme", cwd, path, model, params, data] => do
        some (showPairs (saveSchemeRefs (← parseStrL? cwd) (← Tree.chars? path) (← Tree.chars? model)
                          (← Tree.chars? params) (← parsePairs? data)))
    | [.atom "asciiw", fmt, tf, times, spectral, values] => do
        let d : DA Rat := { timeFirst := ← tf.bool?, times := ← times.rats?, spectral := ← spectral.rats?,
                            values := ← values.ratss? }
        let f := asciiWrite (← parseFmt? fmt) d id
        some s!"{showRats f.header} {showMat f.rows}"
    | [.atom "asciirt", fmt, tf, times, spectral, values] => do
        let d : DA Rat := { timeFirst := ← tf.bool?, times := ← times.rats?, spectral := ← spectral.rats?,
                            values := ← values.ratss? }
        let (t, s, m) := asciiRead (asciiWrite (← parseFmt? fmt) d id)
        some s!"{showRats t} {showRats s} {showMat m}"
    | _ => none
  ((), ans.getD "bad-op")

end Glotaran.C17
