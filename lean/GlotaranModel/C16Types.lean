/-
C16 — value types shared by the regenerated tables (Generated/C16.lean) and the model (C16.lean).
-/
namespace Glotaran.C16

/-- a Python float: NaN, ±∞ or a finite double (an exact rational) -/
inductive Flt where
  | nan | ninf | pinf
  | fin (q : Rat)
  deriving Repr, DecidableEq, Inhabited

/-- a Python scalar as it sits in a DataFrame cell, in a keyword argument or in a specification:
    `None`, `str`, `int`, `float` (NaN included), `bool` -/
inductive Cell where
  | none
  | str (s : String)
  | int (i : Int)
  | flt (x : Flt)
  | bool (b : Bool)
  deriving Repr, DecidableEq, Inhabited

end Glotaran.C16
