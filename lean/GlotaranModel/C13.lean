/-
C13 — fit statistics (glotaran/optimization/optimizer.py: `Optimizer.create_result`,
`calculate_covariance_matrix_and_standard_errors`; matrix_provider.py: `number_of_clps`;
optimization_group.py: `create_result_data`, the per-dataset RMSE attributes), on top of the
C02 model of the objective and the C03 model of the result datasets.

  * `groupClps` / `numberOfClps`   the sums `number_of_clps` takes over the *same* per-index problems
                                   (`unlinkedProblems`, `linkedProblems`) the objective of C02 is built from
  * `stats`                        what `create_result` derives from `OptimizeResult.fun/x` and the clp count
  * `createStats`                  `stats` fed with the model's own objective and clp count
  * `datasetStats`                 radicands of the two RMSE attributes of a result dataset (C03 `DsResult`; the driver
                                   applies it to `C03.resultsOwn`, the layout of the code after fix D27)
  * `covariance`                   `(Vt[mask].T / s²[mask]) @ Vt[mask]`, `mask = s > eps·max(shape)·s_max`, the SVD `(s, Vt)` being a parameter
  * `errSq`                        radicands of `rmse * sqrt(diag(cov))`
  * standard errors                `C11.assignStdErrs` (the loop is the one C11 models) applied to those errors

Square roots are never evaluated here: the model returns radicands (`rmse² = χ²_red`, `err² = rmse²·Cᵢᵢ`).
-/
import GlotaranModel.Proto
import GlotaranModel.C02
import GlotaranModel.C03
import GlotaranModel.C11
namespace Glotaran.C13
open Glotaran.LinAlg Glotaran.C02

/-! ### number of conditionally linear parameters -/

/-- one dataset's term of `MatrixProviderUnlinked.number_of_clps` -/
def datasetClps (mi : ModelItems) (d : Dataset) : Option Nat :=
  if !d.gmcs.isEmpty then
    -- len(model clp labels) * len(global clp labels)
    match datasetMatrix d.mcs, datasetMatrix d.gmcs with
    | some lm, some gm => some (lm.labels.length * gm.labels.length)
    | _, _ => none
  else
    -- sum over the global axis of len(prepared matrix container .clp_labels)
    (unlinkedProblems mi d).map (fun ps => (ps.map (fun p => p.reduced.labels.length)).sum)

/-- `OptimizationGroup.number_of_clps` (`MatrixProviderLinked` / `MatrixProviderUnlinked`) -/
def groupClps (mi : ModelItems) (g : Group) : Option Nat :=
  if g.linked then
    -- sum over the aligned global axis of len(aligned matrix container .clp_labels)
    (linkedProblems mi g).map (fun ap => (ap.2.map (fun p => p.reduced.labels.length)).sum)
  else
    (g.datasets.mapM (datasetClps mi)).map List.sum

/-- `sum(group.number_of_clps for group in self._optimization_groups)` -/
def numberOfClps (mi : ModelItems) (gs : List Group) : Option Nat :=
  (gs.mapM (groupClps mi)).map List.sum

/-! ### statistics assembled by `create_result` -/

structure Stats where
  nResiduals : Nat            -- `fun.size`
  nFree : Nat                 -- `x.size`
  nClps : Nat
  dof : Int                   -- `number_of_residuals - number_of_free_parameters - number_of_clps`
  chiSquare : Rat             -- `np.sum(fun**2)`
  cost : Rat                  -- `0.5 * np.dot(full_penalty, full_penalty)`
  reducedChiSquare : Option Rat   -- `chi_square / degrees_of_freedom`; `none` = ZeroDivisionError
  deriving Repr, DecidableEq

/-- radicand of `root_mean_square_error = sqrt(reduced_chi_square)` -/
def Stats.rmseSq (s : Stats) : Option Rat := s.reducedChiSquare

/-- `np.sum(v**2)`: square entry by entry, then add up -/
def sumOfSquares (v : Vec) : Rat := (v.map (fun x => x * x)).sum

/-- the statistics `create_result` computes from the final residual vector `f` -/
def stats (f : Vec) (nFree nClps : Nat) : Stats :=
  let n := f.length
  let dof : Int := (n : Int) - (nFree : Int) - (nClps : Int)
  let chi := sumOfSquares f
  { nResiduals := n, nFree := nFree, nClps := nClps, dof := dof, chiSquare := chi,
    cost := (1 / 2) * dot f f,
    reducedChiSquare := if dof = 0 then none else some (chi / (dof : Rat)) }

/-- `create_result` on the model: the residual vector is the objective of C02 at the optimised
    parameters (which the scheme description already carries), the clp count is `numberOfClps` -/
def createStats (mi : ModelItems) (gs : List Group) (nFree : Nat) : Option Stats :=
  match objective mi gs, numberOfClps mi gs with
  | some f, some k => some (stats f nFree k)
  | _, _ => none

/-- `additional_penalty`: per group the penalty part of the group's penalty vector -/
def additionalPenalty (mi : ModelItems) (gs : List Group) : Option (List Vec) :=
  (gs.mapM (groupPenaltyParts mi)).map (fun ps => ps.map (·.2))

/-! ### per-dataset RMSE attributes (`create_result_data`) -/

structure DsStats where
  label : String
  size : Nat                  -- `residual.shape[0] * residual.shape[1]`
  rmseSq : Rat                -- `(residual**2).sum() / size`
  wrmseSq : Rat               -- the same of `weighted_residual` if present, else `rmseSq`
  deriving Repr, DecidableEq

/-- `(a**2).sum()` of a 2-D array -/
def matSumSq (m : Mat) : Rat := sumOfSquares m.flatten

def datasetStats (r : C03.DsResult) : DsStats :=
  let size := r.residual.length * ncols r.residual
  let rmse := matSumSq r.residual / (size : Rat)
  { label := r.label, size := size, rmseSq := rmse,
    wrmseSq := match r.weighted with
      | some w => matSumSq w / (size : Rat)
      | none => rmse }

/-- the weighted residual a result dataset reports (`weighted_residual` if it has one, else `residual`) -/
def weightedResidual (r : C03.DsResult) : Mat :=
  match r.weighted with
  | some w => w
  | none => r.residual

/-! ### covariance matrix and standard errors -/

/-- `np.finfo(float).eps` = 2⁻⁵² -/
def machEps : Rat := 1 / 4503599627370496

/-- `jacobian_sv.max(initial=0.0)` -/
def svMax (sv : Vec) : Rat := sv.foldl (fun a b => if a < b then b else a) 0

/-- `threshold = np.finfo(float).eps * max(jacobian.shape) * jacobian_sv.max(initial=0.0)` -/
def threshold (sv : Vec) (m n : Nat) : Rat := machEps * ((max m n : Nat) : Rat) * svMax sv

/-- the rows of `Vt` (right singular vectors), with their singular value, selected by the mask -/
def keptRows (keep : Rat → Bool) (sv : Vec) (vt : Mat) : List (Rat × Vec) :=
  (sv.zip vt).filter (fun p => keep p.1)

/-- `(jacobian_rsv[mask].T / jacobian_sv_square[mask]) @ jacobian_rsv[mask]`, an n × n matrix:
    entry (i, j) = Σ over kept k of  Vt[k][i] / s_k² · Vt[k][j] -/
def covarianceWith (keep : Rat → Bool) (sv : Vec) (vt : Mat) (n : Nat) : Mat :=
  let kept := keptRows keep sv vt
  (List.range n).map (fun i => (List.range n).map (fun j =>
    (kept.map (fun p => p.2.getD i 0 / (p.1 * p.1) * p.2.getD j 0)).sum))

/-- the covariance matrix of an `m × n` Jacobian whose thin SVD has singular values `sv` and right
    singular vectors `vt` (rows): `mask = jacobian_sv > threshold` -/
def covariance (sv : Vec) (vt : Mat) (m n : Nat) : Mat :=
  covarianceWith (fun s => decide (s > threshold sv m n)) sv vt n

/-- radicands of `root_mean_square_error * np.sqrt(np.diag(covariance_matrix))` -/
def errSq (rmseSq : Rat) (cov : Mat) : Vec :=
  (List.range cov.length).map (fun i => rmseSq * (cov.getD i []).getD i 0)

/-! ### the irrational part: `np.sqrt` (additions for the function-level translator, Generated/C13Fns.lean)

The rational model above returns radicands.  What the code stores are square roots of them; `SNum` is C11's number class
(`exp`, `log`, `abs`, comparisons — the standard-error loop) plus `sqrt`.  Theorems instantiate it with ℝ. -/

/-- the arithmetic on doubles the statistics perform: C11's `Num` and `np.sqrt` -/
class SNum (α : Type) extends C11.Num α where
  sqrt : α → α

/-- `np.sqrt` of an exactly known rational -/
def sqrtOfRat {α : Type} [SNum α] (r : Rat) : α := SNum.sqrt (C11.Num.ofRat r)

/-- `root_mean_square_error = float(np.sqrt(reduced_chi_square))`; `none` = no reduced χ² (ZeroDivisionError) -/
def Stats.rmse {α : Type} [SNum α] (s : Stats) : Option α := s.rmseSq.map sqrtOfRat

/-- the two RMSE attributes of a result dataset -/
def DsStats.rmse {α : Type} [SNum α] (s : DsStats) : α := sqrtOfRat s.rmseSq
def DsStats.wrmse {α : Type} [SNum α] (s : DsStats) : α := sqrtOfRat s.wrmseSq

/-- `standard_errors = root_mean_square_error * np.sqrt(np.diag(covariance_matrix))` -/
def standardErrors {α : Type} [SNum α] (rmse : α) (cov : Mat) : List α :=
  (List.range cov.length).map (fun i => C11.Num.mul rmse (sqrtOfRat ((cov.getD i []).getD i 0)))

/-- `mask = jacobian_sv > threshold` -/
def svMask (sv : Vec) (m n : Nat) : List Bool := sv.map (fun s => decide (s > threshold sv m n))

/-! ### the report (`Result.markdown`) -/

/-- the number a cell of the report shows for a statistic (`none` = the cell reads "nan"), by the way the cell is
    written: `plain` (the field itself), `none-to-nan:<fmt>` (`np.nan if x is None else x`), `falsy-to-nan:<fmt>`
    (`x or np.nan`, the code before fix C13-report-zero-statistics: also a statistic that is exactly 0 reads "nan") -/
def shownValue (kind : String) (x : Option Rat) : Option Rat :=
  if kind = "falsy-to-nan:.2e" then
    match x with
    | some v => if v = 0 then none else some v
    | none => none
  else x

/-! ### driver: the C02/C03 description lines, then the statistics -/
open Glotaran.Proto

def showStats (s : Stats) : String :=
  showList [toString s.nResiduals, toString s.nFree, toString s.nClps, toString s.dof,
            showRat s.chiSquare, showRat s.cost, showOpt showRat s.reducedChiSquare]

def showDsStats (s : DsStats) : String :=
  showList [encodeStr s.label, toString s.size, showRat s.rmseSq, showRat s.wrmseSq]

def driverStep (s : C02.DState) (ts : List Tree) : C02.DState × String :=
  match ts with
  | [.atom "stats", nfree] =>
    match nfree.nat? with
    | none => (s, "bad-op")
    | some k =>
      match createStats s.mi s.groups k, s.groups.mapM (groupClps s.mi), additionalPenalty s.mi s.groups with
      | some st, some per, some pens =>
        (s, "stats " ++ showStats st ++ " " ++ showNats per ++ " " ++ showList (pens.map showRats))
      | _, _, _ => (s, "err unsolvable")
  | [.atom "clps"] =>
    -- the clp count alone (needs no linear solve)
    match s.groups.mapM (groupClps s.mi) with
    | some per => (s, "clps " ++ showNats per)
    | none => (s, "err unsolvable")
  | [.atom "dsstats"] =>
    -- the result datasets of the repaired code (own global index order, fix D27)
    match C03.resultsOwn s.mi s.groups with
    | some rs => (s, "dsstats " ++ showList (rs.map (fun r => showDsStats (datasetStats r))))
    | none => (s, "err unsolvable")
  | [.atom "cov", sv, vt, m, n] =>
    match sv.rats?, vt.ratss?, m.nat?, n.nat? with
    | some sv, some vt, some m, some n =>
      (s, "cov " ++ C02.showMat (covariance sv vt m n) ++ " " ++
          toString ((keptRows (fun x => decide (x > threshold sv m n)) sv vt).length))
    | _, _, _, _ => (s, "bad-op")
  | [.atom "errsq", r, cov] =>
    match r.rat?, cov.ratss? with
    | some r, some c => (s, "errsq " ++ showRats (errSq r c))
    | _, _ => (s, "bad-op")
  | .atom "stderr" :: _ => (s, (C11.driverStep () ts).2)
  | _ => C03.driverStep s ts

end Glotaran.C13
