/-
C16 — vocabulary of the function-level translator (harness/props/_c16_fns.py).

`Generated/C16Fns.lean` is the Python source of the specification functions
(`convert_scientific_to_float`, `sanitize_parameter_list`, `deserialize_options`,
`_retrieve_item_from_list_by_type`, `Parameter.from_list`, `flatten_parameter_dict`,
`Parameters.from_list`, `Parameters.from_dict`) translated statement by statement into Lean over the
value types of the model (`Cell`, `Atom`, `Item`, `Node`, `Kids`, `Param`).  This file holds what the
translation is written in: Python's builtins on those types.  Nothing here is specific to one of the
translated functions.

* a function that can raise is a function into `Except Err`; a generator is a list of
  `Except Err` (an exception raised inside a generator is the element at which it is raised)
* `isinstance(x, T)` is `isinst x [T]` (a tuple of types is the list); `bool` is a subclass of `int`
* a checked downcast (`asCell`, `asOpts`) is where a value of a sum type flows into a position of a
  narrower type: the other summand is `unsupported` (outside the modelled language), never a default
-/
import GlotaranModel.C16
namespace Glotaran.C16
namespace Py

/-- what the translator emits for a function it cannot translate: not a function, so the
    `generated_*_eq_model` theorem about it does not elaborate -/
structure Untranslatable where
  reason : String

/-- the external functions of the model: expression parser, function symbols, `float(str)` -/
structure Env where
  parse : ParseTab
  F : C12.Funs
  T : FloatTab

/-- the Python types the translated functions test for -/
inductive Ty where
  | str | int | float | bool | dict | list
  deriving Repr, DecidableEq

def Cell.isinst (c : Cell) (tys : List Ty) : Bool :=
  match c with
  | .none => false
  | .str _ => tys.contains .str
  | .int _ => tys.contains .int
  | .flt _ => tys.contains .float
  | .bool _ => tys.contains .int || tys.contains .bool

def Atom.isinst (a : Atom) (tys : List Ty) : Bool :=
  match a with
  | .cell c => Cell.isinst c tys
  | .opts _ => tys.contains .dict

def Item.isinst (x : Item) (tys : List Ty) : Bool :=
  match x with
  | .bare a => Atom.isinst a tys
  | .lst _ => tys.contains .list

/-- the items of a parameter list that are dicts (`x for x in xs if isinstance(x, dict)`) -/
def Item.dict? : Item → Option Opts
  | .bare (.opts o) => some o
  | _ => none

/-- `float(s)` -/
def float (env : Env) (s : String) : Except Err Flt :=
  match env.T s with
  | none => .error (.unsupported s!"float({s}) not supplied")
  | some none => .error (.floatError s)
  | some (some x) => .ok x

/-- an atom where a scalar is required -/
def asCell : Atom → Except Err Cell
  | .cell c => .ok c
  | .opts _ => .error (.unsupported "a dict where a scalar is required")

/-- an atom where a dict is required -/
def asOpts : Atom → Except Err Opts
  | .opts o => .ok o
  | .cell _ => .error (.unsupported "a scalar where a dict is required")

/-- `xs[i]` -/
def index {α : Type} (xs : List α) (i : Nat) : Except Err α :=
  match xs[i]? with
  | some x => .ok x
  | none => .error (.unsupported "IndexError")

/-- `xs.remove(x)` -/
def remove {α : Type} [BEq α] (xs : List α) (x : α) : Except Err (List α) :=
  if xs.contains x then .ok (xs.erase x) else .error (.unsupported "ValueError: list.remove(x): x not in list")

/-- `d[k] = v` -/
def dictSet {α : Type} (d : List (String × α)) (k : String) (v : α) : List (String × α) :=
  if d.any (·.1 = k) then d.map (fun e => if e.1 = k then (k, v) else e) else d ++ [(k, v)]

/-- `dict(pairs)` / a dict comprehension: successive insertion -/
def dictOf {α : Type} (pairs : List (String × α)) : List (String × α) :=
  pairs.foldl (fun d e => dictSet d e.1 e.2) []

/-- truth value of an optional dict: `None` and `{}` are false -/
def truthyOpt {α : Type} : Option (List α) → Option (List α)
  | some (x :: xs) => some (x :: xs)
  | _ => none

/-- `parameter.label = label` (attrs runs the validator on assignment) -/
def setLabel (p : Param) (label : String) : Except Err Param :=
  if validLabel label then .ok { p with label := label } else .error (.invalidLabel label)

/-- `Parameters(parameters)`: the model keeps the dict as the list of its values and relies on every
    key being the label of its value -/
def parametersInit (env : Env) (d : List (String × Param)) : Except Err (List Param) :=
  if d.all (fun e => e.1 = e.2.label) then evalExpressions env.parse env.F (d.map (·.2))
  else .error (.unsupported "a parameter stored under a key that is not its label")

/-- a statement that can raise, inside a generator -/
def genBind {α β : Type} (e : Except Err α) (k : α → List (Except Err β)) : List (Except Err β) :=
  match e with
  | .ok a => k a
  | .error err => [.error err]

end Py
end Glotaran.C16
