/-
C05 — the vocabulary of the functions that `harness/props/_c05_translate.py` regenerates from the Python
source on every run (lean/GlotaranModel/Generated/C05Fns.lean).  Hand-written, small and fixed: it only
says what a Python construct of the translated subset *means*:

  `for i in range(n): body`            ↦ `forRange n state (fun i state => body)`   (state = the arrays the loop stores to)
  `m[i, j] = e`, `m[i, j] += e`        ↦ `matUpd m i j (fun _ => e)`, `matUpd m i j (fun x => add x e)`
  `f(m[i], …)` (a kernel writing to its first argument)  ↦ `slabUpd m i (fun s => f s …)`
  `m /= e`                             ↦ `matDivScalar m e` (2-D), `slabDivScalar m e` (3-D)
  a loop whose body calls `irf.parameter` (which may raise) ↦ `forRangeM n state body`, state = the tuple of names
                                         bound before the loop and assigned / appended to in it
  `a < b`, `abs(a)` on doubles         ↦ `NumOrd.lt`, `NumOrd.abs`
  source outside the subset            ↦ `untranslatable "<reason>"` (a default value: the file still compiles and the
                                         `generated_*_eq_model` theorem of that function no longer does)

The generated functions are over the same abstract number class `Num` as the hand-written model; the theorems
`generated_*_eq_model*` (GlotaranProofs/Props/C05.lean) equate them with the model definitions the driver executes.
-/
import GlotaranModel.C05
namespace Glotaran.C05

/-- `Num` plus what the kernels ask of doubles besides arithmetic: `<` and `abs` -/
class NumOrd (α : Type) extends Num α where
  lt : α → α → Bool
  abs : α → α

/-- a 2-D array (`matrix[n_t, n_r]`): list of rows -/
abbrev Mat (α : Type) := List (List α)

/-- `for i in range(n): state = body i state` -/
def forRange {σ : Type} (n : Nat) (init : σ) (body : Nat → σ → σ) : σ :=
  (List.range n).foldl (fun s i => body i s) init

/-- every existing entry `(p, q)` becomes `φ p q (old entry)` -/
def matMapIdx {α : Type} (m : Mat α) (φ : Nat → Nat → α → α) : Mat α :=
  m.mapIdx (fun p row => row.mapIdx (fun q x => φ p q x))

/-- the store `m[i, j] = f (m[i, j])` on an existing entry (numba does not check bounds: outside the array the
    model leaves the matrix alone) -/
def matUpd {α : Type} (m : Mat α) (i j : Nat) (f : α → α) : Mat α :=
  matMapIdx m (fun p q x => if p = i ∧ q = j then f x else x)

/-- `f(ms[i], …)` where `f` writes to the view `ms[i]` -/
def slabUpd {α : Type} (ms : List (Mat α)) (i : Nat) (f : Mat α → Mat α) : List (Mat α) :=
  ms.mapIdx (fun p m => if p = i then f m else m)

/-- `m /= d` -/
def matDivScalar {α : Type} [Num α] (m : Mat α) (d : α) : Mat α :=
  m.map (fun row => row.map (fun x => Num.div x d))

/-- `ms /= d` on a 3-D array -/
def slabDivScalar {α : Type} [Num α] (ms : List (Mat α)) (d : α) : List (Mat α) :=
  ms.map (fun m => matDivScalar m d)

/-- sequencing of a computation that may raise (an exception propagates) -/
def bindE {ε β γ : Type} (x : Except ε β) (k : β → Except ε γ) : Except ε γ :=
  match x with
  | .error e => .error e
  | .ok b => k b

/-- `for i in range(n): state = body i state` where the body may raise -/
def forRangeM {σ ε : Type} (n : Nat) (init : σ) (body : Nat → σ → Except ε σ) : Except ε σ :=
  (List.range n).foldlM (fun s i => body i s) init

/-- `np.zeros((r, c))` -/
def zeros {α : Type} [Num α] (r c : Nat) : Mat α :=
  List.replicate r (List.replicate c (Num.ofRat 0))

/-- `np.zeros((n, r, c))` -/
def zeros3 {α : Type} [Num α] (n r c : Nat) : List (Mat α) :=
  List.replicate n (zeros r c)

/-- `xs - s` (numpy broadcasting of a scalar) on exact rationals -/
def vecSubScalar (xs : List Rat) (s : Rat) : List Rat := xs.map (· - s)

/-- `xs + s` -/
def vecAddScalar (xs : List Rat) (s : Rat) : List Rat := xs.map (· + s)

/-- `for i, x in enumerate(xs): state = body i x state` -/
def enumFold {β σ : Type} (xs : List β) (init : σ) (body : Nat → β → σ → σ) : σ :=
  (xs.zipIdx).foldl (fun s xi => body xi.2 xi.1 s) init

/-- what the translator emits for source it cannot translate: a default value carrying the reason -/
def untranslatable {β : Type} [Inhabited β] (_reason : String) : β := default

end Glotaran.C05
