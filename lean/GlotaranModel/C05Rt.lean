/-
C05 — the vocabulary of the functions that `harness/props/_c05_translate.py` regenerates from the Python
source on every run (lean/GlotaranModel/Generated/C05Fns.lean).  Hand-written, small and fixed: it only
says what a Python construct of the translated subset *means*:

  `for i in range(n): body`            ↦ `forRange n state (fun i state => body)`   (state = the arrays the loop stores to)
  `m[i, j] = e`, `m[i, j] += e`        ↦ `matUpd m i j (fun _ => e)`, `matUpd m i j (fun x => add x e)`
  `f(m[i], …)` (a kernel writing to its first argument)  ↦ `slabUpd m i (fun s => f s …)`
  `m /= e`                             ↦ `matDivScalar m e` (2-D), `slabDivScalar m e` (3-D)
  a loop whose body calls `irf.parameter` (which may raise) ↦ `forRangeM n state body`, state = the tuple of names
                                         bound before the loop and assigned / appended to in it
  `a < b`, `abs(a)` on doubles         ↦ `NumOrd.lt`, `NumOrd.abs`
  `xs[i]` on a list / 1-D array          ↦ `listGet xs i` (IndexError outside the list)
  a use of `global_index` as a number  ↦ `needIndex global_index` (TypeError for `None`)
  `p.value` of an optional Parameter   ↦ `optValue p` (AttributeError for `None`)
  `[e for _ in range(n)]`              ↦ `List.replicate n e` (`e` is not evaluated when `n = 0`)
  `np.zeros(shape)` with a 2- or 3-tuple ↦ `zerosOfShape [..]`; `np.all(np.isfinite(m))` ↦ `Matrix.all isfinite m`;
  `m @ a_matrix`                       ↦ `Matrix.matmul m a_matrix ncomp`
  `f(matrix, …)` of a 2-D / 3-D glue function on the dynamically shaped `matrix` ↦ `callIndep` / `callDep`
  `dataset[name] = (dims, value)`      ↦ a field of the result record; a value on the global dimension goes through
                                         `onGlobalDim` (xarray's conflicting-sizes ValueError)
  source outside the subset            ↦ `untranslatable "<reason>"` (a default value: the file still compiles and the
                                         `generated_*_eq_model` theorem of that function no longer does)

The generated functions are over the same abstract number class `Num` as the hand-written model; the theorems
`generated_*_eq_model*` (GlotaranProofs/Props/C05.lean) equate them with the model definitions the driver executes.
-/
import GlotaranModel.C05
namespace Glotaran.C05

/-- `Num` plus what the kernels ask of doubles besides arithmetic: `<` and `abs` -/
class NumOrd (α : Type) extends Num α where
  lt : α → α → Bool
  abs : α → α

/-- a 2-D array (`matrix[n_t, n_r]`): list of rows -/
abbrev Mat (α : Type) := List (List α)

/-- `for i in range(n): state = body i state` -/
def forRange {σ : Type} (n : Nat) (init : σ) (body : Nat → σ → σ) : σ :=
  (List.range n).foldl (fun s i => body i s) init

/-- every existing entry `(p, q)` becomes `φ p q (old entry)` -/
def matMapIdx {α : Type} (m : Mat α) (φ : Nat → Nat → α → α) : Mat α :=
  m.mapIdx (fun p row => row.mapIdx (fun q x => φ p q x))

/-- the store `m[i, j] = f (m[i, j])` on an existing entry (numba does not check bounds: outside the array the
    model leaves the matrix alone) -/
def matUpd {α : Type} (m : Mat α) (i j : Nat) (f : α → α) : Mat α :=
  matMapIdx m (fun p q x => if p = i ∧ q = j then f x else x)

/-- `f(ms[i], …)` where `f` writes to the view `ms[i]` -/
def slabUpd {α : Type} (ms : List (Mat α)) (i : Nat) (f : Mat α → Mat α) : List (Mat α) :=
  ms.mapIdx (fun p m => if p = i then f m else m)

/-- `m /= d` -/
def matDivScalar {α : Type} [Num α] (m : Mat α) (d : α) : Mat α :=
  m.map (fun row => row.map (fun x => Num.div x d))

/-- `ms /= d` on a 3-D array -/
def slabDivScalar {α : Type} [Num α] (ms : List (Mat α)) (d : α) : List (Mat α) :=
  ms.map (fun m => matDivScalar m d)

/-- sequencing of a computation that may raise (an exception propagates) -/
def bindE {ε β γ : Type} (x : Except ε β) (k : β → Except ε γ) : Except ε γ :=
  match x with
  | .error e => .error e
  | .ok b => k b

/-- `for i in range(n): state = body i state` where the body may raise -/
def forRangeM {σ ε : Type} (n : Nat) (init : σ) (body : Nat → σ → Except ε σ) : Except ε σ :=
  (List.range n).foldlM (fun s i => body i s) init

/-- `np.zeros((r, c))` -/
def zeros {α : Type} [Num α] (r c : Nat) : Mat α :=
  List.replicate r (List.replicate c (Num.ofRat 0))

/-- `np.zeros((n, r, c))` -/
def zeros3 {α : Type} [Num α] (n r c : Nat) : List (Mat α) :=
  List.replicate n (zeros r c)

/-- `xs - s` (numpy broadcasting of a scalar) on exact rationals -/
def vecSubScalar (xs : List Rat) (s : Rat) : List Rat := xs.map (· - s)

/-- `xs + s` -/
def vecAddScalar (xs : List Rat) (s : Rat) : List Rat := xs.map (· + s)

/-- `for i, x in enumerate(xs): state = body i x state` -/
def enumFold {β σ : Type} (xs : List β) (init : σ) (body : Nat → β → σ → σ) : σ :=
  (xs.zipIdx).foldl (fun s xi => body xi.2 xi.1 s) init

/-! ### vocabulary of the method-level translation (irf.py `parameter`, `calculate`; util.py `calculate_matrix`, `retrieve_irf`) -/

/-- `xs[i]` -/
def listGet (xs : List Rat) (i : Nat) : Except IrfError Rat :=
  match xs[i]? with
  | some x => .ok x
  | none => .error .indexError

/-- a use of `global_index` where a number is needed (`>=`, indexing) -/
def needIndex (gi : Option Nat) : Except IrfError Nat :=
  match gi with
  | some i => .ok i
  | none => .error .typeError

/-- `p.value` where `p` is an optional Parameter attribute -/
def optValue (x : Option Rat) : Except IrfError Rat :=
  match x with
  | some v => .ok v
  | none => .error .noPeriod

/-- `np.zeros(shape)` for the two shapes `calculate_matrix` builds -/
def zerosOfShape {α : Type} [Num α] (shape : List Nat) : Matrix α :=
  match shape with
  | [n, r, c] => .dep (zeros3 n r c)
  | [r, c] => .indep (zeros r c)
  | _ => .indep []

/-- `matrix @ a_matrix` written with dot products (`a_matrix : rates × compartments`) -/
def Matrix.matmul {α : Type} [Num α] (M : Matrix α) (a : List (List Rat)) (ncomp : Nat) : Matrix α :=
  let dot (row : List α) (c : Nat) : α :=
    (row.zip a).foldl (fun acc xa => Num.add acc (Num.mul xa.1 (Num.ofRat (xa.2.getD c 0)))) (Num.ofRat 0)
  let mm (m : Mat α) : Mat α := m.map (fun row => (List.range ncomp).map (dot row))
  match M with
  | .indep m => .indep (mm m)
  | .dep ms => .dep (ms.map mm)

/-- a glue function for 2-D arrays called on the dynamically shaped `matrix` -/
def callIndep {α : Type} (M : Matrix α) (f : Mat α → Except IrfError (Mat α)) : Except IrfError (Matrix α) :=
  match M with
  | .indep m => bindE (f m) (fun r => .ok (.indep r))
  | .dep _ => .error .typeError

/-- a glue function for 3-D arrays; it dereferences `dataset_model.irf` (AttributeError on `None`) -/
def callDep {α : Type} (M : Matrix α) (irf : Option Irf) (f : List (Mat α) → Irf → Except IrfError (List (Mat α))) :
    Except IrfError (Matrix α) :=
  match M, irf with
  | .dep ms, some i => bindE (f ms i) (fun r => .ok (.dep r))
  | .dep _, none => .error .noPeriod
  | .indep _, _ => .error .typeError

/-- an error of the IRF item inside `retrieve_irf` -/
def liftIrf {β : Type} (x : Except IrfError β) : Except RetrieveError β :=
  match x with
  | .ok b => .ok b
  | .error e => .error (.irf e)

/-- xarray: a variable on the global dimension must have the length of the global axis -/
def onGlobalDim {β : Type} (axis : List Rat) (xs : List β) : Except RetrieveError (List β) :=
  if xs.length ≠ axis.length then .error .conflictingSizes else .ok xs

instance {α : Type} : Inhabited (Matrix α) := ⟨.indep []⟩
instance {α : Type} : Inhabited (IrfResult α) := ⟨⟨[], [], [], none, none, none⟩⟩

/-- sequencing inside `retrieve_irf` -/
def bindR {β γ : Type} (x : Except RetrieveError β) (k : β → Except RetrieveError γ) : Except RetrieveError γ :=
  match x with
  | .error e => .error e
  | .ok b => k b

/-- `np.asarray(rows).T` (rows of equal length; the number of columns is that of the first row) -/
def transposeRows (rows : List (List Rat)) : List (List Rat) :=
  (List.range (rows.headD []).length).map (fun g => rows.map (fun r => r.getD g 0))

/-- xarray: every row of a variable on `(irf_nr, global dimension)` has the length of the global axis -/
def onGlobalDimRows (axis : List Rat) (rows : List (List Rat)) : Except RetrieveError (List (List Rat)) :=
  if rows.all (fun r => r.length == axis.length) then .ok rows else .error .conflictingSizes

/-- `("irf_nr", xs) if len(xs) > 1 else xs[0]`: the list itself (a 0-d value is a list of one); `xs[0]` of an empty list
    is an IndexError -/
def scalarOrList (xs : List Rat) : Except IrfError (List Rat) :=
  if xs.isEmpty then .error .indexError else .ok xs

/-- what the translator emits for source it cannot translate: a default value carrying the reason -/
def untranslatable {β : Type} [Inhabited β] (_reason : String) : β := default

end Glotaran.C05
