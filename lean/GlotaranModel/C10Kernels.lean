/-
C10 (part 1) — the compiled kernels: every `@nb.jit` function of glotaran as a table of loop nests and
array accesses (regenerated from the source into `GlotaranModel/Generated/C10.lean` on every run), the
syntactic race-freedom check `raceFree` that is evaluated over the table, and an abstract shared-memory
machine `runSchedule` for the iterations of a parallel loop under an arbitrary interleaving.

What numba does with a kernel (trusted, DESIGN §7): it compiles the loop nests the source shows; with
`parallel=True` it distributes the iterations of every `prange` loop that is not nested in another `prange`
loop over threads (inner `prange`s and every `prange` of a `parallel=False` function are plain `range`s);
variables assigned in the loop body are private to an iteration; whole-array expressions are element-wise.
-/
namespace Glotaran.C10

/-! ### the table -/

/-- one subscript of an array access, as written -/
inductive Idx where
  | var (name : String)     -- a bare name (`n_r`)
  | slice                   -- `:`
  | other (src : String)    -- any other expression (`idx + 1`, `0`)
  deriving DecidableEq, Repr, Inhabited

structure Loop where
  var : String
  prange : Bool
  deriving DecidableEq, Repr, Inhabited

/-- an access to an array (or, with `idx = []`, to a scalar that lives across iterations) -/
structure Access where
  array : String
  idx : List Idx
  write : Bool
  /-- the enclosing `for` loops, outermost first -/
  loops : List Loop
  deriving DecidableEq, Repr, Inhabited

/-- an argument of a call to another kernel: a view `array[prefix…]` of one of the caller's arrays -/
structure ArgView where
  array : String
  pre : List Idx
  deriving DecidableEq, Repr, Inhabited

structure KCall where
  callee : String
  /-- positional arguments; `none`: not a view of an array of the caller (scalar, fresh temporary) -/
  args : List (Option ArgView)
  loops : List Loop
  deriving DecidableEq, Repr, Inhabited

structure Kernel where
  name : String
  file : String
  /-- `parallel=True` in the decorator -/
  parallel : Bool
  params : List String
  accesses : List Access
  calls : List KCall
  deriving DecidableEq, Repr, Inhabited

/-! ### accesses of a kernel including those of the kernels it calls -/

def findKernel (table : List Kernel) (n : String) : Option Kernel := table.find? (·.name == n)

/-- the view bound to parameter `p` of `callee` at a call -/
def argOf (callee : Kernel) (c : KCall) (p : String) : Option ArgView :=
  match callee.params.idxOf? p with
  | none => none
  | some i => (c.args.getD i none)

/-- an access of the callee seen from the caller: through the view of the argument, inside the loops
    of the call site; accesses to arrays that are not views of the caller's arrays are private to the call -/
def liftAccess (callee : Kernel) (c : KCall) (a : Access) : Option Access :=
  match argOf callee c a.array with
  | none => none
  | some v => some { array := v.array, idx := v.pre ++ a.idx, write := a.write, loops := c.loops ++ a.loops }

/-- all accesses, calls resolved to depth `fuel` (the table has no recursion; depth 4 is ample) -/
def effective (table : List Kernel) : Nat → Kernel → List Access
  | 0, k => k.accesses
  | fuel + 1, k =>
    k.accesses ++ k.calls.flatMap (fun c =>
      match findKernel table c.callee with
      | none => []
      | some callee => (effective table fuel callee).filterMap (liftAccess callee c))

def callDepth : Nat := 4

/-! ### the syntactic check -/

/-- the loop variable numba distributes over threads for this access: the outermost `prange` around it,
    if the kernel is compiled with `parallel=True` -/
def parVar (k : Kernel) (a : Access) : Option String :=
  if k.parallel then (a.loops.find? (·.prange)).map (·.var) else none

/-- first subscript position holding the bare variable `v` -/
def posOf (v : String) : List Idx → Option Nat
  | [] => none
  | i :: is => if i = Idx.var v then some 0 else (posOf v is).map (· + 1)

/-- `b` cannot touch a cell of another iteration of the loop over `v` than its own: it is an access to another
    array, or not under that loop, or carries `v` bare at position `p` -/
def confined (k : Kernel) (arr v : String) (p : Nat) (b : Access) : Bool :=
  b.array != arr || parVar k b != some v || b.idx[p]? == some (Idx.var v)

/-- every write under a parallel loop carries the loop variable as a bare subscript, and every access to the
    same array under the same loop carries it at the same position ("one writer per column / index") -/
def raceFreeAccesses (k : Kernel) (eff : List Access) : Bool :=
  eff.all fun a =>
    match parVar k a with
    | none => true
    | some v =>
      if a.write then
        match posOf v a.idx with
        | none => false
        | some p => eff.all (confined k a.array v p)
      else true

def raceFree (table : List Kernel) (k : Kernel) : Bool :=
  raceFreeAccesses k (effective table callDepth k)

def allRaceFree (table : List Kernel) : Bool := table.all (raceFree table)

/-- no call passes two views of the same array (the accesses of the callee are judged per parameter) -/
def noAliasing (table : List Kernel) : Bool :=
  table.all fun k => k.calls.all fun c =>
    let arrays := c.args.filterMap (fun a => a.map (·.array))
    decide arrays.Nodup

/-- kernels that have a loop distributed over threads -/
def hasParallelLoop (table : List Kernel) (k : Kernel) : Bool :=
  (effective table callDepth k).any (fun a => (parVar k a).isSome)

/-! ### meaning of an access: the cells it can touch -/

/-- a memory cell: array name and full index -/
abbrev Cell := String × List Nat

/-- `a` can touch cell `c` when the loop variables have the values `env`: the array matches and every
    bare-variable subscript equals the value of the variable (slices and other expressions: any index) -/
def touchesIdx (env : String → Nat) : List Idx → List Nat → Prop
  | [], _ => True
  | Idx.var x :: is, n :: ns => n = env x ∧ touchesIdx env is ns
  | Idx.var _ :: _, [] => False
  | _ :: is, _ :: ns => touchesIdx env is ns
  | _ :: _, [] => False

def touches (env : String → Nat) (a : Access) (c : Cell) : Prop :=
  c.1 = a.array ∧ touchesIdx env a.idx c.2

/-! ### shared memory, iterations, schedules -/

/-- one atomic step of an iteration: read some cells, write one -/
structure Step (α : Type) where
  reads : List Cell
  write : Cell
  f : List α → α

abbrev Mem (α : Type) := Cell → α

def Step.run {α : Type} (st : Step α) (m : Mem α) : Mem α :=
  fun c => if c = st.write then st.f (st.reads.map m) else m c

/-- iteration `i` of the parallel loop is the step list `iters[i]`; a schedule names, one after the other,
    the iteration that performs its next step (a finished or unknown iteration: nothing happens) -/
def runSchedule {α : Type} (iters : List (List (Step α))) :
    List Nat → Mem α × (Nat → Nat) → Mem α × (Nat → Nat)
  | [], st => st
  | i :: rest, (m, pc) =>
    match (iters.getD i [])[pc i]? with
    | some stp => runSchedule iters rest (stp.run m, fun j => if j = i then pc i + 1 else pc j)
    | none => runSchedule iters rest (m, pc)

/-- the sequential execution of one iteration -/
def runSolo {α : Type} (steps : List (Step α)) (m : Mem α) : Mem α := steps.foldl (fun m st => st.run m) m

/-- the schedule lets every iteration finish -/
def Complete {α : Type} (iters : List (List (Step α))) (s : List Nat) : Prop :=
  ∀ i, i < iters.length → (iters.getD i []).length ≤ s.count i

end Glotaran.C10
