import GlotaranModel.Proto
import GlotaranModel.C19
