import GlotaranModel.Proto
import GlotaranModel.C19
import GlotaranModel.LinAlg
import GlotaranModel.C02
import GlotaranModel.C03
import GlotaranModel.Generated.C15
import GlotaranModel.C15
