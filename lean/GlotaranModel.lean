import GlotaranModel.Proto
import GlotaranModel.C19
import GlotaranModel.LinAlg
import GlotaranModel.C02
import GlotaranModel.C03
