"""Scheme generator over the C02 scheme space, shared by C02/C03/C10/C13/C14.

A *spec* is a plain JSON-able dict (so it can be stored in replays / corpus):

  {"groups": {gname: {"link_clp": true|false|null, "residual_function": "variable_projection"|...}},
   "clp_link_tolerance": float, "clp_link_method": "nearest"|"backward"|"forward",
   "parameters": {label: value},                      # all vary, plain floats (dyadic)
   "datasets": [ {label, group, global_axis, model_axis, dims_order: "mg"|"gm",
                  data: [[...model...] x global] (model x global), weight: same shape | None,
                  scale: param label | None,
                  mcs: [ {labels, index_dependent, base: 2-D [[model x labels]] or 3-D [global][model][labels],
                          pars: [param label per column] | None, scale: param label | None} ],
                  gmcs: [ same, rows = global axis ] } ],
   "constraints": [ {type: zero|only, target, interval: None | [lo,hi] | [[lo,hi],...]} ],
   "relations":   [ {source, target, parameter: label, interval} ],
   "penalties":   [ {source, source_intervals, target, target_intervals, parameter: label, weight} ],
   "weights":     [ {datasets, global_interval, model_interval, value} ] }

A megacomplex's matrix is  base[..., j, c] * value(pars[c])  — integer/dyadic bases and dyadic
parameter values keep every product and sum exact in double precision (exact regime E).
"""
from __future__ import annotations

import copy
import math
from fractions import Fraction

import numpy as np

INF = float("inf")

_MODEL_CLS = None
TABLES: dict[str, dict] = {}     # key -> megacomplex description (looked up by the test megacomplex)


def model_class():
    """Model class with the verification test megacomplexes (registered once per process)."""
    global _MODEL_CLS, TABLES
    if _MODEL_CLS is None:
        from harness import verif_megacomplex as vm
        TABLES = vm.TABLES
        _MODEL_CLS = vm.VerifModel
    return _MODEL_CLS


def _interval(iv):
    """JSON interval -> what the model item expects (tuple or list of tuples)"""
    if iv is None:
        return None
    if iv and isinstance(iv[0], (list, tuple)):
        return [tuple(_num(x) for x in i) for i in iv]
    return tuple(_num(x) for x in iv)


def _num(x):
    if isinstance(x, str):
        return {"inf": INF, "-inf": -INF}[x]
    return x


def jsonable_interval(iv):
    def f(x):
        if x == INF:
            return "inf"
        if x == -INF:
            return "-inf"
        return x
    if iv is None:
        return None
    if iv and isinstance(iv[0], (list, tuple)):
        return [[f(a), f(b)] for a, b in iv]
    return [f(iv[0]), f(iv[1])]


def build(spec: dict):
    """spec -> (Scheme, model, parameters, data dict).  Uses only public glotaran API."""
    import xarray as xr
    from glotaran.model import EqualAreaPenalty, OnlyConstraint, ZeroConstraint
    from glotaran.model.clp_relation import ClpRelation
    from glotaran.model.weight import Weight
    from glotaran.parameter import Parameters
    from glotaran.project import Scheme

    cls = model_class()
    mcs, datasets = {}, {}
    for ds in spec["datasets"]:
        names, gnames = [], []
        for kind, lst, out in (("m", ds["mcs"], names), ("g", ds.get("gmcs") or [], gnames)):
            for i, mc in enumerate(lst):
                key = f"{ds['label']}#{kind}{i}"
                TABLES[key] = mc
                item = {"type": "verif-table" if kind == "m" else "verif-table-global", "key": key}
                if mc.get("pars") is not None:
                    item["pars"] = list(mc["pars"])
                mcs[key] = item
                out.append(key)
        d = {"group": ds["group"], "megacomplex": names}
        if any(mc.get("scale") is not None for mc in ds["mcs"]):
            d["megacomplex_scale"] = [mc["scale"] for mc in ds["mcs"]]
        if gnames:
            d["global_megacomplex"] = gnames
            if any(mc.get("scale") is not None for mc in ds["gmcs"]):
                d["global_megacomplex_scale"] = [mc["scale"] for mc in ds["gmcs"]]
        if ds.get("scale") is not None:
            d["scale"] = ds["scale"]
        datasets[ds["label"]] = d
    model_dict = {
        "dataset_groups": {g: {k: v for k, v in opts.items() if v is not None} for g, opts in spec["groups"].items()},
        "megacomplex": mcs,
        "dataset": datasets,
    }
    if spec.get("weights"):
        model_dict["weights"] = [
            {"datasets": w["datasets"], "value": w["value"],
             **({"global_interval": _interval(w["global_interval"])} if w.get("global_interval") is not None else {}),
             **({"model_interval": _interval(w["model_interval"])} if w.get("model_interval") is not None else {})}
            for w in spec["weights"]]
    model = cls(**model_dict)
    for c in spec.get("constraints", []):
        k = OnlyConstraint if c["type"] == "only" else ZeroConstraint
        kw = {"target": c["target"]}
        if c.get("interval") is not None:
            kw["interval"] = _interval(c["interval"])
        model.clp_constraints.append(k(**kw))
    for r in spec.get("relations", []):
        kw = {"source": r["source"], "target": r["target"], "parameter": r["parameter"]}
        if r.get("interval") is not None:
            kw["interval"] = _interval(r["interval"])
        model.clp_relations.append(ClpRelation(**kw))
    for p in spec.get("penalties", []):
        model.clp_penalties.append(EqualAreaPenalty(
            source=p["source"], source_intervals=_interval(p["source_intervals"]),
            target=p["target"], target_intervals=_interval(p["target_intervals"]),
            parameter=p["parameter"], weight=p["weight"]))
    vary = spec.get("vary")
    parameters = Parameters.from_dict({
        k: [[str(i + 1), v, {"vary": (vary is None or f"{k}.{i + 1}" in vary)}] for i, v in enumerate(vs)]
        for k, vs in _group_params(spec).items()})
    data = {}
    for ds in spec["datasets"]:
        arr = np.array(ds["data"], dtype=np.float64)      # model x global
        coords = {"model": np.array(ds["model_axis"], dtype=np.float64),
                  "global": np.array(ds["global_axis"], dtype=np.float64)}
        if ds.get("dims_order", "mg") == "mg":
            da = xr.DataArray(arr, coords=coords, dims=("model", "global"))
        else:
            # stored (global, model): as loaded from a file (C-contiguous, own buffer) or as a transposed view of a
            # (model, global) array — both occur in practice and differ in what `.T` / `asfortranarray` copy
            # (seeded changes C03-3 / C10-1: the provider multiplied the weight into the caller's buffer)
            own_buffer = (arr.shape[0] + arr.shape[1]) % 2 == 0
            da = xr.DataArray(np.ascontiguousarray(arr.T) if own_buffer else arr.T, coords=coords, dims=("global", "model"))
        if ds.get("dtype") not in (None, "float64"):
            # data as read from a file of counts / single precision floats: only when every value is representable
            # (the spec's numbers stay the exact data the model sees)
            cast = da.values.astype(ds["dtype"])
            if np.array_equal(cast.astype(np.float64), da.values):
                da = da.copy(data=cast)
        dset = da.to_dataset(name="data")
        if ds.get("weight") is not None:
            w = np.array(ds["weight"], dtype=np.float64)
            w_mg = ds.get("dims_order", "mg") == "mg"
            if ds.get("weight_dims") == "swapped":
                # the weight variable stored in the other dimension order than the data variable (valid xarray input)
                dset["weight"] = (da.dims[::-1], np.ascontiguousarray(w.T) if w_mg else w)
            else:
                dset["weight"] = (da.dims, w if w_mg else np.ascontiguousarray(w.T))
        data[ds["label"]] = dset
    scheme = Scheme(
        model=model, parameters=parameters, data=data,
        clp_link_tolerance=spec.get("clp_link_tolerance", 0.0),
        clp_link_method=spec.get("clp_link_method", "nearest"),
        maximum_number_function_evaluations=spec.get("max_nfev", 1),
        optimization_method=spec.get("optimization_method", "TrustRegionReflection"),
    )
    return scheme, model, parameters, data


def _group_params(spec):
    """parameter labels are 'p.<n>' : {'p': [v1, v2, ...]}"""
    out = {}
    for label, v in spec["parameters"].items():
        g, n = label.rsplit(".", 1)
        out.setdefault(g, {})[int(n)] = v
    return {g: [d[i] for i in sorted(d)] for g, d in out.items()}


def pval(spec, label):
    return spec["parameters"][label]


# ------------------------------------------------------------------------------------------------
# random specs
# ------------------------------------------------------------------------------------------------
LABEL_POOL = ["s1", "s2", "s3", "s4"]


def rand_matrix(rng, rows, cols):
    """integer matrix with full column rank and modest condition (exact regime)"""
    for _ in range(50):
        m = [[rng.randint(-3, 5) for _ in range(cols)] for _ in range(rows)]
        a = np.array(m, dtype=float)
        if rows >= cols and np.linalg.matrix_rank(a) == cols and np.linalg.cond(a) < 200:
            return m
    # fallback: identity-padded
    return [[(3 if i == j else (1 if (i + j) % 3 == 0 else 0)) for j in range(cols)] for i in range(rows)]


def rand_spec(rng, *, allow_full=True, allow_linked=True, allow_items=True, force=None, noise=True,
              labels_pool=None, dataset_labels=None):
    """one random scheme spec from the C02 space (see module docstring)"""
    force = force or {}
    n_groups = force.get("n_groups", rng.choice([1, 1, 1, 2]))
    gnames = ["default"] if n_groups == 1 and rng.random() < 0.6 else [f"g{i+1}" for i in range(n_groups)]
    n_ds = force.get("n_datasets", rng.choice([1, 2, 2, 3, 3, 4]))
    n_ds = max(n_ds, n_groups)
    dlabels = dataset_labels or [f"d{i+1}" for i in range(n_ds)]
    dlabels = dlabels[:n_ds]
    pool = labels_pool or LABEL_POOL
    params = {}

    def new_param(v):
        label = f"p.{len(params)+1}"
        params[label] = v
        return label

    groups = {}
    for g in gnames:
        groups[g] = {
            "link_clp": force.get("link_clp", rng.choice([None, True, False]) if allow_linked else False),
            "residual_function": force.get("residual_function",
                                           rng.choice(["variable_projection", "variable_projection", "non_negative_least_squares"])),
        }
    # global axes: subsets of a grid, with optional small offsets for tolerance linking
    grid = [float(x) for x in range(1, 7)]
    spacing = 1.0
    tol = force.get("tol", rng.choice([0.0, 0.0, 0.25, 0.5, 1.0]))
    method = force.get("method", rng.choice(["nearest", "nearest", "backward", "forward"]))
    datasets = []
    axis_mode = rng.choice(["identical", "overlap", "disjoint", "offset"])
    if "axis_mode" in force:
        axis_mode = force["axis_mode"]
    full_model_used = False
    for i, dl in enumerate(dlabels):
        g = gnames[i % len(gnames)] if i < len(gnames) else rng.choice(gnames)
        n_model = rng.randint(3, 5)
        if axis_mode == "identical" or i == 0:
            gax = grid[: rng.randint(2, 4)] if i == 0 else list(datasets[0]["global_axis"])
        elif axis_mode == "overlap":
            start = rng.randint(0, 2)
            gax = grid[start: start + rng.randint(2, 4)]
        elif axis_mode == "disjoint":
            gax = [x + 10.0 * i for x in grid[: rng.randint(2, 3)]]
        else:
            off = rng.choice([0.0, 0.25, -0.25, 0.5])
            if "offsets" in force:
                off = force["offsets"][i % len(force["offsets"])]
            start = rng.randint(0, 2)
            gax = [x + off for x in grid[start: start + rng.randint(2, 3)]]
        n_global = len(gax)
        model_axis = [float(j) for j in range(n_model)]
        if rng.random() < 0.3:
            model_axis = [j * 0.5 + 1 for j in range(n_model)]
        is_full = allow_full and rng.random() < 0.12 and not groups[g]["link_clp"]
        if force.get("full_model") is not None:
            is_full = force["full_model"]
        n_mc = rng.choice([1, 1, 2, 3])
        mcs = []
        idx_dep_ds = rng.random() < 0.4
        for k in range(n_mc):
            ncol = rng.randint(1, 2) if n_mc > 1 else rng.randint(1, 3)
            labels = rng.sample(pool, ncol)
            idx_dep = idx_dep_ds and rng.random() < 0.7
            if idx_dep:
                base = [rand_matrix(rng, n_model, ncol) for _ in range(n_global)]
            else:
                base = rand_matrix(rng, n_model, ncol)
            pars = [new_param(rng.choice([1.0, 2.0, 0.5, 1.5, 3.0])) for _ in labels] if rng.random() < 0.7 else None
            scale = new_param(rng.choice([2.0, 0.5, 4.0, 3.0])) if rng.random() < 0.3 else None
            mcs.append({"labels": labels, "index_dependent": idx_dep, "base": base, "pars": pars, "scale": scale})
        if any(mc["scale"] is not None for mc in mcs):
            for mc in mcs:
                if mc["scale"] is None:
                    mc["scale"] = new_param(1.0)
        # make sure the combined matrix has full column rank at every index
        mcs = _ensure_rank(rng, mcs, n_model, n_global, params)
        gmcs = []
        if is_full:
            full_model_used = True
            ncol = rng.randint(1, 2)
            glabels = [f"g{j+1}" for j in range(ncol)]
            gmcs = [{"labels": glabels, "index_dependent": False, "base": rand_matrix(rng, max(n_global, ncol), ncol)[:n_global]
                     if n_global >= ncol else rand_matrix(rng, ncol, ncol)[:n_global],
                     "pars": None, "scale": new_param(2.0) if rng.random() < 0.3 else None}]
            if n_global < ncol:
                gmcs[0]["labels"] = glabels[:1]
                gmcs[0]["base"] = [[rng.randint(1, 4)] for _ in range(n_global)]
        data = [[float(rng.randint(-8, 8)) + rng.choice([0.0, 0.5]) for _ in range(n_global)] for _ in range(n_model)]
        weight = None
        if rng.random() < 0.25:
            weight = [[rng.choice([1.0, 2.0, 0.5, 4.0]) for _ in range(n_global)] for _ in range(n_model)]
        ds = {"label": dl, "group": g, "global_axis": gax, "model_axis": model_axis,
              "dims_order": rng.choice(["mg", "gm"]), "data": data, "weight": weight,
              "scale": new_param(rng.choice([2.0, 0.5, 4.0])) if rng.random() < 0.3 else None,
              "mcs": mcs, "gmcs": gmcs}
        datasets.append(ds)
    spec = {"groups": groups, "clp_link_tolerance": tol, "clp_link_method": method, "parameters": params,
            "datasets": datasets, "constraints": [], "relations": [], "penalties": [], "weights": []}
    if allow_items:
        all_labels = sorted({l for ds in datasets for mc in ds["mcs"] for l in mc["labels"]})
        lo_axis = min(x for ds in datasets for x in ds["global_axis"])
        hi_axis = max(x for ds in datasets for x in ds["global_axis"])

        def rand_interval():
            r = rng.random()
            a = rng.choice([lo_axis - 1, lo_axis, lo_axis + 0.5, lo_axis + 1, lo_axis + 2])
            b = rng.choice([a, a + 0.5, a + 1, a + 2, hi_axis, hi_axis + 3])
            if r < 0.15:
                a = -INF
            elif r < 0.3:
                b = INF
            elif r < 0.4:
                a, b = b, a
            return [a, b]

        def maybe_interval():
            r = rng.random()
            if r < 0.3:
                return None
            if r < 0.8:
                return jsonable_interval(rand_interval())
            return jsonable_interval([rand_interval(), rand_interval()])

        if len(all_labels) >= 2 and rng.random() < 0.35:
            spec["constraints"].append({"type": rng.choice(["zero", "zero", "only"]), "target": rng.choice(all_labels),
                                        "interval": maybe_interval()})
            if spec["constraints"][-1]["type"] == "only" and spec["constraints"][-1]["interval"] is None:
                spec["constraints"][-1]["interval"] = jsonable_interval(rand_interval())
        if len(all_labels) >= 2 and rng.random() < 0.35:
            s, t = rng.sample(all_labels, 2)
            spec["relations"].append({"source": s, "target": t, "parameter": new_param(rng.choice([2.0, 0.5, 3.0, -1.0])),
                                      "interval": maybe_interval()})
        if len(all_labels) >= 2 and rng.random() < 0.35:
            s, t = rng.sample(all_labels, 2)
            spec["penalties"].append({"source": s, "source_intervals": jsonable_interval([rand_interval()]),
                                      "target": t, "target_intervals": jsonable_interval([rand_interval()] + ([rand_interval()] if rng.random() < 0.3 else [])),
                                      "parameter": new_param(rng.choice([1.0, 2.0, 0.5])), "weight": rng.choice([1.0, 2.0, 0.5, 10.0])})
        if rng.random() < 0.3:
            who = rng.sample([d["label"] for d in datasets], rng.randint(1, len(datasets)))
            spec["weights"].append({"datasets": who, "value": rng.choice([2.0, 0.5, 3.0]),
                                    "global_interval": jsonable_interval(rand_interval()) if rng.random() < 0.7 else None,
                                    "model_interval": jsonable_interval([rng.choice([0.0, 1.0]), rng.choice([1.0, 2.0, 3.0])]) if rng.random() < 0.5 else None})
    if not params:
        new_param(1.0)
    return spec


def _combined_columns(mcs, n_model, n_global, params):
    """label -> per-index column (numeric), combining like the provider does (sum of shared labels)"""
    out = []
    for gi in range(n_global):
        cols = {}
        order = []
        for mc in mcs:
            base = np.array(mc["base"][gi] if mc["index_dependent"] else mc["base"], dtype=float)
            if mc.get("pars") is not None:
                base = base * np.array([params[p] for p in mc["pars"]])
            if mc.get("scale") is not None:
                base = base * params[mc["scale"]]
            for c, l in enumerate(mc["labels"]):
                if l not in cols:
                    cols[l] = np.zeros(n_model)
                    order.append(l)
                cols[l] = cols[l] + base[:, c]
        out.append(np.stack([cols[l] for l in order], axis=1))
    return out


def full_rank_everywhere(spec) -> bool:
    """every dataset's combined matrix (and global matrix) has full column rank and modest condition at every index
    for the spec's current parameter values — the property quantifies over full-column-rank matrices only"""
    P = spec["parameters"]
    for ds in spec["datasets"]:
        n_model, n_global = len(ds["model_axis"]), len(ds["global_axis"])
        mats = _combined_columns(ds["mcs"], n_model, n_global, P)
        if ds.get("gmcs"):
            mats = mats + _combined_columns(ds["gmcs"], n_global, 1, P)
        for m in mats:
            if m.shape[1] > m.shape[0] or np.linalg.matrix_rank(m) < m.shape[1] or np.linalg.cond(m) > 2000:
                return False
    return True


def _ensure_rank(rng, mcs, n_model, n_global, params):
    for _ in range(30):
        mats = _combined_columns(mcs, n_model, n_global, params)
        if all(m.shape[1] <= n_model and np.linalg.matrix_rank(m) == m.shape[1] and np.linalg.cond(m) < 500 for m in mats):
            return mcs
        # re-draw bases
        for mc in mcs:
            ncol = len(mc["labels"])
            mc["base"] = [rand_matrix(rng, n_model, ncol) for _ in range(n_global)] if mc["index_dependent"] else rand_matrix(rng, n_model, ncol)
    # last resort: a single well-conditioned megacomplex
    mc = mcs[0]
    ncol = len(mc["labels"])
    mc["index_dependent"] = False
    mc["base"] = [[(2.0 if i == j else 0.0) + (1.0 if i == j + 1 else 0.0) for j in range(ncol)] for i in range(n_model)]
    return [mc]


# ------------------------------------------------------------------------------------------------
# protocol lines for the Lean model (GlotaranModel/C02.lean driver)
# ------------------------------------------------------------------------------------------------
def resolve_linked(spec, gname):
    """the harness' own reading of `link_clp: None` (auto): linkable iff no dataset of the group has a
    global model (all test megacomplexes share the model dimension 'model' and one global dimension)"""
    opt = spec["groups"][gname]["link_clp"]
    if opt is not None:
        return bool(opt)
    return not any(ds.get("gmcs") for ds in spec["datasets"] if ds["group"] == gname)


def spec_lines(spec, weights_from_provider=None):
    """protocol lines describing the spec to the Lean model.
    `weights_from_provider`: {dataset label: model x global array or None} — the weight the data provider
    ends up with (dataset weight, or model weight); if None the dataset weight of the spec is used."""
    from harness.core import enc, erat, lst, rat, rats, strs

    def ivs(iv):
        if iv is None:
            return "none"
        if iv and isinstance(iv[0], (list, tuple)):
            items = iv
        else:
            items = [iv]
        return lst(lst([erat(_num(a)), erat(_num(b))]) for a, b in items)

    def mat(m):
        return lst(rats(r) for r in m)

    P = spec["parameters"]
    lines = ["reset"]
    for c in spec.get("constraints", []):
        lines.append(f"constraint {c['type']} {enc(c['target'])} {ivs(c.get('interval'))}")
    for r in spec.get("relations", []):
        lines.append(f"relation {enc(r['source'])} {enc(r['target'])} {rat(P[r['parameter']])} {ivs(r.get('interval'))}")
    for p in spec.get("penalties", []):
        lines.append(f"penalty {enc(p['source'])} {ivs(p['source_intervals'])} {enc(p['target'])} {ivs(p['target_intervals'])} "
                     f"{rat(P[p['parameter']])} {rat(p['weight'])}")

    def mcline(mc):
        base = np.array(mc["base"], dtype=float)
        if mc.get("pars") is not None:
            base = base * np.array([P[p] for p in mc["pars"]])
        if mc["index_dependent"]:
            body = lst(["d3", lst(mat(b) for b in base.tolist())])
        else:
            body = lst(["d2", mat(base.tolist())])
        sc = rat(P[mc["scale"]]) if mc.get("scale") is not None else "none"
        return lst([strs(mc["labels"]), body, sc])

    # group order = order of first appearance in model.get_dataset_groups(): dict order of dataset_groups
    order = []
    for ds in spec["datasets"]:
        if ds["group"] not in order:
            order.append(ds["group"])
    for g in order:
        members = [ds for ds in spec["datasets"] if ds["group"] == g]
        opts = spec["groups"][g]
        solver = "nnls" if opts["residual_function"] == "non_negative_least_squares" else "vp"
        lines.append(f"group {'T' if resolve_linked(spec, g) else 'F'} {solver} {rat(spec.get('clp_link_tolerance', 0.0))} "
                     f"{spec.get('clp_link_method', 'nearest')}")
        for ds in members:
            w = ds.get("weight")
            if weights_from_provider is not None:
                w = weights_from_provider.get(ds["label"])
                w = None if w is None else np.asarray(w).tolist()
            lines.append("dataset {} {} {} {} {} {} {}".format(
                enc(ds["label"]), rats(ds["global_axis"]), mat(ds["data"]),
                "none" if w is None else mat(w),
                rat(P[ds["scale"]]) if ds.get("scale") is not None else "none",
                lst(mcline(m) for m in ds["mcs"]), lst(mcline(m) for m in (ds.get("gmcs") or []))))
    return lines
