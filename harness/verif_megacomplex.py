"""Test megacomplexes of the verification harness (module-level so that attrs can resolve the annotations).
Imported lazily, after glotaran has been imported from VERIF_REPO."""
import numpy as np
from glotaran.model import Megacomplex
from glotaran.model import Model
from glotaran.model import ParameterType
from glotaran.model import megacomplex

TABLES: dict = {}     # key -> megacomplex description (looked up by the test megacomplexes)


def _matrix(self):
    d = TABLES[self.key]
    base = np.array(d["base"], dtype=np.float64)
    if self.pars is not None:
        base = base * np.array([float(p) for p in self.pars], dtype=np.float64)
    return list(d["labels"]), base.copy(), d


@megacomplex()
class VerifTableMegacomplex(Megacomplex):
    type: str = "verif-table"
    dimension: str = "model"
    key: str
    pars: list[ParameterType] | None = None

    def calculate_matrix(self, dataset_model, global_axis, model_axis, **kwargs):
        labels, base, d = _matrix(self)
        hook = d.get("hook")
        if hook is not None:
            hook(self, dataset_model, global_axis, model_axis)
        return labels, base

    def finalize_data(self, dataset_model, dataset, is_full_model=False, as_global=False):
        pass


@megacomplex()
class VerifGlobalTableMegacomplex(Megacomplex):
    type: str = "verif-table-global"
    dimension: str = "global"
    key: str
    pars: list[ParameterType] | None = None

    def calculate_matrix(self, dataset_model, global_axis, model_axis, **kwargs):
        labels, base, d = _matrix(self)
        return labels, base

    def finalize_data(self, dataset_model, dataset, is_full_model=False, as_global=False):
        pass


VerifModel = Model.create_class_from_megacomplexes([VerifTableMegacomplex, VerifGlobalTableMegacomplex])
