"""Shared machinery of every property check (DESIGN §3, §5, §6).

A property module (harness/props/cXX.py) provides
    PROP, REQUIRED_THEOREMS, TRUSTED, ASSUMPTIONS, RULE
    generate(ck)            optional: regenerate Lean tables from /repo (returns list of (path, sha))
    run(ck)                 corpus + correspondence + oracle on the real code
    search(ck)              widened failing-input search on the real code (used when a proof
                            obligation or the correspondence broke without a witness)
    replay(ck, case)        re-run one recorded case
and talks to this module through the `Check` object.
"""
from __future__ import annotations

import contextlib
import fcntl
import hashlib
import json
import os
import random
import re
import subprocess
import sys
import time
import traceback
from fractions import Fraction
from pathlib import Path

VERIF = Path(__file__).resolve().parent.parent
LEAN = VERIF / "lean"
REPO = Path(os.environ.get("VERIF_REPO", "/repo")).resolve()
GUARD = "GLOTARAN_PYGLOTARAN_VERIF"

ALLOWED_AXIOMS = {"propext", "Classical.choice", "Quot.sound"}
FORBIDDEN = [
    r"\bsorry\b", r"\badmit\b", r"^\s*axiom\s", r"\bnative_decide\b", r"\bbv_decide\b",
    r"implemented_by", r"\bunsafe\s", r"maxHeartbeats\s+0\b", r"\bsorryAx\b", r"\bofReduceBool\b",
]

BASE_TRUSTED = [
    "Lean 4.33.0 kernel; axioms allowed: propext, Classical.choice, Quot.sound (audited per theorem by #print axioms on every run)",
    "Lean interpreter executing the model driver (lake env lean --run Main.lean)",
    "this Python harness: generators, adapters to the real code, canonicalisers, oracle, line protocol",
]


# --------------------------------------------------------------------------------------
# line protocol (Python side) — mirrors lean/GlotaranModel/Proto.lean
# --------------------------------------------------------------------------------------
_SAFE = set("abcdefghijklmnopqrstuvwxyzABCDEFGHIJKLMNOPQRSTUVWXYZ0123456789_.-")


def enc(s: str) -> str:
    if s == "":
        return "~"
    out = []
    for ch in s:
        if ch in _SAFE:
            out.append(ch)
        else:
            out.extend("%%%02X" % b for b in ch.encode("utf-8"))
    return "".join(out)


def dec(s: str) -> str:
    if s == "~":
        return ""
    b = bytearray()
    i = 0
    while i < len(s):
        if s[i] == "%" and i + 3 <= len(s):
            b.append(int(s[i + 1 : i + 3], 16))
            i += 3
        else:
            b.extend(s[i].encode("utf-8"))
            i += 1
    return b.decode("utf-8")


def rat(x) -> str:
    """exact rational text of an int / float / Fraction / numpy scalar"""
    if isinstance(x, bool):
        raise TypeError("bool is not a number here")
    if isinstance(x, int):
        return str(x)
    if isinstance(x, Fraction):
        f = x
    else:
        xf = float(x)
        if xf != xf or xf in (float("inf"), float("-inf")):
            raise ValueError(f"non-finite value {x!r} has no rational form")
        f = Fraction(*xf.as_integer_ratio())
    return str(f.numerator) if f.denominator == 1 else f"{f.numerator}/{f.denominator}"


def erat(x) -> str:
    """extended rational: ±inf allowed"""
    xf = float(x)
    if xf == float("inf"):
        return "inf"
    if xf == float("-inf"):
        return "-inf"
    return rat(x)


def unrat(s: str) -> Fraction:
    return Fraction(s)


def lst(items) -> str:
    return "[" + ",".join(items) + "]"


def rats(xs) -> str:
    return lst(rat(x) for x in xs)


def strs(xs) -> str:
    return lst(enc(x) for x in xs)


def bool_(b) -> str:
    return "T" if b else "F"


def parse_tree(s: str):
    """inverse of the bracket syntax: returns nested lists of atom strings"""
    pos = 0

    def tree():
        nonlocal pos
        if s[pos] == "[":
            pos += 1
            items = []
            if s[pos] == "]":
                pos += 1
                return items
            while True:
                items.append(tree())
                if s[pos] == ",":
                    pos += 1
                elif s[pos] == "]":
                    pos += 1
                    return items
                else:
                    raise ValueError(f"bad tree {s!r} at {pos}")
        start = pos
        while pos < len(s) and s[pos] not in " ,[]":
            pos += 1
        return s[start:pos]

    out = []
    while pos < len(s):
        if s[pos] == " ":
            pos += 1
            continue
        out.append(tree())
    return out


# --------------------------------------------------------------------------------------
# Lean: build, audit, driver
# --------------------------------------------------------------------------------------
@contextlib.contextmanager
def lake_lock(shared: bool = False):
    """exclusive while `lake build` may replace .olean files, shared while a driver / audit reads them, so that checks
    running in parallel never see a half-written build"""
    (LEAN / ".lake").mkdir(exist_ok=True)
    with open(LEAN / ".lake" / "verif.lock", "a") as fh:
        fcntl.flock(fh, fcntl.LOCK_SH if shared else fcntl.LOCK_EX)
        try:
            yield
        finally:
            fcntl.flock(fh, fcntl.LOCK_UN)


def _run(cmd, cwd=None, inp=None, timeout=3600, env=None):
    p = subprocess.run(cmd, cwd=cwd, input=inp, capture_output=True, text=True, timeout=timeout, env=env)
    return p.returncode, p.stdout, p.stderr


def strip_lean_comments(src: str) -> str:
    out = []
    i, depth, n = 0, 0, len(src)
    while i < n:
        if src.startswith("/-", i):
            depth += 1
            i += 2
        elif depth and src.startswith("-/", i):
            depth -= 1
            i += 2
        elif depth:
            if src[i] == "\n":
                out.append("\n")
            i += 1
        elif src.startswith("--", i):
            while i < n and src[i] != "\n":
                i += 1
        elif src[i] == '"':
            j = i + 1
            while j < n and src[j] != '"':
                j += 2 if src[j] == "\\" else 1
            out.append('""')
            i = j + 1
        else:
            out.append(src[i])
            i += 1
    return "".join(out)


def lean_closure(module: str) -> list[Path]:
    """files under /verif/lean imported (transitively) by `module`"""
    seen, todo, files = set(), [module], []
    while todo:
        m = todo.pop()
        if m in seen:
            continue
        seen.add(m)
        f = LEAN / (m.replace(".", "/") + ".lean")
        if not f.exists():
            continue
        files.append(f)
        for line in f.read_text().splitlines():
            mm = re.match(r"\s*import\s+(\S+)", line)
            if mm and mm.group(1).startswith("Glotaran"):
                todo.append(mm.group(1))
    return files


def theorems_in(prop: str) -> list[str]:
    src = strip_lean_comments((LEAN / f"GlotaranProofs/Props/{prop}.lean").read_text())
    names = []
    for m in re.finditer(r"^\s*(private\s+)?theorem\s+([^\s:({\[]+)", src, re.M):
        if m.group(1):
            continue
        names.append(m.group(2))
    return names


class ProofStatus:
    def __init__(self):
        self.ok = True
        self.problems: list[str] = []   # human readable, each names a theorem / file
        self.theorems: dict[str, list[str]] = {}  # name -> axioms
        self.build_s = 0.0
        self.generated: list = []
        self.checker_cmd = ""

    def fail(self, msg):
        self.ok = False
        self.problems.append(msg)


def check_proofs(prop: str, required: list[str], leanchecker: bool = False) -> ProofStatus:
    st = ProofStatus()
    t0 = time.time()
    target = f"GlotaranProofs.Props.{prop}"
    st.checker_cmd = (
        f"cd lean && lake build GlotaranModel {target} && lake env lean <audit file with #print axioms for every theorem of Props/{prop}.lean>"
        + (f" && lake env leanchecker {target}" if leanchecker else "")
    )
    with lake_lock():
        rc, out, err = _run(["lake", "build", "GlotaranModel", target], cwd=LEAN)
    if rc != 0:
        errs = [l for l in (out + err).splitlines() if l.startswith("error:")]
        st.fail(f"lake build {target} failed: " + " | ".join(errs[:6]))
        st.build_s = time.time() - t0
        return st
    # forbidden tokens in everything the property's proofs import
    for f in lean_closure(target) + [LEAN / "Main.lean"]:
        code = strip_lean_comments(f.read_text())
        for pat in FORBIDDEN:
            m = re.search(pat, code, re.M)
            if m:
                st.fail(f"forbidden token {m.group(0).strip()!r} in {f.relative_to(VERIF)}")
    names = theorems_in(prop)
    for r in required:
        if r not in names:
            st.fail(f"required theorem {r} is missing from Props/{prop}.lean")
    audit_dir = LEAN / ".lake" / "audit"
    audit_dir.mkdir(parents=True, exist_ok=True)
    audit = audit_dir / f"{prop}_audit.lean"
    body = [f"import {target}", f"open Glotaran.{prop}"]
    body += [f"#print axioms Glotaran.{prop}.{n}" for n in names]
    audit.write_text("\n".join(body) + "\n")
    with lake_lock(shared=True):
        rc, out, err = _run(["lake", "env", "lean", str(audit)], cwd=LEAN)
    if rc != 0:
        st.fail("axiom audit did not compile: " + (out + err)[:400])
    text = out.replace("\n  ", " ").replace("\n ", " ")
    for m in re.finditer(r"'(\S+)' depends on axioms: \[([^\]]*)\]", text):
        st.theorems[m.group(1).split(".")[-1]] = [a.strip() for a in m.group(2).split(",") if a.strip()]
    for m in re.finditer(r"'(\S+)' does not depend on any axioms", text):
        st.theorems[m.group(1).split(".")[-1]] = []
    for n in names:
        short = n.split(".")[-1]
        if short not in st.theorems:
            st.fail(f"theorem {n}: no axiom report")
            continue
        bad = [a for a in st.theorems[short] if a not in ALLOWED_AXIOMS]
        if bad:
            st.fail(f"theorem {n} depends on disallowed axioms {bad}")
    if leanchecker and st.ok:
        mods = sorted({str(f.relative_to(LEAN))[:-5].replace("/", ".") for f in lean_closure(target)})
        with lake_lock(shared=True):
            rc, out, err = _run(["lake", "env", "leanchecker", *mods], cwd=LEAN, timeout=3600)
        if rc != 0:
            st.fail("leanchecker rejected the compiled modules: " + (out + err)[-400:])
    st.build_s = time.time() - t0
    return st


def lean_driver(prop: str, lines: list[str], timeout: int = 1800) -> list[str]:
    """run the executable model on a list of protocol lines; one answer line per input line"""
    if not lines:
        return []
    for attempt in (1, 2):
        with lake_lock(shared=True):
            rc, out, err = _run(
                ["lake", "env", "lean", "--run", "Main.lean", prop], cwd=LEAN, inp="\n".join(lines) + "\n", timeout=timeout
            )
        if rc == 0:
            break
        if attempt == 1:   # the build may have been incomplete (another process was building): build, then once more
            with lake_lock():
                _run(["lake", "build", "GlotaranModel"], cwd=LEAN)
    if rc != 0:
        raise HarnessError(f"lean driver {prop} exited {rc}: {(out[-400:] + err[-800:])}")
    res = out.splitlines()
    if len(res) != len(lines):
        raise HarnessError(f"lean driver {prop}: {len(lines)} lines in, {len(res)} out; stderr={err[-400:]}")
    return res


class HarnessError(Exception):
    """internal error of the machinery: exit 2, never a VIOLATION"""


# --------------------------------------------------------------------------------------
# known findings
# --------------------------------------------------------------------------------------
def load_known():
    known, fixed = {}, []
    f = VERIF / "KNOWN_FINDINGS.txt"
    if f.exists():
        for line in f.read_text().splitlines():
            line = line.strip()
            m = re.match(r"known:\s+property=(\S+)\s+match=(\S+)\s+(.*)", line)
            if m:
                known[(m.group(1), m.group(2))] = m.group(3)
            elif line.startswith("fixed:"):
                fixed.append(line)
    return known, fixed


# --------------------------------------------------------------------------------------
# the Check object
# --------------------------------------------------------------------------------------
class Check:
    def __init__(self, prop: str, tier: str, seed: int):
        self.prop, self.tier, self.seed = prop, tier, seed
        self.rng = random.Random(f"{prop}:{seed}")
        self.t0 = time.time()
        self.counters: dict[str, int] = {}
        self.samples: list = []
        self.evaluations = 0
        self._distinct: set[str] = set()
        self.disagreements: list[dict] = []   # model vs implementation, API-level
        self.diagnostics: list[dict] = []     # internal-only differences (never a verdict)
        self.violations: list[dict] = []      # property fails on the real code (oracle)
        self.unproved: list[str] = []
        self.known, self.fixed = load_known()
        self.known_hits: dict[str, str] = {}
        self.oracle_evals = 0
        self.extra: dict = {}
        self.exhaustive = False

    # -- bookkeeping ------------------------------------------------------------------
    @property
    def quick(self):
        return self.tier == "quick"

    def n(self, quick: int, thorough: int) -> int:
        return quick if self.quick else thorough

    def count(self, name: str, k: int = 1):
        self.counters[name] = self.counters.get(name, 0) + k

    def case(self, sig, nontrivial: bool = True):
        """register one explored case; `sig` is any hashable/str-able description"""
        self.evaluations += 1
        if nontrivial:
            h = hashlib.sha1(repr(sig).encode()).hexdigest()[:16]
            self._distinct.add(h)

    def sample(self, obj, limit: int = 6):
        if len(self.samples) < limit:
            self.samples.append(obj)

    # -- findings ---------------------------------------------------------------------
    def disagree(self, key: str, what: str, payload: dict):
        self.disagreements.append({"key": key, "what": what, "case": payload})

    def diagnostic(self, what: str, payload: dict):
        if len(self.diagnostics) < 20:
            self.diagnostics.append({"what": what, "case": payload})

    def violation(self, key: str, what: str, payload: dict):
        """the property itself fails on the real code for the concrete input in `payload`"""
        if (self.prop, key) in self.known:
            self.known_hits.setdefault(key, self.known[(self.prop, key)])
            return
        for v in self.violations:
            if v["key"] == key:
                v["more"] = v.get("more", 0) + 1
                return
        self.violations.append({"key": key, "what": what, "case": payload})

    # -- finishing --------------------------------------------------------------------
    def write_replay(self, kind: str, body: dict) -> Path:
        d = VERIF / "replays"
        d.mkdir(exist_ok=True)
        blob = json.dumps(body, sort_keys=True, default=str)
        h = hashlib.sha1(blob.encode()).hexdigest()[:10]
        p = d / f"{self.prop}-{kind}-{h}.json"
        body = dict(body)
        body["property"] = self.prop
        body["seed"] = self.seed
        body["tier"] = self.tier
        body["how_to_rerun"] = f"cd /verif && ./check {self.prop} --replay {p.relative_to(VERIF)}"
        p.write_text(json.dumps(body, indent=1, sort_keys=True, default=str))
        return p


def finish(ck: Check, mod, st: ProofStatus) -> int:
    """verdict (DESIGN §6), evidence, exit code"""
    lines = []
    exit_code = 0
    # a broken proof or an unexplained disagreement triggers the widened search on the real code
    unexplained = [d for d in ck.disagreements if not d.get("explained")]
    if (not st.ok or unexplained) and not ck.violations and hasattr(mod, "search"):
        try:
            mod.search(ck)
        except HarnessError:
            raise
        except Exception as e:  # the search itself must not turn into a verdict
            ck.diagnostic("search crashed", {"error": repr(e), "tb": traceback.format_exc()[-1500:]})
    for key, text in sorted(ck.known_hits.items()):
        lines.append(f"KNOWN-FINDING: property={ck.prop} {text}")
    for v in ck.violations:
        p = ck.write_replay("violation", {"kind": "failing-input", "key": v["key"], "what": v["what"], "case": v["case"]})
        lines.append(f"VIOLATION property={ck.prop} replay={p.relative_to(VERIF)}")
        exit_code = 1
    if not ck.violations:
        if not st.ok:
            p = ck.write_replay("proof", {"kind": "proof-obligation-broken", "problems": st.problems,
                                          "note": "no failing input was found on the real code by the widened search"})
            lines.append(f"VIOLATION property={ck.prop} replay={p.relative_to(VERIF)} no-failing-input-found")
            exit_code = 1
        elif unexplained:
            p = ck.write_replay("corr", {"kind": "correspondence-broken", "disagreements": unexplained[:10],
                                         "count": len(unexplained),
                                         "note": "model and implementation differ on these inputs; the property oracle holds on the real code for all of them and for the widened search"})
            lines.append(f"VIOLATION property={ck.prop} replay={p.relative_to(VERIF)} no-failing-input-found")
            exit_code = 1
    write_evidence(ck, mod, st, exit_code)
    for l in lines:
        print(l)
    status = "ok" if exit_code == 0 else "FAILED"
    print(f"[{ck.prop}] {status}: tier={ck.tier} seed={ck.seed} theorems={len(st.theorems)} "
          f"cases={ck.evaluations} distinct={len(ck._distinct)} disagreements={len(ck.disagreements)} "
          f"violations={len(ck.violations)} known={len(ck.known_hits)} wall={time.time()-ck.t0:.1f}s")
    return exit_code


def source_fingerprints(prop: str) -> dict:
    """DESIGN §5.3: hash of the normalised AST (docstrings stripped) of every source file the property is anchored in, and
    which of them differ from the hashes the model was last validated against (fingerprints/<prop>.json, committed).
    Informational only: a changed hash never decides anything."""
    import ast
    out = {"files": {}, "changed_since_last_validation": []}
    try:
        anchors = []
        for line in (VERIF / "properties.jsonl").read_text().splitlines():
            if line.strip():
                d = json.loads(line)
                if d.get("id") == prop:
                    anchors = list(d.get("anchors", {}).get("files", []))
        base_file = VERIF / "fingerprints" / f"{prop}.json"
        base = json.loads(base_file.read_text()) if base_file.exists() else {}
        for rel in anchors:
            f = REPO / rel
            if not f.is_file() or f.suffix != ".py":
                continue
            tree = ast.parse(f.read_text())
            for node in ast.walk(tree):
                if isinstance(node, (ast.FunctionDef, ast.AsyncFunctionDef, ast.ClassDef, ast.Module)) and node.body and \
                        isinstance(node.body[0], ast.Expr) and isinstance(getattr(node.body[0], "value", None), ast.Constant) and \
                        isinstance(node.body[0].value.value, str):
                    node.body = node.body[1:] or [ast.Pass()]
            h = hashlib.sha1(ast.dump(tree, include_attributes=False).encode()).hexdigest()
            out["files"][rel] = h
            if base.get(rel) not in (None, h):
                out["changed_since_last_validation"].append(rel)
        if os.environ.get("VERIF_UPDATE_FINGERPRINTS") == "1" and REPO == Path("/repo"):
            base_file.parent.mkdir(exist_ok=True)
            base_file.write_text(json.dumps(out["files"], indent=1, sort_keys=True) + "\n")
    except Exception as e:  # never a verdict
        out["error"] = repr(e)
    return out


def write_evidence(ck: Check, mod, st: ProofStatus, exit_code: int):
    names = sorted(st.theorems)
    discharged = [n for n in names if all(a in ALLOWED_AXIOMS for a in st.theorems[n])] if st.ok else []
    ev = {
        "property_id": ck.prop,
        "tier": ck.tier,
        "seed": ck.seed,
        "level": "proof",
        "wall_s": round(time.time() - ck.t0, 2),
        "violations": len(ck.violations),
        "assumptions": list(getattr(mod, "ASSUMPTIONS", [])),
        "coverage": {
            "obligations": max(len(names), len(getattr(mod, "REQUIRED_THEOREMS", [])), 1),
            "discharged": len(discharged),
            "theorems": {n: st.theorems[n] for n in names},
            "proof_problems": st.problems,
            "checker_cmd": st.checker_cmd,
            "trusted_base": BASE_TRUSTED + list(getattr(mod, "TRUSTED", [])),
            "lean_build_and_audit_s": round(st.build_s, 2),
            "generated_tables": st.generated,
            "evaluations": ck.evaluations,
            "distinct_nontrivial": len(ck._distinct),
            "rule": getattr(mod, "RULE", ""),
            "samples": ck.samples or ["<no case generated>"],
            "exhaustive": bool(ck.exhaustive),
            "correspondence": {
                "disagreements": len(ck.disagreements),
                "first_disagreements": ck.disagreements[:3],
                "internal_diagnostics": ck.diagnostics[:5],
                "oracle_evaluations": ck.oracle_evals,
                "distribution": dict(sorted(ck.counters.items())),
            },
            "source_fingerprints": source_fingerprints(ck.prop),
            "known_findings_hit": ck.known_hits,
            "fixed_findings_on_file": [f for f in ck.fixed if f"property={ck.prop} " in f],
            **ck.extra,
        },
    }
    d = Path(os.environ.get("VERIF_EVIDENCE_DIR", VERIF / "evidence"))
    d.mkdir(exist_ok=True)
    (d / f"{ck.prop}.json").write_text(json.dumps(ev, indent=1, sort_keys=True, default=str) + "\n")


# --------------------------------------------------------------------------------------
# helpers for property modules
# --------------------------------------------------------------------------------------
def diff_streams(ck: Check, cases: list, impl: list[str], model: list[str], key: str, describe=None):
    """compare canonical output lines; returns indices that differ"""
    bad = []
    for i, (a, b) in enumerate(zip(impl, model)):
        if a != b:
            bad.append(i)
    return bad


def import_glotaran():
    """make sure `glotaran` is imported from VERIF_REPO's working tree"""
    os.environ.setdefault(GUARD, "1")
    if str(REPO) not in sys.path[:1]:
        sys.path.insert(0, str(REPO))
    import glotaran  # noqa

    got = Path(glotaran.__file__).resolve().parent.parent
    if got != REPO:
        raise HarnessError(f"glotaran imported from {got}, expected {REPO}")
    return glotaran


def load_corpus(prop: str) -> list[dict]:
    d = VERIF / "corpus" / prop
    out = []
    if d.is_dir():
        for f in sorted(d.glob("*.json")):
            out.append(json.loads(f.read_text()))
    return out
